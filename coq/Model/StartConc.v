(* K goroutines calling Start on one presented ID: the lock-table protocol of
   Model/Mutex.v composed with the session world of Model/Hist.v (C04/C13,
   round 4 task R2). Executable, no proofs.

   Each goroutine g runs the lock script [OLock k] and carries a request r_g.
   Its Start is NOT one atomic world action here: it is split where the code
   is split by its first access to the session table,

     CLook g    the look-up `sessions.Get(id)` (Sess.start's first cache
                operation, with the step's set-up of Hist.step before it); what
                it found is kept in g's local state
     CRest g    everything after it (validation, rotation / following of
                references / creation, bookkeeping, and Hist.step's epilogue:
                due clean-ups, cookies, observation), computed from g's LOCAL
                look-up result on the shared state AS IT IS THEN

   so a state in which two goroutines are both between their CLook and their
   CRest exists, and a schedule CLook 0; CLook 1; CRest 0; CRest 1 is a
   schedule of the system whenever the lock side permits it. With
   `locked = false` (CLook needs no lock) that schedule draws two IDs when the
   cache is off, and with the cache on hands the second goroutine the session
   without a redirecting cookie (Proofs/StartConcEx.v). With `locked = true` the only coupling between the
   two sides is program order inside ONE goroutine:

     CLook g    is enabled once g's own Lock(id) has returned (g is in GHold of
                the lock key of the cookie its request presents)
     LLeave g   (the deferred Unlock) is enabled once g's own Start has
                returned (g's phase is PDone)

   (positions pinned by Properties/Shape.v: start_lock_precedes_get). Nothing
   in `cstep` looks at another goroutine's phase, except that the clock ticks
   only while no goroutine is between look-up and rest: a request reads the
   clock once (as Hist.step does; a clean-up firing inside a request is C05S's
   subject, Model/StartSteps.v).

   WHERE THE LOCK KEY COMES FROM. In Go the key of the per-ID lock IS the cookie
   value, and a value that is not a 24-character ID takes no lock at all
   (session.go: `if len(id) == 24 { Lock(id); defer Unlock(id); ...`). Here
   `lock_key` maps the cookie a request presents to the key it must hold
   (`key_code`, injective) or to None (no ID: CLook needs no lock), and CLook g
   is guarded by g holding THAT key. The theorems about the locked system are
   about K requests that all carry one ID k as a forged cookie (`plain_on`: so
   the value does not depend on a jar) and run the lock script
   [OLock (key_code k)]; requests presenting different IDs are not serialised
   by this lock and nothing is claimed about them.

   WHAT IS INSIDE THE CRITICAL SECTION HERE THAT IS NOT IN GO. `req_finish` is
   Hist.step's whole epilogue: it fires the clean-ups that are due right after
   Start (`fire_due`) and runs the HANDLER SCRIPT (`rq_script`) inside CRest g,
   and LLeave g waits for PDone. In Go the deferred Unlock fires when Start
   returns, BEFORE the handler runs, and the clean-up goroutine is not under
   this lock either. So for a request with a non-empty handler script this
   system would claim a serialisation the code does not give: every theorem
   about the locked system is therefore stated for PLAIN calls of Start only
   (`plain_on`: empty handler script; part of the invariant's hypothesis PC),
   for which the epilogue is: due clean-ups at the unchanged clock (those this
   very call queued with a grace period of 0), cookies, the observation.

   `start_lookup`/`start_rest` and `req_finish` are copies of Sess.start and of
   the HReq branch of Hist.step, cut in two; Proofs/StartConc.v proves that the
   pieces put together again are Sess.start and Hist.step (by computation, so
   an edit of either breaks the proof). *)
From Sessions Require Import Model.Base Model.Sess Model.Hist Model.Mutex.

(* ---- Start cut at its look-up ---- *)

Definition start_lookup (s : st) (q : request) : st * option (key * nat) * list cookie * bool :=
  match q_cookie q with
  | CKey k =>
    let '(s, r) := cache_get s k in
    match r with
    | None => (s, None, [], true)
    | Some None => (s, None, [CkDelete], false)
    | Some (Some o) => (s, Some (k, o), [], false)
    end
  | _ => (s, None, [], false)
  end.

(* c: the configuration read on entry *)
Definition start_rest (c : cfg) (s : st) (q : request) (found : option (key * nat)) (cks : list cookie)
    (failed : bool) : st * result (option nat) * list cookie :=
  if failed then (s, Err EGet, [])
  else
    match found with
    | Some (k, o) =>
      match hget s o with
      | None => (s, Panic EGet, [])
      | Some ob =>
        let r := o_rec ob in
        let valid := negb (c_expiry c <=? since (r_access r) (now s))%Z
                     && ip_ok (c_acceptip c) (r_ip r) (q_addr q)
                     && ua_ok (c_acceptua c) (r_ua r) (q_ua q) in
        if negb valid then
          let '(s, res, dck) := destroy s o (had_cookie q) in
          match res with
          | Ok _ =>
            if q_create q then
              let '(s, res, nck) := create_session s q in (s, res, cks ++ dck ++ nck)
            else (s, Ok None, cks ++ dck)
          | Err e => (s, Err e, cks)
          | Panic e => (s, Panic e, cks)
          end
        else
          let age := since (r_created r) (now s) in
          let isref := match r_ref r with Some _ => true | None => false end in
          let '(s, step, cks) :=
            if negb isref && (c_idexpiry c <=? age)%Z then
              let '(s, res, rck) := regenerate s o in (s, res, cks ++ rck)
            else if (sat_add (c_idexpiry c) (c_grace c) <=? age)%Z then
              let '(s, ok) := cache_delete s k in
              (s, if ok then Err EExpiredID else Err EDeleteExpired, cks)
            else (s, Ok tt, cks) in
          match step with
          | Err e => (s, Err e, cks)
          | Panic e => (s, Panic e, cks)
          | Ok _ =>
            let '(s, fr) := if isref then follow (S (N.to_nat (supply s))) s o k else (s, Ok (o, k)) in
            match fr with
            | Err e => (s, Err e, cks)
            | Panic e => (s, Panic e, cks)
            | Ok (o', lk) =>
              let cks := if isref then cks ++ [CkLive lk] else cks in
              let s := hupd s o' (fun r => set_ua (set_ip (set_access r (now s)) (q_addr q)) (q_ua q)) in
              (s, Ok (Some o'), cks)
            end
          end
      end
    | None =>
      if q_create q then
        let '(s, res, nck) := create_session s q in (s, res, cks ++ nck)
      else (s, Ok None, cks)
    end.

(* ---- the HReq branch of Hist.step around the call of Start ---- *)

Definition rq_request (jar : cval) (r : reqstep) : request :=
  mkReq (match rq_present r with PJar => jar | PForge c => c end) (rq_create r) (rq_addr r) (rq_ua r).

Definition rq_prepare (s0 : st) (r : reqstep) : st := set_tb (set_plan s0 (rq_plan r)) (rq_tb r).

(* s0: the state on entry with the event log emptied; jar: the client's jar on
   entry; jars: all jars when the step ends *)
Definition req_finish (s0 : st) (jar : cval) (jars : list (N * cval)) (r : reqstep) (q : request)
    (x : st * result (option nat) * list cookie) : world * obs :=
  let '(s2, res, cks) := x in
  let s2 := fire_due s2 in
  let '(s3, rc, st0, sr, fin, cks) :=
    match res with
    | Ok (Some o) =>
      let v := handle_view s2 o in
      let '(s3, sr, cks') := run_script s2 o (had_cookie q) (rq_script r) in
      (s3, RSess, v, sr, handle_view s3 o, cks ++ cks')
    | Ok None => (s2, RNone, None, [], None, cks)
    | Err e => (s2, RErr e, None, [], None, cks)
    | Panic e => (s2, RPanic e, None, [], None, cks)
    end in
  let s3 := set_tb (set_plan s3 []) [] in
  match rq_crash r with
  | Some n =>
    let pre := ev_prefix (rev (evs s3)) n in
    let '(stor, gr) := fold_left apply_ev pre (store s0, graves s0) in
    let s4 := restart (set_supply (set_graves (set_store (set_evs s3 (rev pre)) stor) gr)
                                  (supply s0 + count_draws pre)%N) in
    (mkWorld s4 jars, mk_obs RCrashed None [] [] None s4 jar)
  | None =>
    let jar' := match rq_present r with
                | PJar => apply_cookies jar cks
                | PForge _ => jar
                end in
    (mkWorld s3 (jar_set jars (rq_client r) jar'), mk_obs rc st0 cks sr fin s3 jar')
  end.

(* ---- the composed system ---- *)

Inductive phase :=
| PIdle                                                            (* Start's body not begun *)
| PLooked (s0 : st) (jar : cval)
          (found : option (key * nat)) (cks : list cookie) (failed : bool)  (* between look-up and rest *)
| PDone (o : obs).                                                 (* Start returned; what it reported *)

(* the world actions completed so far *)
Inductive act := ATick (d : Z) | AReq (g : nat).

Record cstate := mkC {
  c_lock : state;                 (* the lock table, its manager, the K goroutines' lock-side control *)
  c_st : st;                      (* the shared session state *)
  c_jars : list (N * cval);
  c_ph : list phase;              (* the K goroutines' session-side control *)
  c_acts : list act }.            (* ghost: completed world actions, NEWEST FIRST *)

Inductive clabel :=
| CL (l : label)                  (* an action of the lock protocol *)
| CLook (g : nat)
| CRest (g : nat)
| CTick (d : Z).                  (* the clock advances by d *)

Definition is_looked (p : phase) : bool := match p with PLooked _ _ _ _ _ => true | _ => false end.
Definition is_done (p : phase) : bool := match p with PDone _ => true | _ => false end.

(* the lock key of a presented cookie: Go locks on the cookie value itself, and
   only when it has the length of an ID *)
Definition key_code (k : key) : nat :=
  match k with KGen n => N.to_nat (2 * n) | KJunk n => N.to_nat (2 * n + 1) end.
Definition lock_key (c : cval) : option nat :=
  match c with CKey k => Some (key_code k) | _ => None end.

(* a plain call of Start carrying the ID whose lock key is kk as a forged
   cookie: empty handler script *)
Definition plain_on (kk : nat) (r : reqstep) : Prop :=
  rq_script r = [] /\ exists k0, rq_present r = PForge (CKey k0) /\ key_code k0 = kk.

(* g's Lock(k) has returned and its Unlock has not begun *)
Definition holds_key (st : state) (g k : nat) : bool :=
  match nth_error (gs st) g with
  | Some (mkG (GHold k') _) => Nat.eqb k' k
  | _ => false
  end.

Section System.
  Variable locked : bool.          (* false: Start without the per-ID lock *)
  Variable k : nat.                (* the lock key the K goroutines ask for (cinit only) *)
  Variable reqs : list reqstep.    (* goroutine g's request *)

  Definition cstep (cs : cstate) (lab : clabel) : option cstate :=
    match lab with
    | CL l =>
      let returned :=
        match l with
        | LLeave g => match nth_error (c_ph cs) g with Some (PDone _) => true | _ => false end
        | _ => true
        end in
      if returned then
        match step (c_lock cs) l with
        | Some st' => Some (mkC st' (c_st cs) (c_jars cs) (c_ph cs) (c_acts cs))
        | None => None
        end
      else None
    | CLook g =>
      match nth_error (c_ph cs) g, nth_error reqs g with
      | Some PIdle, Some r =>
        let s0 := set_evs (c_st cs) [] in
        let jar := jar_of (c_jars cs) (rq_client r) in
        let holds := match lock_key (q_cookie (rq_request jar r)) with
                     | Some kk => holds_key (c_lock cs) g kk
                     | None => true
                     end in
        if negb locked || holds then
          let '(s1, found, cks, failed) := start_lookup (rq_prepare s0 r) (rq_request jar r) in
          Some (mkC (c_lock cs) s1 (c_jars cs) (upd g (PLooked s0 jar found cks failed) (c_ph cs)) (c_acts cs))
        else None
      | _, _ => None
      end
    | CRest g =>
      match nth_error (c_ph cs) g, nth_error reqs g with
      | Some (PLooked s0 jar found cks failed), Some r =>
        let q := rq_request jar r in
        let '(w', o) := req_finish s0 jar (c_jars cs) r q (start_rest (conf s0) (c_st cs) q found cks failed) in
        Some (mkC (c_lock cs) (w_st w') (w_jars w') (upd g (PDone o) (c_ph cs)) (AReq g :: c_acts cs))
      | _, _ => None
      end
    | CTick d =>
      if existsb is_looked (c_ph cs) then None
      else
        let w' := fst (Hist.step (mkWorld (c_st cs) (c_jars cs)) (HWait d)) in
        Some (mkC (c_lock cs) (w_st w') (w_jars w') (c_ph cs) (ATick d :: c_acts cs))
    end.

  Fixpoint crun (cs : cstate) (ls : list clabel) : option cstate :=
    match ls with
    | [] => Some cs
    | l :: r => match cstep cs l with Some cs' => crun cs' r | None => None end
    end.

  (* the provisos of C13/C14 on the lock side of a run *)
  Definition cadm (cs : cstate) (lab : clabel) : Prop :=
    match lab with CL l => adm (c_lock cs) l | _ => True end.

  Fixpoint cadm_run (cs : cstate) (ls : list clabel) : Prop :=
    match ls with
    | [] => True
    | l :: r => cadm cs l /\ match cstep cs l with Some cs' => cadm_run cs' r | None => True end
    end.

  Definition cadmb (cs : cstate) (lab : clabel) : bool :=
    match lab with CL l => admb (c_lock cs) l | _ => true end.

  Fixpoint cadmb_run (cs : cstate) (ls : list clabel) : bool :=
    match ls with
    | [] => true
    | l :: r => cadmb cs l && match cstep cs l with Some cs' => cadmb_run cs' r | None => false end
    end.

  (* K goroutines, nothing begun; the lock table empty *)
  Definition cinit (w : world) (purges : nat) : cstate :=
    mkC (init (map (fun _ => [OLock k]) reqs) purges) (w_st w) (w_jars w) (map (fun _ => PIdle) reqs) [].

  (* ---- the serial reference: Hist.step over the completed world actions, in
     the order in which they were completed (the list is newest first);
     returns the world and what each request observed, newest first ---- *)
  Fixpoint serial (w0 : world) (acts : list act) : world * list (nat * obs) :=
    match acts with
    | [] => (w0, [])
    | a :: t =>
      let '(w, res) := serial w0 t in
      match a with
      | ATick d => (fst (Hist.step w (HWait d)), res)
      | AReq g =>
        match nth_error reqs g with
        | Some r => (fst (Hist.step w (HReq r)), (g, snd (Hist.step w (HReq r))) :: res)
        | None => (w, res)
        end
      end
    end.

  (* every goroutine's Start has returned and its Unlock has been taken *)
  Definition all_done (cs : cstate) : bool := finished (c_lock cs) && forallb is_done (c_ph cs).

  (* termination measure of the composed system (ticks excluded) *)
  Definition p_weight (p : phase) : nat := match p with PIdle => 2 | PLooked _ _ _ _ _ => 1 | PDone _ => 0 end.
  Definition cmeasure (cs : cstate) : nat := measure (c_lock cs) + list_sum (map p_weight (c_ph cs)).
End System.

(* what a label does to the ghost log *)
Definition act_of (lab : clabel) : list act :=
  match lab with CRest g => [AReq g] | CTick d => [ATick d] | _ => [] end.
Definition acts_of (ls : list clabel) : list act := flat_map act_of ls.

(* the clock advance recorded in a log, and its shape *)
Fixpoint ticks (acts : list act) : Z :=
  match acts with
  | [] => 0
  | ATick d :: t => d + ticks t
  | AReq _ :: t => ticks t
  end.
Definition tick_nonneg (a : act) : Prop := match a with ATick d => (0 <= d)%Z | AReq _ => True end.
(* newest-first log: the oldest entry is a request (no tick before the first world action) *)
Fixpoint request_first (acts : list act) : Prop :=
  match acts with
  | [] => True
  | [a] => match a with AReq _ => True | ATick _ => False end
  | _ :: t => request_first t
  end.
Definition goroutines (acts : list act) : list nat :=
  flat_map (fun a => match a with AReq g => [g] | ATick _ => [] end) acts.
