(* The lock-table protocol of mutexes.go as a labelled transition system, for an
   arbitrary number of goroutines and keys (C13, C14). Executable, no proofs.

   One transition per shared-memory or channel action of the code:

     LStart g      goroutine g begins its next script operation and blocks in
                   `m.acquire <- key` (Lock) or `m.release <- key` (an Unlock of
                   a key it does not hold); no shared action, local step
     LAcquire g    rendezvous on m.acquire (manager: `case key := <-m.acquire`)
     LMgrGet ov    the manager's `item := m.getItem(key)` (critical section of
                   itemsMutex) together with the manager-private tests and
                   counter updates that follow it up to the next channel action
     LGet g ov     the locker's own `m.getItem(key)` in Lock (critical section
                   of itemsMutex)
     LGrant g      rendezvous on the per-key channel (`item.release <- struct{}{}`
                   with `<-item.release` of g), followed by the manager-private
                   `item.locks++` of the acquire case
     LLeave g      g ends its critical section and blocks in `m.release <- key`
     LRelease g    rendezvous on m.release
     LPurgeReq     rendezvous on m.purge with one of the pending requesters
                   (the ticker goroutine or a `go func(){ m.purge <- ... }()`)
     LPurge dels   the purge loop (one critical section of itemsMutex)

   `ov` is the outcome of `len(m.items) > mutexMaxCacheSize` in getItem when it
   creates an entry; `dels` lists the entries the purge loop visits with the
   outcome of `time.Since(item.lastAccess) > mutexStaleMutexes` and of
   `len(m.items) > mutexMaxCacheSize` for each: chosen by the environment. The
   counters are touched by the manager only (mutexItem.locks), so folding them
   into the manager's preceding synchronising action loses no interleaving. *)
From Sessions Require Import Model.Base.

Inductive op := OLock (k : nat) | OUnlock (k : nat).
(* OLock k  = m.Lock(k); critical section; m.Unlock(k)
   OUnlock k = m.Unlock(k) of a key the goroutine does not hold (spurious) *)

Inductive gctl :=
| GIdle                       (* between script operations *)
| GSendAcq (k : nat)          (* Lock: blocked in m.acquire <- key *)
| GGetItem (k : nat)          (* Lock: about to call m.getItem(key) *)
| GWait (c k : nat)           (* Lock: blocked in <-item.release, item's channel is c *)
| GHold (k : nat)             (* Lock returned *)
| GSendRel (k : nat)          (* Unlock by the holder: blocked in m.release <- key *)
| GSpur (k : nat).            (* Unlock of a key not held: blocked in m.release <- key *)

Record gor := mkG { gc : gctl; gscript : list op }.

Inductive mctl :=
| MIdle                       (* in select *)
| MAcq (k : nat)              (* acquire case, before getItem *)
| MAcqSend (c k : nat)        (* acquire case, blocked in item.release <- (locks was 0) *)
| MRel (k : nat)              (* release case, before getItem *)
| MRelSend (c k : nat)        (* release case, blocked in item.release <- *)
| MPurge.                     (* purge case, before the loop *)

Record entry := mkE { locks : nat; ch : nat }.
Definition table := list (nat * entry).

Record state := mkS {
  gs : list gor;       (* goroutines *)
  tbl : table;         (* m.items *)
  mgr : mctl;          (* the manager goroutine *)
  pend : nat;          (* goroutines blocked in m.purge <- struct{}{} (now or later) *)
  nextc : nat          (* supply of channel identities *)
}.

Inductive label :=
| LStart (g : nat) | LAcquire (g : nat) | LMgrGet (ov : bool) | LGet (g : nat) (ov : bool)
| LGrant (g : nat) | LLeave (g : nat) | LRelease (g : nat) | LPurgeReq
| LPurge (dels : list (nat * bool * bool)).

(* ---- finite maps and list update ---- *)

Fixpoint tget (t : table) (k : nat) : option entry :=
  match t with
  | [] => None
  | (k', e) :: r => if Nat.eqb k' k then Some e else tget r k
  end.

Fixpoint tdel (k : nat) (t : table) : table :=
  match t with
  | [] => []
  | (k', e) :: r => if Nat.eqb k' k then tdel k r else (k', e) :: tdel k r
  end.

Definition tset (k : nat) (e : entry) (t : table) : table := (k, e) :: tdel k t.

Definition lkt (t : table) (k : nat) : nat :=
  match tget t k with Some e => locks e | None => 0 end.

Fixpoint upd {A} (i : nat) (x : A) (l : list A) : list A :=
  match l, i with
  | [], _ => []
  | _ :: r, O => x :: r
  | y :: r, S j => y :: upd j x r
  end.

Definition set_g (st : state) (g : nat) (x : gor) : state :=
  mkS (upd g x (gs st)) (tbl st) (mgr st) (pend st) (nextc st).
Definition set_mgr (st : state) (m : mctl) : state :=
  mkS (gs st) (tbl st) m (pend st) (nextc st).
Definition set_tbl (st : state) (t : table) : state :=
  mkS (gs st) t (mgr st) (pend st) (nextc st).

(* m.getItem(key): find the entry or create it with a fresh channel, requesting
   a purge when the table is then too big. *)
Definition get_item (k : nat) (ov : bool) (st : state) : state * entry :=
  match tget (tbl st) k with
  | Some e => (st, e)
  | None =>
      let e := mkE 0 (nextc st) in
      (mkS (gs st) (tset k e (tbl st)) (mgr st) (pend st + (if ov then 1 else 0)) (S (nextc st)), e)
  end.

(* item.locks++ / item.locks-- through the manager's item pointer (the item
   whose channel is c): it changes the table only while that item is still
   the table's entry for k. *)
Definition bump (f : nat -> nat) (k c : nat) (st : state) : state :=
  match tget (tbl st) k with
  | Some e => if Nat.eqb (ch e) c then set_tbl st (tset k (mkE (f (locks e)) (ch e)) (tbl st)) else st
  | None => st
  end.

(* the purge loop: `stale || oversize && item.locks == 0` decides per entry *)
Definition purge_one (t : table) (d : nat * bool * bool) : table :=
  match d with
  | (k, stale, over) =>
      match tget t k with
      | Some e => if stale || (over && Nat.eqb (locks e) 0) then tdel k t else t
      | None => t
      end
  end.
Definition purge_tbl (dels : list (nat * bool * bool)) (t : table) : table :=
  fold_left purge_one dels t.

Definition step (st : state) (l : label) : option state :=
  match l with
  | LStart g =>
      match nth_error (gs st) g with
      | Some (mkG GIdle (OLock k :: r)) => Some (set_g st g (mkG (GSendAcq k) r))
      | Some (mkG GIdle (OUnlock k :: r)) => Some (set_g st g (mkG (GSpur k) r))
      | _ => None
      end
  | LAcquire g =>
      match mgr st, nth_error (gs st) g with
      | MIdle, Some (mkG (GSendAcq k) r) => Some (set_mgr (set_g st g (mkG (GGetItem k) r)) (MAcq k))
      | _, _ => None
      end
  | LMgrGet ov =>
      match mgr st with
      | MAcq k =>
          let (st1, e) := get_item k ov st in
          if Nat.eqb (locks e) 0 then Some (set_mgr st1 (MAcqSend (ch e) k))
          else Some (set_mgr (bump S k (ch e) st1) MIdle)
      | MRel k =>
          let (st1, e) := get_item k ov st in
          if Nat.ltb 0 (locks e) then
            let st2 := bump pred k (ch e) st1 in
            if Nat.ltb 0 (pred (locks e)) then Some (set_mgr st2 (MRelSend (ch e) k))
            else Some (set_mgr st2 MIdle)
          else Some (set_mgr st1 MIdle)
      | _ => None
      end
  | LGet g ov =>
      match nth_error (gs st) g with
      | Some (mkG (GGetItem k) r) =>
          let (st1, e) := get_item k ov st in Some (set_g st1 g (mkG (GWait (ch e) k) r))
      | _ => None
      end
  | LGrant g =>
      match mgr st, nth_error (gs st) g with
      | MAcqSend c k, Some (mkG (GWait c' k') r) =>
          if Nat.eqb c c' then Some (set_mgr (bump S k c (set_g st g (mkG (GHold k') r))) MIdle) else None
      | MRelSend c k, Some (mkG (GWait c' k') r) =>
          if Nat.eqb c c' then Some (set_mgr (set_g st g (mkG (GHold k') r)) MIdle) else None
      | _, _ => None
      end
  | LLeave g =>
      match nth_error (gs st) g with
      | Some (mkG (GHold k) r) => Some (set_g st g (mkG (GSendRel k) r))
      | _ => None
      end
  | LRelease g =>
      match mgr st, nth_error (gs st) g with
      | MIdle, Some (mkG (GSendRel k) r) => Some (set_mgr (set_g st g (mkG GIdle r)) (MRel k))
      | MIdle, Some (mkG (GSpur k) r) => Some (set_mgr (set_g st g (mkG GIdle r)) (MRel k))
      | _, _ => None
      end
  | LPurgeReq =>
      match mgr st, pend st with
      | MIdle, S p => Some (mkS (gs st) (tbl st) MPurge p (nextc st))
      | _, _ => None
      end
  | LPurge dels =>
      match mgr st with
      | MPurge => Some (mkS (gs st) (purge_tbl dels (tbl st)) MIdle (pend st) (nextc st))
      | _ => None
      end
  end.

(* ---- the standing assumptions of C13/C14 as a predicate on steps ----
   (1) a stale entry has locks = 0 (holds are shorter than the staleness
       timeout); (2) an Unlock of a key the caller does not hold is processed
       only when that key is not held (locks = 0). *)
Definition lk (st : state) (k : nat) : nat := lkt (tbl st) k.

Definition adm (st : state) (l : label) : Prop :=
  match l with
  | LPurge dels => forall k s o, In (k, s, o) dels -> s = true -> lk st k = 0
  | LRelease g => forall k r, nth_error (gs st) g = Some (mkG (GSpur k) r) -> lk st k = 0
  | _ => True
  end.

Definition admb (st : state) (l : label) : bool :=
  match l with
  | LPurge dels => forallb (fun d => match d with (k, s, _) => negb s || Nat.eqb (lk st k) 0 end) dels
  | LRelease g =>
      match nth_error (gs st) g with
      | Some (mkG (GSpur k) _) => Nat.eqb (lk st k) 0
      | _ => true
      end
  | _ => true
  end.

Definition init (scripts : list (list op)) (purges : nat) : state :=
  mkS (map (mkG GIdle) scripts) [] MIdle purges 0.

(* runs, as executable folds *)
Fixpoint run (st : state) (ls : list label) : option state :=
  match ls with
  | [] => Some st
  | l :: r => match step st l with Some st' => run st' r | None => None end
  end.

(* ---- the quantities the properties speak about ---- *)

Definition cnt {A} (p : A -> bool) (l : list A) : nat := length (filter p l).

(* acquire handed to the manager, grant not yet received *)
Definition inA (k : nat) (g : gor) : bool :=
  match gc g with GGetItem k' | GWait _ k' => Nat.eqb k' k | _ => false end.
(* Lock returned, manager has not yet taken the Unlock *)
Definition inH (k : nat) (g : gor) : bool :=
  match gc g with GHold k' | GSendRel k' => Nat.eqb k' k | _ => false end.

Definition cA (st : state) (k : nat) : nat := cnt (inA k) (gs st).
Definition cH (st : state) (k : nat) : nat := cnt (inH k) (gs st).

Definition gdone (g : gor) : bool :=
  match gc g, gscript g with GIdle, [] => true | _, _ => false end.
Definition finished (st : state) : bool := forallb gdone (gs st).

(* termination measure (C14_terminates) *)
Definition op_weight (o : op) : nat := match o with OLock _ => 16 | OUnlock _ => 6 end.
Definition gc_weight (c : gctl) : nat :=
  match c with
  | GIdle => 0 | GSendAcq _ => 15 | GGetItem _ => 10 | GWait _ _ => 7
  | GHold _ => 6 | GSendRel _ => 5 | GSpur _ => 5
  end.
Definition g_weight (g : gor) : nat := gc_weight (gc g) + list_sum (map op_weight (gscript g)).
Definition m_weight (m : mctl) : nat :=
  match m with
  | MIdle => 0 | MAcq _ => 4 | MAcqSend _ _ => 1 | MRel _ => 4 | MRelSend _ _ => 1 | MPurge => 1
  end.
Definition measure (st : state) : nat :=
  list_sum (map g_weight (gs st)) + m_weight (mgr st) + 2 * pend st.

(* admissibility of a whole run, spelled out (the hypotheses of C13/C14) *)
Fixpoint adm_run (st : state) (ls : list label) : Prop :=
  match ls with
  | [] => True
  | l :: r => adm st l /\ match step st l with Some st' => adm_run st' r | None => True end
  end.

(* ================= correspondence with the real lock manager =================

   The harness drives the real `mutexes` value inside a synctest bubble with
   commands, lets it run to quiescence (`synctest.Wait`: every goroutine is
   durably blocked) and records the lock table (`locks` per key), who holds
   and who waits. The model replays the same commands as a run of `step`,
   choosing at each hand-over the goroutine that was observed to hold the key
   afterwards, deleting in a purge exactly the entries observed to disappear,
   and must arrive at the same table, holders and waiters. Every step taken
   must be enabled and admissible. *)

Inductive cmd :=
| CStart (g : nat)     (* goroutine g is told to perform its next script operation *)
| CLeave (g : nat).    (* holder g is told to Unlock *)

Record round := mkRound {
  r_cmds : list cmd;              (* in an order consistent with the observed outcome *)
  r_purges : nat;                 (* purge requests served in this round (ticker, explicit) *)
  r_exact : bool;                 (* at most one command: purge outcome is checked exactly *)
  r_stale : list nat;             (* keys not accessed for longer than the timeout, at the end *)
  r_table : list (nat * nat);     (* observed: key, locks *)
  r_holders : list (nat * nat);   (* observed: goroutine, key; by goroutine *)
  r_waiters : list (nat * nat) }. (* observed: goroutine, key; by goroutine *)

Record mcase := mkCase {
  c_max : N;                      (* mutexMaxCacheSize *)
  c_scripts : list (list op);
  c_rounds : list round }.

Definition memb (k : nat) (l : list nat) : bool := existsb (Nat.eqb k) l.
Definition pair_eqb (a b : nat * nat) : bool := Nat.eqb (fst a) (fst b) && Nat.eqb (snd a) (snd b).
Fixpoint pairs_eqb (a b : list (nat * nat)) : bool :=
  match a, b with
  | [], [] => true
  | x :: a', y :: b' => pair_eqb x y && pairs_eqb a' b'
  | _, _ => false
  end.

(* first index (from i) of a goroutine satisfying p *)
Fixpoint find_g (p : gor -> bool) (l : list gor) (i : nat) : option nat :=
  match l with
  | [] => None
  | x :: r => if p x then Some i else find_g p r (S i)
  end.

Definition oversize (mx : N) (st : state) (k : nat) : bool :=
  match tget (tbl st) k with Some _ => false | None => N.ltb mx (N.of_nat (S (length (tbl st)))) end.

(* the next internal action of a settling system, or None when quiescent *)
Definition next_label (mx : N) (holders : list (nat * nat)) (st : state) : option label :=
  let getter k := find_g (fun x => match gc x with GGetItem k' => Nat.eqb k' k | _ => false end) (gs st) 0 in
  let taker c k :=
    match getter k with
    | Some g => Some (LGet g (oversize mx st k))
    | None =>
        (* the goroutine blocked on c that is observed to hold k afterwards *)
        let fix go (l : list gor) (i : nat) : option label :=
          match l with
          | [] => None
          | x :: r =>
              match gc x with
              | GWait c' k' =>
                  if Nat.eqb c' c && existsb (pair_eqb (i, k')) holders then Some (LGrant i) else go r (S i)
              | _ => go r (S i)
              end
          end in
        go (gs st) 0
    end in
  match mgr st with
  | MAcq k | MRel k => Some (LMgrGet (oversize mx st k))
  | MAcqSend c k | MRelSend c k => taker c k
  | MPurge => None
  | MIdle =>
      match find_g (fun x => match gc x with GGetItem _ => true | _ => false end) (gs st) 0 with
      | Some g =>
          match nth_error (gs st) g with
          | Some (mkG (GGetItem k) _) => Some (LGet g (oversize mx st k))
          | _ => None
          end
      | None =>
          match find_g (fun x => match gc x with GSendAcq _ => true | _ => false end) (gs st) 0 with
          | Some g => Some (LAcquire g)
          | None =>
              match find_g (fun x => match gc x with GSendRel _ | GSpur _ => true | _ => false end) (gs st) 0 with
              | Some g => Some (LRelease g)
              | None => None
              end
          end
      end
  end.

(* result codes: 0 = agreement *)
Definition E_STUCK : N := 1.       (* a step the replay needs is not enabled *)
Definition E_INADM : N := 2.       (* the run leaves the admissible runs (generator error) *)
Definition E_TABLE : N := 3.       (* lock table differs *)
Definition E_HOLD : N := 4.        (* holders differ *)
Definition E_WAIT : N := 5.        (* waiters differ *)
Definition E_PURGE : N := 6.       (* purge removed / kept entries against the code's rule *)
Definition E_BUSY : N := 7.        (* model not quiescent where the real system was *)
Definition E_OBS : N := 8.         (* the observation itself breaks the quiescent invariant *)
Definition E_UNFIN : N := 9.       (* scripts not finished at the end *)

Definition do_step (st : state) (l : label) : state + N :=
  if admb st l then match step st l with Some st' => inl st' | None => inr E_STUCK end
  else inr E_INADM.

Fixpoint settle (fuel : nat) (mx : N) (holders : list (nat * nat)) (st : state) : state + N :=
  match fuel with
  | O => inr E_BUSY
  | S f =>
      match next_label mx holders st with
      | None => inl st
      | Some l => match do_step st l with inl st' => settle f mx holders st' | inr e => inr e end
      end
  end.

Definition settle_fuel (st : state) : nat := measure st + 1.

Fixpoint do_cmds (mx : N) (holders : list (nat * nat)) (cs : list cmd) (st : state) : state + N :=
  match cs with
  | [] => settle (settle_fuel st) mx holders st
  | c :: r =>
      let l := match c with CStart g => LStart g | CLeave g => LLeave g end in
      match do_step st l with
      | inl st1 =>
          match settle (settle_fuel st1) mx holders st1 with
          | inl st2 => do_cmds mx holders r st2
          | inr e => inr e
          end
      | inr e => inr e
      end
  end.

Definition obs_keys (r : round) : list nat := map fst (r_table r).

(* the code's purge rule, checked on what was observed to disappear *)
Definition purge_rule_ok (mx : N) (r : round) (t : table) : bool :=
  let gone k := negb (memb k (obs_keys r)) in
  let stale k := memb k (r_stale r) in
  (* a stale entry never survives a purge *)
  forallb (fun p => negb (stale (fst p)) || gone (fst p)) t &&
  (* an unlocked fresh entry survives only once the table is small enough *)
  (negb (existsb (fun p => negb (gone (fst p)) && negb (stale (fst p)) && Nat.eqb (locks (snd p)) 0) t)
   || N.leb (N.of_nat (length (r_table r))) mx) &&
  (* a fresh entry is removed only from a table that is too big *)
  (negb (existsb (fun p => gone (fst p) && negb (stale (fst p))) t) || N.ltb mx (N.of_nat (length t))).

(* serve pending purge requests down to the reserve *)
Fixpoint do_purges (fuel : nat) (mx : N) (reserve : nat) (r : round) (st : state) : state + N :=
  match fuel with
  | O => inr E_BUSY
  | S f =>
      if Nat.leb (pend st) reserve then inl st
      else
        let t := tbl st in
        let dels := map (fun p => (fst p, memb (fst p) (r_stale r), true))
                        (filter (fun p => negb (memb (fst p) (obs_keys r))) t) in
        match do_step st LPurgeReq with
        | inl st1 =>
            match do_step st1 (LPurge dels) with
            | inl st2 =>
                if negb (r_exact r) || purge_rule_ok mx r t then do_purges f mx reserve r st2 else inr E_PURGE
            | inr e => inr e
            end
        | inr e => inr e
        end
  end.

Definition model_holders (st : state) : list (nat * nat) :=
  let fix go (l : list gor) (i : nat) :=
    match l with
    | [] => []
    | x :: r => match gc x with GHold k => (i, k) :: go r (S i) | _ => go r (S i) end
    end in go (gs st) 0.
Definition model_waiters (st : state) : list (nat * nat) :=
  let fix go (l : list gor) (i : nat) :=
    match l with
    | [] => []
    | x :: r => match gc x with GWait _ k => (i, k) :: go r (S i) | _ => go r (S i) end
    end in go (gs st) 0.
Definition quiet (st : state) : bool :=
  match mgr st with MIdle => true | _ => false end &&
  forallb (fun x => match gc x with GIdle | GWait _ _ | GHold _ => true | _ => false end) (gs st).

Definition table_agrees (st : state) (obs : list (nat * nat)) : bool :=
  Nat.eqb (length (tbl st)) (length obs) &&
  forallb (fun p => match tget (tbl st) (fst p) with Some e => Nat.eqb (locks e) (snd p) | None => false end) obs.

(* the quiescent form of the invariant, evaluated on the real observation:
   locks k = holders of k + waiters on k, at most one holder, a waiter implies
   a holder *)
Definition obs_inv_ok (r : round) : bool :=
  let nh k := length (filter (fun p => Nat.eqb (snd p) k) (r_holders r)) in
  let nw k := length (filter (fun p => Nat.eqb (snd p) k) (r_waiters r)) in
  let lk k := match find (fun p => Nat.eqb (fst p) k) (r_table r) with Some p => snd p | None => 0 end in
  let keys := obs_keys r ++ map snd (r_holders r) ++ map snd (r_waiters r) in
  forallb (fun k => Nat.eqb (lk k) (nh k + nw k) && Nat.leb (nh k) 1 && (Nat.eqb (nw k) 0 || Nat.eqb (nh k) 1)) keys.

Definition do_round (mx : N) (reserve : nat) (r : round) (st : state) : state + N :=
  if negb (obs_inv_ok r) then inr E_OBS else
  match do_cmds mx (r_holders r) (r_cmds r) st with
  | inr e => inr e
  | inl st1 =>
      match do_purges (S (pend st1)) mx reserve r st1 with
      | inr e => inr e
      | inl st2 =>
          if negb (quiet st2) then inr E_BUSY
          else if negb (table_agrees st2 (r_table r)) then inr E_TABLE
          else if negb (pairs_eqb (model_holders st2) (r_holders r)) then inr E_HOLD
          else if negb (pairs_eqb (model_waiters st2) (r_waiters r)) then inr E_WAIT
          else inl st2
      end
  end.

(* 0, or 16 * (round index + 1) + error code *)
Fixpoint do_rounds (mx : N) (reserve : nat) (rs : list round) (i : N) (st : state) : N :=
  match rs with
  | [] => if finished st then 0%N else (16 * (i + 1) + E_UNFIN)%N
  | r :: rest =>
      let reserve' := reserve - r_purges r in
      match do_round mx reserve' r st with
      | inl st' => do_rounds mx reserve' rest (i + 1)%N st'
      | inr e => (16 * (i + 1) + e)%N
      end
  end.

Definition replay_case (c : mcase) : N :=
  let total := list_sum (map r_purges (c_rounds c)) in
  do_rounds (c_max c) total (c_rounds c) 0%N (init (c_scripts c) total).

Definition mutex_codes (cs : list mcase) : list N := map replay_case cs.
