(* User-wide calls made from inside a handler (audit task B1 / round 4 R1, C08).
   In Model/Hist.v LogOut(userID) and RefreshUser are hops between requests. Here
   they are composed, at state level, with a request: Start; a script prefix on
   the handle Start returned; the user-wide call (the handler still holds its
   *Session); a script suffix on the same handle; the after-request bookkeeping.
   Nothing of Model/Sess.v or Model/Hist.v is changed: the composite is built
   from Sess.start, Hist.run_script, Sess.logout_user / refresh_user and
   Sess.fire_due (the model fires due clean-ups after every call). Executable,
   no proofs. *)
From Sessions Require Import Model.Base Model.Sess Model.Hist Model.Corr.

Inductive ucall := ULogout (u : N) | URefresh (u : user).

Definition user_call (s : st) (c : ucall) : st * result unit :=
  match c with
  | ULogout u => logout_user s u
  | URefresh u => refresh_user s u
  end.

(* did the script run to its end (no Destroy, no panic)? *)
Definition hu_stops (op : sop) (r : sres) : bool :=
  match op, r with SDestroy, _ => true | _, SPanic _ => true | _, _ => false end.

Fixpoint hu_ran (ops : list sop) (rs : list sres) : bool :=
  match ops, rs with
  | [], [] => true
  | op :: t, r :: rt => negb (hu_stops op r) && hu_ran t rt
  | _, _ => false
  end.

(* The handler at a script position, holding handle o: the user-wide call, then
   the rest of the script on the same handle. Yields the state, what the call
   and the operations returned, the cookies set, and the handle as the handler
   sees it right after the call. *)
Definition hu_tail (s : st) (o : nat) (had : bool) (c : ucall) (post : list sop)
  : st * list sres * list cookie * option (key * rec) :=
  let '(s1, r) := user_call s c in
  let s1 := fire_due s1 in
  let mid := handle_view s1 o in
  match r with
  | Panic e => (s1, [SPanic e], [], mid)
  | _ => let '(s2, rs, cks) := run_script s1 o had post in (s2, of_result r :: rs, cks, mid)
  end.

(* prefix; call; suffix. A prefix that ended the script (Destroy, panic) ends
   the handler. *)
Definition hu_body (s : st) (o : nat) (had : bool) (pre : list sop) (c : ucall) (post : list sop)
  : st * list sres * list cookie * option (key * rec) :=
  let '(s1, rs1, ck1) := run_script s o had pre in
  if hu_ran pre rs1 then
    let '(s2, rs2, ck2, mid) := hu_tail s1 o had c post in (s2, rs1 ++ rs2, ck1 ++ ck2, mid)
  else (s1, rs1, ck1, None).

(* The whole request as a step of a world (Hist.step's HReq branch with the
   composite handler; rq_script r is the prefix; rq_crash is not honoured: the
   composite is crash-free). The observation is Hist's, the script results being
   prefix ++ [call] ++ suffix, plus the handle right after the call. *)
Definition hu_step (w : world) (r : reqstep) (c : ucall) (post : list sop) : world * (obs * option (key * rec)) :=
  let s := set_evs (w_st w) [] in
  let jar := jar_of (w_jars w) (rq_client r) in
  let ck := match rq_present r with PJar => jar | PForge c => c end in
  let q := mkReq ck (rq_create r) (rq_addr r) (rq_ua r) in
  let s1 := set_tb (set_plan s (rq_plan r)) (rq_tb r) in
  let '(s2, res, cks) := start s1 q in
  let s2 := fire_due s2 in
  let '(s3, rc, st0, sr, fin, cks, mid) :=
    match res with
    | Ok (Some o) =>
      let v := handle_view s2 o in
      let '(s3, sr, cks', mid) := hu_body s2 o (had_cookie q) (rq_script r) c post in
      (s3, RSess, v, sr, handle_view s3 o, cks ++ cks', mid)
    | Ok None => (s2, RNone, None, [], None, cks, None)
    | Err e => (s2, RErr e, None, [], None, cks, None)
    | Panic e => (s2, RPanic e, None, [], None, cks, None)
    end in
  let s3 := set_tb (set_plan s3 []) [] in
  let jar' := match rq_present r with
              | PJar => apply_cookies jar cks
              | PForge _ => jar
              end in
  (mkWorld s3 (jar_set (w_jars w) (rq_client r) jar'), (mk_obs rc st0 cks sr fin s3 jar', mid)).

(* histories with composite requests among the ordinary steps *)
Inductive hstep :=
  | HPlain (h : hop)
  | HUser (r : reqstep) (c : ucall) (post : list sop).

Definition hu_step1 (w : world) (x : hstep) : world * (obs * option (key * rec)) :=
  match x with
  | HPlain h => let '(w', o) := step w h in (w', (o, None))
  | HUser r c post => hu_step w r c post
  end.

Fixpoint hu_after (w : world) (l : list hstep) : world :=
  match l with
  | [] => w
  | x :: t => hu_after (fst (hu_step1 w x)) t
  end.

Fixpoint hu_run_from (w : world) (l : list hstep) : list (obs * option (key * rec)) :=
  match l with
  | [] => []
  | x :: t => let '(w', o) := hu_step1 w x in o :: hu_run_from w' t
  end.

Definition hu_run (c : cfg) (l : list hstep) : list (obs * option (key * rec)) :=
  hu_run_from (mkWorld (init_st c) []) l.

(* ---- correspondence (checks/handler_user.py) ---- *)

Definition hucase := (cfg * list hstep * list (obs * option (key * rec)))%type.

(* field 13: the handle right after the user-wide call *)
Definition hu_diff_fields (a b : obs * option (key * rec)) : list N :=
  diff_fields (fst a) (fst b) ++ (if opt_eqb keyrec_eqb (snd a) (snd b) then [] else [13%N]).

Fixpoint hu_first_diff (model observed : list (obs * option (key * rec))) (i : N) : option (N * list N) :=
  match model, observed with
  | [], [] => None
  | m :: mt, o :: ot =>
    match hu_diff_fields m o with
    | [] => hu_first_diff mt ot (i + 1)%N
    | d => Some (i, d)
    end
  | _, _ => Some (i, [0%N])
  end.

Definition hu_case_diff (c : hucase) : option (N * list N) :=
  let '(cf, h, o) := c in hu_first_diff (hu_run cf h) o 0%N.

(* flat list for printing: case index, step, number of fields, fields *)
Fixpoint hu_case_diffs (cs : list hucase) (i : N) : list N :=
  match cs with
  | [] => []
  | c :: t =>
    match hu_case_diff c with
    | None => hu_case_diffs t (i + 1)%N
    | Some (st, fs) => i :: st :: N.of_nat (length fs) :: fs ++ hu_case_diffs t (i + 1)%N
    end
  end.

(* What the model says about the user under each stored ID and on the handle:
   printed for the evidence (user IDs; 0 = none, u+1 = user u). *)
Definition user_code (x : option user) : N := match x with Some (u, _) => (u + 1)%N | None => 0%N end.
