(* Start re-expressed as a sequence of phases separated exactly at its cache
   operations, so that something else holding only the cache mutex - the
   clean-up goroutine of RegenerateID, `sessions.Delete(oldID)` after the grace
   period - can be run between any two of them. Properties/Granularity.v shows
   that each cache operation is one critical section of the cache mutex, so
   "between two cache operations" is the finest interleaving there is.

   The cache operations of Start, in the order it makes them:
     1         sessions.Get(id)                       (only for 24-character values)
     then one of
     2         sessions.Delete    in Destroy of an invalid session
     3           sessions.Set     of the session created in its place
     2, 3      sessions.Set x 2   in RegenerateID (new ID, then the reference)
     2         sessions.Delete    of a record past its backstop age
     2, 3, ..  sessions.Get       once per hop of the reference loop
     1 or 2    sessions.Set       of a session created because none was found

   A hook h : nat -> st -> st is applied with argument n right after the n-th
   cache operation of the request (n >= 1), and with argument 0 on entry, before
   the first one. Everything else is a copy of Sess.start, Sess.regenerate,
   Sess.destroy, Sess.create_session and Sess.follow, line by line; with the
   hook that does nothing the copy equals Sess.start (Proofs/StartSteps.v).
   Executable, no proofs. *)
From Sessions Require Import Model.Base Model.Sess.

Definition hook := nat -> st -> st.

Definition no_hook : hook := fun _ s => s.

(* the clean-ups that are due run right after the i-th cache operation *)
Definition fire_at (i : nat) : hook := fun n s => if Nat.eqb n i then fire_due s else s.

(* n: the number of cache operations the request has made so far *)
Definition regenerate_h (h : hook) (n : nat) (s : st) (o : nat) : st * result unit * list cookie :=
  match hget s o with
  | None => (s, Panic ERegenSave, [])
  | Some ob =>
    let old := o_id ob in
    let '(s, nid) := gen_id s in
    let s := hput s o (mkObj nid (set_created (o_rec ob) (now s))) in
    let '(s, ok) := cache_set s o in
    let s := h (S n) s in
    if negb ok then (s, Err ERegenSave, [])
    else
      match hget s o with
      | None => (s, Panic ERegenSave, [])
      | Some ob =>
        let r := o_rec ob in
        let '(s, ro) := halloc s (mkObj old (mkRec (r_created r) (now s) (r_ip r) (r_ua r) (Some nid) None None)) in
        let '(s, ok) := cache_set s ro in
        let s := h (S (S n)) s in
        if negb ok then (s, Err ERegenRef, [])
        else
          let s := set_pending s (pending s ++ [((now s + c_grace (conf s))%Z, old)]) in
          (s, Ok tt, [CkLive nid])
      end
  end.

Definition destroy_h (h : hook) (n : nat) (s : st) (o : nat) (had_cookie : bool) : st * result unit * list cookie :=
  match hget s o with
  | None => (s, Panic EDestroy, [])
  | Some ob =>
    let '(s, ok) := cache_delete s (o_id ob) in
    let s := h (S n) s in
    if negb ok then (s, Err EDestroy, []) else (s, Ok tt, [CkDelete])
  end.

Fixpoint follow_h (h : hook) (n : nat) (fuel : nat) (s : st) (o : nat) (last : key) : st * result (nat * key) :=
  match hget s o with
  | None => (s, Panic EGetRef)
  | Some ob =>
    match r_ref (o_rec ob) with
    | None => (s, Ok (o, last))
    | Some target =>
      match fuel with
      | O => (s, Err ERefLoop)
      | S f =>
        let '(s, r) := cache_get s target in
        let s := h (S n) s in
        match r with
        | None => (s, Err EGetRef)
        | Some None => (s, Err ERefMissing)
        | Some (Some o') => follow_h h (S n) f s o' target
        end
      end
    end
  end.

Definition create_session_h (h : hook) (n : nat) (s : st) (q : request) : st * result (option nat) * list cookie :=
  let '(s, nid) := gen_id s in
  let '(s, o) := halloc s (mkObj nid (mkRec (now s) (now s) (q_addr q) (q_ua q) None None (Some []))) in
  let '(s, ok) := cache_set s o in
  let s := h (S n) s in
  if negb ok then (s, Err ECreate, []) else (s, Ok (Some o), [CkLive nid]).

(* Start from its first cache operation on *)
Definition start_body (h : hook) (s : st) (q : request) : st * result (option nat) * list cookie :=
  let c := conf s in
  (* cache operations made by the look-up *)
  let n0 := match q_cookie q with CKey _ => 1 | _ => 0 end in
  let '(s, found, cks, failed) :=
    match q_cookie q with
    | CKey k =>
      let '(s, r) := cache_get s k in
      let s := h 1 s in
      match r with
      | None => (s, None, [], true)
      | Some None => (s, None, [CkDelete], false)
      | Some (Some o) => (s, Some (k, o), [], false)
      end
    | _ => (s, None, [], false)
    end in
  if failed then (s, Err EGet, [])
  else
    match found with
    | Some (k, o) =>
      match hget s o with
      | None => (s, Panic EGet, [])
      | Some ob =>
        let r := o_rec ob in
        let valid := negb (c_expiry c <=? since (r_access r) (now s))%Z
                     && ip_ok (c_acceptip c) (r_ip r) (q_addr q)
                     && ua_ok (c_acceptua c) (r_ua r) (q_ua q) in
        if negb valid then
          let '(s, res, dck) := destroy_h h 1 s o (had_cookie q) in
          match res with
          | Ok _ =>
            if q_create q then
              let '(s, res, nck) := create_session_h h 2 s q in (s, res, cks ++ dck ++ nck)
            else (s, Ok None, cks ++ dck)
          | Err e => (s, Err e, cks)
          | Panic e => (s, Panic e, cks)
          end
        else
          let age := since (r_created r) (now s) in
          let isref := match r_ref r with Some _ => true | None => false end in
          let '(s, step, cks) :=
            if negb isref && (c_idexpiry c <=? age)%Z then
              let '(s, res, rck) := regenerate_h h 1 s o in (s, res, cks ++ rck)
            else if (sat_add (c_idexpiry c) (c_grace c) <=? age)%Z then
              let '(s, ok) := cache_delete s k in
              let s := h 2 s in
              (s, if ok then Err EExpiredID else Err EDeleteExpired, cks)
            else (s, Ok tt, cks) in
          match step with
          | Err e => (s, Err e, cks)
          | Panic e => (s, Panic e, cks)
          | Ok _ =>
            let '(s, fr) := if isref then follow_h h 1 (S (N.to_nat (supply s))) s o k else (s, Ok (o, k)) in
            match fr with
            | Err e => (s, Err e, cks)
            | Panic e => (s, Panic e, cks)
            | Ok (o', lk) =>
              let cks := if isref then cks ++ [CkLive lk] else cks in
              let s := hupd s o' (fun r => set_ua (set_ip (set_access r (now s)) (q_addr q)) (q_ua q)) in
              (s, Ok (Some o'), cks)
            end
          end
      end
    | None =>
      if q_create q then
        let '(s, res, nck) := create_session_h h n0 s q in (s, res, cks ++ nck)
      else (s, Ok None, cks)
    end.

Definition start_h (h : hook) (s : st) (q : request) : st * result (option nat) * list cookie :=
  start_body h (h 0 s) q.

(* Start with the due clean-ups running after its i-th cache operation
   (Some 0: before the first one; None: not at all). *)
Definition start_interrupted (s : st) (q : request) (i : option nat) : st * result (option nat) * list cookie :=
  match i with
  | None => start_h no_hook s q
  | Some i => start_h (fire_at i) s q
  end.
