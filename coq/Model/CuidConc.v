(* K goroutines calling CUID concurrently: the mutex `lastMutex`, the wall
   clock and the shared pair (lastTime, lastCounter) of /repo/ids.go as one
   small transition system (C19/C15, round 4 task R6). Executable, no proofs.

   One call of CUID is NOT one atomic action here. It is cut where the code
   touches something shared (ids.go, func CUID):

     CAcq g   lastMutex.Lock()            enabled only while the mutex is free
     CNow g   now := time.Now()           reads the shared clock into g's local `now`
                                          (the timestamp is computed from `now`
                                          alone: cuid_timestamp, pure)
     CCmp g   if timestamp == lastTime    reads lastTime, keeps the outcome locally
     CCnt g   lastCounter++ / = 0         writes lastCounter (after reading it)
     CSet g   lastTime = timestamp        writes lastTime
     CAsm g   counter := lastCounter&0xff; ...; spill := lastCounter >> 8; ...
              bits, the 11 digits         reads lastCounter (the two reads of
                                          lines 70 and 78 as one action), reads
                                          macAddress (constant after init), builds
                                          the string with Model/Ids.v's
                                          cuid_bits/cuid_string
     CRel g   the deferred lastMutex.Unlock(), CUID returns the string
     CTick d  the wall clock advances by d nanoseconds; enabled in EVERY state,
              also while somebody holds the mutex or sits between two actions

   so states in which two goroutines are both between CCmp and CAsm exist and
   the step function below runs them whenever its guards permit. The guards
   couple the goroutines in ONE place only: CAcq needs the mutex free
   (sync.Mutex: trusted). Every other action looks at g's own program counter
   only; that the critical sections do not overlap is a theorem
   (Proofs/CuidConc2.v), not a guard.

   Three variants, selected by two flags:
     narrow = false, locked = true    the code as it is: Lock; time.Now(); ...
     narrow = true,  locked = true    "narrow the lock": time.Now(); Lock; ...
                                      (the clock read moved out of the critical
                                      section, everything else unchanged)
     locked = false                   no mutex at all (CAcq/CRel do nothing)

   The clock is an integer count of nanoseconds since 1970-01-01 UTC; what
   CUID takes from time.Now() is now.Unix() = floor(c / 10^9) and
   now.Nanosecond() = c mod 10^9 (Go keeps 0 <= nsec < 10^9 also before 1970).
   A goroutine makes one call. Any number of calls by any number of goroutines,
   each goroutine calling again after it returned, is a sub-case: give every
   call its own goroutine and consider the schedules in which call n+1 of a
   goroutine begins after its call n returned.

   `cuid_at`, the whole call at one instant, is Model/Ids.v's cuid_step;
   Proofs/CuidConc.v proves that the seven actions of one goroutine run without
   interruption are exactly cuid_step (by computation: an edit of either breaks
   the proof). *)
From Sessions Require Import Model.Base Model.Ids Model.Mutex. (* Mutex: the list update `upd` only *)
Local Open Scope Z_scope.

(* ---- time.Now() as CUID uses it ---- *)

Definition ns_per_s : Z := 1000000000.
Definition unix_of (c : Z) : Z := c / ns_per_s.               (* now.Unix() *)
Definition nano_of (c : Z) : N := Z.to_N (c mod ns_per_s).    (* now.Nanosecond() *)
Definition reading (c : Z) : Z * N := (unix_of c, nano_of c).
Definition ts_at (c : Z) : N := cuid_timestamp (unix_of c) (nano_of c).

(* a whole call of CUID at instant c, as Model/Ids.v has it *)
Definition cuid_at (mac : bytes) (st : cuid_state) (c : Z) : cuid_state * bytes :=
  cuid_step mac st (unix_of c) (nano_of c).

(* ---- one goroutine's program counter and locals ---- *)

Inductive phase :=
| PIdle                             (* CUID not yet called *)
| PHeld                             (* Lock() returned, clock not read yet (code as it is) *)
| PNow (c : Z)                      (* narrowed variant: clock read, Lock() not yet called *)
| PRead (c : Z)                     (* mutex taken and `now` = c *)
| PCmp (c : Z) (same : bool)        (* compared timestamp with lastTime: same *)
| PCnt (c : Z)                      (* lastCounter written *)
| PSet (c : Z)                      (* lastTime written *)
| PRet (c : Z) (id : bytes)         (* string built; the deferred Unlock not yet run *)
| PDone (c : Z) (id : bytes).       (* returned id, having read the clock at c *)

Record cstate := mkK {
  k_mutex : option nat;             (* lastMutex: the goroutine whose Lock() took it *)
  k_last : cuid_state;              (* lastTime, lastCounter *)
  k_clock : Z;                      (* the wall clock, ns since 1970-01-01 UTC *)
  k_ph : list phase;                (* the K goroutines *)
  k_log : list (nat * Z) }.         (* ghost: (g, instant g used) per completed CAsm, NEWEST FIRST *)

Inductive clabel :=
| CAcq (g : nat) | CNow (g : nat) | CCmp (g : nat) | CCnt (g : nat)
| CSet (g : nat) | CAsm (g : nat) | CRel (g : nat)
| CTick (d : N).

Definition is_done (p : phase) : bool := match p with PDone _ _ => true | _ => false end.

(* between Lock() returning and the deferred Unlock() *)
Definition held (p : phase) : bool :=
  match p with
  | PHeld | PRead _ | PCmp _ _ | PCnt _ | PSet _ | PRet _ _ => true
  | PIdle | PNow _ | PDone _ _ => false
  end.

Definition set_ph (cs : cstate) (g : nat) (p : phase) : cstate :=
  mkK (k_mutex cs) (k_last cs) (k_clock cs) (upd g p (k_ph cs)) (k_log cs).

Section System.
  Variable narrow : bool.           (* true: time.Now() before lastMutex.Lock() *)
  Variable locked : bool.           (* false: no mutex *)
  Variable mac : bytes.             (* macAddress, set once by initCUID *)

  Definition cstep (cs : cstate) (lab : clabel) : option cstate :=
    match lab with
    | CTick d => Some (mkK (k_mutex cs) (k_last cs) (k_clock cs + Z.of_N d) (k_ph cs) (k_log cs))
    | CAcq g =>
      match nth_error (k_ph cs) g with
      | Some p =>
        match (if narrow then match p with PNow c => Some (PRead c) | _ => None end
               else match p with PIdle => Some PHeld | _ => None end) with
        | Some p' =>
          if locked then
            match k_mutex cs with
            | None => Some (mkK (Some g) (k_last cs) (k_clock cs) (upd g p' (k_ph cs)) (k_log cs))
            | Some _ => None                                     (* blocked *)
            end
          else Some (set_ph cs g p')
        | None => None
        end
      | None => None
      end
    | CNow g =>
      match nth_error (k_ph cs) g with
      | Some PIdle => if narrow then Some (set_ph cs g (PNow (k_clock cs))) else None
      | Some PHeld => if narrow then None else Some (set_ph cs g (PRead (k_clock cs)))
      | _ => None
      end
    | CCmp g =>
      match nth_error (k_ph cs) g with
      | Some (PRead c) => Some (set_ph cs g (PCmp c (ts_at c =? cs_last_time (k_last cs))%N))
      | _ => None
      end
    | CCnt g =>
      match nth_error (k_ph cs) g with
      | Some (PCmp c same) =>
        let lc := if same then u64 (cs_last_counter (k_last cs) + 1) else lit 5 in
        Some (mkK (k_mutex cs) {| cs_last_time := cs_last_time (k_last cs); cs_last_counter := lc |}
                  (k_clock cs) (upd g (PCnt c) (k_ph cs)) (k_log cs))
      | _ => None
      end
    | CSet g =>
      match nth_error (k_ph cs) g with
      | Some (PCnt c) =>
        Some (mkK (k_mutex cs) {| cs_last_time := ts_at c; cs_last_counter := cs_last_counter (k_last cs) |}
                  (k_clock cs) (upd g (PSet c) (k_ph cs)) (k_log cs))
      | _ => None
      end
    | CAsm g =>
      match nth_error (k_ph cs) g with
      | Some (PSet c) =>
        let id := cuid_string (cuid_bits mac (ts_at c) (cs_last_counter (k_last cs))) in
        Some (mkK (k_mutex cs) (k_last cs) (k_clock cs) (upd g (PRet c id) (k_ph cs)) ((g, c) :: k_log cs))
      | _ => None
      end
    | CRel g =>
      match nth_error (k_ph cs) g with
      | Some (PRet c id) =>
        if locked then
          match k_mutex cs with
          | Some _ => Some (mkK None (k_last cs) (k_clock cs) (upd g (PDone c id) (k_ph cs)) (k_log cs))
          | None => None                 (* fatal error: sync: unlock of unlocked mutex *)
          end
        else Some (set_ph cs g (PDone c id))
      | _ => None
      end
    end.

  Fixpoint crun (cs : cstate) (ls : list clabel) : option cstate :=
    match ls with
    | [] => Some cs
    | l :: r => match cstep cs l with Some cs' => crun cs' r | None => None end
    end.

  (* ---- the serial reference: Model/Ids.v's cuid_step folded over the logged
     calls in the order in which they were completed (the log is newest
     first); returns the generator state and (goroutine, instant, ID returned)
     per call, newest first ---- *)
  Fixpoint serial (st0 : cuid_state) (log : list (nat * Z)) : cuid_state * list (nat * Z * bytes) :=
    match log with
    | [] => (st0, [])
    | gc :: t =>
      let sr := serial st0 t in
      let x := cuid_at mac (fst sr) (snd gc) in
      (fst x, (fst gc, snd gc, snd x) :: snd sr)
    end.
End System.

(* K goroutines, nothing begun, the mutex free *)
Definition cinit (st0 : cuid_state) (c0 : Z) (K : nat) : cstate :=
  mkK None st0 c0 (repeat PIdle K) [].

(* one goroutine's call, uninterrupted *)
Definition script (narrow : bool) (g : nat) : list clabel :=
  (if narrow then [CNow g; CAcq g] else [CAcq g; CNow g]) ++ [CCmp g; CCnt g; CSet g; CAsm g; CRel g].

(* g's call has produced its string (returned, or only the deferred Unlock left) *)
Definition returned (cs : cstate) (g : nat) (c : Z) (id : bytes) : Prop :=
  nth_error (k_ph cs) g = Some (PRet c id) \/ nth_error (k_ph cs) g = Some (PDone c id).

Definition all_done (cs : cstate) : bool := forallb is_done (k_ph cs).

(* termination measure: the actions every goroutine still has to take *)
Definition p_weight (p : phase) : nat :=
  match p with
  | PIdle => 7 | PHeld => 6 | PNow _ => 6 | PRead _ => 5 | PCmp _ _ => 4
  | PCnt _ => 3 | PSet _ => 2 | PRet _ _ => 1 | PDone _ _ => 0
  end.
Definition cmeasure (cs : cstate) : nat := list_sum (map p_weight (k_ph cs)).

Definition no_tick (lab : clabel) : Prop := match lab with CTick _ => False | _ => True end.
Definition is_tick (lab : clabel) : bool := match lab with CTick _ => true | _ => false end.
(* whose action a label is *)
Definition actor (lab : clabel) : option nat :=
  match lab with
  | CAcq g | CNow g | CCmp g | CCnt g | CSet g | CAsm g | CRel g => Some g
  | CTick _ => None
  end.

(* the goroutines whose CAsm a schedule contains, in schedule order *)
Definition asm_of (ls : list clabel) : list nat :=
  flat_map (fun lab => match lab with CAsm g => [g] | _ => [] end) ls.

(* milliseconds since 2017-01-01 at instant c, and the 2^40 ms period it lies in *)
Definition ms_at (c : Z) : Z := c / 1000000 - 1483228800000.
Definition epoch_at (c : Z) : Z := ms_at c / 1099511627776.
