(* Cookie attributes and the browser's cookie identity: a thin layer over the
   abstract Set-Cookie alphabet of Model/Sess.v (CkLive k | CkDelete | CkBad n).

   render      what session.go writes with http.SetCookie for an abstract cookie,
               as an http.Cookie value (the fields net/http serialises):
               - live cookie (Start: new session, Start: redirect from a replaced
                 ID, RegenerateID - and through it LogIn):
                     cookie = NewSessionCookie(); cookie.Name = SessionCookie;
                     cookie.Value = <id>; http.SetCookie(response, cookie)
               - deletion cookie (deleteCookie, as repaired in /repo 7b26151):
                     delCookie := *NewSessionCookie(); delCookie.Name = cookie.Name;
                     delCookie.Value = "deleted"; delCookie.Expires = time.Unix(0, 0);
                     delCookie.MaxAge = -1; http.SetCookie(response, &delCookie)
                 (cookie.Name is SessionCookie at both call sites: the cookie
                 comes from request.Cookie(SessionCookie), or is a template copy
                 whose Name was set to SessionCookie.)
   render_old  the deletion cookie before 7b26151 (delCookie := *cookie): when the
               cookie came from the request it carries name and value only.
   jar_apply   a browser's cookie store under one Set-Cookie, RFC 6265 5.3 as far
               as acceptance (domain-match), identity (name, domain, path),
               replacement and removal of expired cookies go.

   The numbers follow net/http: SameSite 0 = unset, 1 = SameSiteDefaultMode,
   2 = Lax, 3 = Strict, 4 = None; MaxAge 0 = no Max-Age attribute, < 0 = "Max-Age=0"
   (delete now), > 0 = seconds; Expires None = the zero time.Time (no attribute),
   Some t = Unix seconds. Which Set-Cookie sites exist and which fields they
   assign is pinned against the source by Gen/CookieShape.v
   (Properties/C18A.v: cookie_sites_pinned).
   Executable, no proofs. *)
From Coq Require Import String Ascii.
From Sessions Require Import Model.Base Model.Sess Model.Hist.

(* ------------------------------------------------------------ the records *)

(* What NewSessionCookie() returns, apart from Name and Value (which every site
   overwrites). *)
Record template := mkTmpl {
  t_domain : string; t_path : string;
  t_secure : bool; t_httponly : bool; t_partitioned : bool;
  t_samesite : N; t_maxage : Z; t_expires : option Z }.

(* A cookie value: a session ID (abstractly, the key of Model/Sess.v: 24
   characters on the wire) or a literal text. *)
Inductive cvalue := VId (k : key) | VText (s : string).

(* An http.Cookie as handed to http.SetCookie. *)
Record http_cookie := mkHC {
  h_name : string; h_value : cvalue;
  h_domain : string; h_path : string;
  h_secure : bool; h_httponly : bool; h_partitioned : bool;
  h_samesite : N; h_maxage : Z; h_expires : option Z }.

(* --------------------------------------------------------------- rendering *)

(* cookie = NewSessionCookie(); cookie.Name = name; cookie.Value = id *)
Definition live_cookie (name : string) (t : template) (k : key) : http_cookie :=
  mkHC name (VId k) (t_domain t) (t_path t) (t_secure t) (t_httponly t) (t_partitioned t)
       (t_samesite t) (t_maxage t) (t_expires t).

(* deleteCookie since 7b26151: a copy of the template with Name, Value, Expires
   and MaxAge assigned, in this order *)
Definition delete_cookie (name : string) (t : template) : http_cookie :=
  mkHC name (VText "deleted") (t_domain t) (t_path t) (t_secure t) (t_httponly t) (t_partitioned t)
       (t_samesite t) (-1) (Some 0%Z).

Definition render (name : string) (t : template) (c : cookie) : option http_cookie :=
  match c with
  | CkLive k => Some (live_cookie name t k)
  | CkDelete => Some (delete_cookie name t)
  | CkBad _ => None
  end.

(* deleteCookie before 7b26151: delCookie := *cookie. A cookie parsed from the
   request's Cookie header has Name and Value only (from_request = true:
   Start's "session not found", Destroy with the request cookie); Destroy
   without a request cookie passed a template copy (from_request = false). *)
Definition delete_cookie_old (name : string) (t : template) (from_request : bool) : http_cookie :=
  if from_request
  then mkHC name (VText "deleted") "" "" false false false 0 (-1) (Some 0%Z)
  else delete_cookie name t.

Definition render_old (name : string) (t : template) (from_request : bool) (c : cookie) : option http_cookie :=
  match c with
  | CkLive k => Some (live_cookie name t k)
  | CkDelete => Some (delete_cookie_old name t from_request)
  | CkBad _ => None
  end.

(* the cookies of one response; CkBad renders to nothing (the theorems that use
   this assume, and C18H_no_bad proves, that none occurs) *)
Definition render_all (name : string) (t : template) (cs : list cookie) : list http_cookie :=
  flat_map (fun c => match render name t c with Some h => [h] | None => [] end) cs.

Definition render_all_old (name : string) (t : template) (from_request : bool) (cs : list cookie) : list http_cookie :=
  flat_map (fun c => match render_old name t from_request c with Some h => [h] | None => [] end) cs.

Definition is_bad (c : cookie) : bool := match c with CkBad _ => true | _ => false end.

(* a session ID has 24 characters (generateSessionID; Start's len(id) == 24) *)
Definition is_id (v : cvalue) : bool :=
  match v with VId _ => true | VText s => Nat.eqb (String.length s) 24 end.

(* ------------------------------------------------------------- the browser *)

(* The request the response answers, as far as the cookie store needs it: the
   canonical request host and the default-path of the request URI (RFC 6265
   5.1.4). *)
Record ctx := mkCtx { x_host : string; x_defpath : string }.

(* RFC 6265 5.1.3 domain-match (of two canonical names; the IP-address
   exclusion is not modelled): identical, or the domain is a suffix of the host
   preceded by a dot. *)
Definition domain_match (host d : string) : bool :=
  String.eqb host d ||
  (let lh := String.length host in let ld := String.length d in
   Nat.ltb ld lh &&
   String.eqb (substring (lh - ld) ld host) d &&
   match get (lh - ld - 1) host with Some c => Ascii.eqb c "."%char | None => false end).

(* 5.3 steps 4-6: an empty Domain attribute gives a host-only cookie of the
   request host; a Domain attribute that the request host does not domain-match
   makes the browser ignore the cookie entirely. *)
Definition accepted (x : ctx) (c : http_cookie) : bool :=
  String.eqb (h_domain c) "" || domain_match (x_host x) (h_domain c).

Definition eff_domain (x : ctx) (c : http_cookie) : string :=
  if String.eqb (h_domain c) "" then x_host x else h_domain c.

(* 5.2.4 / 5.3 step 7: a Path attribute that is empty or does not begin with
   "/" is replaced by the default-path of the request. *)
Definition starts_with_slash (p : string) : bool :=
  match p with String c _ => Ascii.eqb c "/"%char | EmptyString => false end.

Definition eff_path (x : ctx) (c : http_cookie) : string :=
  if starts_with_slash (h_path c) then h_path c else x_defpath x.

(* 5.3 step 11: the identity of a stored cookie *)
Record ckey := mkKey { k_name : string; k_domain : string; k_path : string }.

Definition ckey_eqb (a b : ckey) : bool :=
  String.eqb (k_name a) (k_name b) && String.eqb (k_domain a) (k_domain b) && String.eqb (k_path a) (k_path b).

Definition key_of (x : ctx) (c : http_cookie) : ckey :=
  mkKey (h_name c) (eff_domain x c) (eff_path x c).

(* 5.2.2 / 5.3 step 3: Max-Age has precedence over Expires; a non-positive
   Max-Age (net/http: MaxAge < 0) expires at once; without either the cookie
   lasts for the browser session. now: Unix seconds. *)
Definition expired_at (now : Z) (c : http_cookie) : bool :=
  if (h_maxage c <? 0)%Z then true
  else if (0 <? h_maxage c)%Z then false
  else match h_expires c with Some e => (e <=? now)%Z | None => false end.

(* the cookie store: identity and the cookie as received *)
Definition bjar := list (ckey * http_cookie).

Fixpoint jar_remove (k : ckey) (j : bjar) : bjar :=
  match j with
  | [] => []
  | (k', c) :: t => if ckey_eqb k k' then jar_remove k t else (k', c) :: jar_remove k t
  end.

Fixpoint jar_lookup (k : ckey) (j : bjar) : option http_cookie :=
  match j with
  | [] => None
  | (k', c) :: t => if ckey_eqb k k' then Some c else jar_lookup k t
  end.

(* 5.3 steps 11-12 and the eviction of expired cookies: a cookie that the
   browser accepts removes the stored cookie with the same identity and, unless
   it is already expired, takes its place. *)
Definition jar_apply (x : ctx) (now : Z) (j : bjar) (c : http_cookie) : bjar :=
  if negb (accepted x c) then j
  else
    let k := key_of x c in
    let j' := jar_remove k j in
    if expired_at now c then j' else j' ++ [(k, c)].

(* the Set-Cookie headers of one response, in order *)
Definition jar_apply_all (x : ctx) (now : Z) (j : bjar) (cs : list http_cookie) : bjar :=
  fold_left (jar_apply x now) cs j.

(* ------------------------------------------- the session cookie in the jar *)

(* the identity every cookie rendered from (name, t) gets in context x *)
Definition session_key (x : ctx) (name : string) (t : template) : ckey :=
  mkKey name (if String.eqb (t_domain t) "" then x_host x else t_domain t)
        (if starts_with_slash (t_path t) then t_path t else x_defpath x).

(* what the abstract jar of Model/Hist.v (CNone / CKey k / COther) says about a
   browser jar: the value stored under the session cookie's identity *)
Definition abs_jar (x : ctx) (name : string) (t : template) (j : bjar) : cval :=
  match jar_lookup (session_key x name t) j with
  | None => CNone
  | Some c => match h_value c with VId k => CKey k | VText _ => COther 0 end
  end.

(* the application's template is usable at instant now: the browser accepts its
   Domain for this request and a live cookie built from it is not expired on
   arrival *)
Definition tmpl_usable (x : ctx) (now : Z) (name : string) (t : template) : bool :=
  accepted x (live_cookie name t (KGen 0)) && negb (expired_at now (live_cookie name t (KGen 0))).

(* at most one stored cookie per identity (the store's own invariant) *)
Fixpoint jar_nodup (j : bjar) : bool :=
  match j with
  | [] => true
  | (k, _) :: t => match jar_lookup k t with None => jar_nodup t | Some _ => false end
  end.

(* a browser receiving a sequence of responses, each with its own request
   context and arrival instant *)
Definition browse (name : string) (t : template) (j : bjar) (rs : list (ctx * Z * list cookie)) : bjar :=
  fold_left (fun j r => jar_apply_all (fst (fst r)) (snd (fst r)) j (render_all name t (snd r))) rs j.

(* the abstract jar of Model/Hist.v under the same responses *)
Definition abs_browse (v : cval) (rs : list (ctx * Z * list cookie)) : cval :=
  fold_left (fun v r => apply_cookies v (snd r)) rs v.

(* --------------------------------------- browsers along a history (Hist.v) *)

(* one browser jar per client, beside the abstract jars of Hist.world *)
Definition bjars := list (N * bjar).

Fixpoint bjar_of (bs : bjars) (c : N) : bjar :=
  match bs with
  | [] => []
  | (c', j) :: t => if N.eqb c c' then j else bjar_of t c
  end.

Fixpoint bjar_set (bs : bjars) (c : N) (j : bjar) : bjars :=
  match bs with
  | [] => [(c, j)]
  | (c', j') :: t => if N.eqb c c' then (c, j) :: t else (c', j') :: bjar_set t c j
  end.

(* The browsers under one step whose observation is o: the client of a request
   step that presented its own jar applies the Set-Cookie headers of the
   response, rendered from (name, t), in the context x of that request at
   browser time nowb. (A crashed step has no response: ob_cookies is empty. A
   forged request is not the client's browser.) *)
Definition bstep (name : string) (t : template) (bs : bjars) (h : hop) (x : ctx) (nowb : Z) (o : obs) : bjars :=
  match h with
  | HReq r =>
    match rq_present r with
    | PJar => bjar_set bs (rq_client r)
                (jar_apply_all x nowb (bjar_of bs (rq_client r)) (render_all name t (ob_cookies o)))
    | PForge _ => bs
    end
  | _ => bs
  end.

(* a history whose steps carry the request context and the browser's clock *)
Fixpoint brun (name : string) (t : template) (w : world) (bs : bjars) (hs : list (hop * ctx * Z)) : world * bjars :=
  match hs with
  | [] => (w, bs)
  | (h, x, nowb) :: tl => brun name t (fst (step w h)) (bstep name t bs h x nowb (snd (step w h))) tl
  end.

(* ------------------- correspondence with the real code (family cookieattr) *)

Definition cvalue_eqb (a b : cvalue) : bool :=
  match a, b with
  | VId k, VId k' => key_eqb k k'
  | VText s, VText s' => String.eqb s s'
  | _, _ => false
  end.

Definition optz_eqb (a b : option Z) : bool :=
  match a, b with
  | Some x, Some y => Z.eqb x y
  | None, None => true
  | _, _ => false
  end.

Definition jarval_eqb (a b : cval) : bool :=
  match a, b with
  | CNone, CNone => true
  | CKey k, CKey k' => key_eqb k k'
  | COther n, COther m => N.eqb n m
  | _, _ => false
  end.

(* the numbers of the fields in which two cookies differ: 1 Name, 2 Value,
   3 Domain, 4 Path, 5 Secure, 6 HttpOnly, 7 Partitioned, 8 SameSite, 9 MaxAge,
   10 Expires *)
Definition hc_diff (a b : http_cookie) : list N :=
  (if String.eqb (h_name a) (h_name b) then [] else [1%N]) ++
  (if cvalue_eqb (h_value a) (h_value b) then [] else [2%N]) ++
  (if String.eqb (h_domain a) (h_domain b) then [] else [3%N]) ++
  (if String.eqb (h_path a) (h_path b) then [] else [4%N]) ++
  (if Bool.eqb (h_secure a) (h_secure b) then [] else [5%N]) ++
  (if Bool.eqb (h_httponly a) (h_httponly b) then [] else [6%N]) ++
  (if Bool.eqb (h_partitioned a) (h_partitioned b) then [] else [7%N]) ++
  (if N.eqb (h_samesite a) (h_samesite b) then [] else [8%N]) ++
  (if Z.eqb (h_maxage a) (h_maxage b) then [] else [9%N]) ++
  (if optz_eqb (h_expires a) (h_expires b) then [] else [10%N]).

(* expected against observed cookies of one response: (cookie index, field);
   field 0: one of the lists is longer *)
Fixpoint hcs_diff (i : N) (e o : list http_cookie) : list (N * N) :=
  match e, o with
  | [], [] => []
  | a :: e', b :: o' => map (fun f => (i, f)) (hc_diff a b) ++ hcs_diff (i + 1) e' o'
  | _, _ => [(i, 0%N)]
  end.

(* One observed response: the browser tabs (clients) that receive it, the
   abstract cookies the flow should produce, the Set-Cookie lines the real code
   wrote (parsed), and what a real RFC 6265 jar (net/http/cookiejar) of each of
   those tabs holds under the session cookie's name afterwards. *)
Record aresp := mkAResp {
  ar_tabs : list N; ar_expected : list cookie; ar_observed : list http_cookie; ar_jars : list cval }.

Record acase := mkACase {
  ac_name : string; ac_tmpl : template; ac_ctx : ctx; ac_now : Z; ac_resps : list aresp }.

(* every tab applies the rendered cookies; differences between abs_jar and the
   observed jar are reported as (1000 + position of the tab, 0) *)
Fixpoint tabs_step (name : string) (t : template) (x : ctx) (now : Z) (bs : bjars)
         (hs : list http_cookie) (i : N) (tabs : list N) (seen : list cval) : bjars * list (N * N) :=
  match tabs with
  | [] => (bs, [])
  | c :: tabs' =>
    let j := jar_apply_all x now (bjar_of bs c) hs in
    let bs1 := bjar_set bs c j in
    let d := match seen with
             | v :: _ => if jarval_eqb (abs_jar x name t j) v then [] else [((1000 + i)%N, 0%N)]
             | [] => [((1000 + i)%N, 1%N)]
             end in
    let '(bs2, ds) := tabs_step name t x now bs1 hs (i + 1) tabs' (tl seen) in
    (bs2, d ++ ds)
  end.

Fixpoint resps_diff (name : string) (t : template) (x : ctx) (now : Z) (bs : bjars) (ri : N) (rs : list aresp)
  : list (N * N * N) :=
  match rs with
  | [] => []
  | r :: rs' =>
    let hs := render_all name t (ar_expected r) in
    let d1 := hcs_diff 0 hs (ar_observed r) in
    let '(bs1, d2) := tabs_step name t x now bs hs 0 (ar_tabs r) (ar_jars r) in
    map (fun p => (ri, fst p, snd p)) (d1 ++ d2) ++ resps_diff name t x now bs1 (ri + 1) rs'
  end.

Definition acase_diff (c : acase) : list (N * N * N) :=
  resps_diff (ac_name c) (ac_tmpl c) (ac_ctx c) (ac_now c) [] 0 (ac_resps c).

(* flat: case, response, cookie (or 1000 + tab), field *)
Fixpoint acases_diff (i : N) (cs : list acase) : list N :=
  match cs with
  | [] => []
  | c :: cs' => flat_map (fun d => [i; fst (fst d); snd (fst d); snd d]) (acase_diff c) ++ acases_diff (i + 1) cs'
  end.
