(* The composed system of Model/StartConc.v with a FINER cut of Start (round 4,
   task R2, second follow-up). Executable, no proofs.

   Model/StartConc.v cuts Start once, after its look-up. With the local cache
   on that cut cannot show the double mint of the unlocked system: both
   look-ups return the same heap object and the age test, placed in the rest,
   re-reads it. In Go the age and the validity data are read right after the
   look-up, under the session's RLock (session.go: `session.RLock();
   timeUntouched := ...; age := time.Since(session.created); ip := ...;
   session.RUnlock()`), BEFORE the validity and rotation tests; only
   `session.referenceID` is read again later. Here Start is cut twice:

     FLook g    the look-up `sessions.Get(id)`                    (cache operation 1)
     FReadL g   the read under RLock: `valid` and `age` computed from the
                object found, kept in g's local state; the shared state is
                not changed
     FRest g    everything after it, driven by the LOCAL valid/age and by the
                shared state as it is then (referenceID is re-read, as in Go)

   so that look-up 0; look-up 1; read 0; read 1; rest 0; rest 1 is a schedule;
   without the lock and WITH the cache on it draws two IDs
   (Proofs/StartConcFineEx.v). The rest (RegenerateID's two `sessions.Set`,
   the reference loop's `sessions.Get`s, Destroy and creation) is still ONE
   world action: a cut per cache operation there (Model/StartSteps.v places
   hooks at those points but is not a small-step machine) is not made.

   Lock guard, clock guard, the epilogue `req_finish`, the ghost log: as in
   Model/StartConc.v. `abs` maps a state of this system to a state of the
   coarse one (both phases "between look-up and rest" to PLooked): the
   simulation of Proofs/StartConcFine.v. *)
From Sessions Require Import Model.Base Model.Sess Model.Hist Model.Mutex Model.StartConc.

(* the read under the session's RLock: validity and age of the object found *)
Definition start_read (c : cfg) (s : st) (q : request) (found : option (key * nat)) : option (bool * Z) :=
  match found with
  | Some (_, o) =>
    match hget s o with
    | Some ob =>
      let r := o_rec ob in
      Some (negb (c_expiry c <=? since (r_access r) (now s))%Z
            && ip_ok (c_acceptip c) (r_ip r) (q_addr q)
            && ua_ok (c_acceptua c) (r_ua r) (q_ua q),
            since (r_created r) (now s))
    | None => None
    end
  | None => None
  end.

(* Start after that read: Model/StartConc.v's start_rest with `valid` and `age`
   taken from the read instead of being recomputed *)
Definition start_rest3 (c : cfg) (s : st) (q : request) (found : option (key * nat)) (cks : list cookie)
    (failed : bool) (rd : option (bool * Z)) : st * result (option nat) * list cookie :=
  if failed then (s, Err EGet, [])
  else
    match found with
    | Some (k, o) =>
      match hget s o, rd with
      | None, _ | _, None => (s, Panic EGet, [])
      | Some ob, Some (valid, age) =>
        let r := o_rec ob in
        if negb valid then
          let '(s, res, dck) := destroy s o (had_cookie q) in
          match res with
          | Ok _ =>
            if q_create q then
              let '(s, res, nck) := create_session s q in (s, res, cks ++ dck ++ nck)
            else (s, Ok None, cks ++ dck)
          | Err e => (s, Err e, cks)
          | Panic e => (s, Panic e, cks)
          end
        else
          let isref := match r_ref r with Some _ => true | None => false end in
          let '(s, step, cks) :=
            if negb isref && (c_idexpiry c <=? age)%Z then
              let '(s, res, rck) := regenerate s o in (s, res, cks ++ rck)
            else if (sat_add (c_idexpiry c) (c_grace c) <=? age)%Z then
              let '(s, ok) := cache_delete s k in
              (s, if ok then Err EExpiredID else Err EDeleteExpired, cks)
            else (s, Ok tt, cks) in
          match step with
          | Err e => (s, Err e, cks)
          | Panic e => (s, Panic e, cks)
          | Ok _ =>
            let '(s, fr) := if isref then follow (S (N.to_nat (supply s))) s o k else (s, Ok (o, k)) in
            match fr with
            | Err e => (s, Err e, cks)
            | Panic e => (s, Panic e, cks)
            | Ok (o', lk) =>
              let cks := if isref then cks ++ [CkLive lk] else cks in
              let s := hupd s o' (fun r => set_ua (set_ip (set_access r (now s)) (q_addr q)) (q_ua q)) in
              (s, Ok (Some o'), cks)
            end
          end
      end
    | None =>
      if q_create q then
        let '(s, res, nck) := create_session s q in (s, res, cks ++ nck)
      else (s, Ok None, cks)
    end.

(* ---- the system ---- *)

Inductive fphase :=
| FIdle
| FLooked (s0 : st) (jar : cval) (found : option (key * nat)) (cks : list cookie) (failed : bool)
| FRead (s0 : st) (jar : cval) (found : option (key * nat)) (cks : list cookie) (failed : bool)
        (rd : option (bool * Z))
| FDone (o : obs).

Record fstate := mkF {
  f_lock : state; f_st : st; f_jars : list (N * cval); f_ph : list fphase; f_acts : list act }.

Inductive flabel :=
| FL (l : label) | FLook (g : nat) | FReadL (g : nat) | FRest (g : nat) | FTick (d : Z).

Definition is_mid (p : fphase) : bool :=
  match p with FLooked _ _ _ _ _ | FRead _ _ _ _ _ _ => true | _ => false end.
Definition f_is_done (p : fphase) : bool := match p with FDone _ => true | _ => false end.

Section System.
  Variable locked : bool.
  Variable reqs : list reqstep.

  Definition fstep (fs : fstate) (lab : flabel) : option fstate :=
    match lab with
    | FL l =>
      let returned :=
        match l with
        | LLeave g => match nth_error (f_ph fs) g with Some (FDone _) => true | _ => false end
        | _ => true
        end in
      if returned then
        match step (f_lock fs) l with
        | Some st' => Some (mkF st' (f_st fs) (f_jars fs) (f_ph fs) (f_acts fs))
        | None => None
        end
      else None
    | FLook g =>
      match nth_error (f_ph fs) g, nth_error reqs g with
      | Some FIdle, Some r =>
        let s0 := set_evs (f_st fs) [] in
        let jar := jar_of (f_jars fs) (rq_client r) in
        let holds := match lock_key (q_cookie (rq_request jar r)) with
                     | Some kk => holds_key (f_lock fs) g kk
                     | None => true
                     end in
        if negb locked || holds then
          let '(s1, found, cks, failed) := start_lookup (rq_prepare s0 r) (rq_request jar r) in
          Some (mkF (f_lock fs) s1 (f_jars fs) (upd g (FLooked s0 jar found cks failed) (f_ph fs)) (f_acts fs))
        else None
      | _, _ => None
      end
    | FReadL g =>
      match nth_error (f_ph fs) g, nth_error reqs g with
      | Some (FLooked s0 jar found cks failed), Some r =>
        let rd := start_read (conf s0) (f_st fs) (rq_request jar r) found in
        Some (mkF (f_lock fs) (f_st fs) (f_jars fs) (upd g (FRead s0 jar found cks failed rd) (f_ph fs)) (f_acts fs))
      | _, _ => None
      end
    | FRest g =>
      match nth_error (f_ph fs) g, nth_error reqs g with
      | Some (FRead s0 jar found cks failed rd), Some r =>
        let q := rq_request jar r in
        let '(w', o) := req_finish s0 jar (f_jars fs) r q (start_rest3 (conf s0) (f_st fs) q found cks failed rd) in
        Some (mkF (f_lock fs) (w_st w') (w_jars w') (upd g (FDone o) (f_ph fs)) (AReq g :: f_acts fs))
      | _, _ => None
      end
    | FTick d =>
      if existsb is_mid (f_ph fs) then None
      else
        let w' := fst (Hist.step (mkWorld (f_st fs) (f_jars fs)) (HWait d)) in
        Some (mkF (f_lock fs) (w_st w') (w_jars w') (f_ph fs) (ATick d :: f_acts fs))
    end.

  Fixpoint frun (fs : fstate) (ls : list flabel) : option fstate :=
    match ls with
    | [] => Some fs
    | l :: r => match fstep fs l with Some fs' => frun fs' r | None => None end
    end.

  Definition fadm (fs : fstate) (lab : flabel) : Prop :=
    match lab with FL l => adm (f_lock fs) l | _ => True end.

  Fixpoint fadm_run (fs : fstate) (ls : list flabel) : Prop :=
    match ls with
    | [] => True
    | l :: r => fadm fs l /\ match fstep fs l with Some fs' => fadm_run fs' r | None => True end
    end.

  Definition fadmb (fs : fstate) (lab : flabel) : bool :=
    match lab with FL l => admb (f_lock fs) l | _ => true end.

  Fixpoint fadmb_run (fs : fstate) (ls : list flabel) : bool :=
    match ls with
    | [] => true
    | l :: r => fadmb fs l && match fstep fs l with Some fs' => fadmb_run fs' r | None => false end
    end.
End System.

Definition finit (k : nat) (reqs : list reqstep) (w : world) (purges : nat) : fstate :=
  mkF (init (map (fun _ => [OLock k]) reqs) purges) (w_st w) (w_jars w) (map (fun _ => FIdle) reqs) [].

Definition f_all_done (fs : fstate) : bool := finished (f_lock fs) && forallb f_is_done (f_ph fs).

(* ---- back to the coarse system ---- *)
Definition abs_phase (p : fphase) : phase :=
  match p with
  | FIdle => PIdle
  | FLooked s0 jar f c b | FRead s0 jar f c b _ => PLooked s0 jar f c b
  | FDone o => PDone o
  end.
Definition abs (fs : fstate) : cstate :=
  mkC (f_lock fs) (f_st fs) (f_jars fs) (map abs_phase (f_ph fs)) (f_acts fs).
(* the coarse label of a fine label; the read has none *)
Definition abs_label (lab : flabel) : list clabel :=
  match lab with
  | FL l => [CL l] | FLook g => [CLook g] | FReadL _ => [] | FRest g => [CRest g] | FTick d => [CTick d]
  end.
Definition abs_run (ls : list flabel) : list clabel := flat_map abs_label ls.
