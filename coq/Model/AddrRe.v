(* The remote address as a string: the pattern of Start (session.go)

     ipFormat := regexp.MustCompile(`^(\d+).(\d+).(\d+).(\d+):\d+$`)

   applied with FindStringSubmatch to the recorded address and to
   request.RemoteAddr, and the decision Start takes from the captured strings.
   Executable, no proofs.

   Go's regexp semantics for this pattern (package regexp/syntax, Perl flags):
   * `\d` is the ASCII class [0-9];
   * `.` (no (?s)) is the class [^\n] of *runes*: the input is decoded as
     UTF-8, one rune at a time (utf8.DecodeRuneInString); a byte that does not
     start a well-formed encoding is the rune U+FFFD of width 1, which the
     class contains. So an unescaped dot consumes 1 to 4 bytes;
   * `^`/`$` without (?m): beginning and end of the text only;
   * leftmost-first matching: the match a backtracking matcher finds first,
     every `\d+` trying the longest run first and giving back one digit at a
     time. All groups take part in every match, so FindStringSubmatch returns
     nil or five strings.
   A string is a list of bytes (Base.bytes = list N), as in Model/Codec.v and
   Model/Ids.v. *)
From Sessions Require Import Model.Base Model.Codec Model.Sess.
Local Open Scope N_scope.

Definition is_digit (c : N) : bool := (48 <=? c) && (c <=? 57).

Definition btw (lo hi c : N) : bool := (lo <=? c) && (c <=? hi).

(* utf8.DecodeRuneInString: the number of bytes of the first rune of a
   non-empty string (unicode/utf8: the tables first/acceptRanges written out:
   C2..DF 80..BF | E0 A0..BF 80..BF | E1..EC,EE..EF 80..BF 80..BF |
   ED 80..9F 80..BF | F0 90..BF 80..BF 80..BF | F1..F3 80..BF x3 |
   F4 80..8F 80..BF 80..BF; everything else, and a truncated sequence, is an
   invalid byte of width 1). *)
Definition rune_width (s : bytes) : nat :=
  match s with
  | [] => 0%nat
  | b0 :: t =>
    if b0 <? 128 then 1%nat
    else if btw 194 223 b0 then
      match t with
      | b1 :: _ => if btw 128 191 b1 then 2%nat else 1%nat
      | _ => 1%nat
      end
    else if btw 224 239 b0 then
      let lo := if b0 =? 224 then 160 else 128 in
      let hi := if b0 =? 237 then 159 else 191 in
      match t with
      | b1 :: b2 :: _ => if btw lo hi b1 && btw 128 191 b2 then 3%nat else 1%nat
      | _ => 1%nat
      end
    else if btw 240 244 b0 then
      let lo := if b0 =? 240 then 144 else 128 in
      let hi := if b0 =? 244 then 143 else 191 in
      match t with
      | b1 :: b2 :: b3 :: _ =>
          if btw lo hi b1 && btw 128 191 b2 && btw 128 191 b3 then 4%nat else 1%nat
      | _ => 1%nat
      end
    else 1%nat
  end.

(* `.`: one rune that is not a newline; the rest of the string *)
Definition dot (s : bytes) : option bytes :=
  match s with
  | [] => None
  | c :: _ => if c =? 10 then None else Some (skipn (rune_width s) s)
  end.

(* `\d+` followed by the rest of the pattern k, as a backtracking matcher runs
   it: at least one digit; prefer to take one more digit; only when the rest
   of the pattern fails after every longer run, stop here. Returns the run
   taken and the result of the rest. *)
Fixpoint dplus {A : Type} (k : bytes -> option A) (s : bytes) : option (bytes * A) :=
  match s with
  | [] => None
  | c :: t =>
    if is_digit c then
      match dplus k t with
      | Some (g, a) => Some (c :: g, a)
      | None => match k t with
                | Some a => Some ([c], a)
                | None => None
                end
      end
    else None
  end.

(* `:\d+$` *)
Definition tail_ok (s : bytes) : bool :=
  match s with
  | [] => false
  | c :: ds => (c =? 58) && negb (match ds with [] => true | _ => false end) && forallb is_digit ds
  end.

Definition k4 (t : bytes) : option unit := if tail_ok t then Some tt else None.
Definition k3 (t : bytes) := match dot t with None => None | Some u => dplus k4 u end.
Definition k2 (t : bytes) := match dot t with None => None | Some u => dplus k3 u end.
Definition k1 (t : bytes) := match dot t with None => None | Some u => dplus k2 u end.

(* ipFormat.FindStringSubmatch(s): None is Go's nil, Some (g1,g2,g3,g4) the
   slice [s, g1, g2, g3, g4] *)
Definition submatch (s : bytes) : option (bytes * bytes * bytes * bytes) :=
  match dplus k1 s with
  | Some (g1, (g2, (g3, (g4, _)))) => Some (g1, g2, g3, g4)
  | None => None
  end.

(* for i := 1; i < n; i++ { if previousIP[i] != currentIP[i] { valid = false; break } }
   on the groups 1..4 (index 0, the whole match, is never read: i starts at 1;
   n <= 4 is guarded by the caller, so i <= 3) *)
Definition groups (m : bytes * bytes * bytes * bytes) : list bytes :=
  let '(g1, g2, g3, g4) := m in [g1; g2; g3; g4].

Fixpoint prefix_eq (k : nat) (p c : list bytes) : bool :=
  match k, p, c with
  | O, _, _ => true
  | S k', x :: p', y :: c' => bytes_eqb x y && prefix_eq k' p' c'
  | S _, _, _ => true            (* not reached: k <= 3, four groups *)
  end.

(* The decision of Start on the recorded address `prev` and the request's
   address `cur` with AcceptRemoteIP = n: true = the session is kept.
     if valid && AcceptRemoteIP > 1 {
       previousIP := ipFormat.FindStringSubmatch(ip)
       currentIP := ipFormat.FindStringSubmatch(request.RemoteAddr)
       if len(previousIP) == 5 && len(currentIP) == 5 && AcceptRemoteIP <= 4 { loop } } *)
Definition ip_ok_str (n : Z) (prev cur : bytes) : bool :=
  if (1 <? n)%Z then
    match submatch prev, submatch cur with
    | Some mp, Some mc =>
      if (n <=? 4)%Z then prefix_eq (Z.to_nat (n - 1)) (groups mp) (groups mc)
      else true
    | _, _ => true
    end
  else true.

(* ---- printing the addresses of Model/Sess.v ---- *)

(* strconv.Itoa on a natural number: decimal without leading zeros *)
Definition dec (n : N) : bytes := format_radix 10 n.

(* "a.b.c.d:p"; anything else as a bracketed IPv6-style literal "[::n]:0",
   which the pattern does not match (it does not begin with a digit) *)
Definition render (a : addr) : bytes :=
  match a with
  | V4 a b c d p => dec a ++ 46 :: dec b ++ 46 :: dec c ++ 46 :: dec d ++ 58 :: dec p
  | AOther n => 91 :: 58 :: 58 :: dec n ++ [93; 58; 48]
  end.

(* ---- correspondence case records (checks/addr_re.py) ---- *)

(* one pair of strings run through the real code: what FindStringSubmatch
   returned for each, and whether Start kept the session recorded at `prev`
   for a request from `cur` under AcceptRemoteIP = 1, 2, 3, 4, 5 *)
Record rcase := mkRC {
  rc_prev : bytes; rc_cur : bytes;
  rc_mprev : option (bytes * bytes * bytes * bytes);
  rc_mcur : option (bytes * bytes * bytes * bytes);
  rc_keep : list bool }.

Definition m_eqb (x y : option (bytes * bytes * bytes * bytes)) : bool :=
  match x, y with
  | None, None => true
  | Some (a, b, c, d), Some (a', b', c', d') =>
      bytes_eqb a a' && bytes_eqb b b' && bytes_eqb c c' && bytes_eqb d d'
  | _, _ => false
  end.

Fixpoint keep_diff (n : Z) (prev cur : bytes) (l : list bool) : list N :=
  match l with
  | [] => []
  | b :: l' => (if Bool.eqb (ip_ok_str n prev cur) b then [] else [Z.to_N (10 + n)])
               ++ keep_diff (n + 1) prev cur l'
  end.

(* the fields in which model and real code differ: 1 = submatch of the first
   string, 2 = of the second, 10 + n = the decision under AcceptRemoteIP = n *)
Definition rcase_diff (c : rcase) : list N :=
  (if m_eqb (submatch (rc_prev c)) (rc_mprev c) then [] else [1]) ++
  (if m_eqb (submatch (rc_cur c)) (rc_mcur c) then [] else [2]) ++
  keep_diff 1 (rc_prev c) (rc_cur c) (rc_keep c).

(* flat list of (case index, field) pairs *)
Fixpoint rcases_diff (i : N) (cs : list rcase) : list N :=
  match cs with
  | [] => []
  | c :: cs' => flat_map (fun f => [i; f]) (rcase_diff c) ++ rcases_diff (i + 1) cs'
  end.
