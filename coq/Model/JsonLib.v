(* A small concrete encoding/json over the value domain `dval` of
   Model/Codec.v: a printer to bytes (json.Marshal of a generic tree) and a
   fuelled parser back (json.Unmarshal into interface{}). Audit task A8: an
   instance showing that what Properties/C17.v takes from the library
   (`reparse` with `jstr := u8_coerce`) is realised by an actual byte-level
   codec. Executable, no proofs; the laws are in Proofs/JsonLibOk*.v.

   The printer writes compact JSON (no white space): strings coerced to
   valid UTF-8 as encoding/json does, then the double quote, the backslash and control
   characters escaped; Go ints in decimal; a float64 as the exact decimal value of its
   bit pattern in the form <integer>e-<k> (valid JSON, not Go's shortest
   form); object members in the order of the association list. The parser
   reads numbers with correct rounding to float64 (to nearest, ties to
   even), the standard escapes including \uXXXX, and refuses everything else
   (white space between tokens is not accepted: it reads what the printer
   writes and other compact documents). *)
From Sessions Require Import Model.Base Model.Codec.
Local Open Scope N_scope.

(* ----------------------------------------------------------------- numbers *)

Definition dec (n : N) : bytes := format_radix 10 n.

Definition jdig (c : N) : bool := in_rng 48 57 c.

(* a maximal run of decimal digits: value, number of digits, what follows *)
Fixpoint read_digits (s : bytes) (acc cnt : N) : N * N * bytes :=
  match s with
  | [] => (acc, cnt, s)
  | c :: r => if jdig c then read_digits r (acc * 10 + (c - 48)) (cnt + 1) else (acc, cnt, s)
  end.

(* num/den (den > 0) rounded to the nearest float64, ties to even: bits
   without the sign. The value is scaled by 2^1074 (the smallest subnormal is
   2^-1074), `sh` is the binary exponent above that, the mantissa q has 53
   bits (fewer for subnormals); a carry out of the rounding moves into the
   exponent field by itself. *)
Definition f64_of_Q (num den : N) : N :=
  let big := num * 2 ^ 1074 in
  let q0 := big / den in
  let sh := if q0 <? 2 ^ 53 then 0 else N.log2 q0 - 52 in
  let d := den * 2 ^ sh in
  let q := big / d in
  let r := big mod d in
  let q' := if (d <? 2 * r) || ((d =? 2 * r) && N.odd q) then q + 1 else q in
  sh * 2 ^ 52 + q'.

Definition sign_bit (neg : bool) : N := if neg then 2 ^ 63 else 0.

(* out of float64's range: an error, as in encoding/json *)
Definition fin (neg : bool) (bits : N) (s : bytes) : option (N * bytes) :=
  if bits <? 2047 * 2 ^ 52 then Some (sign_bit neg + bits, s) else None.

Definition rd_sign (s : bytes) : bool * bytes :=
  match s with
  | c :: r => if c =? 45 then (true, r) else (false, s)
  | [] => (false, s)
  end.

(* optional fraction: digits' value, their number, rest; None = '.' without digits *)
Definition rd_frac (s : bytes) : option (N * N * bytes) :=
  match s with
  | c :: r => if c =? 46
              then match read_digits r 0 0 with
                   | (v, n, r') => if n =? 0 then None else Some (v, n, r')
                   end
              else Some (0, 0, s)
  | [] => Some (0, 0, s)
  end.

(* optional exponent: Some (None, _) = absent, None = malformed *)
Definition rd_exp (s : bytes) : option (option (bool * N) * bytes) :=
  match s with
  | c :: r =>
      if (c =? 101) || (c =? 69)
      then let (eneg, r1) := match r with
                             | c' :: r' => if c' =? 45 then (true, r') else if c' =? 43 then (false, r') else (false, r)
                             | [] => (false, r)
                             end in
           match read_digits r1 0 0 with
           | (v, n, r2) => if n =? 0 then None else Some (Some (eneg, v), r2)
           end
      else Some (None, s)
  | [] => Some (None, s)
  end.

(* a JSON number as float64 bits. A literal without fraction and exponent
   goes through float64(int) of the model (f64_of_Z); out of range (an
   integer of 2^1024 or more) is an error like any other number. *)
Definition read_number (s : bytes) : option (N * bytes) :=
  let (neg, s1) := rd_sign s in
  match read_digits s1 0 0 with
  | (ip, icnt, s2) =>
      if icnt =? 0 then None
      else match rd_frac s2 with
           | None => None
           | Some (fp, fcnt, s3) =>
               match rd_exp s3 with
               | None => None
               | Some (None, s4) =>
                   if fcnt =? 0
                   then let bits := if ip =? 0 then sign_bit neg
                                    else f64_of_Z (if neg then Z.opp (Z.of_N ip) else Z.of_N ip) in
                        if f64_finite bits then Some (bits, s4) else None
                   else fin neg (f64_of_Q (ip * 10 ^ fcnt + fp) (10 ^ fcnt)) s4
               | Some (Some (eneg, ev), s4) =>
                   let m := ip * 10 ^ fcnt + fp in
                   fin neg (if eneg then f64_of_Q m (10 ^ (fcnt + ev)) else f64_of_Q (m * 10 ^ ev) (10 ^ fcnt)) s4
               end
           end
  end.

Definition print_int (z : Z) : bytes := (if (z <? 0)%Z then [45] else []) ++ dec (Z.abs_N z).

(* The float64 with bits b is m * 2^(s0 - 1074) with m, s0 as below; written
   as the integer m * 2^j * 5^k followed by e-k, where k = 1074 - s0 and
   j = s0 - 1074 (one of them is 0): exactly the value. *)
Definition f64_print (b : N) : bytes :=
  let rest := b mod 2 ^ 63 in
  let e := rest / 2 ^ 52 in
  let f := rest mod 2 ^ 52 in
  let m := if e =? 0 then f else 2 ^ 52 + f in
  let s0 := if e =? 0 then 0 else e - 1 in
  let k := 1074 - s0 in
  let j := s0 - 1074 in
  (if 2 ^ 63 <=? b then [45] else []) ++ dec (m * 2 ^ j * 5 ^ k) ++ [101; 45] ++ dec k.

(* ----------------------------------------------------------------- strings *)

Definition esc_byte (b : N) : bytes :=
  if b =? 34 then [92; 34]
  else if b =? 92 then [92; 92]
  else if b <? 32 then [92; 117; 48; 48; digit_char (b / 16); digit_char (b mod 16)]
  else [b].

Definition jquote (s : bytes) : bytes := 34 :: flat_map esc_byte s ++ [34].

Definition hexv (c : N) : option N :=
  match char_digit c with
  | Some d => if d <? 16 then Some d else None
  | None => None
  end.

(* a code point of the basic plane in UTF-8; a lone surrogate becomes U+FFFD *)
Definition utf8_enc (cp : N) : bytes :=
  if cp <? 128 then [cp]
  else if cp <? 2048 then [192 + cp / 64; 128 + cp mod 64]
  else if in_rng 55296 57343 cp then [239; 191; 189]
  else [224 + cp / 4096; 128 + (cp / 64) mod 64; 128 + cp mod 64].

Definition unesc (e : N) : option N :=
  if (e =? 34) || (e =? 92) || (e =? 47) then Some e
  else if e =? 98 then Some 8 else if e =? 102 then Some 12 else if e =? 110 then Some 10
  else if e =? 114 then Some 13 else if e =? 116 then Some 9 else None.

(* after the opening quote: the decoded string and what follows the closing quote *)
Fixpoint read_str (s : bytes) (acc : bytes) : option (bytes * bytes) :=
  match s with
  | [] => None
  | c :: r =>
      if c =? 34 then Some (rev acc, r)
      else if c =? 92 then
        match r with
        | [] => None
        | e :: r1 =>
            if e =? 117 then
              match r1 with
              | h1 :: h2 :: h3 :: h4 :: r2 =>
                  match hexv h1, hexv h2, hexv h3, hexv h4 with
                  | Some a, Some b, Some c', Some d =>
                      read_str r2 (rev (utf8_enc (((a * 16 + b) * 16 + c') * 16 + d)) ++ acc)
                  | _, _, _, _ => None
                  end
              | _ => None
              end
            else match unesc e with
                 | Some x => read_str r1 (x :: acc)
                 | None => None
                 end
        end
      else if c <? 32 then None
      else read_str r (c :: acc)
  end.

(* ------------------------------------------------------------------ values *)

(* json.Marshal refuses NaN and the infinities *)
Fixpoint jok (d : dval) : bool :=
  match d with
  | DFloat b => f64_finite b
  | DList l => (fix go (l : list dval) : bool :=
                  match l with [] => true | x :: t => jok x && go t end) l
  | DMap m => (fix go (m : list (bytes * dval)) : bool :=
                 match m with [] => true | kv :: t => jok (snd kv) && go t end) m
  | _ => true
  end.

Definition lit_null : bytes := [110; 117; 108; 108].
Definition lit_true : bytes := [116; 114; 117; 101].
Definition lit_false : bytes := [102; 97; 108; 115; 101].

Fixpoint jprint (d : dval) : bytes :=
  match d with
  | DNull => lit_null
  | DBool b => if b then lit_true else lit_false
  | DInt z => print_int z
  | DFloat b => f64_print b
  | DStr s => jquote (u8_coerce s)
  | DList l =>
      91 :: match l with
            | [] => [93]
            | x :: t => jprint x ++ (fix tl (l : list dval) : bytes :=
                                       match l with
                                       | [] => [93]
                                       | y :: u => 44 :: jprint y ++ tl u
                                       end) t
            end
  | DMap m =>
      123 :: match m with
             | [] => [125]
             | kv :: t => jquote (u8_coerce (fst kv)) ++ 58 :: jprint (snd kv) ++
                          (fix tl (m : list (bytes * dval)) : bytes :=
                             match m with
                             | [] => [125]
                             | kw :: u => 44 :: jquote (u8_coerce (fst kw)) ++ 58 :: jprint (snd kw) ++ tl u
                             end) t
             end
  end.

(* json.Marshal *)
Definition jmarshal (d : dval) : option bytes := if jok d then Some (jprint d) else None.

Definition pres := option (dval * bytes).

Definition expect (lit : bytes) (s : bytes) (v : dval) : pres :=
  if is_prefix lit s then Some (v, skipn (length lit) s) else None.

(* a member key with its quotes, then the colon *)
Definition read_key (s : bytes) : option (bytes * bytes) :=
  match s with
  | c :: r =>
      if c =? 34
      then match read_str r [] with
           | Some (k, c' :: r') => if c' =? 58 then Some (k, r') else None
           | _ => None
           end
      else None
  | [] => None
  end.

(* One level of the parser; pv, pt, pm are the parsers with less fuel for a
   value, the rest of an array after an element, the rest of an object after
   a member. *)
Definition pval_body (pv : bytes -> pres) (pt : bytes -> list dval -> pres)
                     (pm : bytes -> list (bytes * dval) -> pres) (s : bytes) : pres :=
  match s with
  | [] => None
  | c :: r =>
      if c =? 110 then expect lit_null s DNull
      else if c =? 116 then expect lit_true s (DBool true)
      else if c =? 102 then expect lit_false s (DBool false)
      else if c =? 34 then match read_str r [] with
                           | Some (x, r') => Some (DStr x, r')
                           | None => None
                           end
      else if c =? 91 then
        match pv r with
        | Some (x, r') => pt r' [x]
        | None => match r with
                  | c1 :: r1 => if c1 =? 93 then Some (DList [], r1) else None
                  | [] => None
                  end
        end
      else if c =? 123 then
        match read_key r with
        | Some (k, r') => match pv r' with
                          | Some (x, r'') => pm r'' [(k, x)]
                          | None => None
                          end
        | None => match r with
                  | c1 :: r1 => if c1 =? 125 then Some (DMap [], r1) else None
                  | [] => None
                  end
        end
      else match read_number s with
           | Some (b, r') => Some (DFloat b, r')
           | None => None
           end
  end.

Definition ptail_body (pv : bytes -> pres) (pt : bytes -> list dval -> pres)
                      (s : bytes) (acc : list dval) : pres :=
  match s with
  | [] => None
  | c :: r =>
      if c =? 93 then Some (DList (rev acc), r)
      else if c =? 44 then match pv r with
                           | Some (x, r') => pt r' (x :: acc)
                           | None => None
                           end
      else None
  end.

Definition pmtail_body (pv : bytes -> pres) (pm : bytes -> list (bytes * dval) -> pres)
                       (s : bytes) (acc : list (bytes * dval)) : pres :=
  match s with
  | [] => None
  | c :: r =>
      if c =? 125 then Some (DMap (rev acc), r)
      else if c =? 44 then match read_key r with
                           | Some (k, r') => match pv r' with
                                             | Some (x, r'') => pm r'' ((k, x) :: acc)
                                             | None => None
                                             end
                           | None => None
                           end
      else None
  end.

(* (the input is an argument of the fixpoints so that `pval f` is a value
   under call-by-value evaluation) *)
Fixpoint pval (fuel : nat) (s : bytes) {struct fuel} : pres :=
  match fuel with
  | O => None
  | S f => pval_body (pval f) (ptail f) (pmtail f) s
  end
with ptail (fuel : nat) (s : bytes) (acc : list dval) {struct fuel} : pres :=
  match fuel with
  | O => None
  | S f => ptail_body (pval f) (ptail f) s acc
  end
with pmtail (fuel : nat) (s : bytes) (acc : list (bytes * dval)) {struct fuel} : pres :=
  match fuel with
  | O => None
  | S f => pmtail_body (pval f) (pmtail f) s acc
  end.

(* json.Unmarshal into interface{}: one value, then the end of the input *)
Definition jparse (s : bytes) : option dval :=
  match pval (S (length s)) s with
  | Some (d, []) => Some d
  | _ => None
  end.

(* ---------------------- MarshalJSON / UnmarshalJSON down to the byte string *)

(* the numbers in the tree are Go values: every float64 a 64-bit pattern,
   every int a 64-bit int *)
Fixpoint num_wf (d : dval) : bool :=
  match d with
  | DFloat b => b <? 2 ^ 64
  | DInt z => ((- 2 ^ 63 <=? z) && (z <? 2 ^ 63))%Z
  | DList l => (fix go (l : list dval) : bool :=
                  match l with [] => true | x :: t => num_wf x && go t end) l
  | DMap m => (fix go (m : list (bytes * dval)) : bool :=
                 match m with [] => true | kv :: t => num_wf (snd kv) && go t end) m
  | _ => true
  end.

Definition sess_num_wf (s : csess) : bool :=
  match cs_user s with Some u => num_wf (u_id u) | None => true end &&
  num_wf (DMap (data_or_empty (cs_data s))).

(* MarshalJSON: the map it builds (json_tree), handed to json.Marshal *)
Definition json_marshal_bytes (fmt_time : bytes -> gtime -> bytes) (enc : list mblock) (s : csess)
  : result bytes :=
  rbind (json_tree fmt_time enc s) (fun t =>
    match jmarshal (DMap t) with
    | Some b => Ok b
    | None => Err
    end).

(* UnmarshalJSON: json.Unmarshal, then the validation cascade *)
Definition json_unmarshal_bytes (load : loader) (parse_time : bytes -> bytes -> option gtime)
                                (dec : list ublock) (b : bytes) : result csess :=
  match jparse b with
  | Some j => json_unmarshal load parse_time dec j
  | None => Err
  end.

Definition json_roundtrip_bytes load fmt_time parse_time (enc : list mblock) (dec : list ublock) (s : csess)
  : result csess :=
  rbind (json_marshal_bytes fmt_time enc s) (json_unmarshal_bytes load parse_time dec).
