(* Histories: clients with cookie jars issuing requests with handler scripts,
   waits, purges, cache loss, restarts, user-wide logouts and refreshes,
   configuration changes. run folds the API of Model/Sess.v over a history and
   emits one observation per step. Executable, no proofs. DESIGN.md §2.3. *)
From Sessions Require Import Model.Base Model.Sess.

Inductive present := PJar | PForge (c : cval).

Record reqstep := mkReqStep {
  rq_client : N; rq_present : present; rq_create : bool; rq_addr : addr; rq_ua : N;
  rq_script : list sop;
  rq_tb : list key;          (* observed order of flush saves in this step *)
  rq_plan : list bool;       (* which persistence calls of this step fail *)
  rq_crash : option nat }.   (* the process stops after this many persistence calls *)

Inductive hop :=
  | HReq (r : reqstep)
  | HWait (d : Z)
  | HPurge (tbl : list key) (pl : list bool)
  | HDropCache
  | HRestart
  | HLogoutUser (u : N) (tbl : list key) (pl : list bool)
  | HRefreshUser (u : user) (tbl : list key) (pl : list bool)
  | HSetCfg (c : cfg).

(* Result class of a step. *)
Inductive rclass :=
  | RSess            (* Start returned a session *)
  | RNone            (* Start returned nil, nil *)
  | RErr (e : site)
  | RPanic (e : site)
  | RVoid            (* a step that is not a request and returned no error *)
  | RCrashed.        (* the process stopped inside the step *)

(* One observation per step. Everything the correspondence compares and the
   oracles read; the same record is produced by the model and written by the
   harness from what the real code did. *)
Record obs := mkObs {
  ob_res : rclass;
  ob_start : option (key * rec);      (* the session Start returned: its ID and fields at return *)
  ob_cookies : list cookie;           (* every Set-Cookie of the response, in order *)
  ob_script : list sres;              (* what each handler operation returned *)
  ob_final : option (key * rec);      (* the handler's session after the script *)
  ob_evs : list ev;                   (* persistence calls of the step, in order *)
  ob_cache : list (key * obj);        (* cache after the step, sorted by ID *)
  ob_store : list (key * rec);        (* store after the step, sorted by ID *)
  ob_expired : list bool;             (* Expired() of each stored record, in that order *)
  ob_jar : cval;                      (* the client's cookie jar after the step *)
  ob_now : Z;                         (* clock after the step *)
  ob_drawn : N }.                     (* IDs generated so far *)

Record world := mkWorld { w_st : st; w_jars : list (N * cval) }.

Fixpoint jar_of (jars : list (N * cval)) (c : N) : cval :=
  match jars with
  | [] => CNone
  | (c', v) :: t => if N.eqb c c' then v else jar_of t c
  end.

Fixpoint jar_set (jars : list (N * cval)) (c : N) (v : cval) : list (N * cval) :=
  match jars with
  | [] => [(c, v)]
  | (c', v') :: t => if N.eqb c c' then (c, v) :: t else (c', v') :: jar_set t c v
  end.

(* A browser applying the Set-Cookie headers of a response in order. *)
Definition apply_cookies (jar : cval) (cks : list cookie) : cval :=
  fold_left (fun j ck => match ck with CkLive k => CKey k | CkDelete => CNone | CkBad _ => j end) cks jar.

(* --- sorting of the final views by key --- *)
Definition key_leb (a b : key) : bool :=
  match a, b with
  | KGen x, KGen y => (x <=? y)%N
  | KGen _, KJunk _ => true
  | KJunk _, KGen _ => false
  | KJunk x, KJunk y => (x <=? y)%N
  end.

Fixpoint insert_sorted {A} (e : key * A) (l : list (key * A)) : list (key * A) :=
  match l with
  | [] => [e]
  | x :: t => if key_leb (fst e) (fst x) then e :: x :: t else x :: insert_sorted e t
  end.

Definition sort_by_key {A} (l : list (key * A)) : list (key * A) :=
  fold_right insert_sorted [] l.

Definition cache_view (s : st) : list (key * obj) :=
  sort_by_key (flat_map (fun e => match hget s (snd e) with
                                  | Some ob => [(fst e, ob)]
                                  | None => []
                                  end) (cache s)).

Definition handle_view (s : st) (o : nat) : option (key * rec) :=
  match hget s o with Some ob => Some (o_id ob, o_rec ob) | None => None end.

(* Run the handler script; stops after SDestroy (no calls on a destroyed
   session) and after a panic. Fires due clean-ups after every call. *)
Fixpoint run_script (s : st) (o : nat) (had_ck : bool) (ops : list sop) : st * list sres * list cookie :=
  match ops with
  | [] => (s, [], [])
  | op :: t =>
    let '(s, r, cks) := do_sop s o had_ck op in
    let s := fire_due s in
    let stop := match op, r with SDestroy, _ => true | _, SPanic _ => true | _, _ => false end in
    if stop then (s, [r], cks)
    else let '(s, rs, cks') := run_script s o had_ck t in (s, r :: rs, cks ++ cks')
  end.

(* The store after the first n successful persistence calls of a step: the
   pre-state store with the step's first n events applied (oldest first). *)
(* The prefix of an event list (oldest first) up to and including the n-th
   persistence call; draws are not persistence calls. *)
Fixpoint ev_prefix (l : list ev) (n : nat) : list ev :=
  match n, l with
  | O, _ => []
  | _, [] => []
  | S m, EvDraw d :: t => EvDraw d :: ev_prefix t (S m)
  | S m, e :: t => e :: ev_prefix t m
  end.

(* Effect of a persistence call on the store and its index of deleted IDs. *)
Definition apply_ev (sg : list (key * rec) * list (key * option N)) (e : ev) :=
  let '(stor, gr) := sg in
  match e with
  | EvSave k r true => (upsert stor k r, gr)
  | EvDelete k true =>
    (remove stor k,
     match lookup stor k with
     | Some r => upsert gr k (match r_user r with Some (u, _) => Some u | None => None end)
     | None => gr
     end)
  | _ => sg
  end.

Definition count_draws (l : list ev) : N :=
  fold_left (fun n e => match e with EvDraw _ => (n + 1)%N | _ => n end) l 0%N.

Definition mk_obs (res : rclass) (st0 : option (key * rec)) (cks : list cookie) (sr : list sres)
           (fin : option (key * rec)) (s : st) (jar : cval) : obs :=
  mkObs res st0 cks sr fin (rev (evs s)) (cache_view s) (sort_by_key (store s))
        (map (fun kr => expired (conf s) (snd kr) (now s)) (sort_by_key (store s))) jar (now s) (supply s).

(* Everything in memory is lost; the store stays. *)
Definition restart (s : st) : st := set_pending (set_cache s []) [].

Definition step (w : world) (h : hop) : world * obs :=
  let s := set_evs (w_st w) [] in
  match h with
  | HReq r =>
    let jar := jar_of (w_jars w) (rq_client r) in
    let ck := match rq_present r with PJar => jar | PForge c => c end in
    let q := mkReq ck (rq_create r) (rq_addr r) (rq_ua r) in
    let s1 := set_tb (set_plan s (rq_plan r)) (rq_tb r) in
    let '(s2, res, cks) := start s1 q in
    let s2 := fire_due s2 in
    let '(s3, rc, st0, sr, fin, cks) :=
      match res with
      | Ok (Some o) =>
        let v := handle_view s2 o in
        let '(s3, sr, cks') := run_script s2 o (had_cookie q) (rq_script r) in
        (s3, RSess, v, sr, handle_view s3 o, cks ++ cks')
      | Ok None => (s2, RNone, None, [], None, cks)
      | Err e => (s2, RErr e, None, [], None, cks)
      | Panic e => (s2, RPanic e, None, [], None, cks)
      end in
    let s3 := set_tb (set_plan s3 []) [] in
    match rq_crash r with
    | Some n =>
      (* the process stopped after n persistence calls: the store is frozen
         there, memory and pending work are lost, no response was sent *)
      let pre := ev_prefix (rev (evs s3)) n in
      let '(stor, gr) := fold_left apply_ev pre (store s, graves s) in
      let s4 := restart (set_supply (set_graves (set_store (set_evs s3 (rev pre)) stor) gr)
                                    (supply s + count_draws pre)%N) in
      (mkWorld s4 (w_jars w), mk_obs RCrashed None [] [] None s4 jar)
    | None =>
      let jar' := match rq_present r with
                  | PJar => apply_cookies jar cks
                  | PForge _ => jar      (* a forged request is not the client's browser *)
                  end in
      (mkWorld s3 (jar_set (w_jars w) (rq_client r) jar'), mk_obs rc st0 cks sr fin s3 jar')
    end
  | HWait d =>
    let s1 := fire_due (set_now s (now s + d)%Z) in
    (mkWorld s1 (w_jars w), mk_obs RVoid None [] [] None s1 CNone)
  | HPurge tbl pl =>
    let s1 := set_tb (set_plan (purge (set_tb (set_plan s pl) tbl)) []) [] in
    (mkWorld s1 (w_jars w), mk_obs RVoid None [] [] None s1 CNone)
  | HDropCache =>
    let s1 := set_cache s [] in
    (mkWorld s1 (w_jars w), mk_obs RVoid None [] [] None s1 CNone)
  | HRestart =>
    let s1 := restart s in
    (mkWorld s1 (w_jars w), mk_obs RVoid None [] [] None s1 CNone)
  | HLogoutUser u tbl pl =>
    let '(s1, r) := logout_user (set_tb (set_plan s pl) tbl) u in
    let s1 := fire_due (set_tb (set_plan s1 []) []) in
    let rc := match r with Ok _ => RVoid | Err e => RErr e | Panic e => RPanic e end in
    (mkWorld s1 (w_jars w), mk_obs rc None [] [] None s1 CNone)
  | HRefreshUser u tbl pl =>
    let '(s1, r) := refresh_user (set_tb (set_plan s pl) tbl) u in
    let s1 := fire_due (set_tb (set_plan s1 []) []) in
    let rc := match r with Ok _ => RVoid | Err e => RErr e | Panic e => RPanic e end in
    (mkWorld s1 (w_jars w), mk_obs rc None [] [] None s1 CNone)
  | HSetCfg c =>
    let s1 := set_conf s c in
    (mkWorld s1 (w_jars w), mk_obs RVoid None [] [] None s1 CNone)
  end.

Fixpoint run_from (w : world) (h : list hop) : list obs :=
  match h with
  | [] => []
  | x :: t => let '(w', o) := step w x in o :: run_from w' t
  end.

Definition run (c : cfg) (h : list hop) : list obs := run_from (mkWorld (init_st c) []) h.
