(* Case records of harness family `codeclaws` (audit task A8): the three
   clauses of json_lib_ok (Proofs/CodecLaws2.v) stated on observations of the
   real time and encoding/json, and the concrete library of Model/Rfc3339.v,
   Model/JsonLib.v compared with the real one. Executable, no proofs. *)
From Sessions Require Import Model.Base Model.Codec Model.Rfc3339 Model.JsonLib.
Local Open Scope N_scope.

Record law_case := mkLW {
  lw_t : gtime;                 (* an instant *)
  lw_text : bytes;              (* t.Format(time.RFC3339) *)
  lw_back : option gtime;       (* time.Parse(time.RFC3339, that text) *)
  lw_ascii : bytes;             (* an ASCII string *)
  lw_ascii_back : bytes;        (* through json.Marshal and json.Unmarshal into interface{} *)
  lw_val : dval;                (* a Go value *)
  lw_bytes : bytes;             (* json.Marshal of it ([] if it fails) *)
  lw_tree : option dval }.      (* json.Unmarshal of those bytes into interface{} *)

(* clause 1: ASCII strings come back unchanged *)
Definition law1_ok (c : law_case) : bool :=
  all_ascii (lw_ascii c) && bytes_eqb (lw_ascii_back c) (lw_ascii c).
(* clause 2: RFC 3339 text is ASCII, for every instant *)
Definition law2_ok (c : law_case) : bool := all_ascii (lw_text c).
(* clause 3: inside RFC 3339's domain the text parses back to the instant
   floored to the second, same offset *)
Definition law3_ok (c : law_case) : bool :=
  negb (rfc_dom (lw_t c)) || opt_eqb gtime_eqb (lw_back c) (Some (floor_sec (lw_t c))).

(* the concrete RFC 3339 library writes and reads what the real one does,
   inside the domain *)
Definition rfc_inst_ok (c : law_case) : bool :=
  negb (rfc_dom (lw_t c)) ||
  (bytes_eqb (rfc3339_format (lw_t c)) (lw_text c) &&
   opt_eqb gtime_eqb (rfc3339_parse (lw_text c)) (lw_back c)).

(* the concrete JSON parser reads the real Marshal output as the real
   Unmarshal does, and `reparse` gives the tree the real library gives
   (None: Marshal fails) *)
Definition json_inst_ok (c : law_case) : bool :=
  match lw_tree c with
  | Some _ => opt_eqb dval_eqb (jparse (lw_bytes c)) (lw_tree c)
  | None => true
  end &&
  opt_eqb dval_eqb (reparse u8_coerce (lw_val c)) (lw_tree c).

(* the concrete printer and parser together give that tree too (costly for
   floats of small magnitude: exact decimal expansions of up to 1074 digits) *)
Definition json_print_ok (c : law_case) : bool :=
  opt_eqb dval_eqb (match jmarshal (lw_val c) with Some b => jparse b | None => None end) (lw_tree c).

Definition law1_failures (cs : list law_case) : list N := failing law1_ok cs 0.
Definition law2_failures (cs : list law_case) : list N := failing law2_ok cs 0.
Definition law3_failures (cs : list law_case) : list N := failing law3_ok cs 0.
Definition rfc_inst_mismatches (cs : list law_case) : list N := failing rfc_inst_ok cs 0.
Definition json_inst_mismatches (cs : list law_case) : list N := failing json_inst_ok cs 0.
Definition json_print_mismatches (cs : list law_case) : list N := failing json_print_ok cs 0.
