(* Bridge between the two models of a stored session (round 4, task R5; DESIGN
   9.17 finding 12). Executable, no proofs.

   Model/Sess.v abstracts "what the store holds after the persistence layer
   encoded the session and what it yields when it decodes it again" into one
   function, Sess.codec : cfg -> rec -> rec, over records whose data values are
   opaque numbers. Model/Codec.v (+ JsonLib, Rfc3339, GobWire) models the real
   field layouts, value trees, time text and JSON conversions of session.go's
   GobEncode/GobDecode and MarshalJSON/UnmarshalJSON on Codec.csess. This file
   embeds the first kind of record into the second (emb_rec), projects back
   (proj_rec) and names the composite "encode, then decode" of the codec model
   for the codec a configuration selects (decode_encode), so that
   Proofs/CodecBridge*.v can state that the two models agree.

   The embedding (every choice is a class the codec model proves stable):
   - an instant t (nanoseconds on the model's clock, whose 0 is the harness's
     2000-01-01T00:00:00Z) is the Go time.Time with Unix second
     946684800 + floor(t / 10^9), nanosecond t mod 10^9, zone UTC (offset 0:
     what time.Now() yields on the harness's clock, restored exactly by
     time's binary form and written as "Z" by RFC 3339);
   - remote address, reference ID, user ID, data keys and data values are
     ASCII strings (decimal text): the class on which JSON's string
     conversion (invalid UTF-8 -> U+FFFD) is the identity; the user ID and
     the data values are Go strings held in an interface{} (DStr), which is
     what the session histories of the harness store. Numbers are NOT in the
     stable class: an int comes back from JSON as a float64 (C17;
     Proofs/CodecBridge4.v has the witnesses). The bridge therefore covers
     string user IDs and string data values only. Integer user IDs, which C16
     names, are outside it: gob hands LoadUser the int unchanged, JSON hands
     it a float64, so a loader keyed on the int fails or must accept the
     float (witness: ex_int_user_sess, C09B_json_int_user_refuted);
   - the user-agent hash is the uint64 itself;
   - a user (id, version) is the object with GetID() = text of id and tag =
     version; LoadUser (bridge_load) yields the object with the same ID and
     version 0, as Sess.codec says.
   The texts are injective renderings, not the real 24-character IDs or
   net/http's RemoteAddr syntax beyond "a.b.c.d:p": both codecs treat these
   fields as opaque strings, so only ASCII-ness and injectivity matter here
   (the address pattern is the subject of C06A). *)
From Sessions Require Import Model.Base Model.Codec Model.JsonLib Model.Rfc3339 Model.GobWire Gen.Layout.
From Sessions Require Model.Sess.
Local Open Scope N_scope.

(* ------------------------------------------------------------------ texts *)

(* a non-empty run of decimal digits and what follows it *)
Definition rd_n (s : bytes) : option (N * bytes) :=
  match read_digits s 0 0 with
  | (n, c, rest) => if c =? 0 then None else Some (n, rest)
  end.

(* a string that is one decimal number *)
Definition rd_all (s : bytes) : option N :=
  match rd_n s with
  | Some (n, []) => Some n
  | _ => None
  end.

(* "a.b.c.d:p"; anything else: "[n]" *)
Definition addr_txt (a : Sess.addr) : bytes :=
  match a with
  | Sess.V4 a b c d p => dec a ++ 46 :: dec b ++ 46 :: dec c ++ 46 :: dec d ++ 58 :: dec p
  | Sess.AOther n => 91 :: dec n ++ [93]
  end.

Definition txt_v4 (s : bytes) : option Sess.addr :=
  match rd_n s with
  | Some (a, 46 :: s1) =>
    match rd_n s1 with
    | Some (b, 46 :: s2) =>
      match rd_n s2 with
      | Some (c, 46 :: s3) =>
        match rd_n s3 with
        | Some (d, 58 :: s4) =>
          match rd_all s4 with
          | Some p => Some (Sess.V4 a b c d p)
          | None => None
          end
        | _ => None
        end
      | _ => None
      end
    | _ => None
    end
  | _ => None
  end.

Definition txt_addr (s : bytes) : option Sess.addr :=
  match s with
  | [] => None
  | x :: t =>
    if x =? 91
    then match rd_n t with
         | Some (n, [93]) => Some (Sess.AOther n)
         | _ => None
         end
    else txt_v4 s
  end.

(* session IDs: "g<n>" for the n-th generated ID, "j<n>" for a value the
   server never generated *)
Definition key_txt (k : Sess.key) : bytes :=
  match k with
  | Sess.KGen n => 103 :: dec n
  | Sess.KJunk n => 106 :: dec n
  end.

Definition txt_key (s : bytes) : option Sess.key :=
  match s with
  | 103 :: t => option_map Sess.KGen (rd_all t)
  | 106 :: t => option_map Sess.KJunk (rd_all t)
  | _ => None
  end.

(* referenceID: "" when the session replaces no other *)
Definition ref_txt (r : option Sess.key) : bytes :=
  match r with Some k => key_txt k | None => [] end.

Definition txt_ref (s : bytes) : option (option Sess.key) :=
  match s with
  | [] => Some None
  | _ => option_map Some (txt_key s)
  end.

(* --------------------------------------------------------------- instants *)

Definition epoch_sec : Z := 946684800.      (* 2000-01-01T00:00:00Z *)
Definition nano : N := 1000000000.

Definition emb_time (t : Z) : gtime :=
  mkTime (epoch_sec + t / Sess.second) (Z.to_N (t mod Sess.second)) 0.

Definition proj_time (g : gtime) : option Z :=
  if (t_off g =? 0)%Z && (t_nsec g <? nano)
  then Some ((t_sec g - epoch_sec) * Sess.second + Z.of_N (t_nsec g))%Z
  else None.

(* ------------------------------------------------------------ user and data *)

Definition emb_uid (u : N) : dval := DStr (dec u).

Definition proj_uid (d : dval) : option N :=
  match d with DStr s => rd_all s | _ => None end.

Definition emb_user (u : Sess.user) : cuser := mkUser (emb_uid (fst u)) (snd u).

Definition proj_user (o : option cuser) : option (option Sess.user) :=
  match o with
  | None => Some None
  | Some cu => match proj_uid (u_id cu) with
               | Some n => Some (Some (n, u_tag cu))
               | None => None
               end
  end.

Definition emb_kv (kv : N * N) : bytes * dval := (dec (fst kv), DStr (dec (snd kv))).

Definition emb_data (d : list (N * N)) : list (bytes * dval) := map emb_kv d.

Fixpoint proj_data (m : list (bytes * dval)) : option (list (N * N)) :=
  match m with
  | [] => Some []
  | (k, v) :: t =>
    match rd_all k, proj_uid v, proj_data t with
    | Some k', Some v', Some t' => Some ((k', v') :: t')
    | _, _, _ => None
    end
  end.

Definition proj_odata (o : option (list (bytes * dval))) : option (option (list (N * N))) :=
  match o with
  | None => Some None
  | Some m => option_map Some (proj_data m)
  end.

(* ----------------------------------------------------------------- records *)

Definition emb_rec (r : Sess.rec) : csess :=
  mkSess (emb_time (Sess.r_created r)) (emb_time (Sess.r_access r)) (addr_txt (Sess.r_ip r))
         (Sess.r_ua r) (ref_txt (Sess.r_ref r)) (option_map emb_user (Sess.r_user r))
         (option_map emb_data (Sess.r_data r)).

Definition proj_rec (s : csess) : option Sess.rec :=
  match proj_time (cs_created s), proj_time (cs_access s), txt_addr (cs_ip s),
        txt_ref (cs_ref s), proj_user (cs_user s), proj_odata (cs_data s) with
  | Some cr, Some ac, Some ip, Some rf, Some us, Some da =>
      Some (Sess.mkRec cr ac ip (cs_ua s) rf us da)
  | _, _, _, _, _, _ => None
  end.

Definition proj_result (r : result csess) : option Sess.rec :=
  match r with Ok s => proj_rec s | _ => None end.

(* ------------------------------------------------- the codec model's side *)

(* Persistence.LoadUser as Sess.codec takes it: the user with that ID, in
   version 0 *)
Definition bridge_load : loader := fun id => Some (Some (mkUser id 0)).

(* SaveSession followed by LoadSession in a serialising store: session.go's
   encoder for the configured codec, down to the byte string, and its decoder
   (Model/GobWire.v, Model/JsonLib.v + Model/Rfc3339.v), on the tables the
   translator regenerates from session.go (Gen/Layout.v). *)
Definition decode_encode (c : Sess.cfg) (s : csess) : result csess :=
  if Sess.c_json c
  then json_roundtrip_bytes bridge_load lib_fmt_time lib_parse_time json_enc json_dec s
  else gob_roundtrip_bytes bridge_load gob_version gob_enc gob_dec s.

(* the same with any LoadUser *)
Definition decode_encode_with (load : loader) (c : Sess.cfg) (s : csess) : result csess :=
  if Sess.c_json c
  then json_roundtrip_bytes load lib_fmt_time lib_parse_time json_enc json_dec s
  else gob_roundtrip_bytes load gob_version gob_enc gob_dec s.

(* the closed boolean every JSON theorem of the bridge has as premise (C17:
   json_da_null_ok, Proofs/CodecDefs.v - the same term): does UnmarshalJSON, as
   the regenerated table has it, accept the null MarshalJSON writes for nil
   data? false = defect D3 *)
Definition da_null_ok_now : bool := null_ok_for k_da json_dec.

(* ------------------------------------------------------------------ guards *)

(* RFC 3339 writes local years 0..9999 only (C17's domain); on the model's
   clock: the instant lies between 0000-01-01 and 9999-12-31 *)
Definition inst_ok (t : Z) : bool :=
  ((-62167219200 <=? epoch_sec + t / Sess.second) && (epoch_sec + t / Sess.second <? 253402300800))%Z.

(* gob restores every record of the session model; JSON needs the instants in
   RFC 3339's domain and the fingerprint to be a uint64 (it is one in Go) *)
Definition bridge_dom (c : Sess.cfg) (r : Sess.rec) : bool :=
  if Sess.c_json c
  then inst_ok (Sess.r_created r) && inst_ok (Sess.r_access r) && (Sess.r_ua r <? 2 ^ 64)
  else true.

(* an instant Go can hold as int64 nanoseconds relative to the model's epoch *)
Definition inst64 (t : Z) : bool := ((min64 <=? t) && (t <=? max64))%Z.

(* ---------------------------------------------------------------- examples *)

Definition ex_cfg (json : bool) : Sess.cfg := Sess.mkCfg 100 10 5 50 8 2 false json.

(* a logged-in session with data, sub-second instants *)
Definition ex_rec : Sess.rec :=
  Sess.mkRec 1500000123 86400999999999 (Sess.V4 10 0 0 1 54321) 12345678901234567890
             None (Some (7, 3)) (Some [(1, 10); (2, 20)]).

(* a replaced-ID record: reference set, nil data, no user *)
Definition ex_rec_replaced : Sess.rec :=
  Sess.mkRec 2000000000 2000000000 (Sess.AOther 4) 5 (Some (Sess.KGen 9)) None None.

(* the same session as ex_rec, but with an integer as data value *)
Definition ex_int_sess : csess :=
  Codec.set_data (Some [(dec 1, DInt 10)]) (emb_rec ex_rec).

(* the same session logged in as a user whose ID is the Go int 7 (the kind of
   ID C16 names), and a LoadUser that knows exactly that ID *)
Definition ex_int_user_sess : csess :=
  Codec.set_user (Some (mkUser (DInt 7) 3)) (emb_rec ex_rec).

Definition int7_load : loader :=
  fun id => if dval_eqb id (DInt 7) then Some (Some (mkUser id 0)) else None.

(* a LoadUser that records what it is handed: the user it returns carries the
   ID it was asked for *)
Definition echo_load : loader := fun id => Some (Some (mkUser id 0)).

(* ... and with a string that is not valid UTF-8 *)
Definition ex_bad_utf8_sess : csess :=
  Codec.set_data (Some [(dec 1, DStr [255])]) (emb_rec ex_rec).

(* ------------------------------------------------ the JSON-stable class *)

(* Values that come back from JSON exactly as written: null, booleans, finite
   float64s, ASCII strings, and lists and maps (with ASCII keys) of such. A Go
   int is not among them (it comes back as a float64), nor is a string that
   is not valid UTF-8. (Valid non-ASCII UTF-8 also survives the real library;
   C17 assumes the identity on ASCII only, so the class stops there.) *)
Fixpoint jstable (d : dval) : bool :=
  match d with
  | DNull => true
  | DBool _ => true
  | DInt _ => false
  | DFloat b => f64_finite b
  | DStr s => all_ascii s
  | DList l => (fix go (l : list dval) : bool :=
                  match l with [] => true | x :: t => jstable x && go t end) l
  | DMap m => (fix go (m : list (bytes * dval)) : bool :=
                 match m with [] => true | kv :: t => all_ascii (fst kv) && jstable (snd kv) && go t end) m
  end.

Definition jstable_map (m : list (bytes * dval)) : bool :=
  forallb (fun kv => all_ascii (fst kv) && jstable (snd kv)) m.

(* -------------------------------------------- correspondence: stored records *)

(* The cross-check of checks/codec_bridge.py. The history families record what
   the real store holds (records after the real codec) behind gob and behind
   JSON. Every such record must be one the bridge covers (bridge_dom) and a
   fixed point of the codec model's round trip read back into the session
   model - the real codec's image lies in the image of the modelled one. *)
Definition opt_key_eqb (a b : option Sess.key) : bool :=
  match a, b with
  | Some x, Some y => Sess.key_eqb x y
  | None, None => true
  | _, _ => false
  end.

Definition opt_user_eqb (a b : option Sess.user) : bool :=
  match a, b with
  | Some (u, v), Some (u', v') => (u =? u') && (v =? v')
  | None, None => true
  | _, _ => false
  end.

Fixpoint kvs_eqb (a b : list (N * N)) : bool :=
  match a, b with
  | [], [] => true
  | (k, v) :: t, (k', v') :: t' => (k =? k') && (v =? v') && kvs_eqb t t'
  | _, _ => false
  end.

Definition rec_eqb (a b : Sess.rec) : bool :=
  (Sess.r_created a =? Sess.r_created b)%Z && (Sess.r_access a =? Sess.r_access b)%Z &&
  Sess.addr_eqb (Sess.r_ip a) (Sess.r_ip b) && (Sess.r_ua a =? Sess.r_ua b) &&
  opt_key_eqb (Sess.r_ref a) (Sess.r_ref b) && opt_user_eqb (Sess.r_user a) (Sess.r_user b) &&
  match Sess.r_data a, Sess.r_data b with
  | Some x, Some y => kvs_eqb x y
  | None, None => true
  | _, _ => false
  end.

(* 0: fine; 1: outside the guard; 2: the codec model's round trip fails or
   leaves the session model; 3: it yields another record *)
Definition bridge_fix (json : bool) (r : Sess.rec) : N :=
  let c := ex_cfg json in
  if negb (bridge_dom c r) then 1
  else match proj_result (decode_encode c (emb_rec r)) with
       | None => 2
       | Some r' => if rec_eqb r' r then 0 else 3
       end.

(* indices and codes of the observed records that are not fixed points *)
Fixpoint bridge_failures (cs : list (bool * Sess.rec)) (i : N) : list N :=
  match cs with
  | [] => []
  | (j, r) :: t =>
    let code := bridge_fix j r in
    if code =? 0 then bridge_failures t (i + 1) else i :: code :: bridge_failures t (i + 1)
  end.
