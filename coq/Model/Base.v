(* Base definitions shared by all models: byte strings, 64-bit arithmetic as Go
   performs it, small list helpers. Executable, no proofs. *)
From Coq Require Export List ZArith NArith Bool.
Export ListNotations.

(* A byte is an N below 256; a Go string is a list of bytes. *)
Definition bytes := list N.

Fixpoint bytes_eqb (a b : bytes) : bool :=
  match a, b with
  | [], [] => true
  | x :: a', y :: b' => N.eqb x y && bytes_eqb a' b'
  | _, _ => false
  end.

Fixpoint is_prefix (p s : bytes) : bool :=
  match p, s with
  | [], _ => true
  | x :: p', y :: s' => N.eqb x y && is_prefix p' s'
  | _ :: _, [] => false
  end.

(* strings.Contains s p *)
Fixpoint contains (s p : bytes) : bool :=
  is_prefix p s ||
  match s with
  | [] => false
  | _ :: s' => contains s' p
  end.

Definition is_byte (b : N) : bool := N.ltb b 256.
Definition all_bytes (s : bytes) : bool := forallb is_byte s.

(* Go int64 / time.Duration arithmetic. *)
Definition two63 : Z := 9223372036854775808.
Definition two64 : Z := 18446744073709551616.
Definition max64 : Z := 9223372036854775807.   (* math.MaxInt64 *)
Definition min64 : Z := (- 9223372036854775808)%Z.

(* two's-complement wrap into [-2^63, 2^63) *)
Definition wrap64 (z : Z) : Z := ((z + two63) mod two64 - two63)%Z.

(* Duration + Duration *)
Definition dadd (a b : Z) : Z := wrap64 (a + b).

(* saturation, as Time.Sub does *)
Definition clamp64 (z : Z) : Z :=
  if (z <? min64)%Z then min64 else if (max64 <? z)%Z then max64 else z.

(* time.Since(t) evaluated at instant now; instants are nanoseconds *)
Definition since (t now : Z) : Z := clamp64 (now - t).

(* Indices (from i) of the elements on which f is false. *)
Fixpoint failing {A} (f : A -> bool) (l : list A) (i : N) : list N :=
  match l with
  | [] => []
  | x :: t => if f x then failing f t (i + 1)%N else i :: failing f t (i + 1)%N
  end.
