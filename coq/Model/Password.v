(* Model of passwords.go: ReasonablePassword as the cascade the code is.
   Executable, no proofs. Constants come from Gen/Consts.v, regenerated from the
   Go source on every run. *)
From Sessions Require Import Model.Base Gen.Consts.

Inductive verdict :=
  | PasswordOK | PasswordTooShort | PasswordIsAName | PasswordWasCompromised
  | PasswordFoundInDictionary | PasswordRepetitive | PasswordSequential.

(* The values of the Go constants (iota order). *)
Definition verdict_code (v : verdict) : N :=
  match v with
  | PasswordOK => 0 | PasswordTooShort => 1 | PasswordIsAName => 2
  | PasswordWasCompromised => 3 | PasswordFoundInDictionary => 4
  | PasswordRepetitive => 5 | PasswordSequential => 6
  end%N.

(* ---- UTF-8, as Go's range-over-string and utf8.DecodeRuneInString ---- *)

Definition rune_error : N := 65533. (* U+FFFD *)

Definition is_cont (b : N) : bool := (128 <=? b)%N && (b <=? 191)%N.
Definition in_range (lo hi b : N) : bool := (lo <=? b)%N && (b <=? hi)%N.

(* Decode one rune from a non-empty string: rune and width. *)
Definition decode1 (s : bytes) : N * nat :=
  match s with
  | [] => (rune_error, 1)
  | b0 :: t =>
    if (b0 <? 128)%N then (b0, 1)
    else if in_range 194 223 b0 then
      match t with
      | b1 :: _ => if is_cont b1 then (((b0 - 192) * 64 + (b1 - 128))%N, 2) else (rune_error, 1)
      | _ => (rune_error, 1)
      end
    else if in_range 224 239 b0 then
      match t with
      | b1 :: b2 :: _ =>
        let lo := if (b0 =? 224)%N then 160%N else 128%N in
        let hi := if (b0 =? 237)%N then 159%N else 191%N in
        if in_range lo hi b1 && is_cont b2
        then (((b0 - 224) * 4096 + (b1 - 128) * 64 + (b2 - 128))%N, 3)
        else (rune_error, 1)
      | _ => (rune_error, 1)
      end
    else if in_range 240 244 b0 then
      match t with
      | b1 :: b2 :: b3 :: _ =>
        let lo := if (b0 =? 240)%N then 144%N else 128%N in
        let hi := if (b0 =? 244)%N then 143%N else 191%N in
        if in_range lo hi b1 && is_cont b2 && is_cont b3
        then (((b0 - 240) * 262144 + (b1 - 128) * 4096 + (b2 - 128) * 64 + (b3 - 128))%N, 4)
        else (rune_error, 1)
      | _ => (rune_error, 1)
      end
    else (rune_error, 1)
  end.

(* The runes of a string, as `for _, ch := range s` yields them. *)
Fixpoint runes_fuel (fuel : nat) (s : bytes) : list N :=
  match fuel with
  | O => []
  | S f =>
    match s with
    | [] => []
    | _ => let '(r, w) := decode1 s in r :: runes_fuel f (skipn w s)
    end
  end.
Definition runes (s : bytes) : list N := runes_fuel (length s) s.

(* utf8.EncodeRune / Builder.WriteRune *)
Definition encode_rune (r : N) : bytes :=
  if (r <? 128)%N then [r]
  else if (r <? 2048)%N then [192 + r / 64; 128 + r mod 64]%N
  else if in_range 55296 57343 r || (1114111 <? r)%N then [239; 191; 189]%N
  else if (r <? 65536)%N then [224 + r / 4096; 128 + (r / 64) mod 64; 128 + r mod 64]%N
  else [240 + r / 262144; 128 + (r / 4096) mod 64; 128 + (r / 64) mod 64; 128 + r mod 64]%N.

(* unicode.ToLower on U+0000..U+00FF; identity elsewhere (the correspondence
   check only generates runes on which this agrees with Go, and measures it). *)
Definition rune_lower (r : N) : N :=
  if in_range 65 90 r then (r + 32)%N
  else if in_range 192 222 r && negb (r =? 215)%N then (r + 32)%N
  else r.

(* strings.ToLower = strings.Map(unicode.ToLower, s): decode, map, re-encode;
   invalid bytes become U+FFFD. *)
Definition to_lower (s : bytes) : bytes :=
  flat_map (fun r => encode_rune (rune_lower r)) (runes s).

(* The repeated-character loop of ReasonablePassword: `first` ends non-zero
   iff all runes equal the first one and that rune is not NUL. *)
Definition repetitive (pw : bytes) : bool :=
  match runes pw with
  | [] => false
  | r :: rs => forallb (N.eqb r) rs && negb (r =? 0)%N
  end.

Section Cascade.
  (* The two embedded lists and the case-folding function are parameters: the
     theorems hold for all of them. *)
  Variables (common dict : list bytes) (tolower : bytes -> bytes).

  Definition reasonable (names : list bytes) (pw : bytes) : verdict :=
    if (N.of_nat (length pw) <? pw_min_len)%N then PasswordTooShort
    else if existsb (fun w => bytes_eqb (tolower pw) (tolower w)) names then PasswordIsAName
    else if existsb (bytes_eqb pw) common then PasswordWasCompromised
    else if existsb (bytes_eqb pw) dict then PasswordFoundInDictionary
    else if repetitive pw then PasswordRepetitive
    else if existsb (fun s => contains s (tolower pw)) pw_sequences then PasswordSequential
    else PasswordOK.
End Cascade.

(* ---- correspondence cases ---- *)

(* One observed call of the real ReasonablePassword: the password, the names,
   windows of the two lists (every entry of the real lists that equals the
   password is in its window — checked outside), Go's strings.ToLower of the
   password, and the value returned. *)
Record pw_case := {
  pc_pw : bytes; pc_names : list bytes; pc_common : list bytes; pc_dict : list bytes;
  pc_lower : bytes; pc_names_lower : list bytes; pc_result : N }.

Definition pw_case_ok (c : pw_case) : bool :=
  N.eqb (verdict_code (reasonable (pc_common c) (pc_dict c) to_lower (pc_names c) (pc_pw c)))
        (pc_result c).

Fixpoint bytes_list_eqb (a b : list bytes) : bool :=
  match a, b with
  | [], [] => true
  | x :: a', y :: b' => bytes_eqb x y && bytes_list_eqb a' b'
  | _, _ => false
  end.

(* Does the executable case fold agree with Go's on the strings of this case? *)
Definition pw_lower_ok (c : pw_case) : bool :=
  bytes_eqb (to_lower (pc_pw c)) (pc_lower c) &&
  bytes_list_eqb (map to_lower (pc_names c)) (pc_names_lower c).

Definition pw_mismatches (cs : list pw_case) : list N := failing pw_case_ok cs 0%N.
Definition pw_lower_mismatches (cs : list pw_case) : list N := failing pw_lower_ok cs 0%N.
