(* Timed replay of the real lock manager on Model/MutexTimed.v (C13/C14, audit
   task B3). Executable, no proofs.

   The harness family `mutextimed` (harness/mutex_timed_test.go) drives the real
   `mutexes` value inside a synctest bubble with the tunables set
   (mutexStaleMutexes = c_stale units, the real ticker purging every freq units),
   sleeping between commands, so that every command - and every transition of
   the manager and the workers it causes, since virtual time advances only while
   every goroutine of the bubble is blocked - has a known instant, in units since
   the creation of the manager. After every sleep and after every command it
   waits for quiescence (`synctest.Wait`) and records the lock table (`Table()`:
   keys and lock counters), who holds and who waits: a "quiescent point".

   Here the same timed schedule is built as a `list tevent` and run with
   `MutexTimed.trun`:

     - a purge request of the ticker at instant T (the instants t0 + n*freq that
       fall into the sleep before the point; the harness waits for quiescence
       after the sleep, so they are served before the point's commands) is
       `(T, TL LPurgeReq); (T, TPurge vis)` with `vis` every key of the table,
       as the loop `for key, item := range m.items` visits them; whether an
       entry is dropped is NOT taken from the observation: `tstep` computes it
       from the model's clock and lastAccess (`stale_bit`);
     - a command at instant t is `(t, TL (LStart g))` / `(t, TL (LLeave g))`
       followed, at the same instant, by the internal transitions
       `Mutex.next_label` finds (the choice among several goroutines blocked on
       one channel is the one observed to hold the key afterwards); an explicit
       purge request is served like the ticker's.

   Nothing restricts the schedule to the proviso of C13/C14 (`tadm`): holds
   longer than `stale` and spurious Unlocks of held keys are replayed like
   anything else, and where the real manager lets two goroutines into one key,
   so must the model. After every point the model must be quiescent and its
   table (keys and lock counts), holders and waiters must be the observed ones.

   The family runs with the default table limit, so `len(m.items) >
   mutexMaxCacheSize` is false throughout (c_max is kept in the case for the
   record; the bit is computed from it once per loop, which is exact whenever
   the table is not over its limit). *)
From Sessions Require Import Model.Base Model.Mutex Model.MutexTimed.

Inductive tcmd :=
| QStart (g : nat)      (* goroutine g performs its next script operation: Lock(k) or a spurious Unlock(k) *)
| QLeave (g : nat)      (* holder g calls Unlock *)
| QPurge.               (* `m.purge <- struct{}{}` by a helper goroutine *)

Record qpoint := mkQ {
  q_at : N;                        (* instant of the point and of its commands *)
  q_ticks : list N;                (* instants of the ticker's purge requests since the previous point, increasing, <= q_at *)
  q_cmds : list tcmd;
  q_table : list (nat * nat);      (* observed: key, locks *)
  q_holders : list (nat * nat);    (* observed: goroutine, key; by goroutine *)
  q_waiters : list (nat * nat) }.  (* observed: goroutine, key; by goroutine *)

Record tcase := mkTCase {
  c_stale : N;                     (* mutexStaleMutexes, in units *)
  c_limit : N;                     (* mutexMaxCacheSize *)
  c_tscripts : list (list op);
  c_points : list qpoint }.

Definition visit_all (mx : N) (st : state) : list (nat * bool) :=
  map (fun p => (fst p, N.ltb mx (N.of_nat (length (tbl st))))) (tbl st).

Definition purge_evs (mx : N) (st : state) (t : N) : list tevent :=
  [(t, TL LPurgeReq); (t, TPurge (visit_all mx st))].

(* run events one by one, keeping them (reversed) *)
Fixpoint tsteps (stale : N) (ts : tstate) (evs acc : list tevent) : option (tstate * list tevent) :=
  match evs with
  | [] => Some (ts, acc)
  | ev :: r => match tstep stale ts ev with Some ts' => tsteps stale ts' r (ev :: acc) | None => None end
  end.

(* the internal transitions up to quiescence, all at instant t *)
Fixpoint tsettle (fuel : nat) (stale mx : N) (holders : list (nat * nat)) (t : N) (ts : tstate) (acc : list tevent)
  : (tstate * list tevent) + N :=
  match fuel with
  | O => inr E_BUSY
  | S f =>
      match next_label mx holders (ust ts) with
      | None => inl (ts, acc)
      | Some l =>
          match tstep stale ts (t, TL l) with
          | Some ts' => tsettle f stale mx holders t ts' ((t, TL l) :: acc)
          | None => inr E_STUCK
          end
      end
  end.

Fixpoint sched_ticks (stale mx : N) (ticks : list N) (ts : tstate) (acc : list tevent) : (tstate * list tevent) + N :=
  match ticks with
  | [] => inl (ts, acc)
  | t :: r =>
      match tsteps stale ts (purge_evs mx (ust ts) t) acc with
      | Some (ts', acc') => sched_ticks stale mx r ts' acc'
      | None => inr E_STUCK
      end
  end.

Fixpoint sched_cmds (stale mx : N) (holders : list (nat * nat)) (t : N) (cs : list tcmd) (ts : tstate) (acc : list tevent)
  : (tstate * list tevent) + N :=
  match cs with
  | [] => inl (ts, acc)
  | c :: r =>
      let first :=
        match c with
        | QStart g => [(t, TL (LStart g))]
        | QLeave g => [(t, TL (LLeave g))]
        | QPurge => purge_evs mx (ust ts) t
        end in
      match tsteps stale ts first acc with
      | None => inr E_STUCK
      | Some (ts1, acc1) =>
          match tsettle (settle_fuel (ust ts1)) stale mx holders t ts1 acc1 with
          | inl (ts2, acc2) => sched_cmds stale mx holders t r ts2 acc2
          | inr e => inr e
          end
      end
  end.

(* the timed schedule between the previous quiescent point and q *)
Definition sched_point (stale mx : N) (q : qpoint) (ts : tstate) : list tevent + N :=
  match sched_ticks stale mx (q_ticks q) ts [] with
  | inr e => inr e
  | inl (ts1, acc1) =>
      match sched_cmds stale mx (q_holders q) (q_at q) (q_cmds q) ts1 acc1 with
      | inr e => inr e
      | inl (_, acc2) => inl (rev acc2)
      end
  end.

(* two goroutines inside one key *)
Definition excl_lost (st : state) : bool :=
  existsb (fun p => Nat.ltb 1 (cH st (fst p))) (tbl st) ||
  let hs := model_holders st in
  existsb (fun p => Nat.ltb 1 (length (filter (fun q => Nat.eqb (snd q) (snd p)) hs))) hs.

(* lastAccess is kept for exactly the entries of the table *)
Definition la_dom_ok (ts : tstate) : bool :=
  Nat.eqb (length (la ts)) (length (tbl (ust ts))) &&
  forallb (fun p => match mget (la ts) (fst p) with Some _ => true | None => false end) (tbl (ust ts)).

Definition E_LADOM : N := 10.      (* la and the table have different domains *)

Record tacc := mkAcc {
  a_ts : tstate;
  a_adm : bool;        (* the schedule so far is within the proviso (tadmb at every event) *)
  a_lost : bool;       (* at some quiescent point two goroutines were inside one key *)
  a_nev : N }.         (* events so far *)

Definition do_point (stale mx : N) (q : qpoint) (a : tacc) : tacc + N :=
  let ts := a_ts a in
  match sched_point stale mx q ts with
  | inr e => inr e
  | inl evs =>
      (* the schedule is now a plain list of timed events: run it *)
      match trun stale ts evs with
      | None => inr E_STUCK
      | Some ts' =>
          let st' := ust ts' in
          if negb (quiet st') then inr E_BUSY
          else if negb (la_dom_ok ts') then inr E_LADOM
          else if negb (table_agrees st' (q_table q)) then inr E_TABLE
          else if negb (pairs_eqb (model_holders st') (q_holders q)) then inr E_HOLD
          else if negb (pairs_eqb (model_waiters st') (q_waiters q)) then inr E_WAIT
          else inl (mkAcc ts' (a_adm a && trun_okb tadmb stale ts evs) (a_lost a || excl_lost st')
                          (a_nev a + N.of_nat (length evs)))
      end
  end.

(* code (0, or 16 * (point index + 1) + error), within the proviso so far,
   exclusion lost so far, events so far *)
Fixpoint do_points (stale mx : N) (qs : list qpoint) (i : N) (a : tacc) : list N :=
  let b2n (b : bool) : N := if b then 1%N else 0%N in
  match qs with
  | [] => [0; b2n (a_adm a); b2n (a_lost a); a_nev a]%N
  | q :: rest =>
      match do_point stale mx q a with
      | inl a' => do_points stale mx rest (i + 1)%N a'
      | inr e => [16 * (i + 1) + e; b2n (a_adm a); b2n (a_lost a); a_nev a]%N
      end
  end.

Definition purge_requests (qs : list qpoint) : nat :=
  list_sum (map (fun q => length (q_ticks q) +
                          length (filter (fun c => match c with QPurge => true | _ => false end) (q_cmds q))) qs).

Definition treplay_case (c : tcase) : list N :=
  do_points (c_stale c) (c_limit c) (c_points c) 0%N
    (mkAcc (tinit (c_tscripts c) (purge_requests (c_points c)) 0) true false 0).

(* four numbers per case *)
Definition mutextimed_codes (cs : list tcase) : list N := flat_map treplay_case cs.
