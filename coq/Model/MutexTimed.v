(* A timed layer over the lock-table protocol of Model/Mutex.v (C13/C14, audit
   task A7): the clock, `mutexItem.lastAccess`, and the staleness test of the
   purge loop as mutexes.go computes it. Executable, no proofs.

   What mutexes.go does with time (all of it):

     getItem(key)    `item.lastAccess = time.Now()` - unconditionally, on every
                     call, on the item that is (now) the map's entry for key,
                     inside the itemsMutex critical section. getItem is called
                       - by the manager in the acquire case  (Lock requested),
                       - by the manager in the release case  (Unlock taken),
                       - by the locker itself in Lock        (`<-m.getItem(key).release`).
                     Nothing else writes lastAccess; the grant itself
                     (`item.release <- struct{}{}` / `<-item.release`) does not.
     purge loop      `time.Since(item.lastAccess) > mutexStaleMutexes || ...`
                     per entry of m.items: strict `>`, and the first disjunct
                     does not look at item.locks.

   So lastAccess lives in the entries of m.items and is written only through
   the map's current entry for a key: a side table `la` keyed by key, with the
   same domain as `tbl`, represents it exactly (an entry that is purged and
   created again gets a fresh lastAccess in the very getItem that creates it).

   The timed state is the untimed state of Model/Mutex.v plus
     now   the instant of the last event (events carry non-decreasing instants)
     la    item.lastAccess per entry of m.items
   and three ghost components that no transition reads - they exist only so that
   the time proviso can be stated about *holds* instead of about the table:
     tch   per key, the instant of the latest getItem(key) by anybody
           (never forgotten, unlike la, which loses purged entries)
     hs    per goroutine, the start of its current hold: at the grant,
           the instant of the latest getItem(key) at or before the grant -
           "the Lock request/Unlock that refreshed lastAccess"
     gt    per goroutine, the instant of the grant itself (Lock returns); used
           only by the application-level form of the proviso (`tapp`)

   A timed event is an instant and either a label of Model/Mutex.v other than
   LPurge, or `TPurge vis`: the purge loop visiting the keys `vis` (with the
   outcome of `len(m.items) > mutexMaxCacheSize` for each, environment-chosen
   as in the untimed model); the *stale* outcome is not chosen but computed
   from the clock and lastAccess. `erase` maps a timed event to the untimed
   label it performs; `tstep` performs exactly that untimed step and maintains
   now/la/tch/hs/gt. (The loop really visits every entry; `vis` may be any list,
   which only adds runs.) *)
From Sessions Require Import Model.Base Model.Mutex.

Definition tmap := list (nat * N).

Fixpoint mget (m : tmap) (k : nat) : option N :=
  match m with
  | [] => None
  | (k', v) :: r => if Nat.eqb k' k then Some v else mget r k
  end.

Definition mkeep (p : nat -> bool) (m : tmap) : tmap := filter (fun q => p (fst q)) m.

Definition mset (k : nat) (v : N) (m : tmap) : tmap :=
  (k, v) :: mkeep (fun k' => negb (Nat.eqb k' k)) m.

Record tstate := mkTS {
  ust : state;     (* goroutines, m.items (locks, channel), manager, pending purge requests *)
  now : N;         (* the clock *)
  la : tmap;       (* item.lastAccess, per key of m.items *)
  tch : tmap;      (* ghost: latest getItem(key), per key *)
  hs : tmap;       (* ghost: start of the current hold, per goroutine *)
  gt : tmap        (* ghost: instant of the grant of the current hold, per goroutine *)
}.

Inductive tlab :=
| TL (l : label)                      (* any label of Model/Mutex.v except LPurge *)
| TPurge (vis : list (nat * bool)).   (* the purge loop: keys visited, oversize outcome *)

Definition tevent : Type := N * tlab.

(* the key whose item a transition passes through getItem, if any *)
Definition touched (st : state) (l : label) : option nat :=
  match l with
  | LMgrGet _ => match mgr st with MAcq k | MRel k => Some k | _ => None end
  | LGet g _ =>
      match nth_error (gs st) g with
      | Some (mkG (GGetItem k) _) => Some k
      | _ => None
      end
  | _ => None
  end.

(* the key a goroutine blocked in `<-item.release` is waiting for *)
Definition waited (st : state) (g : nat) : option nat :=
  match nth_error (gs st) g with
  | Some (mkG (GWait _ k) _) => Some k
  | _ => None
  end.

(* time.Since(item.lastAccess) > mutexStaleMutexes, at instant t *)
Definition stale_bit (stale t : N) (m : tmap) (k : nat) : bool :=
  match mget m k with
  | Some v => N.ltb stale (t - v)
  | None => false
  end.

Definition purge_dels (stale t : N) (m : tmap) (vis : list (nat * bool)) : list (nat * bool * bool) :=
  map (fun p => (fst p, stale_bit stale t m (fst p), snd p)) vis.

(* the untimed label a timed event performs in a timed state *)
Definition erase (stale : N) (ts : tstate) (ev : tevent) : label :=
  match snd ev with
  | TL l => l
  | TPurge vis => LPurge (purge_dels stale (fst ev) (la ts) vis)
  end.

Definition has_entry (st : state) (k : nat) : bool :=
  match tget (tbl st) k with Some _ => true | None => false end.

Definition hstart (ts : tstate) (g : nat) : N :=
  match mget (hs ts) g with Some h => h | None => 0%N end.
Definition gtime (ts : tstate) (g : nat) : N :=
  match mget (gt ts) g with Some h => h | None => 0%N end.

Definition tstep (stale : N) (ts : tstate) (ev : tevent) : option tstate :=
  let t := fst ev in
  if N.ltb t (now ts) then None else
  match snd ev with
  | TL (LPurge _) => None
  | TL l =>
      match step (ust ts) l with
      | None => None
      | Some st' =>
          let touch (m : tmap) :=
            match touched (ust ts) l with Some k => mset k t m | None => m end in
          let hs' :=
            match l with
            | LGrant g =>
                match waited (ust ts) g with
                | Some k => mset g (match mget (tch ts) k with Some v => v | None => t end) (hs ts)
                | None => hs ts
                end
            | _ => hs ts
            end in
          let gt' :=
            match l with
            | LGrant g =>
                match waited (ust ts) g with
                | Some _ => mset g t (gt ts)
                | None => gt ts
                end
            | _ => gt ts
            end in
          Some (mkTS st' t (touch (la ts)) (touch (tch ts)) hs' gt')
      end
  | TPurge vis =>
      match step (ust ts) (LPurge (purge_dels stale t (la ts) vis)) with
      | None => None
      | Some st' => Some (mkTS st' t (mkeep (has_entry st') (la ts)) (tch ts) (hs ts) (gt ts))
      end
  end.

Definition tinit (scripts : list (list op)) (purges : nat) (t0 : N) : tstate :=
  mkTS (init scripts purges) t0 [] [] [] [].

Fixpoint trun (stale : N) (ts : tstate) (evs : list tevent) : option tstate :=
  match evs with
  | [] => Some ts
  | ev :: r => match tstep stale ts ev with Some ts' => trun stale ts' r | None => None end
  end.

(* the untimed label list a timed schedule performs from ts *)
Fixpoint erase_run (stale : N) (ts : tstate) (evs : list tevent) : list label :=
  match evs with
  | [] => []
  | ev :: r =>
      erase stale ts ev ::
      match tstep stale ts ev with Some ts' => erase_run stale ts' r | None => [] end
  end.

(* ---- the provisos of C13/C14, with time in place of the lock count ----

   (1) Holds are short. `hold_within stale ts t`: at instant t every goroutine
       that is between the return of Lock(k) and the manager's receipt of its
       Unlock(k) started that hold at most `stale` ago, the start being the
       latest getItem(k) call at or before the grant. Nothing is required of
       goroutines that *wait*, however long.
   (2) As before, not a matter of time: an Unlock of a key the caller does not
       hold is taken by the manager only while that key is not held.

   `tadm` asks (1) only where it matters, at the instants of purge loops;
   `tshort` asks it at every event, which is "every hold, up to and including
   the Unlock that ends it, lasts at most `stale`". *)
Definition hold_within (stale : N) (ts : tstate) (t : N) : Prop :=
  forall g k r,
    nth_error (gs (ust ts)) g = Some (mkG (GHold k) r) \/
    nth_error (gs (ust ts)) g = Some (mkG (GSendRel k) r) ->
    (t <= hstart ts g + stale)%N.

Definition no_spurious (st : state) (l : label) : Prop :=
  match l with
  | LRelease g => forall k r, nth_error (gs st) g = Some (mkG (GSpur k) r) -> lk st k = 0
  | _ => True
  end.

Definition tadm (stale : N) (ts : tstate) (ev : tevent) : Prop :=
  match snd ev with
  | TPurge _ => hold_within stale ts (fst ev)
  | TL l => no_spurious (ust ts) l
  end.

Definition tshort (stale : N) (ts : tstate) (ev : tevent) : Prop :=
  hold_within stale ts (fst ev) /\
  match snd ev with TL l => no_spurious (ust ts) l | TPurge _ => True end.

Fixpoint tadm_run (stale : N) (ts : tstate) (evs : list tevent) : Prop :=
  match evs with
  | [] => True
  | ev :: r =>
      tadm stale ts ev /\
      match tstep stale ts ev with Some ts' => tadm_run stale ts' r | None => True end
  end.

Fixpoint tshort_run (stale : N) (ts : tstate) (evs : list tevent) : Prop :=
  match evs with
  | [] => True
  | ev :: r =>
      tshort stale ts ev /\
      match tstep stale ts ev with Some ts' => tshort_run stale ts' r | None => True end
  end.

(* ---- the proviso as an application sees it ----

   An application observes when Lock returns (the grant), not the getItem call
   before it. `tapp lat hold`: (a) every grant follows the latest getItem of its
   key within `lat` (the scheduling latency between the manager's / the
   locker's getItem and the rendezvous on the item's channel); (b) at the
   instant of every purge loop every hold has lasted at most `hold`, counted
   from the return of Lock; (c) no_spurious as before. With lat + hold <= stale
   this implies `tadm` (Proofs/MutexTimedApp.v). *)
Definition grant_prompt (lat : N) (ts : tstate) (ev : tevent) : Prop :=
  match snd ev with
  | TL (LGrant g) =>
      forall k, waited (ust ts) g = Some k ->
        (fst ev <= match mget (tch ts) k with Some v => v | None => fst ev end + lat)%N
  | _ => True
  end.

Definition held_since_grant (hold : N) (ts : tstate) (t : N) : Prop :=
  forall g k r,
    nth_error (gs (ust ts)) g = Some (mkG (GHold k) r) \/
    nth_error (gs (ust ts)) g = Some (mkG (GSendRel k) r) ->
    (t <= gtime ts g + hold)%N.

Definition tapp (lat hold : N) (ts : tstate) (ev : tevent) : Prop :=
  grant_prompt lat ts ev /\
  match snd ev with
  | TPurge _ => held_since_grant hold ts (fst ev)
  | TL l => no_spurious (ust ts) l
  end.

Fixpoint tapp_run (stale lat hold : N) (ts : tstate) (evs : list tevent) : Prop :=
  match evs with
  | [] => True
  | ev :: r =>
      tapp lat hold ts ev /\
      match tstep stale ts ev with Some ts' => tapp_run stale lat hold ts' r | None => True end
  end.

(* ---- executable forms, for examples ---- *)

Definition hold_withinb (stale : N) (ts : tstate) (t : N) : bool :=
  let fix go (l : list gor) (i : nat) : bool :=
    match l with
    | [] => true
    | x :: r =>
        match gc x with
        | GHold _ | GSendRel _ => N.leb t (hstart ts i + stale)
        | _ => true
        end && go r (S i)
    end in
  go (gs (ust ts)) 0.

Definition no_spuriousb (st : state) (l : label) : bool :=
  match l with
  | LRelease g =>
      match nth_error (gs st) g with
      | Some (mkG (GSpur k) _) => Nat.eqb (lk st k) 0
      | _ => true
      end
  | _ => true
  end.

Definition tadmb (stale : N) (ts : tstate) (ev : tevent) : bool :=
  match snd ev with
  | TPurge _ => hold_withinb stale ts (fst ev)
  | TL l => no_spuriousb (ust ts) l
  end.

Definition tshortb (stale : N) (ts : tstate) (ev : tevent) : bool :=
  hold_withinb stale ts (fst ev) &&
  match snd ev with TL l => no_spuriousb (ust ts) l | TPurge _ => true end.

Definition grant_promptb (lat : N) (ts : tstate) (ev : tevent) : bool :=
  match snd ev with
  | TL (LGrant g) =>
      match waited (ust ts) g with
      | Some k => N.leb (fst ev) (match mget (tch ts) k with Some v => v | None => fst ev end + lat)
      | None => true
      end
  | _ => true
  end.

Definition held_since_grantb (hold : N) (ts : tstate) (t : N) : bool :=
  let fix go (l : list gor) (i : nat) : bool :=
    match l with
    | [] => true
    | x :: r =>
        match gc x with
        | GHold _ | GSendRel _ => N.leb t (gtime ts i + hold)
        | _ => true
        end && go r (S i)
    end in
  go (gs (ust ts)) 0.

Definition tappb (lat hold : N) (ts : tstate) (ev : tevent) : bool :=
  grant_promptb lat ts ev &&
  match snd ev with
  | TPurge _ => held_since_grantb hold ts (fst ev)
  | TL l => no_spuriousb (ust ts) l
  end.

(* enabled and within the proviso, all the way *)
Fixpoint trun_okb (chk : N -> tstate -> tevent -> bool) (stale : N) (ts : tstate) (evs : list tevent) : bool :=
  match evs with
  | [] => true
  | ev :: r =>
      chk stale ts ev &&
      match tstep stale ts ev with Some ts' => trun_okb chk stale ts' r | None => false end
  end.

(* the longest time a goroutine has been blocked in `<-item.release` is not in
   the state; examples measure it on the schedule: instant of the LGet of g and
   instant of the LGrant of g *)
Fixpoint first_at (p : tlab -> bool) (evs : list tevent) : option N :=
  match evs with
  | [] => None
  | (t, e) :: r => if p e then Some t else first_at p r
  end.
Definition is_get (g : nat) (e : tlab) : bool :=
  match e with TL (LGet g' _) => Nat.eqb g g' | _ => false end.
Definition is_grant_of (g : nat) (e : tlab) : bool :=
  match e with TL (LGrant g') => Nat.eqb g g' | _ => false end.
Definition queued_for (g : nat) (evs : list tevent) : option N :=
  match first_at (is_get g) evs, first_at (is_grant_of g) evs with
  | Some a, Some b => Some (b - a)%N
  | _, _ => None
  end.
