(* C15 — lockset discipline, access tables, and the interleaving semantics of
   the key/value operations. Executable definitions and specifications only;
   proofs are in Proofs/LocksetSound.v, Proofs/Linearizable.v,
   Proofs/LinCheck.v.

   Part (a): traces of lock and memory events, well-formedness with respect to
             reader/writer lock semantics, happens-before, race, discipline.
   Table   : the row type of Gen/Access.v (written by translator/access.go),
             the policy saying which lock guards which field, and the boolean
             obligations access_ok / call_ok / single_section.
   Part (c): threads executing lock; body; unlock over one shared map, the
             atomic specification, and a linearizability checker that
             vm_compute runs on recorded histories. *)
From Coq Require Import List NArith Bool String Arith.
From Sessions Require Import Model.Base.
Import ListNotations.

(* ------------------------------------------------------------------ *)
(* Part (a): traces                                                     *)
(* ------------------------------------------------------------------ *)

Inductive mode := Sh | Ex.          (* RLock / Lock *)
Inductive rw := Rd | Wr.

Definition thread := nat.
Definition lock := nat.
Definition obj := nat.
Definition field := nat.

Inductive event :=
| Acq (t : thread) (l : lock) (m : mode)      (* return from l.Lock() / l.RLock() *)
| Rel (t : thread) (l : lock) (m : mode)      (* call of l.Unlock() / l.RUnlock() *)
| Acc (t : thread) (o : obj) (f : field) (k : rw)
| Fork (t u : thread)                         (* go statement executed by t starting u *)
| Pub (t : thread) (o : obj).                 (* t makes o reachable for other threads *)

Definition trace := list event.

Definition thread_of (e : event) : thread :=
  match e with
  | Acq t _ _ | Rel t _ _ | Acc t _ _ _ | Fork t _ | Pub t _ => t
  end.

Definition ev (tr : trace) (p : nat) : option event := nth_error tr p.

(* t holds l in mode m just before position p: its latest acquisition has not
   been released. *)
Definition holds (tr : trace) (p : nat) (t : thread) (l : lock) (m : mode) : Prop :=
  exists a, a < p /\ ev tr a = Some (Acq t l m) /\
            forall q m', a < q -> q < p -> ev tr q <> Some (Rel t l m').

(* sync.RWMutex: a writer excludes everybody, readers exclude writers, no
   recursive locking, only a holder releases. *)
Definition wf_locks (tr : trace) : Prop :=
  forall p,
    match ev tr p with
    | Some (Acq t l Ex) => forall u m, ~ holds tr p u l m
    | Some (Acq t l Sh) => (forall u, ~ holds tr p u l Ex) /\ (forall m, ~ holds tr p t l m)
    | Some (Rel t l m) => holds tr p t l m
    | _ => True
    end.

Definition wf_pub (tr : trace) : Prop :=
  forall p q t u o, ev tr p = Some (Pub t o) -> ev tr q = Some (Pub u o) -> p = q.

Definition wf_trace (tr : trace) : Prop := wf_locks tr /\ wf_pub tr.

(* Happens-before: program order, release -> later acquire of the same lock
   when at least one side is exclusive (Go memory model: the n-th Unlock is
   synchronised before the (n+1)-th Lock and before the RLocks in between; an
   RUnlock before the next Lock; chains give every earlier/later pair), and
   go statement -> everything the started goroutine does. *)
Inductive hb (tr : trace) : nat -> nat -> Prop :=
| hb_po : forall i j ei ej, i < j -> ev tr i = Some ei -> ev tr j = Some ej ->
    thread_of ei = thread_of ej -> hb tr i j
| hb_sync : forall i j t u l m m', i < j ->
    ev tr i = Some (Rel t l m) -> ev tr j = Some (Acq u l m') ->
    (m = Ex \/ m' = Ex) -> hb tr i j
| hb_fork : forall i j t u ej, i < j ->
    ev tr i = Some (Fork t u) -> ev tr j = Some ej -> thread_of ej = u -> hb tr i j
| hb_trans : forall i j k, hb tr i j -> hb tr j k -> hb tr i k.

Definition conflict (tr : trace) (i j : nat) : Prop :=
  exists t u o f k k',
    ev tr i = Some (Acc t o f k) /\ ev tr j = Some (Acc u o f k') /\
    t <> u /\ (k = Wr \/ k' = Wr).

Definition race (tr : trace) (i j : nat) : Prop :=
  i < j /\ conflict tr i j /\ ~ hb tr i j.

Definition race_free (tr : trace) : Prop := forall i j, ~ race tr i j.

(* What protects a field of an object. *)
Inductive guard :=
| GLock (l : lock)          (* every access holds l: exclusively to write, at least shared to read *)
| GImmutable                (* never written once the object is published *)
| GConfined (t : thread).   (* only ever touched by one thread *)

(* An access by the publishing thread before it publishes the object. *)
Definition initialising (tr : trace) (p : nat) (t : thread) (o : obj) : Prop :=
  exists q, p < q /\ ev tr q = Some (Pub t o).

Definition access_disciplined (g : obj -> field -> guard) (tr : trace)
           (p : nat) (t : thread) (o : obj) (f : field) (k : rw) : Prop :=
  initialising tr p t o \/
  ((forall q c, ev tr q = Some (Pub c o) -> hb tr q p) /\
   match g o f with
   | GLock l => match k with
                | Wr => holds tr p t l Ex
                | Rd => exists m, holds tr p t l m
                end
   | GImmutable => k = Rd
   | GConfined c => t = c
   end).

Definition disciplined (g : obj -> field -> guard) (tr : trace) : Prop :=
  forall p t o f k, ev tr p = Some (Acc t o f k) -> access_disciplined g tr p t o f k.

(* ------------------------------------------------------------------ *)
(* The access table                                                     *)
(* ------------------------------------------------------------------ *)

Local Open Scope string_scope.

Definition held_entry := (string * mode * N)%type.   (* lock expression, mode, site of the acquiring call (line*1000+column) *)

Record row := mkRow {
  r_func : string;       (* "Start", "Session.Set", "cache.compact", ... *)
  r_file : string;
  r_line : N;
  r_recv : string;       (* source text of the receiver expression; "" for package variables *)
  r_struct : string;     (* declaring struct, or "(global)" *)
  r_field : string;
  r_rw : rw;
  r_held : list held_entry;   (* sync locks the function holds at this point, in acquisition order *)
  r_lit : bool;          (* field of a composite literal (the object does not exist yet) *)
  r_decode : bool;       (* GobDecode / UnmarshalJSON, on the receiver being filled *)
  r_fresh : bool;        (* receiver is a local defined by := &T{...} and not yet used otherwise *)
  r_go : N;              (* 0, or the index of the enclosing `go func` literal in the function *)
  r_onrecv : bool;       (* the receiver expression is the method's own receiver *)
  r_loop : bool;         (* inside a for/range body *)
  r_init : bool          (* in a function that runs only during package initialisation *)
}.

Record call_row := mkCall {
  c_func : string;
  c_file : string;
  c_line : N;
  c_callee : string;
  c_recv : string;
  c_held : list held_entry;
  c_go : N;
  c_deferred : bool;
  c_onrecv : bool
}.

Definition mode_eqb (a b : mode) : bool :=
  match a, b with Sh, Sh | Ex, Ex => true | _, _ => false end.

Fixpoint lookup_held (x : string) (h : list held_entry) : option (mode * N) :=
  match h with
  | [] => None
  | (y, m, s) :: h' => if String.eqb x y then Some (m, s) else lookup_held x h'
  end.

(* s is a suffix of x *)
Fixpoint is_suffix (s x : string) : bool :=
  String.eqb s x ||
  match x with
  | EmptyString => false
  | String _ x' => is_suffix s x'
  end.

Fixpoint lookup_suffix (s : string) (h : list held_entry) : option (mode * N) :=
  match h with
  | [] => None
  | (y, m, st) :: h' => if is_suffix s y then Some (m, st) else lookup_suffix s h'
  end.

Definition mem_str (x : string) (l : list string) : bool := existsb (String.eqb x) l.

(* The locking policy of the package, as documented in its comments. *)
Inductive policy :=
| PRecv                       (* the receiver's embedded (RW)Mutex *)
| PRecvSuffix (s : string)    (* the lock field <receiver><s> *)
| PNamed (l : string)         (* a package-level mutex *)
| PSuffix (s : string)        (* some held lock whose expression ends in s *)
| PImmutable                  (* not written after publication / after package initialisation *)
| PConfined (fn : string) (go : N).   (* only the go-th `go func` literal of fn touches it *)

Definition policy_of (s f : string) : option policy :=
  if String.eqb s "Session" then
    if String.eqb f "referenceID" then Some PImmutable else Some PRecv
  else if String.eqb s "cache" then Some PRecv
  else if String.eqb s "mutexes" then
    if String.eqb f "items" then Some (PRecvSuffix ".itemsMutex")
    else if mem_str f ["acquire"; "release"; "purge"] then Some PImmutable
    else None
  else if String.eqb s "mutexItem" then
    if String.eqb f "locks" then Some (PConfined "newMutexes" 1)
    else if String.eqb f "lastAccess" then Some (PSuffix ".itemsMutex")
    else if String.eqb f "release" then Some PImmutable
    else None
  else if String.eqb s "ExtendablePersistenceLayer" then Some PImmutable
  else if String.eqb s "(global)" then
    if mem_str f ["lastTime"; "lastCounter"; "macAddress"] then Some (PNamed "lastMutex")
    else Some PImmutable
  else None.

(* "This function does not synchronize concurrent access to the cache":
   the caller holds the receiver's lock exclusively. *)
Definition caller_holds : list string := ["cache.compact"].

Definition eff_held (r : row) : list held_entry :=
  if r_onrecv r && mem_str (r_func r) caller_holds
  then (r_recv r, Ex, 0%N) :: r_held r else r_held r.

Definition mode_ok (k : rw) (h : option (mode * N)) : bool :=
  match k, h with
  | _, Some (Ex, _) => true
  | Rd, Some (Sh, _) => true
  | _, _ => false
  end.

(* accesses that precede the publication of the object they touch *)
Definition exempt (r : row) : bool := r_lit r || r_decode r || r_fresh r || r_init r.

Definition is_rd (k : rw) : bool := match k with Rd => true | Wr => false end.

Definition locked_ok (r : row) : bool :=
  match policy_of (r_struct r) (r_field r) with
  | None => false
  | Some PRecv => mode_ok (r_rw r) (lookup_held (r_recv r) (eff_held r))
  | Some (PRecvSuffix s) => mode_ok (r_rw r) (lookup_held (r_recv r ++ s) (r_held r))
  | Some (PNamed l) => mode_ok (r_rw r) (lookup_held l (r_held r))
  | Some (PSuffix s) => mode_ok (r_rw r) (lookup_suffix s (r_held r))
  | Some PImmutable => is_rd (r_rw r)
  | Some (PConfined fn go) => String.eqb (r_func r) fn && N.eqb (r_go r) go
  end.

Definition access_ok (r : row) : bool := exempt r || locked_ok r.

Definition call_ok (c : call_row) : bool :=
  if mem_str (c_callee c) caller_holds then
    match lookup_held (c_recv c) (c_held c) with
    | Some (Ex, _) => negb (String.eqb (c_recv c) "")
    | _ => false
    end
  else true.

(* The four key/value methods: all accesses to `data` lie in one critical
   section of the receiver's lock, of the right mode, outside any loop. *)
Definition kv_methods : list (string * bool) :=
  [("Session.Set", true); ("Session.Get", false); ("Session.Delete", true); ("Session.GetAndDelete", true)].

Definition is_data_row (fn : string) (r : row) : bool :=
  String.eqb (r_func r) fn && String.eqb (r_struct r) "Session" && String.eqb (r_field r) "data".

Definition in_section (m0 : mode) (s0 : N) (r : row) : bool :=
  r_onrecv r && negb (r_loop r) && N.eqb (r_go r) 0 &&
  match lookup_held (r_recv r) (r_held r) with
  | Some (m, s) => mode_eqb m m0 && N.eqb s s0
  | None => false
  end.

Definition single_section_fn (tbl : list row) (fn : string) (need_ex : bool) : bool :=
  match filter (is_data_row fn) tbl with
  | [] => false
  | r0 :: _ as rows =>
      match lookup_held (r_recv r0) (r_held r0) with
      | None => false
      | Some (m0, s0) =>
          (if need_ex then mode_eqb m0 Ex else true) && forallb (in_section m0 s0) rows
      end
  end.

Definition single_section (tbl : list row) : bool :=
  forallb (fun p => single_section_fn tbl (fst p) (snd p)) kv_methods.

(* Granularity of the cache operations: the calls of the persistence layer
   and of cache methods made from a function that works on a cache. The
   session model treats cache.Get/Set/Delete/compact and PurgeSessions as
   atomic steps; that is adequate when every such call happens with the cache
   mutex held exclusively inside a function whose whole body is one critical
   section of that mutex (Lock; defer Unlock at the top, nothing else), or
   inside a "caller holds the lock" helper. *)
Record cache_call_row := mkCacheCall {
  cc_func : string;
  cc_file : string;
  cc_line : N;
  cc_callee : string;
  cc_cache : string;           (* the expression naming the cache in this function *)
  cc_held : list held_entry;
  cc_go : N;
  cc_whole : bool              (* body = Lock(cache); defer Unlock(cache); ... with no other lock operation on it *)
}.

Definition cache_call_ok (c : cache_call_row) : bool :=
  N.eqb (cc_go c) 0 &&
  (mem_str (cc_func c) caller_holds ||
   (cc_whole c &&
    match lookup_held (cc_cache c) (cc_held c) with
    | Some (Ex, _) => true
    | _ => false
    end)).

(* the cache operations the session model takes as atomic all appear *)
Definition cache_ops : list string :=
  ["cache.Get"; "cache.Set"; "cache.Delete"; "cache.compact"; "PurgeSessions"].

Definition cache_calls_cover (cs : list cache_call_row) : bool :=
  forallb (fun f => existsb (fun c => String.eqb (cc_func c) f) cs) cache_ops.

(* the functions the table must cover *)
Definition required_functions : list string :=
  ["Start"; "Session.RegenerateID"; "Session.Destroy"; "Session.LogIn"; "Session.LogOut";
   "Session.Set"; "Session.Get"; "Session.Delete"; "Session.GetAndDelete";
   "Session.GobEncode"; "Session.GobDecode"; "Session.MarshalJSON"; "Session.UnmarshalJSON";
   "Session.User"; "Session.LastAccess"; "Session.Expired";
   "cache.Get"; "cache.Set"; "cache.Delete"; "cache.compact"; "PurgeSessions";
   "CUID"; "LogOut"; "RefreshUser"; "newMutexes"; "mutexes.getItem"].

Definition covers (fns : list string) : bool :=
  forallb (fun f => mem_str f fns) required_functions.

(* rows on which an obligation fails, for reports *)
Definition failing_rows (tbl : list row) : list row := filter (fun r => negb (access_ok r)) tbl.
Definition failing_calls (cs : list call_row) : list call_row := filter (fun c => negb (call_ok c)) cs.
Definition failing_sections (tbl : list row) : list string :=
  map fst (filter (fun p => negb (single_section_fn tbl (fst p) (snd p))) kv_methods).

Local Close Scope string_scope.

(* ------------------------------------------------------------------ *)
(* Part (c): key/value operations                                       *)
(* ------------------------------------------------------------------ *)

Definition key := nat.
Definition val := nat.
Definition kvmap := key -> option val.     (* None: key absent *)

Definition upd (m : kvmap) (k : key) (v : option val) : kvmap :=
  fun x => if Nat.eqb x k then v else m x.

Definition meq (a b : kvmap) : Prop := forall k, a k = b k.

Inductive op :=
| OSet (k : key) (v : val)
| OGet (k : key)
| ODel (k : key)
| OGetDel (k : key).

Definition res := option val.     (* Set and Delete return nothing: None *)

(* The sequential specification: one step of the abstract map. *)
Definition spec (o : op) (m : kvmap) : kvmap * res :=
  match o with
  | OSet k v => (upd m k (Some v), None)
  | OGet k => (m, m k)
  | ODel k => (upd m k None, None)
  | OGetDel k => (upd m k None, m k)
  end.

(* What the Go methods do inside their critical section, one map primitive
   per step; reg is the local `value, ok`. *)
Inductive prim :=
| PRead (k : key)               (* value, ok := s.data[key] *)
| PWrite (k : key) (v : val)    (* s.data[key] = value *)
| PDelete (k : key)             (* delete(s.data, key) *)
| PDeleteIfFound (k : key).     (* if ok { delete(s.data, key) } *)

Definition body (o : op) : list prim :=
  match o with
  | OSet k v => [PWrite k v]
  | OGet k => [PRead k]
  | ODel k => [PDelete k]
  | OGetDel k => [PRead k; PDeleteIfFound k]
  end.

Definition op_mode (o : op) : mode :=
  match o with OGet _ => Sh | _ => Ex end.

Definition exec_prim (p : prim) (m : kvmap) (reg : res) : kvmap * res :=
  match p with
  | PRead k => (m, m k)
  | PWrite k v => (upd m k (Some v), reg)
  | PDelete k => (upd m k None, reg)
  | PDeleteIfFound k => (match reg with Some _ => upd m k None | None => m end, reg)
  end.

Fixpoint run_prims (pc : list prim) (m : kvmap) (reg : res) : kvmap * res :=
  match pc with
  | [] => (m, reg)
  | p :: pc' => let '(m', reg') := exec_prim p m reg in run_prims pc' m' reg'
  end.

(* Events of a concurrent history. ELin is a ghost event marking the point at
   which the operation takes effect, with the result it is going to return. *)
Inductive hevent :=
| EInv (t : thread) (o : op)
| ELin (t : thread) (o : op) (r : res)
| ERes (t : thread) (o : op) (r : res).

Definition is_visible (e : hevent) : bool :=
  match e with ELin _ _ _ => false | _ => true end.
Definition visible (w : list hevent) : list hevent := filter is_visible w.

Fixpoint lins (w : list hevent) : list (thread * op * res) :=
  match w with
  | [] => []
  | ELin t o r :: w' => (t, o, r) :: lins w'
  | _ :: w' => lins w'
  end.

(* The lock-based implementation: any number of threads; each may at any time
   invoke any operation; an operation waits for the lock (exclusive except for
   Get), runs its body one primitive at a time interleaved with everybody
   else's steps, releases, returns. *)
Inductive tstate :=
| TIdle
| TWait (o : op)
| TBody (o : op) (pc : list prim) (reg : res)
| TRet (o : op) (r : res).

Record cstate := mkC { c_map : kvmap; c_ths : thread -> tstate }.

Definition set_th {A} (ths : thread -> A) (t : thread) (x : A) : thread -> A :=
  fun u => if Nat.eqb u t then x else ths u.

Definition in_body (s : tstate) : Prop := exists o pc reg, s = TBody o pc reg.
Definition in_ex_body (s : tstate) : Prop := exists o pc reg, s = TBody o pc reg /\ op_mode o = Ex.

(* sync.RWMutex: Lock needs nobody inside, RLock needs no writer inside. *)
Definition can_acquire (m : mode) (ths : thread -> tstate) : Prop :=
  match m with
  | Ex => forall u, ~ in_body (ths u)
  | Sh => forall u, ~ in_ex_body (ths u)
  end.

Inductive cstep : cstate -> option hevent -> cstate -> Prop :=
| cs_inv : forall m ths t o,
    ths t = TIdle ->
    cstep (mkC m ths) (Some (EInv t o)) (mkC m (set_th ths t (TWait o)))
| cs_acq : forall m ths t o,
    ths t = TWait o -> can_acquire (op_mode o) ths ->
    cstep (mkC m ths) (Some (ELin t o (snd (run_prims (body o) m None))))
          (mkC m (set_th ths t (TBody o (body o) None)))
| cs_prim : forall m ths t o p pc reg,
    ths t = TBody o (p :: pc) reg ->
    cstep (mkC m ths) None
          (mkC (fst (exec_prim p m reg)) (set_th ths t (TBody o pc (snd (exec_prim p m reg)))))
| cs_rel : forall m ths t o reg,
    ths t = TBody o [] reg ->
    cstep (mkC m ths) None (mkC m (set_th ths t (TRet o reg)))
| cs_ret : forall m ths t o r,
    ths t = TRet o r ->
    cstep (mkC m ths) (Some (ERes t o r)) (mkC m (set_th ths t TIdle)).

Inductive ctrace : cstate -> list hevent -> cstate -> Prop :=
| ct_nil : forall s, ctrace s [] s
| ct_silent : forall s s' s'' w, cstep s None s' -> ctrace s' w s'' -> ctrace s w s''
| ct_event : forall s s' s'' e w, cstep s (Some e) s' -> ctrace s' w s'' -> ctrace s (e :: w) s''.

Definition cinit (m0 : kvmap) : cstate := mkC m0 (fun _ => TIdle).

(* The atomic specification: an operation takes effect in one step between
   its invocation and its response. *)
Inductive athread :=
| AIdle
| AInv (o : op)
| ALin (o : op) (r : res).

Record astate := mkA { a_map : kvmap; a_ths : thread -> athread }.

Inductive astep : astate -> hevent -> astate -> Prop :=
| as_inv : forall m ths t o,
    ths t = AIdle ->
    astep (mkA m ths) (EInv t o) (mkA m (set_th ths t (AInv o)))
| as_lin : forall m ths t o,
    ths t = AInv o ->
    astep (mkA m ths) (ELin t o (snd (spec o m))) (mkA (fst (spec o m)) (set_th ths t (ALin o (snd (spec o m)))))
| as_res : forall m ths t o r,
    ths t = ALin o r ->
    astep (mkA m ths) (ERes t o r) (mkA m (set_th ths t AIdle)).

Inductive atrace : astate -> list hevent -> astate -> Prop :=
| at_nil : forall s, atrace s [] s
| at_cons : forall s s' s'' e w, astep s e s' -> atrace s' w s'' -> atrace s (e :: w) s''.

Definition ainit (m0 : kvmap) : astate := mkA m0 (fun _ => AIdle).

(* A history of invocations and responses is linearizable iff it is the
   visible part of a run of the atomic specification; fin constrains the map
   the run ends with. *)
Definition linearizable_to (m0 : kvmap) (h : list hevent) (fin : kvmap -> Prop) : Prop :=
  exists w a, visible w = h /\ atrace (ainit m0) w a /\ fin (a_map a).

Definition linearizable (m0 : kvmap) (h : list hevent) : Prop :=
  linearizable_to m0 h (fun _ => True).

(* A sequence of (thread, operation, result) is a legal sequential history. *)
Fixpoint legal (m : kvmap) (l : list (thread * op * res)) : Prop :=
  match l with
  | [] => True
  | (_, o, r) :: l' => r = snd (spec o m) /\ legal (fst (spec o m)) l'
  end.

(* ---- the checker ---- *)

Definition op_eqb (a b : op) : bool :=
  match a, b with
  | OSet k v, OSet k' v' => Nat.eqb k k' && Nat.eqb v v'
  | OGet k, OGet k' | ODel k, ODel k' | OGetDel k, OGetDel k' => Nat.eqb k k'
  | _, _ => false
  end.

Definition res_eqb (a b : res) : bool :=
  match a, b with
  | None, None => true
  | Some x, Some y => Nat.eqb x y
  | _, _ => false
  end.

Definition athread_eqb (a b : athread) : bool :=
  match a, b with
  | AIdle, AIdle => true
  | AInv o, AInv o' => op_eqb o o'
  | ALin o r, ALin o' r' => op_eqb o o' && res_eqb r r'
  | _, _ => false
  end.

(* A search state as data, for the set of states already found hopeless: the
   map on the keys in use and the threads' control states. The set is kept in
   buckets by the number of remaining events. *)
Definition skey := (list (option val) * list athread)%type.

Fixpoint list_eqb {A} (eqb : A -> A -> bool) (a b : list A) : bool :=
  match a, b with
  | [], [] => true
  | x :: a', y :: b' => eqb x y && list_eqb eqb a' b'
  | _, _ => false
  end.

Definition skey_eqb (a b : skey) : bool :=
  list_eqb res_eqb (fst a) (fst b) && list_eqb athread_eqb (snd a) (snd b).

Definition key_of (keys : list key) (cands : list thread) (s : astate) : skey :=
  (map (a_map s) keys, map (a_ths s) cands).

Definition visited := list (list skey).

Fixpoint vget (n : nat) (v : visited) : list skey :=
  match v, n with
  | [], _ => []
  | b :: _, O => b
  | _ :: v', S n' => vget n' v'
  end.

Fixpoint vadd (n : nat) (k : skey) (v : visited) : visited :=
  match n, v with
  | O, [] => [[k]]
  | O, b :: v' => (k :: b) :: v'
  | S n', [] => [] :: vadd n' k []
  | S n', b :: v' => b :: vadd n' k v'
  end.

Definition op_key (o : op) : key :=
  match o with OSet k _ | OGet k | ODel k | OGetDel k => k end.

(* try f on each candidate in turn, threading the set of hopeless states *)
Fixpoint try_cands (f : thread -> visited -> bool * visited) (cs : list thread)
         (v : visited) : bool * visited :=
  match cs with
  | [] => (false, v)
  | u :: cs' => let '(b, v') := f u v in if b then (true, v') else try_cands f cs' v'
  end.

(* Search for a run of the atomic specification whose visible part is h.
   Linearization steps are taken only when a response needs them: just before
   the response of a thread that has not taken effect yet, any sequence of
   other invoked operations on the same key may take effect first (operations
   on other keys commute with it and can wait for their own response). cands
   lists the threads to consider, keys the keys in use. A state from which the
   search has failed is remembered and not explored again. Every recursive
   call consumes an event or linearizes one more operation, so
   2 * length h + 1 is enough fuel. *)
Fixpoint search (keys : list key) (cands : list thread) (fin : kvmap -> bool) (fuel : nat)
         (h : list hevent) (s : astate) (v : visited) : bool * visited :=
  match fuel with
  | O => (false, v)
  | S f =>
    let k := key_of keys cands s in
    if existsb (skey_eqb k) (vget (length h) v) then (false, v) else
    let '(b, v') :=
      match h with
      | [] => (fin (a_map s), v)
      | EInv t o :: h' =>
          match a_ths s t with
          | AIdle => search keys cands fin f h' (mkA (a_map s) (set_th (a_ths s) t (AInv o))) v
          | _ => (false, v)
          end
      | ERes t o r :: h' =>
          match a_ths s t with
          | ALin o' r' =>
              if op_eqb o o' && res_eqb r r'
              then search keys cands fin f h' (mkA (a_map s) (set_th (a_ths s) t AIdle)) v
              else (false, v)
          | AInv ot =>
              try_cands (fun u v0 =>
                           match a_ths s u with
                           | AInv ou =>
                               if Nat.eqb (op_key ou) (op_key ot) then
                                 search keys cands fin f h
                                        (mkA (fst (spec ou (a_map s)))
                                             (set_th (a_ths s) u (ALin ou (snd (spec ou (a_map s))))))
                                        v0
                               else (false, v0)
                           | _ => (false, v0)
                           end) cands v
          | AIdle => (false, v)
          end
      | ELin _ _ _ :: _ => (false, v)
      end in
    if b then (true, v') else (false, vadd (length h) k v')
  end.

Fixpoint hthreads (h : list hevent) : list thread :=
  match h with
  | [] => []
  | EInv t _ :: h' => if existsb (Nat.eqb t) (hthreads h') then hthreads h' else t :: hthreads h'
  | _ :: h' => hthreads h'
  end.

Fixpoint map_of (l : list (key * val)) : kvmap :=
  match l with
  | [] => fun _ => None
  | (k, v) :: l' => upd (map_of l') k (Some v)
  end.

Definition opt_eqb (a b : option val) : bool := res_eqb a b.

(* the map agrees with the association list on the listed keys *)
Definition agrees_on (keys : list key) (l : list (key * val)) (m : kvmap) : bool :=
  forallb (fun k => opt_eqb (m k) (map_of l k)) keys.

(* One recorded window: the map before, the events, the keys in use, the map
   after (observed when all operations had returned). *)
Record lin_case := mkCase {
  lc_init : list (key * val);
  lc_hist : list hevent;
  lc_keys : list key;
  lc_final : list (key * val)
}.

Definition lin_check (c : lin_case) : bool :=
  fst (search (lc_keys c) (hthreads (lc_hist c)) (agrees_on (lc_keys c) (lc_final c))
              (2 * length (lc_hist c) + 1) (lc_hist c) (ainit (map_of (lc_init c))) []).

Definition lin_failures (cs : list lin_case) : list N := failing lin_check cs 0%N.
