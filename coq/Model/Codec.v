(* Model of the two codecs of session.go (GobEncode/GobDecode, MarshalJSON/
   UnmarshalJSON) as small interpreters over tables that /verif/translator
   regenerates from the Go source (Gen/Layout.v). Executable, no proofs.
   DESIGN.md §5 C16, C17.

   What is the package's own code is modelled step by step: the order of the
   gob fields and the conditional around the user ID; the JSON keys, which of
   them are optional, the type assertion guarding each and whether it is in
   comma-ok form, the base-36 text form of the fingerprint.  What is library
   behaviour (encoding/gob per value, encoding/json on generic trees, RFC 3339
   text of instants) appears either as an explicit function of this file that
   the correspondence check compares with the real library on every run
   (zone offset through time's binary form, int -> float64, UTF-8 coercion of
   strings) or as a parameter (time formatting and parsing, LoadUser). *)
From Sessions Require Import Model.Base.
Local Open Scope N_scope.

(* ------------------------------------------------------------------ values *)

Inductive result (A : Type) : Type :=
  | Ok (a : A)
  | Err          (* the Go function returns a non-nil error *)
  | Panic.       (* the Go function panics *)
Arguments Ok {A} a.
Arguments Err {A}.
Arguments Panic {A}.

Definition rbind {A B} (r : result A) (f : A -> result B) : result B :=
  match r with Ok a => f a | Err => Err | Panic => Panic end.

(* An instant with its zone offset, as the getters show it: Unix seconds,
   nanosecond within the second, seconds east of UTC. *)
Record gtime := mkTime { t_sec : Z; t_nsec : N; t_off : Z }.

(* time.Time{} *)
Definition zero_time : gtime := mkTime (-62135596800) 0 0.

(* Go values held in an interface{}: the closed set of dynamic types the model
   covers. DInt is Go's int, DFloat a float64 by its IEEE-754 bit pattern,
   DList a non-nil []interface{}, DMap a non-nil map[string]interface{} as an
   association list. The tree json.Unmarshal hands the package is a dval
   without DInt. *)
Inductive dval :=
  | DNull
  | DBool (b : bool)
  | DInt (z : Z)
  | DFloat (bits : N)
  | DStr (s : bytes)
  | DList (l : list dval)
  | DMap (m : list (bytes * dval)).

(* A user object: its ID (GetID) and a tag that tells objects with the same ID
   apart (the object a decoder attaches is the one LoadUser returns, not the
   one that was encoded). *)
Record cuser := mkUser { u_id : dval; u_tag : N }.

(* The fields of a Session other than its ID and its lock. cs_data = None is
   Go's nil map. *)
Record csess := mkSess {
  cs_created : gtime; cs_access : gtime; cs_ip : bytes; cs_ua : N;
  cs_ref : bytes; cs_user : option cuser; cs_data : option (list (bytes * dval)) }.

(* var s Session *)
Definition zero_sess : csess := mkSess zero_time zero_time [] 0 [] None None.

Definition set_created t s := mkSess t (cs_access s) (cs_ip s) (cs_ua s) (cs_ref s) (cs_user s) (cs_data s).
Definition set_access t s := mkSess (cs_created s) t (cs_ip s) (cs_ua s) (cs_ref s) (cs_user s) (cs_data s).
Definition set_ip x s := mkSess (cs_created s) (cs_access s) x (cs_ua s) (cs_ref s) (cs_user s) (cs_data s).
Definition set_ua x s := mkSess (cs_created s) (cs_access s) (cs_ip s) x (cs_ref s) (cs_user s) (cs_data s).
Definition set_ref x s := mkSess (cs_created s) (cs_access s) (cs_ip s) (cs_ua s) x (cs_user s) (cs_data s).
Definition set_user x s := mkSess (cs_created s) (cs_access s) (cs_ip s) (cs_ua s) (cs_ref s) x (cs_data s).
Definition set_data x s := mkSess (cs_created s) (cs_access s) (cs_ip s) (cs_ua s) (cs_ref s) (cs_user s) x.

Definition is_some {A} (o : option A) : bool := match o with Some _ => true | None => false end.
Definition is_nil {A} (l : list A) : bool := match l with [] => true | _ => false end.

(* Persistence.LoadUser: None = error, Some None = (nil, nil). *)
Definition loader := dval -> option (option cuser).

(* ------------------------------------------------------- decidable equality *)

Definition gtime_eqb (a b : gtime) : bool :=
  Z.eqb (t_sec a) (t_sec b) && N.eqb (t_nsec a) (t_nsec b) && Z.eqb (t_off a) (t_off b).

Fixpoint dval_eqb (a b : dval) : bool :=
  match a, b with
  | DNull, DNull => true
  | DBool x, DBool y => Bool.eqb x y
  | DInt x, DInt y => Z.eqb x y
  | DFloat x, DFloat y => N.eqb x y
  | DStr x, DStr y => bytes_eqb x y
  | DList l1, DList l2 =>
      (fix go (l1 l2 : list dval) : bool :=
         match l1, l2 with
         | [], [] => true
         | x :: t, y :: u => dval_eqb x y && go t u
         | _, _ => false
         end) l1 l2
  | DMap m1, DMap m2 =>
      (fix go (m1 m2 : list (bytes * dval)) : bool :=
         match m1, m2 with
         | [], [] => true
         | (k, x) :: t, (k', y) :: u => bytes_eqb k k' && dval_eqb x y && go t u
         | _, _ => false
         end) m1 m2
  | _, _ => false
  end.

Fixpoint dmap_eqb (m1 m2 : list (bytes * dval)) : bool :=
  match m1, m2 with
  | [], [] => true
  | (k, x) :: t, (k', y) :: u => bytes_eqb k k' && dval_eqb x y && dmap_eqb t u
  | _, _ => false
  end.

Definition opt_eqb {A} (f : A -> A -> bool) (a b : option A) : bool :=
  match a, b with
  | None, None => true
  | Some x, Some y => f x y
  | _, _ => false
  end.

Definition cuser_eqb (a b : cuser) : bool := dval_eqb (u_id a) (u_id b) && N.eqb (u_tag a) (u_tag b).

Definition csess_eqb (a b : csess) : bool :=
  gtime_eqb (cs_created a) (cs_created b) && gtime_eqb (cs_access a) (cs_access b) &&
  bytes_eqb (cs_ip a) (cs_ip b) && N.eqb (cs_ua a) (cs_ua b) && bytes_eqb (cs_ref a) (cs_ref b) &&
  opt_eqb cuser_eqb (cs_user a) (cs_user b) && opt_eqb dmap_eqb (cs_data a) (cs_data b).

Definition result_eqb {A} (f : A -> A -> bool) (a b : result A) : bool :=
  match a, b with
  | Ok x, Ok y => f x y
  | Err, Err => true
  | Panic, Panic => true
  | _, _ => false
  end.

Fixpoint assoc (k : bytes) (m : list (bytes * dval)) : option dval :=
  match m with
  | [] => None
  | (k', v) :: t => if bytes_eqb k k' then Some v else assoc k t
  end.

(* ===================================================================== gob *)

(* The expressions handed to encoder.Encode / decoder.Decode, by the session
   field they stand for. GVersion: uint8(<literal>) / &version; GLogin:
   s.user != nil / &loggedIn; GUserID: struct{V interface{}}{V: s.user.GetID()}
   / &userID followed by s.user, e = Persistence.LoadUser(userID.V). *)
Inductive gfield :=
  | GVersion | GCreated | GAccess | GIP | GUA | GRef | GLogin | GUserID | GData.

(* One statement of the codec: an unconditional Encode/Decode, or the `if`
   around the user ID (encoder: if s.user != nil; decoder: if loggedIn). *)
Inductive gentry := GF (f : gfield) | GIf (body : list gfield).

(* What gob puts on the wire, by wire type. All unsigned integers share one
   wire type; a GobEncoder (time.Time) is opaque bytes of its own type. *)
Inductive wval :=
  | WUint (n : N)
  | WTime (t : gtime)
  | WStr (s : bytes)
  | WBool (b : bool)
  | WIface (v : dval)                    (* struct{ V interface{} } *)
  | WMap (m : list (bytes * dval)).      (* map[string]interface{} *)

(* time.Time through MarshalBinary/UnmarshalBinary (go1.26): the offset
   travels as int16 minutes (-1 is the UTC marker and therefore refused as a
   real offset) plus, when not a whole minute, one byte of seconds that the
   reader takes as unsigned. *)
Definition gob_off_ok (off : Z) : bool :=
  let m := Z.quot off 60 in
  (-32768 <=? m)%Z && (m <=? 32767)%Z && negb (m =? -1)%Z.

Definition gob_off_back (off : Z) : Z :=
  let r := (Z.quot off 60 * 60 + (Z.rem off 60) mod 256)%Z in
  if (r =? -60)%Z then 0%Z else r.

Definition gob_time (t : gtime) : result gtime :=
  if gob_off_ok (t_off t) then Ok (mkTime (t_sec t) (t_nsec t) (gob_off_back (t_off t))) else Err.

(* offsets that the binary form restores exactly *)
Definition gob_off_exact (off : Z) : bool :=
  gob_off_ok off && (0 <=? Z.rem off 60)%Z.

Definition data_or_empty (d : option (list (bytes * dval))) : list (bytes * dval) :=
  match d with Some m => m | None => [] end.

(* The value one Encode call sends. *)
Definition gob_field_val (ver : N) (s : csess) (f : gfield) : result wval :=
  match f with
  | GVersion => Ok (WUint ver)
  | GCreated => rbind (gob_time (cs_created s)) (fun t => Ok (WTime t))
  | GAccess => rbind (gob_time (cs_access s)) (fun t => Ok (WTime t))
  | GIP => Ok (WStr (cs_ip s))
  | GUA => Ok (WUint (cs_ua s))
  | GRef => Ok (WStr (cs_ref s))
  | GLogin => Ok (WBool (is_some (cs_user s)))
  | GUserID => match cs_user s with
               | Some u => Ok (WIface (u_id u))
               | None => Panic                 (* s.user.GetID() on a nil user *)
               end
  | GData => Ok (WMap (data_or_empty (cs_data s)))   (* a nil map is sent as an empty one *)
  end.

Fixpoint gob_fields (ver : N) (s : csess) (fs : list gfield) : result (list wval) :=
  match fs with
  | [] => Ok []
  | f :: r => rbind (gob_field_val ver s f) (fun v => rbind (gob_fields ver s r) (fun w => Ok (v :: w)))
  end.

(* GobEncode *)
Fixpoint gob_encode (ver : N) (L : list gentry) (s : csess) : result (list wval) :=
  match L with
  | [] => Ok []
  | GF f :: r => rbind (gob_field_val ver s f) (fun v => rbind (gob_encode ver r s) (fun w => Ok (v :: w)))
  | GIf body :: r =>
      if is_some (cs_user s)
      then rbind (gob_fields ver s body) (fun a => rbind (gob_encode ver r s) (fun w => Ok (a ++ w)))
      else gob_encode ver r s
  end.

(* Decoder state: the session being filled and the local variable loggedIn. *)
Record dstate := mkD { d_sess : csess; d_flag : bool }.

(* One Decode call into the given destination. A wire value of another wire
   type, or the end of the stream, is an error. *)
Definition gob_dec_field (load : loader) (f : gfield) (st : dstate) (w : list wval)
  : result (dstate * list wval) :=
  let s := d_sess st in
  match f, w with
  | GVersion, WUint n :: w' => if n <? 256 then Ok (st, w') else Err
  | GCreated, WTime t :: w' => Ok (mkD (set_created t s) (d_flag st), w')
  | GAccess, WTime t :: w' => Ok (mkD (set_access t s) (d_flag st), w')
  | GIP, WStr x :: w' => Ok (mkD (set_ip x s) (d_flag st), w')
  | GUA, WUint n :: w' => Ok (mkD (set_ua n s) (d_flag st), w')
  | GRef, WStr x :: w' => Ok (mkD (set_ref x s) (d_flag st), w')
  | GLogin, WBool b :: w' => Ok (mkD s b, w')
  | GUserID, WIface v :: w' =>
      match load v with
      | Some u => Ok (mkD (set_user u s) (d_flag st), w')
      | None => Err
      end
  | GData, WMap m :: w' => Ok (mkD (set_data (Some m) s) (d_flag st), w')
  | _, _ => Err
  end.

Fixpoint gob_dec_fields (load : loader) (fs : list gfield) (st : dstate) (w : list wval)
  : result (dstate * list wval) :=
  match fs with
  | [] => Ok (st, w)
  | f :: r => rbind (gob_dec_field load f st w) (fun p => gob_dec_fields load r (fst p) (snd p))
  end.

Fixpoint gob_dec_entries (load : loader) (L : list gentry) (st : dstate) (w : list wval)
  : result dstate :=
  match L with
  | [] => Ok st
  | GF f :: r => rbind (gob_dec_field load f st w) (fun p => gob_dec_entries load r (fst p) (snd p))
  | GIf body :: r =>
      if d_flag st
      then rbind (gob_dec_fields load body st w) (fun p => gob_dec_entries load r (fst p) (snd p))
      else gob_dec_entries load r st w
  end.

(* GobDecode into a zero Session *)
Definition gob_decode (load : loader) (L : list gentry) (w : list wval) : result csess :=
  rbind (gob_dec_entries load L (mkD zero_sess false) w) (fun st => Ok (d_sess st)).

Definition gob_roundtrip (load : loader) (ver : N) (enc dec : list gentry) (s : csess) : result csess :=
  rbind (gob_encode ver enc s) (gob_decode load dec).

(* What the property promises: everything as it was, nil data as the empty
   map, the user re-loaded by ID. *)
Definition gob_norm (load : loader) (s : csess) : result csess :=
  let s' := set_data (Some (data_or_empty (cs_data s))) s in
  match cs_user s with
  | None => Ok s'
  | Some u => match load (u_id u) with
              | Some u' => Ok (set_user u' s')
              | None => Err
              end
  end.

Definition gob_dom (s : csess) : bool :=
  gob_off_exact (t_off (cs_created s)) && gob_off_exact (t_off (cs_access s)).

(* The layout of the pinned commit. *)
Definition layout_v1 : list gentry :=
  [GF GVersion; GF GCreated; GF GAccess; GF GIP; GF GUA; GF GRef; GF GLogin; GIf [GUserID]; GF GData].

(* ============================================================ text codecs *)

(* strconv.FormatUint / ParseUint *)
Definition in_rng (lo hi b : N) : bool := (lo <=? b) && (b <=? hi).

Definition digit_char (d : N) : N := if d <? 10 then 48 + d else 87 + d.

Definition char_digit (c : N) : option N :=
  if in_rng 48 57 c then Some (c - 48)
  else if in_rng 97 122 c then Some (c - 87)
  else if in_rng 65 90 c then Some (c - 55)
  else None.

Fixpoint digits_fuel (fuel : nat) (r n : N) (acc : list N) : list N :=
  match fuel with
  | O => acc
  | S f => let acc' := (n mod r) :: acc in
           if n / r =? 0 then acc' else digits_fuel f r (n / r) acc'
  end.

Definition radix_ok (r : N) : bool := (2 <=? r) && (r <=? 36).

(* FormatUint(n, r); it panics for a base outside 2..36 (callers test radix_ok) *)
Definition format_radix (r n : N) : bytes :=
  map digit_char (digits_fuel (S (N.to_nat (N.log2 n))) r n []).

Fixpoint parse_chars (r bound a : N) (s : bytes) : option N :=
  match s with
  | [] => Some a
  | c :: t =>
      match char_digit c with
      | None => None
      | Some d =>
          if r <=? d then None
          else let a' := a * r + d in
               if bound <=? a' then None else parse_chars r bound a' t
      end
  end.

(* ParseUint(s, r, bits): None = error (syntax, range, bad base or size) *)
Definition parse_radix (r bits : N) (s : bytes) : option N :=
  if negb (radix_ok r) || (64 <? bits) then None
  else match s with
       | [] => None
       | _ => parse_chars r (2 ^ (if bits =? 0 then 64 else bits)) 0 s
       end.

Definition format36 := format_radix 36.
Definition parse36 := parse_radix 36 64.

(* float64(int) — what a JSON number written from an int reads back as —
   round to nearest, ties to even; IEEE-754 bits. *)
Definition f64_of_Z (z : Z) : N :=
  match z with
  | Z0 => 0
  | _ =>
      let a := Z.abs_N z in
      let l := N.log2 a in
      let q := if l <=? 52 then a * 2 ^ (52 - l)
               else let sh := l - 52 in
                    let q0 := a / 2 ^ sh in
                    let r := a mod 2 ^ sh in
                    let half := 2 ^ (sh - 1) in
                    if (half <? r) || ((half =? r) && N.odd q0) then q0 + 1 else q0 in
      (if (z <? 0)%Z then 2 ^ 63 else 0) + (1023 + l) * 2 ^ 52 + (q - 2 ^ 52)
  end.

(* not NaN, not +-Inf: what json.Marshal accepts *)
Definition f64_finite (bits : N) : bool := negb ((bits / 2 ^ 52) mod 2048 =? 2047).

(* encoding/json writes invalid UTF-8 as U+FFFD, byte by byte *)
Definition u8_cont (b : N) : bool := in_rng 128 191 b.

Definition u8_width (s : bytes) : nat :=       (* width of the first rune if valid, else 0 *)
  match s with
  | [] => 0%nat
  | b0 :: t =>
      if b0 <? 128 then 1%nat
      else if in_rng 194 223 b0 then
        match t with b1 :: _ => if u8_cont b1 then 2%nat else 0%nat | _ => 0%nat end
      else if in_rng 224 239 b0 then
        match t with
        | b1 :: b2 :: _ =>
            let lo := if b0 =? 224 then 160 else 128 in
            let hi := if b0 =? 237 then 159 else 191 in
            if in_rng lo hi b1 && u8_cont b2 then 3%nat else 0%nat
        | _ => 0%nat
        end
      else if in_rng 240 244 b0 then
        match t with
        | b1 :: b2 :: b3 :: _ =>
            let lo := if b0 =? 240 then 144 else 128 in
            let hi := if b0 =? 244 then 143 else 191 in
            if in_rng lo hi b1 && u8_cont b2 && u8_cont b3 then 4%nat else 0%nat
        | _ => 0%nat
        end
      else 0%nat
  end.

Fixpoint u8_coerce_fuel (fuel : nat) (s : bytes) : bytes :=
  match fuel with
  | O => []
  | S f =>
      match s with
      | [] => []
      | b0 :: t =>
          match u8_width s with
          | O => 239 :: 191 :: 189 :: u8_coerce_fuel f t
          | w => firstn w s ++ u8_coerce_fuel f (skipn w s)
          end
      end
  end.
Definition u8_coerce (s : bytes) : bytes := u8_coerce_fuel (length s) s.

Definition all_ascii (s : bytes) : bool := forallb (fun b => b <? 128) s.

(* =================================================================== JSON *)

Inductive tfield := FCreated | FAccess.          (* time.Time fields *)
Inductive sfield := FIP | FRef.                  (* string fields *)

Definition get_t (f : tfield) (s : csess) : gtime :=
  match f with FCreated => cs_created s | FAccess => cs_access s end.
Definition set_t (f : tfield) (t : gtime) (s : csess) : csess :=
  match f with FCreated => set_created t s | FAccess => set_access t s end.
Definition get_s (f : sfield) (s : csess) : bytes :=
  match f with FIP => cs_ip s | FRef => cs_ref s end.
Definition set_s (f : sfield) (x : bytes) (s : csess) : csess :=
  match f with FIP => set_ip x s | FRef => set_ref x s end.

(* MarshalJSON: one entry of the map it builds. *)
Inductive mcond :=
  | MAlways            (* in the map literal *)
  | MRefSet            (* if s.referenceID != "" *)
  | MUserSet.          (* if s.user != nil *)

Inductive mval :=
  | MLit (z : Z)                          (* integer literal *)
  | MTime (layout : bytes) (f : tfield)   (* s.f.Format(layout) *)
  | MStrF (f : sfield)                    (* s.f *)
  | MUA (radix : N)                       (* strconv.FormatUint(s.lastUserAgentHash, radix) *)
  | MUserID                               (* s.user.GetID() *)
  | MDataMap.                             (* s.data *)

Record mblock := mkM { mb_key : bytes; mb_cond : mcond; mb_val : mval }.

(* UnmarshalJSON: one key's block of the validation cascade. *)
Inductive jty := TFloat | TStr | TMap.

Inductive guard :=
  | GNone                                 (* the value is used as it is *)
  | GAssert (t : jty) (commaok : bool)    (* x.(T), with or without `, ok` *)
  | GNullOr (t : jty) (commaok : bool).   (* if x == nil { empty } else x.(T) *)

Inductive uuse :=
  | UVersion (z : Z)                          (* must equal the literal *)
  | UTime (layout : bytes) (f : tfield)       (* s.f, err = time.Parse(layout, x) *)
  | UStrF (f : sfield)                        (* s.f = x *)
  | UUA (radix bits : N)                      (* s.lastUserAgentHash, err = strconv.ParseUint(x, radix, bits) *)
  | UUser                                     (* s.user, err = Persistence.LoadUser(x) *)
  | UData.                                    (* s.data = x *)

Record ublock := mkU { ub_key : bytes; ub_mandatory : bool; ub_guard : guard; ub_use : uuse }.

Definition has_ty (t : jty) (v : dval) : bool :=
  match t, v with
  | TFloat, DFloat _ => true
  | TStr, DStr _ => true
  | TMap, DMap _ => true
  | _, _ => false
  end.

Definition run_assert (t : jty) (commaok : bool) (v : dval) : result dval :=
  if has_ty t v then Ok v else if commaok then Err else Panic.

Definition run_guard (g : guard) (v : dval) : result dval :=
  match g with
  | GNone => Ok v
  | GAssert t ok => run_assert t ok v
  | GNullOr t ok => match v with
                    | DNull => match t with TMap => Ok (DMap []) | _ => Panic end
                    | _ => run_assert t ok v
                    end
  end.

(* The static type the guard leaves the value with, and the one each use
   needs; a table in which they differ does not come from compiling Go code. *)
Definition guard_ty (g : guard) : option jty :=
  match g with GNone => None | GAssert t _ => Some t | GNullOr t _ => Some t end.
Definition use_ty (u : uuse) : option jty :=
  match u with
  | UVersion _ => Some TFloat
  | UTime _ _ | UStrF _ | UUA _ _ => Some TStr
  | UUser => None
  | UData => Some TMap
  end.
Definition jty_eqb (a b : jty) : bool :=
  match a, b with TFloat, TFloat | TStr, TStr | TMap, TMap => true | _, _ => false end.
Definition ublock_typed (b : ublock) : bool :=
  opt_eqb jty_eqb (guard_ty (ub_guard b)) (use_ty (ub_use b)) &&
  match ub_guard b with GNullOr TMap _ => true | GNullOr _ _ => false | _ => true end.
Definition guard_commaok (g : guard) : bool :=
  match g with GNone => true | GAssert _ ok => ok | GNullOr _ ok => ok end.
Definition ublock_checked (b : ublock) : bool := ublock_typed b && guard_commaok (ub_guard b).

Section Json.
  (* Library behaviour the package relies on, as parameters. *)
  Variable load : loader.                            (* Persistence.LoadUser *)
  Variable fmt_time : bytes -> gtime -> bytes.       (* t.Format(layout) *)
  Variable parse_time : bytes -> bytes -> option gtime.  (* time.Parse(layout, s) *)
  Variable jstr : bytes -> bytes.                    (* a string through json.Marshal and back *)

  (* A Go value through json.Marshal and json.Unmarshal into interface{}:
     numbers come back as float64, strings coerced to valid UTF-8; NaN and
     the infinities make Marshal fail (None). *)
  Fixpoint reparse (d : dval) : option dval :=
    match d with
    | DNull => Some DNull
    | DBool b => Some (DBool b)
    | DInt z => Some (DFloat (f64_of_Z z))
    | DFloat b => if f64_finite b then Some (DFloat b) else None
    | DStr s => Some (DStr (jstr s))
    | DList l =>
        match (fix go (l : list dval) : option (list dval) :=
                 match l with
                 | [] => Some []
                 | x :: t => match reparse x, go t with
                             | Some x', Some t' => Some (x' :: t')
                             | _, _ => None
                             end
                 end) l with
        | Some l' => Some (DList l')
        | None => None
        end
    | DMap m =>
        match (fix go (m : list (bytes * dval)) : option (list (bytes * dval)) :=
                 match m with
                 | [] => Some []
                 | (k, x) :: t => match reparse x, go t with
                                  | Some x', Some t' => Some ((jstr k, x') :: t')
                                  | _, _ => None
                                  end
                 end) m with
        | Some m' => Some (DMap m')
        | None => None
        end
    end.

  Fixpoint reparse_map (m : list (bytes * dval)) : option (list (bytes * dval)) :=
    match m with
    | [] => Some []
    | (k, x) :: t => match reparse x, reparse_map t with
                     | Some x', Some t' => Some ((jstr k, x') :: t')
                     | _, _ => None
                     end
    end.

  (* ---- MarshalJSON ---- *)

  Definition mcond_holds (c : mcond) (s : csess) : bool :=
    match c with
    | MAlways => true
    | MRefSet => negb (is_nil (cs_ref s))
    | MUserSet => is_some (cs_user s)
    end.

  Definition mval_tree (v : mval) (s : csess) : result dval :=
    match v with
    | MLit z => Ok (DInt z)
    | MTime lay f => Ok (DStr (fmt_time lay (get_t f s)))
    | MStrF f => Ok (DStr (get_s f s))
    | MUA r => if radix_ok r then Ok (DStr (format_radix r (cs_ua s))) else Panic
    | MUserID => match cs_user s with
                 | Some u => Ok (u_id u)
                 | None => Panic               (* s.user.GetID() on a nil user *)
                 end
    | MDataMap => Ok (match cs_data s with None => DNull | Some m => DMap m end)
    end.

  (* the map m that MarshalJSON hands to json.Marshal *)
  Fixpoint json_tree (enc : list mblock) (s : csess) : result (list (bytes * dval)) :=
    match enc with
    | [] => Ok []
    | b :: r =>
        if mcond_holds (mb_cond b) s
        then rbind (mval_tree (mb_val b) s) (fun v =>
             rbind (json_tree r s) (fun t => Ok ((mb_key b, v) :: t)))
        else json_tree r s
    end.

  (* MarshalJSON followed by the generic parse UnmarshalJSON starts with: the
     tree the validation cascade sees. *)
  Definition json_marshal (enc : list mblock) (s : csess) : result dval :=
    rbind (json_tree enc s) (fun t =>
      match reparse_map t with
      | Some t' => Ok (DMap t')
      | None => Err
      end).

  (* ---- UnmarshalJSON ---- *)

  Definition run_use (u : uuse) (v : dval) (s : csess) : result csess :=
    match u, v with
    | UVersion z, DFloat b => if b =? f64_of_Z z then Ok s else Err
    | UTime lay f, DStr x => match parse_time lay x with
                             | Some t => Ok (set_t f t s)
                             | None => Err
                             end
    | UStrF f, DStr x => Ok (set_s f x s)
    | UUA r bits, DStr x => match parse_radix r bits x with
                            | Some n => Ok (set_ua n s)
                            | None => Err
                            end
    | UUser, _ => match load v with
                  | Some u' => Ok (set_user u' s)
                  | None => Err
                  end
    | UData, DMap m => Ok (set_data (Some m) s)
    | _, _ => Panic      (* ill-typed table; excluded by ublock_typed *)
    end.

  Fixpoint json_blocks (dec : list ublock) (obj : list (bytes * dval)) (s : csess) : result csess :=
    match dec with
    | [] => Ok s
    | b :: r =>
        match assoc (ub_key b) obj with
        | None => if ub_mandatory b then Err else json_blocks r obj s
        | Some v => rbind (run_guard (ub_guard b) v) (fun v' =>
                    rbind (run_use (ub_use b) v' s) (fun s' => json_blocks r obj s'))
        end
    end.

  (* UnmarshalJSON on the tree of a syntactically valid document (json.Unmarshal
     into a map accepts an object or null and refuses everything else). *)
  Definition json_unmarshal (dec : list ublock) (j : dval) : result csess :=
    match j with
    | DMap obj => json_blocks dec obj zero_sess
    | DNull => json_blocks dec [] zero_sess
    | _ => Err
    end.

  Definition json_roundtrip (enc : list mblock) (dec : list ublock) (s : csess) : result csess :=
    rbind (json_marshal enc s) (json_unmarshal dec).

  (* What the property promises: instants to the second, strings and data
     through the documented conversions, the user re-loaded by (converted) ID,
     nil data as the empty map. *)
  Definition floor_sec (t : gtime) : gtime := mkTime (t_sec t) 0 (t_off t).

  Definition jnorm (s : csess) : result csess :=
    match reparse_map (data_or_empty (cs_data s)) with
    | None => Err
    | Some m' =>
        let s' := mkSess (floor_sec (cs_created s)) (floor_sec (cs_access s)) (jstr (cs_ip s))
                         (cs_ua s) (jstr (cs_ref s)) None (Some m') in
        match cs_user s with
        | None => Ok s'
        | Some u => match reparse (u_id u) with
                    | None => Err
                    | Some id' => match load id' with
                                  | Some u' => Ok (set_user u' s')
                                  | None => Err
                                  end
                    end
        end
    end.
End Json.

(* RFC 3339's domain: local year 0..9999, whole-minute offset below a day. *)
Definition rfc_dom (t : gtime) : bool :=
  ((-62167219200 <=? t_sec t + t_off t) && (t_sec t + t_off t <? 253402300800) &&
   (Z.rem (t_off t) 60 =? 0) && (-86400 <? t_off t) && (t_off t <? 86400))%Z.

Definition json_dom (s : csess) : bool :=
  rfc_dom (cs_created s) && rfc_dom (cs_access s) && (cs_ua s <? 2 ^ 64).

(* the key of the data block, and whether the cascade accepts null under it *)
Definition null_ok_for (key : bytes) (dec : list ublock) : bool :=
  existsb (fun b => bytes_eqb (ub_key b) key &&
                    match ub_guard b with GNullOr _ _ => true | _ => false end) dec.

(* The tables of the pinned commit (decoder: with or without the repair of D3). *)
Definition lay_rfc3339 : bytes := [116;105;109;101;46;82;70;67;51;51;51;57].   (* "time.RFC3339" *)
Definition k_v : bytes := [118].
Definition k_cr : bytes := [99;114].
Definition k_la : bytes := [108;97].
Definition k_ip : bytes := [105;112].
Definition k_ua : bytes := [117;97].
Definition k_da : bytes := [100;97].
Definition k_rf : bytes := [114;102].
Definition k_us : bytes := [117;115].

Definition json_enc_v1 : list mblock :=
  [mkM k_v MAlways (MLit 1); mkM k_cr MAlways (MTime lay_rfc3339 FCreated);
   mkM k_la MAlways (MTime lay_rfc3339 FAccess); mkM k_ip MAlways (MStrF FIP);
   mkM k_ua MAlways (MUA 36); mkM k_da MAlways MDataMap;
   mkM k_rf MRefSet (MStrF FRef); mkM k_us MUserSet MUserID].

Definition json_dec_v1 (null_ok : bool) : list ublock :=
  [mkU k_v true (GAssert TFloat true) (UVersion 1);
   mkU k_cr true (GAssert TStr true) (UTime lay_rfc3339 FCreated);
   mkU k_la true (GAssert TStr true) (UTime lay_rfc3339 FAccess);
   mkU k_ip true (GAssert TStr true) (UStrF FIP);
   mkU k_ua true (GAssert TStr true) (UUA 36 64);
   mkU k_rf false (GAssert TStr true) (UStrF FRef);
   mkU k_us false GNone UUser;
   mkU k_da true (if null_ok then GNullOr TMap true else GAssert TMap true) UData].

(* ============================================== correspondence case records *)

(* Byte strings of the generated case files are written as hex text (a Coq
   string literal parses much faster than a list of numerals). *)
From Coq Require Import String Ascii.
Definition hex_digit (a : ascii) : N :=
  let n := N_of_ascii a in if n <? 58 then n - 48 else n - 87.
Fixpoint hx (s : string) : bytes :=
  match s with
  | String a (String b r) => (hex_digit a * 16 + hex_digit b) :: hx r
  | _ => []
  end.

(* LoadUser as the harness installs it: mode 0 returns a user with the given
   ID and tag 7, mode 1 an error, mode 2 (nil, nil). *)
Definition case_load (mode : N) : loader :=
  fun id => match mode with
            | 0 => Some (Some (mkUser id 7))
            | 1 => None
            | _ => Some None
            end.

(* One real GobEncode/GobDecode round trip. *)
Record gob_case := mkGC { gc_in : csess; gc_load : N; gc_out : result csess }.

Definition gob_case_ok (ver : N) (enc dec : list gentry) (c : gob_case) : bool :=
  result_eqb csess_eqb (gob_roundtrip (case_load (gc_load c)) ver enc dec (gc_in c)) (gc_out c).

(* the property itself on the real observation (no table involved) *)
Definition gob_spec_ok (c : gob_case) : bool :=
  negb (gob_dom (gc_in c)) ||
  result_eqb csess_eqb (gob_norm (case_load (gc_load c)) (gc_in c)) (gc_out c).

Definition gob_mismatches ver enc dec (cs : list gob_case) : list N := failing (gob_case_ok ver enc dec) cs 0.
Definition gob_spec_failures (cs : list gob_case) : list N := failing gob_spec_ok cs 0.

(* Observed library behaviour for one case: time.Format and time.Parse results
   for the layouts and instants / strings that occur in it. *)
Definition fmt_table := list (bytes * gtime * bytes).
Definition parse_table := list (bytes * bytes * option gtime).

Fixpoint tbl_fmt (tb : fmt_table) (lay : bytes) (t : gtime) : bytes :=
  match tb with
  | [] => []
  | (l, t', x) :: r => if bytes_eqb l lay && gtime_eqb t' t then x else tbl_fmt r lay t
  end.
Fixpoint tbl_parse (tb : parse_table) (lay : bytes) (x : bytes) : option gtime :=
  match tb with
  | [] => None
  | (l, x', t) :: r => if bytes_eqb l lay && bytes_eqb x' x then t else tbl_parse r lay x
  end.

(* One real MarshalJSON/UnmarshalJSON round trip. *)
Record json_case := mkJC {
  jc_in : csess; jc_load : N; jc_fmt : fmt_table; jc_parse : parse_table; jc_out : result csess }.

Definition json_case_ok (enc : list mblock) (dec : list ublock) (c : json_case) : bool :=
  result_eqb csess_eqb
    (json_roundtrip (case_load (jc_load c)) (tbl_fmt (jc_fmt c)) (tbl_parse (jc_parse c)) u8_coerce enc dec (jc_in c))
    (jc_out c).

(* the property itself on the real observation: it promises the instants to
   the second, so a decoder that keeps more is not at fault *)
Definition floor_times (r : result csess) : result csess :=
  match r with
  | Ok s => Ok (set_created (floor_sec (cs_created s)) (set_access (floor_sec (cs_access s)) s))
  | _ => r
  end.

Definition json_spec_ok (c : json_case) : bool :=
  negb (json_dom (jc_in c)) ||
  result_eqb csess_eqb (jnorm (case_load (jc_load c)) u8_coerce (jc_in c)) (floor_times (jc_out c)).

Definition json_mismatches enc dec (cs : list json_case) : list N := failing (json_case_ok enc dec) cs 0.
Definition json_spec_failures (cs : list json_case) : list N := failing json_spec_ok cs 0.

(* One real UnmarshalJSON call on a document that is syntactically JSON: the
   tree json.Unmarshal produces for it, and the outcome. *)
Record jun_case := mkJU { ju_tree : dval; ju_load : N; ju_parse : parse_table; ju_out : result csess }.

Definition jun_case_ok (dec : list ublock) (c : jun_case) : bool :=
  result_eqb csess_eqb
    (json_unmarshal (case_load (ju_load c)) (tbl_parse (ju_parse c)) dec (ju_tree c))
    (ju_out c).

Definition jun_mismatches dec (cs : list jun_case) : list N := failing (jun_case_ok dec) cs 0.

(* float64(int) and the UTF-8 coercion against the real library *)
Record lib_case := mkLC { lc_int : Z; lc_bits : N; lc_str : bytes; lc_coerced : bytes;
                          lc_n : N; lc_text : bytes }.
Definition lib_case_ok (c : lib_case) : bool :=
  N.eqb (f64_of_Z (lc_int c)) (lc_bits c) && bytes_eqb (u8_coerce (lc_str c)) (lc_coerced c) &&
  bytes_eqb (format36 (lc_n c)) (lc_text c) && opt_eqb N.eqb (parse36 (lc_text c)) (Some (lc_n c)).
Definition lib_mismatches (cs : list lib_case) : list N := failing lib_case_ok cs 0.
