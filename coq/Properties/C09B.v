(* C09 (also C01, C10, C16, C17) - the codec the session model assumes is the
   codec the codec model proves (round 4, task R5; DESIGN 9.17 finding 12).
   Statements only; definitions are in Model/CodecBridge.v, proofs in
   Proofs/CodecBridge.v .. CodecBridge4.v, non-vacuity in Proofs/CodecBridgeEx.v.

   Model/Sess.v writes into the store `Sess.codec c r`: the record as it is
   after the persistence layer encoded and decoded it (gob: nil data comes
   back as the empty map, the user re-loaded in version 0; JSON: also instants
   floored to the second), with data values opaque and unchanged. The
   session-level theorems (C01, C09, C10: "data exactly as last written")
   rest on that function. Model/Codec.v and Properties/C16*.v, C17*.v model
   session.go's GobEncode/GobDecode and MarshalJSON/UnmarshalJSON on the real
   field layout (tables regenerated from the source) and prove their round
   trips. Here the two are connected, using those round-trip theorems:

   emb_rec r            the Go session (Codec.csess) that stands for the record
                        r of the session model: instants as UTC time.Time on
                        the harness's clock (model instant 0 = 2000-01-01Z),
                        address / reference ID / user ID / data keys and values
                        as ASCII decimal strings, the fingerprint as it is
   proj_rec s           the way back (None outside the image)
   decode_encode c s    session.go's encoder for the codec c selects, down to
                        the byte string, then its decoder (the concrete
                        libraries of C16I / C17I; LoadUser = bridge_load: the
                        user with that ID, version 0)
   bridge_dom c r       gob: true. JSON: both instants within years 0..9999
                        and the fingerprint a uint64 (C17's json_dom)
   json_da_null_ok      the closed boolean of C17_roundtrip (UnmarshalJSON
                        accepts the null MarshalJSON writes for nil data;
                        false = defect D3), read off the regenerated table
   jstable d            the values JSON hands back exactly: null, booleans,
                        finite floats, ASCII strings, lists/maps of such

   Class chosen for data values: ASCII strings (what the harness's session
   histories store). On it JSON's conversions are the identity; the theorems
   at the end say what happens outside it. User IDs likewise are embedded as
   strings only: integer user IDs, which C16 names, are NOT covered by the
   bridge - gob hands LoadUser the int, JSON hands it a float64
   (C09B_json_int_user_refuted, C09B_json_int_user_needs_float_loader). *)
From Sessions Require Import Model.Base Model.Codec Model.JsonLib Model.Rfc3339 Model.GobWire Model.CodecBridge
  Gen.Layout Proofs.CodecDefs Proofs.CodecLaws2 Proofs.CodecBridge Proofs.CodecBridge2 Proofs.CodecBridge3
  Proofs.CodecBridge4 Proofs.CodecBridgeEx.
From Sessions Require Model.Sess.
Local Open Scope N_scope.

(* ------------------------------------------ the premise of the JSON theorems *)

(* json_da_null_ok = true is a premise of every JSON theorem below. It is a
   closed boolean over the table regenerated from session.go, and on the tree
   checked it is true - an obligation, so that a tree in which the repair of
   D3 is reverted fails here (and in the examples of Proofs/CodecBridgeEx.v)
   instead of making the JSON theorems vacuous. checks/codec_bridge.py also
   records its value (Model/CodecBridge.v: da_null_ok_now, the same term). *)
Theorem C09B_json_da_null_ok_now : json_da_null_ok = true /\ da_null_ok_now = json_da_null_ok.
Proof. exact (conj json_da_null_ok_now da_null_ok_now_eq). Qed.

(* ------------------------------------------------------------ the embedding *)

(* Nothing is lost by embedding: proj_rec is a left inverse (so emb_rec is
   injective). *)
Theorem C09B_embedding_faithful : forall r : Sess.rec, proj_rec (emb_rec r) = Some r.
Proof. exact proj_emb_rec. Qed.

(* An embedded record lies in the classes on which the codec theorems are
   exact: zone offsets that time's binary form restores, no numbers, ASCII
   strings, JSON-stable data and user ID. *)
Theorem C09B_embedding_stable :
  forall r : Sess.rec,
    gob_dom (emb_rec r) = true /\ sess_num_wf (emb_rec r) = true /\
    all_ascii (cs_ip (emb_rec r)) = true /\ all_ascii (cs_ref (emb_rec r)) = true /\
    jstable_map (data_or_empty (cs_data (emb_rec r))) = true /\
    match cs_user (emb_rec r) with Some u => jstable (u_id u) = true | None => True end.
Proof. exact emb_rec_stable. Qed.

(* ------------------------------------- decode (encode (emb r)) = emb (codec r) *)

(* LoadUser as Sess.codec takes it: the stored ID yields that user, version 0. *)
Definition C09B_load_ok (load : loader) : Prop :=
  forall s : bytes, load (DStr s) = Some (Some (mkUser (DStr s) 0)).

(* gob (the wire of C16: the typed values handed to Encode), every record,
   every such loader, no guard. *)
Theorem C09B_gob :
  forall (load : loader) (c : Sess.cfg) (r : Sess.rec),
    C09B_load_ok load -> Sess.c_json c = false ->
    gob_roundtrip load gob_version gob_enc gob_dec (emb_rec r) = Ok (emb_rec (Sess.codec c r)).
Proof. exact bridge_gob. Qed.

(* JSON, for every library satisfying the hypotheses of C17 (json_lib_ok). *)
Theorem C09B_json :
  forall (load : loader) fmt_time parse_time jstr (c : Sess.cfg) (r : Sess.rec),
    json_da_null_ok = true -> json_lib_ok fmt_time parse_time jstr ->
    C09B_load_ok load -> Sess.c_json c = true -> bridge_dom c r = true ->
    json_roundtrip load fmt_time parse_time jstr json_enc json_dec (emb_rec r) = Ok (emb_rec (Sess.codec c r)).
Proof. exact bridge_json. Qed.

(* ... and with no premise on the table for records that have a data map
   (every record but the replaced-ID records RegenerateID writes). *)
Theorem C09B_json_nonnil :
  forall (load : loader) fmt_time parse_time jstr (c : Sess.cfg) (r : Sess.rec),
    json_lib_ok fmt_time parse_time jstr ->
    C09B_load_ok load -> Sess.c_json c = true -> bridge_dom c r = true -> Sess.r_data r <> None ->
    json_roundtrip load fmt_time parse_time jstr json_enc json_dec (emb_rec r) = Ok (emb_rec (Sess.codec c r)).
Proof. exact bridge_json_nonnil. Qed.

(* Both codecs through the byte string, no library hypothesis left. *)
Theorem C09B_bytes :
  forall (c : Sess.cfg) (r : Sess.rec),
    (Sess.c_json c = true -> json_da_null_ok = true) ->
    bridge_dom c r = true ->
    decode_encode c (emb_rec r) = Ok (emb_rec (Sess.codec c r)).
Proof. exact bridge_bytes. Qed.

(* The statement of the task: reading the decoded session back into the
   session model gives Sess.codec. *)
Theorem C09B_codec_agrees :
  forall (c : Sess.cfg) (r : Sess.rec),
    (Sess.c_json c = true -> json_da_null_ok = true) ->
    bridge_dom c r = true ->
    proj_result (decode_encode c (emb_rec r)) = Some (Sess.codec c r).
Proof. exact bridge_proj. Qed.

(* LoadUser failing during the decoding makes the decoder fail (Sess.p_load:
   the error after EvLoadUser _ false). *)
Theorem C09B_gob_loaduser_fails :
  forall (load : loader) (r : Sess.rec) (u v : N),
    Sess.r_user r = Some (u, v) -> load (emb_uid u) = None ->
    gob_roundtrip load gob_version gob_enc gob_dec (emb_rec r) = Err.
Proof. exact bridge_gob_loaduser_fails. Qed.

Theorem C09B_json_loaduser_fails :
  forall (load : loader) fmt_time parse_time jstr (c : Sess.cfg) (r : Sess.rec) (u v : N),
    json_da_null_ok = true -> json_lib_ok fmt_time parse_time jstr ->
    Sess.c_json c = true -> bridge_dom c r = true ->
    Sess.r_user r = Some (u, v) -> load (emb_uid u) = None ->
    json_roundtrip load fmt_time parse_time jstr json_enc json_dec (emb_rec r) = Err.
Proof. exact bridge_json_loaduser_fails. Qed.

(* ------------------------------------------------------------------ guards *)

(* The guard holds of every record whose instants fit Go's int64 nanoseconds
   around the model's epoch (years 1707..2292; the model's durations and
   `since` are int64 already) and whose fingerprint is a uint64. *)
Theorem C09B_guard_int64 :
  forall (c : Sess.cfg) (r : Sess.rec),
    inst64 (Sess.r_created r) = true -> inst64 (Sess.r_access r) = true -> Sess.r_ua r < 2 ^ 64 ->
    bridge_dom c r = true.
Proof. exact bridge_dom_int64. Qed.

(* What the store holds satisfies the guard again. *)
Theorem C09B_guard_kept :
  forall (c : Sess.cfg) (r : Sess.rec), bridge_dom c r = true -> bridge_dom c (Sess.codec c r) = true.
Proof. exact codec_dom. Qed.

(* --------------------------------------- the session model's persistence layer *)

(* SaveSession (p_save) then LoadSession (p_load), under any fault plan: if the
   save succeeded and the load yields a record, that record is what the codec
   model yields for the saved one. *)
Theorem C09B_save_load :
  forall (s : Sess.st) (k : Sess.key) (r : Sess.rec) (s1 s2 : Sess.st) (r' : Sess.rec),
    (Sess.c_json (Sess.conf s) = true -> json_da_null_ok = true) ->
    bridge_dom (Sess.conf s) r = true ->
    Sess.p_save s k r = (s1, true) ->
    Sess.p_load s1 k = (s2, Some (Some r')) ->
    decode_encode (Sess.conf s) (emb_rec r) = Ok (emb_rec r') /\
    proj_result (decode_encode (Sess.conf s) (emb_rec r)) = Some r'.
Proof. exact save_load_bridge. Qed.

(* The same on the store alone: after a successful save the store holds under
   the key the projection of decode (encode (emb r)). *)
Theorem C09B_store_after_save :
  forall (s : Sess.st) (k : Sess.key) (r : Sess.rec) (s1 : Sess.st),
    (Sess.c_json (Sess.conf s) = true -> json_da_null_ok = true) ->
    bridge_dom (Sess.conf s) r = true ->
    Sess.p_save s k r = (s1, true) ->
    Sess.lookup (Sess.store s1) k = proj_result (decode_encode (Sess.conf s) (emb_rec r)).
Proof. exact save_store_bridge. Qed.

(* Without planned faults both calls succeed (the two above are not vacuous). *)
Theorem C09B_save_load_succeeds :
  forall (s : Sess.st) (k : Sess.key) (r : Sess.rec),
    Sess.plan s = [] ->
    exists s1 s2, Sess.p_save s k r = (s1, true) /\
                  Sess.p_load s1 k = (s2, Some (Some (Sess.codec (Sess.conf s) r))).
Proof. exact save_load_succeeds. Qed.

(* ------------------------------------------------ the cross-check's oracle *)

(* checks/codec_bridge.py evaluates bridge_fix on every record the real store
   is seen to hold (0: within the guard and a fixed point of proj . decode .
   encode . emb). The model predicts 0: whatever Sess.codec leaves in the store
   is such a fixed point. (Only the codec of a configuration matters.) *)
Theorem C09B_stored_is_fixed_point :
  forall (json : bool) (r : Sess.rec),
    (json = true -> json_da_null_ok = true) ->
    bridge_dom (ex_cfg json) r = true ->
    bridge_fix json (Sess.codec (ex_cfg json) r) = 0.
Proof. exact bridge_fix_codec. Qed.

(* -------------------------------------------- the limits: outside the class *)

(* A JSON-stable value comes back from JSON as it was (for every jstr that
   fixes ASCII strings - C17's hypothesis) ... *)
Theorem C09B_stable_value_kept :
  forall jstr, (forall s, all_ascii s = true -> jstr s = s) ->
  forall d : dval, jstable d = true -> reparse jstr d = Some d.
Proof. exact reparse_stable. Qed.

(* ... so a session with JSON-stable data - any session of the codec model,
   embedded or not - gets its data back exactly under JSON (nil as empty) ... *)
Theorem C09B_json_stable_data_kept :
  forall load fmt_time parse_time jstr (s s' : csess),
    json_da_null_ok = true -> json_lib_ok fmt_time parse_time jstr -> json_dom s = true ->
    jstable_map (data_or_empty (cs_data s)) = true ->
    json_roundtrip load fmt_time parse_time jstr json_enc json_dec s = Ok s' ->
    cs_data s' = Some (data_or_empty (cs_data s)).
Proof. exact json_stable_data_kept. Qed.

(* ... as every session does under gob, whatever the values. *)
Theorem C09B_gob_data_kept :
  forall load (s s' : csess),
    gob_dom s = true ->
    gob_roundtrip load gob_version gob_enc gob_dec s = Ok s' ->
    cs_data s' = Some (data_or_empty (cs_data s)).
Proof. exact gob_data_kept. Qed.

(* But an integer stored as a data value is a float64 after JSON: not the
   value written. C01's / C09's "exactly the data last written" is, behind a
   JSON store, "up to the documented conversions" - the clause of C17
   (C17_roundtrip: jnorm, reparse: "numbers come back as float64, strings
   coerced to valid UTF-8"). *)
Theorem C09B_json_int_becomes_float :
  forall load fmt_time parse_time jstr (s s' : csess) (k : bytes) (z : Z),
    json_da_null_ok = true -> json_lib_ok fmt_time parse_time jstr -> json_dom s = true ->
    json_roundtrip load fmt_time parse_time jstr json_enc json_dec s = Ok s' ->
    In (k, DInt z) (data_or_empty (cs_data s)) ->
    In (jstr k, DFloat (f64_of_Z z)) (data_or_empty (cs_data s')).
Proof. exact json_int_becomes_float. Qed.

(* Witnesses down to the byte string: the session of ex_rec with the int 10
   (resp. the one-byte string 0xFF) as a data value. gob returns the data as
   written; JSON returns the float64 10.0 (resp. U+FFFD), which is not the
   data written and (for the float) no value of the session model. *)
Theorem C09B_json_int_refuted :
  json_dom ex_int_sess = true /\ sess_num_wf ex_int_sess = true /\
  (exists g, decode_encode (ex_cfg false) ex_int_sess = Ok g /\ cs_data g = cs_data ex_int_sess) /\
  (exists j, decode_encode (ex_cfg true) ex_int_sess = Ok j /\
             cs_data j = Some [(dec 1, DFloat (f64_of_Z 10))] /\ cs_data j <> cs_data ex_int_sess /\
             proj_rec j = None).
Proof. exact bridge_json_int_refuted. Qed.

Theorem C09B_json_utf8_refuted :
  json_dom ex_bad_utf8_sess = true /\ sess_num_wf ex_bad_utf8_sess = true /\
  (exists g, decode_encode (ex_cfg false) ex_bad_utf8_sess = Ok g /\ cs_data g = cs_data ex_bad_utf8_sess) /\
  (exists j, decode_encode (ex_cfg true) ex_bad_utf8_sess = Ok j /\
             cs_data j = Some [(dec 1, DStr [239; 191; 189])] /\ cs_data j <> cs_data ex_bad_utf8_sess).
Proof. exact bridge_json_utf8_refuted. Qed.

(* Integer user IDs - the kind C16 names - are outside the bridge (which
   embeds user IDs as strings). Witness through the byte-level instances: the
   session of ex_rec logged in as the user with the Go int 7 as ID. gob hands
   LoadUser the int 7 and the loader that knows exactly DInt 7 (int7_load)
   finds the user; JSON hands LoadUser the float64 7.0, so the same loader
   fails and the record cannot be read back, and a loader accepting anything
   (echo_load) attaches a user whose ID is the float, not the int. *)
Theorem C09B_json_int_user_refuted :
  json_dom ex_int_user_sess = true /\ sess_num_wf ex_int_user_sess = true /\
  (exists g, decode_encode_with int7_load (ex_cfg false) ex_int_user_sess = Ok g /\
             cs_user g = Some (mkUser (DInt 7) 0)) /\
  decode_encode_with int7_load (ex_cfg true) ex_int_user_sess = Err /\
  (exists j, decode_encode_with echo_load (ex_cfg true) ex_int_user_sess = Ok j /\
             cs_user j = Some (mkUser (DFloat (f64_of_Z 7)) 0) /\
             DFloat (f64_of_Z 7) <> DInt 7 /\ proj_rec j = None).
Proof. exact bridge_json_int_user_refuted. Qed.

(* In general (any session, any library satisfying C17's hypotheses): an int
   user ID z reaches LoadUser as float64(z); a loader that does not know the
   float makes UnmarshalJSON fail. *)
Theorem C09B_json_int_user_needs_float_loader :
  forall load fmt_time parse_time jstr (s : csess) (z : Z) (tag : N),
    json_da_null_ok = true -> json_lib_ok fmt_time parse_time jstr -> json_dom s = true ->
    cs_user s = Some (mkUser (DInt z) tag) ->
    load (DFloat (f64_of_Z z)) = None ->
    json_roundtrip load fmt_time parse_time jstr json_enc json_dec s = Err.
Proof. exact json_int_user_reaches_loader_as_float. Qed.

(* decode_encode is decode_encode_with for Sess.codec's LoadUser *)
Theorem C09B_decode_encode_with_bridge :
  forall (c : Sess.cfg) (s : csess), decode_encode_with bridge_load c s = decode_encode c s.
Proof. exact decode_encode_with_bridge. Qed.

Print Assumptions C09B_json_da_null_ok_now.
Print Assumptions C09B_embedding_faithful.
Print Assumptions C09B_embedding_stable.
Print Assumptions C09B_gob.
Print Assumptions C09B_json.
Print Assumptions C09B_json_nonnil.
Print Assumptions C09B_bytes.
Print Assumptions C09B_codec_agrees.
Print Assumptions C09B_gob_loaduser_fails.
Print Assumptions C09B_json_loaduser_fails.
Print Assumptions C09B_guard_int64.
Print Assumptions C09B_guard_kept.
Print Assumptions C09B_save_load.
Print Assumptions C09B_store_after_save.
Print Assumptions C09B_save_load_succeeds.
Print Assumptions C09B_stored_is_fixed_point.
Print Assumptions C09B_stable_value_kept.
Print Assumptions C09B_json_stable_data_kept.
Print Assumptions C09B_gob_data_kept.
Print Assumptions C09B_json_int_becomes_float.
Print Assumptions C09B_json_int_refuted.
Print Assumptions C09B_json_utf8_refuted.
Print Assumptions C09B_json_int_user_refuted.
Print Assumptions C09B_json_int_user_needs_float_loader.
Print Assumptions C09B_decode_encode_with_bridge.
