(* C20 — ReasonablePassword rejects exactly what its rules say, for every input.
   Statements only; proofs are in Proofs/PasswordLaws.v. The two word lists and
   the case-folding function are universally quantified. *)
From Sessions Require Import Model.Base Model.Password Gen.Consts Proofs.PasswordLaws.

Theorem C20_first_rule :
  forall (common dict : list bytes) (tolower : bytes -> bytes) (names : list bytes) (pw : bytes),
    first_rule common dict tolower names pw (reasonable common dict tolower names pw).
Proof. exact reasonable_first_rule. Qed.

Theorem C20_first_rule_unique :
  forall common dict tolower names pw v,
    first_rule common dict tolower names pw v -> v = reasonable common dict tolower names pw.
Proof. exact first_rule_unique. Qed.

Theorem C20_lists_rejected :
  forall common dict tolower names pw,
    In pw common \/ In pw dict -> reasonable common dict tolower names pw <> PasswordOK.
Proof. exact lists_rejected. Qed.

Theorem C20_names_monotone :
  forall common dict tolower names names' pw,
    incl names names' ->
    reasonable common dict tolower names pw <> PasswordOK ->
    reasonable common dict tolower names' pw <> PasswordOK.
Proof. exact names_monotone. Qed.

Theorem C20_source_constants :
  pw_min_len = 8%N /\ pw_sequences = sequences_v1 /\ pw_return_order = [1; 2; 3; 4; 5; 6; 0]%N.
Proof. exact pw_consts_pinned. Qed.

Print Assumptions C20_first_rule.
Print Assumptions C20_first_rule_unique.
Print Assumptions C20_lists_rejected.
Print Assumptions C20_names_monotone.
Print Assumptions C20_source_constants.
