(* C17 — JSON restores every session up to documented conversions; bad input
   errors. Statements only; proofs are in Proofs/CodecText.v (base 36), CodecLaws2.v
   (round trip), CodecLaws3.v (totality), CodecLaws4.v (re-encoding), CodecPinned.v.
   json_enc and json_dec are regenerated from MarshalJSON/UnmarshalJSON on
   every run (Gen/Layout.v). Library behaviour is universally quantified:
   `load` (Persistence.LoadUser), `fmt_time`/`parse_time` (time.Format,
   time.Parse), `jstr` (a string through json.Marshal and back), subject to
   the hypotheses spelled out in each statement. *)
From Sessions Require Import Model.Base Model.Codec Gen.Layout Proofs.CodecText Proofs.CodecDefs Proofs.CodecPinned
  Proofs.CodecLaws2 Proofs.CodecLaws3 Proofs.CodecLaws4.
Local Open Scope N_scope.

(* The fingerprint sub-codec: FormatUint(_, 36) / ParseUint(_, 36, 64). *)
Theorem base36_roundtrip :
  (forall n, n < 2 ^ 64 -> parse36 (format36 n) = Some n) /\
  (forall s n, parse36 s = Some n -> n < 2 ^ 64).
Proof. exact base36_roundtrip_lemma. Qed.

Theorem base36_rejects_large :
  forall ds, Forall (fun d => d < 36) ds -> 2 ^ 64 <= eval_digits 36 0 ds ->
    parse36 (map digit_char ds) = None.
Proof. exact parse36_rejects_large. Qed.

(* What is assumed of the libraries is the predicate json_lib_ok
   (Proofs/CodecLaws2.v): jstr fixes ASCII strings; RFC 3339 text is ASCII and
   parses back to the instant floored to the second, offset kept, for local
   years 0..9999 and whole-minute offsets. *)

(* Every session in RFC 3339's domain — including replaced-ID records and
   sessions without data — comes back as jnorm says: instants floored to the
   second, strings and data through the JSON conversions, user re-loaded by
   the converted ID, nil data as the empty map. The premise is a closed
   boolean read off the regenerated table; the check evaluates it on every
   run (false = defect D3, see C17_roundtrip_refuted). *)
Theorem C17_roundtrip :
  json_da_null_ok = true ->
  forall load fmt_time parse_time jstr, json_lib_ok fmt_time parse_time jstr ->
  forall s, json_dom s = true ->
    json_roundtrip load fmt_time parse_time jstr json_enc json_dec s = jnorm load jstr s.
Proof. exact json_roundtrip_thm. Qed.

(* Unconditionally, for sessions that have a data map. *)
Theorem C17_roundtrip_nonnil :
  forall load fmt_time parse_time jstr, json_lib_ok fmt_time parse_time jstr ->
  forall s, cs_data s <> None -> json_dom s = true ->
    json_roundtrip load fmt_time parse_time jstr json_enc json_dec s = jnorm load jstr s.
Proof. exact json_roundtrip_nonnil_thm. Qed.

(* D3: if UnmarshalJSON refuses null under "da", the record RegenerateID
   stores under a replaced ID cannot be read back. *)
Theorem C17_roundtrip_refuted :
  json_da_null_ok = false ->
  forall load fmt_time parse_time jstr, json_lib_ok fmt_time parse_time jstr ->
  exists s, json_dom s = true /\ cs_data s = None /\ cs_ref s <> [] /\ cs_user s = None /\
            json_roundtrip load fmt_time parse_time jstr json_enc json_dec s = Err /\
            jnorm load jstr s = Ok (mkSess (floor_sec (cs_created s)) (floor_sec (cs_access s)) (jstr (cs_ip s))
                                           (cs_ua s) (jstr (cs_ref s)) None (Some [])).
Proof. exact json_roundtrip_refuted_thm. Qed.

(* UnmarshalJSON never panics, whatever tree json.Unmarshal hands it ... *)
Theorem C17_total :
  forall load parse_time (j : dval), json_unmarshal load parse_time json_dec j <> Panic.
Proof. exact json_total_lemma. Qed.

(* ... and in the interpreter a panic arises only at a type assertion the
   table reports as not in comma-ok form (for any table). *)
Theorem C17_panic_only_unchecked :
  forall load parse_time (dec : list ublock) (j : dval),
    json_unmarshal load parse_time dec j = Panic ->
    exists b, In b dec /\ ublock_checked b = false.
Proof. exact json_unmarshal_panic. Qed.

(* Whatever UnmarshalJSON accepts, MarshalJSON encodes again (given that the
   users LoadUser returns have IDs json.Marshal accepts). *)
Theorem C17_reencodes :
  forall load fmt_time parse_time jstr,
    (forall id u, load id = Some (Some u) -> reparse jstr (u_id u) <> None) ->
  forall (j : dval) (s : csess),
    is_wire j = true ->
    json_unmarshal load parse_time json_dec j = Ok s ->
    exists w, json_marshal fmt_time jstr json_enc s = Ok w.
Proof. exact json_reencodes_lemma. Qed.

(* Keys, conditions, radix and time layout are those of the pinned commit. *)
Theorem C17_pinned : json_enc = json_enc_v1 /\ json_dec = json_dec_v1 json_da_null_ok.
Proof. exact json_pinned_lemma. Qed.

Print Assumptions base36_roundtrip.
Print Assumptions base36_rejects_large.
Print Assumptions C17_roundtrip.
Print Assumptions C17_roundtrip_nonnil.
Print Assumptions C17_roundtrip_refuted.
Print Assumptions C17_total.
Print Assumptions C17_panic_only_unchecked.
Print Assumptions C17_reencodes.
Print Assumptions C17_pinned.
