(* C01 — a cookie-following client gets back its own session, and only its own.
   Statements only; proofs are in Proofs/IsoLaws.v (on the invariant of
   Proofs/HistInv*.v). Fault-free execution. *)
From Sessions Require Import Model.Base Model.Sess Model.Hist Proofs.SessDefs
  Proofs.HistInv Proofs.HistInv2 Proofs.HistInv3 Proofs.IsoLaws Proofs.C01Spec.

(* Per call: a Start that returns a session returns either a session created by
   this call (next ordinal, empty data, no user, its live cookie sent), or the
   session the presented ID resolves to in the pre-state through L: directly
   (data and user equal field by field; same ID, or the next ordinal when the ID
   was rotated) or through replaced-ID records (content equal up to the codec,
   ID the end of the chain). *)
Theorem C01_isolation_step :
  forall s q s' o' cks, sess_inv s -> start s q = (s', Ok (Some o'), cks) ->
  exists ob', hget s' o' = Some ob' /\ r_ref (o_rec ob') = None /\
    ((q_create q = true /\ is_created s ob' cks) \/
     (exists k, q_cookie q = CKey k /\ is_resolved s k ob')).
Proof. exact start_isolation_sess. Qed.

(* Along histories: in every state reachable by a fault-free history (crashes,
   cache loss, restarts, purges, waits, configuration changes, user-wide calls
   included) every fault-free request step is isolated in that sense. *)
Theorem C01_isolation_hist_partial :
  forall c hs r, Forall ff_hop hs -> rq_plan r = [] -> step_isolated (reach c hs) r.
Proof. exact hist_isolation. Qed.

(* The history-level statement, safety half (a ghost per-client specification:
   the data and user ID each client last wrote, evaluated on the observations
   of the run; Proofs/C01Spec.v): every session a request of a cookie-following
   client returns holds exactly what that client last wrote, or was created in
   that step, empty. NOT PROVED in general (it needs write-through, C09, and the
   rotation laws, C04/C05, lifted to the jar invariant); tested on model runs
   (C01Spec.C01_safety_tests). What is proved is C01_isolation_step and
   C01_isolation_hist_partial above. The liveness half ("a still valid session is
   returned") is not formalised here. *)
Definition C01_statement : Prop := C01_safety_statement.

(* Handler scripts may use GetAndDelete (it writes through since the repair of
   defect D6): with the cache switched off the deletion reaches the store and
   the next request sees the key gone, as the ghost specification says. *)
Theorem C01_getdel_example :
  let hs := [rq 1 true [SSet 1 2]; rq 1 false [SGetDel 1; SGetDel 1]; rq 1 false [SGet 1]] in
  forallb c01_hop hs = true /\ g_run [] hs (run cfg0 hs) = true /\
  map ob_script (run cfg0 hs) = [[SOk]; [SVal (Some 2%N); SVal None]; [SVal None]].
Proof. exact C01_getdel_test. Qed.

Print Assumptions C01_isolation_step.
Print Assumptions C01_isolation_hist_partial.
Print Assumptions C01_getdel_example.
