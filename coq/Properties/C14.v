(* C14 — per-key locks never deadlock, lose a wake-up, or couple unrelated
   keys. Statements only; proofs are in Proofs/Mutex*.v. Provisos as in C13
   (`adm_run`, `adm`); "every holder eventually unlocks" is built into the
   scripts (a holder's only next action is its Unlock). *)
From Sessions Require Import Model.Base Model.Mutex Gen.MutexTbl
  Proofs.MutexBasics Proofs.MutexSafety Proofs.MutexProgress Proofs.MutexIndep Proofs.MutexTheorems.

(* No deadlock: while some script is unfinished an admissible step is enabled. *)
Theorem C14_no_deadlock :
  forall scripts purges ls st,
    run (init scripts purges) ls = Some st -> adm_run (init scripts purges) ls ->
    finished st = false -> exists l st', step st l = Some st' /\ adm st l.
Proof. exact c14_no_deadlock. Qed.

(* Termination: a measure strictly decreases on every transition, so runs are
   bounded by the initial measure; a run that cannot be extended has finished
   every script (every Lock returned, no waiter forgotten by a release or a
   purge); and from every reachable state such a run exists. *)
Theorem C14_terminates :
  (forall st l st', step st l = Some st' -> measure st' < measure st) /\
  (forall scripts purges ls st,
     run (init scripts purges) ls = Some st -> adm_run (init scripts purges) ls ->
     length ls <= measure (init scripts purges) /\
     ((forall l st', step st l = Some st' -> ~ adm st l) -> finished st = true) /\
     (exists ls' st', run st ls' = Some st' /\ adm_run st ls' /\ finished st' = true)).
Proof.
  exact (conj measure_decreases
          (fun scripts purges ls st Hr Ha =>
             conj (c14_bounded scripts purges ls st Hr Ha)
               (conj (c14_maximal_finished scripts purges ls st Hr Ha)
                     (c14_completes scripts purges ls st Hr Ha)))).
Qed.

(* Exactly one waiter per release: in any continuation of an admissible run the
   Lock(k) calls that return exceed the holder Unlock(k) calls taken by at most
   one (so at most one between consecutive releases), and a release that finds
   waiters puts the manager into the hand-over. *)
Theorem C14_one_per_release :
  forall scripts purges ls st,
    run (init scripts purges) ls = Some st -> adm_run (init scripts purges) ls ->
    (forall tr st' k, atrace st tr st' ->
       cnt (is_grant k) tr <= cnt (is_release k) tr + 1 /\
       (cnt (is_release k) tr = 0 -> cnt (is_grant k) tr <= 1)) /\
    (forall k ov st1, mgr st = MRel k -> 0 < cA st k -> step st (LMgrGet ov) = Some st1 ->
       exists c, mgr st1 = MRelSend c k).
Proof.
  exact (fun scripts purges ls st Hr Ha =>
           conj (c14_one_per_release scripts purges ls st Hr Ha)
                (c14_hands_over scripts purges ls st Hr Ha)).
Qed.

(* An Unlock of a key that is not held has no effect: the goroutine returns, the
   manager is back in its select, every counter is unchanged, and the table is
   unchanged except that an absent entry for the key now exists with count 0. *)
Theorem C14_spurious :
  forall st g k r ov,
    mgr st = MIdle -> nth_error (gs st) g = Some (mkG (GSpur k) r) -> lk st k = 0 ->
    exists st1 st2,
      step st (LRelease g) = Some st1 /\ step st1 (LMgrGet ov) = Some st2 /\
      mgr st2 = MIdle /\ gs st2 = upd g (mkG GIdle r) (gs st) /\
      (forall k', lk st2 k' = lk st k') /\
      (forall k', k' <> k -> tget (tbl st2) k' = tget (tbl st) k') /\
      (forall e, tget (tbl st) k = Some e -> tget (tbl st2) k = Some e) /\
      (tget (tbl st) k = None -> tget (tbl st2) k = Some (mkE 0 (nextc st))).
Proof. exact spurious_no_effect. Qed.

(* Independence: a goroutine blocked in Lock(k) while nobody holds k or has an
   earlier request for k reaches Hold k by a schedule made of its own steps, the
   manager's, and the completion of a request the manager already accepted: no
   holder or locker of another key has to move. *)
Theorem C14_independent :
  forall scripts purges ls st,
    run (init scripts purges) ls = Some st -> adm_run (init scripts purges) ls ->
    forall g k r,
      nth_error (gs st) g = Some (mkG (GSendAcq k) r) -> cA st k = 0 -> cH st k = 0 ->
      exists ls' st', run st ls' = Some st' /\ adm_run st ls' /\ Forall (indep g) ls' /\
        nth_error (gs st') g = Some (mkG (GHold k) r).
Proof. exact c14_independent. Qed.

Print Assumptions C14_no_deadlock.
Print Assumptions C14_terminates.
Print Assumptions C14_one_per_release.
Print Assumptions C14_spurious.
Print Assumptions C14_independent.
