(* C15 — concurrent use of sessions is data-race free and each key/value
   operation is atomic. Statements only; proofs are in Proofs/LocksetSound.v,
   Proofs/Linearizable.v, Proofs/LinCheck.v. The obligations over the table
   regenerated from the Go source are in Properties/C15Table.v. *)
From Coq Require Import List NArith String.
From Sessions Require Import Model.Base Model.Lockset
     Proofs.LocksetSound Proofs.Linearizable Proofs.LinCheck.
Import ListNotations.

(* (a) Lockset discipline excludes data races: in every well-formed trace —
   any number of threads, objects, locks — in which every access to a field
   either precedes the publication of its object by the publishing thread, or
   comes after the publication and holds the field's lock (exclusively to
   write, at least shared to read), or the field is never written after
   publication, or the field is confined to one thread, any two conflicting
   accesses are ordered by happens-before. *)
Theorem C15_lockset_sound :
  forall (g : obj -> field -> guard) (tr : trace),
    wf_trace tr -> disciplined g tr ->
    forall i j, i < j -> conflict tr i j -> hb tr i j.
Proof. exact lockset_sound. Qed.

Theorem C15_lockset_race_free :
  forall g tr, wf_trace tr -> disciplined g tr -> race_free tr.
Proof. exact lockset_race_free. Qed.

(* From a table to the discipline: what access_ok on every row gives for a
   run whose accesses are instances of the rows, and exactly what has to be
   assumed about the relation between the run and the table (the translator's
   reading, lock identity, confinement, publication). *)
Theorem C15_table_discipline :
  forall (tr : trace) (g : obj -> field -> guard) (tbl : list row)
         (row_at : nat -> option row) (denote : nat -> string -> lock),
    (* READING: rows describe the accesses, and listed locks are held *)
    (forall p t o f k, ev tr p = Some (Acc t o f k) ->
       exists r, row_at p = Some r /\ In r tbl /\ r_rw r = k) ->
    (forall p t o f k r x m s, ev tr p = Some (Acc t o f k) -> row_at p = Some r ->
       In (x, m, s) (r_held r) -> holds tr p t (denote p x) m) ->
    (* HELPER: inside a caller-holds function the receiver's lock is held *)
    (forall p t o f k r, ev tr p = Some (Acc t o f k) -> row_at p = Some r ->
       r_onrecv r = true -> mem_str (r_func r) caller_holds = true ->
       holds tr p t (denote p (r_recv r)) Ex) ->
    (* IDENTITY / CONFINED: the field's guard is what the policy names *)
    (forall p t o f k r, ev tr p = Some (Acc t o f k) -> row_at p = Some r ->
       match policy_of (r_struct r) (r_field r) with
       | Some PRecv => g o f = GLock (denote p (r_recv r))
       | Some (PRecvSuffix s) => g o f = GLock (denote p (String.append (r_recv r) s))
       | Some (PNamed l) => g o f = GLock (denote p l)
       | Some (PSuffix s) => forall x m st, In (x, m, st) (r_held r) -> is_suffix s x = true ->
                                            g o f = GLock (denote p x)
       | Some PImmutable => g o f = GImmutable
       | Some (PConfined fn go) => exists c, g o f = GConfined c /\
                                             (r_func r = fn -> r_go r = go -> t = c)
       | None => True
       end) ->
    (* UNPUBLISHED: literal / decode / fresh / init-time accesses precede publication *)
    (forall p t o f k r, ev tr p = Some (Acc t o f k) -> row_at p = Some r ->
       exempt r = true -> initialising tr p t o) ->
    (* PUBLICATION: every other access is ordered after the publication *)
    (forall p t o f k, ev tr p = Some (Acc t o f k) -> ~ initialising tr p t o ->
       forall q c, ev tr q = Some (Pub c o) -> hb tr q p) ->
    forallb access_ok tbl = true -> disciplined g tr.
Proof. exact table_discipline. Qed.

(* (c) Every run of the lock-based implementation of Set/Get/Delete/
   GetAndDelete — any number of threads, any interleaving of the steps inside
   the critical sections — is a run of the atomic specification with the same
   events, the linearization point of each operation being its lock
   acquisition. *)
Theorem C15_linearizable :
  forall (m0 : kvmap) (w : list hevent) (c : cstate),
    ctrace (cinit m0) w c -> exists a, atrace (ainit m0) w a.
Proof. exact impl_refines_atomic. Qed.

Theorem C15_history_linearizable :
  forall m0 w c, ctrace (cinit m0) w c -> linearizable m0 (visible w).
Proof. exact impl_linearizable. Qed.

(* Runs of the atomic specification: the operations in linearization order
   form a legal sequential history of the map, and each response returns the
   result fixed at the operation's own linearization point. *)
Theorem C15_atomic_runs_are_sequential :
  forall a w a', atrace a w a' -> legal (a_map a) (lins w).
Proof. exact atrace_legal. Qed.

Theorem C15_response_is_linearized_result :
  forall m0 w1 t o r w2 c,
    ctrace (cinit m0) (w1 ++ ERes t o r :: w2) c -> after AIdle t w1 = ALin o r.
Proof. exact impl_response. Qed.

(* GetAndDelete hands a stored value to at most one caller: in the
   acquisition order of any run, two GetAndDelete of one key that both find a
   value have a Set of that key between them. *)
Theorem C15_getdel_once :
  forall m0 w c l1 t k v l2 u v' l3,
    ctrace (cinit m0) w c ->
    lins w = l1 ++ (t, OGetDel k, Some v) :: l2 ++ (u, OGetDel k, Some v') :: l3 ->
    exists w' x, In (w', OSet k x, None) l2.
Proof. exact impl_getdel_once. Qed.

(* The checker run on recorded histories is sound. *)
Theorem C15_lin_check_sound :
  forall c, lin_check c = true ->
    linearizable_to (map_of (lc_init c)) (lc_hist c)
                    (fun m => agrees_on (lc_keys c) (lc_final c) m = true).
Proof. exact lin_check_sound. Qed.

Print Assumptions C15_lockset_sound.
Print Assumptions C15_lockset_race_free.
Print Assumptions C15_table_discipline.
Print Assumptions C15_linearizable.
Print Assumptions C15_history_linearizable.
Print Assumptions C15_atomic_runs_are_sequential.
Print Assumptions C15_response_is_linearized_result.
Print Assumptions C15_getdel_once.
Print Assumptions C15_lin_check_sound.
