(* C10 — ID change is crash-safe. Statements only; proofs are in
   Proofs/CrashFault*.v (front end: CrashFault6.v).

   Reading guide. A call leads from state s to s' and appends the events l
   (oldest first): `appended s s' l`. `frozen s l n` is the store a crash
   leaves behind when the process stops after the first n persistence calls of
   l (Hist.ev_prefix / Hist.apply_ev, exactly as Hist.step freezes it).
   `nodangling stor`: every reference record of stor points at an ID stored in
   stor. `resolves_to F stor k`: following at most one reference from k inside
   stor ends at a non-reference record satisfying F. `full D U r`: record r
   carries data D and user ID U.

   All theorems hold for EVERY fault plan (plan s is not constrained), every
   cache size, every tie-break list and every configuration; fault-free
   execution is the special case plan s = []. *)
From Sessions Require Import Model.Base Model.Sess Model.Hist Proofs.SessDefs
  Proofs.CrashFault Proofs.CrashFault2 Proofs.CrashFault3 Proofs.CrashFault5 Proofs.CrashFault6.

(* ---- C10_nodangling: RegenerateID, LogIn (both modes), rotation in Start ---- *)

Theorem C10_nodangling_regenerate :
  forall s o ob s' res cks,
    cache_ok s -> nodup_ok s -> fresh_ok s -> nodangling (store s) -> mem_nd s ->
    hget s o = Some ob -> (forall t, r_ref (o_rec ob) = Some t -> lookup (store s) t <> None) ->
    regenerate s o = (s', res, cks) ->
    exists l, appended s s' l /\ forall n, nodangling (frozen s l n).
Proof. exact nodangling_regenerate. Qed.

Theorem C10_nodangling_login :
  forall s o ob u ex s' res cks,
    cache_ok s -> nodup_ok s -> fresh_ok s -> nodangling (store s) -> mem_nd s ->
    hget s o = Some ob -> (forall t, r_ref (o_rec ob) = Some t -> lookup (store s) t <> None) ->
    login s o u ex = (s', res, cks) ->
    exists l, appended s s' l /\ forall n, nodangling (frozen s l n).
Proof. exact nodangling_login. Qed.

Theorem C10_nodangling_start :
  forall s q s' res cks,
    cache_ok s -> nodup_ok s -> fresh_ok s -> nodangling (store s) -> mem_nd s ->
    start_rotates s q = true -> start s q = (s', res, cks) ->
    exists l, appended s s' l /\ forall n, nodangling (frozen s l n).
Proof. exact nodangling_start. Qed.

(* The hypothesis mem_nd follows from write-through. *)
Theorem C10_mem_nd_of_wt : forall s, wt_ok s -> nodangling (store s) -> mem_nd s.
Proof. exact wt_mem_nd. Qed.

(* Without any assumption on what dangled before: a reference found at a crash
   point whose target is missing points at an ID that was missing from the
   store already before the call, and never at the new ID. *)
Theorem C10_nodangling_regenerate_rel :
  forall s o ob s' res cks,
    cache_ok s -> nodup_ok s -> fresh_ok s -> hget s o = Some ob ->
    regenerate s o = (s', res, cks) ->
    exists l, appended s s' l /\ forall n k r t,
      lookup (frozen s l n) k = Some r -> r_ref r = Some t ->
      lookup (frozen s l n) t <> None \/ (lookup (store s) t = None /\ t <> KGen (supply s)).
Proof. exact nodangling_regenerate_rel. Qed.

(* ---- C10_old_resolves / C10_new_resolves ---- *)

Theorem C10_resolves_regenerate :
  forall s o ob s' res cks,
    cache_ok s -> nodup_ok s -> fresh_ok s -> holds s o ob ->
    regenerate s o = (s', res, cks) ->
    let D := dat (o_rec ob) in let U := uid (o_rec ob) in let nid := KGen (supply s) in
    exists l, appended s s' l /\
      (forall n, resolves_to (full D U) (frozen s l n) (o_id ob)) /\
      (res = Ok tt -> frozen s l (length l) = store s' /\ resolves_to (full D U) (store s') nid /\
                      exists rr, lookup (store s') (o_id ob) = Some rr /\ r_ref rr = Some nid).
Proof. exact resolves_regenerate. Qed.

Theorem C10_resolves_login :
  forall s o ob u ex s' res cks,
    cache_ok s -> nodup_ok s -> fresh_ok s -> holds s o ob ->
    login s o u ex = (s', res, cks) ->
    let D := dat (o_rec ob) in let nid := KGen (supply s) in
    exists l, appended s s' l /\
      (forall n, resolves_to (fun r => dat r = D) (frozen s l n) (o_id ob)) /\
      (res = Ok tt -> frozen s l (length l) = store s' /\
                      resolves_to (fun r => dat r = D /\ uid r = Some (fst u)) (store s') nid /\
                      exists rr, lookup (store s') (o_id ob) = Some rr /\ r_ref rr = Some nid) /\
      ((exists e, res = Err e) \/
       exists l0' r0 lR, l = (l0' ++ [EvSave (o_id ob) r0 true]) ++ lR /\ uid r0 = Some (fst u) /\ dat r0 = D /\ r_ref r0 = None /\
         forall m, resolves_to (fun r => dat r = D /\ uid r = Some (fst u))
                     (fst (fold_left apply_ev ((l0' ++ [EvSave (o_id ob) r0 true]) ++ firstn m lR) (store s, graves s))) (o_id ob)).
Proof. exact resolves_login. Qed.

Theorem C10_resolves_start :
  forall s q k D U s' res cks,
    cache_ok s -> nodup_ok s -> fresh_ok s -> q_cookie q = CKey k -> presented s k D U ->
    start_rotates s q = true -> start s q = (s', res, cks) ->
    let nid := KGen (supply s) in
    exists l, appended s s' l /\
      (forall n, resolves_to (full D U) (frozen s l n) k) /\
      (forall o, res = Ok (Some o) ->
         frozen s l (length l) = store s' /\ resolves_to (full D U) (store s') nid /\
         exists rr, lookup (store s') k = Some rr /\ r_ref rr = Some nid).
Proof. exact resolves_start. Qed.

Print Assumptions C10_nodangling_regenerate.
Print Assumptions C10_nodangling_login.
Print Assumptions C10_nodangling_start.
Print Assumptions C10_mem_nd_of_wt.
Print Assumptions C10_nodangling_regenerate_rel.
Print Assumptions C10_resolves_regenerate.
Print Assumptions C10_resolves_login.
Print Assumptions C10_resolves_start.
