(* C19 (and C15), the clause "never the same value twice in a process under any
   number of CONCURRENT callers" for CUID: the step that Properties/C19.v
   leaves to prose - "lastMutex makes the calls take place one after the
   other, so the sequence theorems C19_cuid_unique* / C19_cuid_ordered* apply" -
   as theorems about a transition system. Statements only; the model is
   Model/CuidConc.v, the proofs are in Proofs/CuidConc.v .. CuidConc4.v,
   Proofs/CuidConcEx.v and Proofs/CuidConcPinned.v.

   THE SYSTEM (Model/CuidConc.v). Shared state: the mutex lastMutex (k_mutex:
   free or the goroutine that took it), the pair (lastTime, lastCounter)
   (k_last, Model/Ids.v's cuid_state), the wall clock (k_clock, nanoseconds
   since 1970-01-01 UTC), per goroutine a program counter with its locals
   (k_ph), and a ghost log (k_log: goroutine and instant used per completed
   assembly, newest first). K goroutines, each making one call of CUID cut
   into the actions the code has:
     CAcq g   lastMutex.Lock()           enabled only while the mutex is free
     CNow g   now := time.Now()          g's local `now` := the shared clock
     CCmp g   timestamp == lastTime      reads lastTime
     CCnt g   lastCounter++ / = 0        writes lastCounter
     CSet g   lastTime = timestamp       writes lastTime
     CAsm g   counter, spill, bits, the 11 digits: reads lastCounter, builds the
              string with Ids.cuid_bits / Ids.cuid_string; logged
     CRel g   the deferred lastMutex.Unlock(); CUID returns
     CTick d  the clock advances by d >= 0 nanoseconds; enabled in EVERY state
   CUID is NOT atomic in this system: apart from CAcq's "mutex free" no guard
   of `cstep` looks at another goroutine, so "goroutines 0 and 1 both between
   CCmp and CAsm" is a state, which the system without the mutex reaches
   (C19K_unlocked_refuted: two goroutines, one ID). What excludes it in the
   system as the code is, is the invariant (C19K_invariant), not a guard.
   `cstep narrow locked mac`: narrow = false, locked = true is the code as it
   is (Lock; time.Now(); ...); narrow = true the refactoring that moves
   time.Now() in front of Lock(); locked = false no mutex at all.

   `serial mac st0 log` is the reference: Ids.cuid_step folded over the logged
   instants in the order in which the calls were completed (C19K_serial_meaning),
   i.e. Ids.cuid_run over them (last two conjuncts of C19K_serial_order).

   Any number of calls by any number of goroutines, a goroutine calling again
   after it returned, is covered: give every call its own goroutine; the
   schedules in which call n+1 of a goroutine begins after its call n returned
   are among "every schedule".

   What is assumed, not proved: sync.Mutex (Lock returns only while nobody
   holds the mutex: the guard of CAcq); that the actions are atomic and
   sequentially consistent (they are made under the mutex, which is what the Go
   memory model asks for); that the wall clock does not step backwards (CTick
   d, d >= 0 - what happens otherwise is C19_cuid_clock_back_refuted); the
   order of the actions inside CUID (pinned per run: cuid_events_pinned,
   C19K_clock_under_lock, C19K_critical_order below, from Gen/CuidPos.v). *)
From Coq Require Import String.
From Sessions Require Import Model.Base Model.Ids Model.Mutex Model.CuidConc Gen.Consts Gen.CuidPos
  Proofs.IdsLaws2 Proofs.IdsLaws3
  Proofs.CuidConc Proofs.CuidConc2 Proofs.CuidConc3 Proofs.CuidConc4 Proofs.CuidConcEx Proofs.CuidConcPinned.
From Coq Require Permutation.

(* --- 0. the cut is faithful: compare; count; set; assemble, on the generator
   state alone, are Ids.cuid_step at that instant; and one goroutine's seven
   actions run without interruption from a state with the mutex free lead to
   the state cuid_step gives, the goroutine reporting cuid_step's string --- *)
Theorem C19K_cut_is_cuid_step :
  forall (mac : bytes) (st : cuid_state) (c : Z),
  let same := (ts_at c =? cs_last_time st)%N in
  let st1 := {| cs_last_time := cs_last_time st;
                cs_last_counter := if same then u64 (cs_last_counter st + 1) else lit 5 |} in
  let st2 := {| cs_last_time := ts_at c; cs_last_counter := cs_last_counter st1 |} in
  (st2, cuid_string (cuid_bits mac (ts_at c) (cs_last_counter st2))) =
  cuid_step mac st (unix_of c) (nano_of c).
Proof. exact cut_is_cuid_step. Qed.

Theorem C19K_cut_is_run :
  forall (mac : bytes) (cs : cstate) (g : nat),
  nth_error (k_ph cs) g = Some PIdle -> k_mutex cs = None ->
  let x := cuid_step mac (k_last cs) (unix_of (k_clock cs)) (nano_of (k_clock cs)) in
  crun false true mac cs [CAcq g; CNow g; CCmp g; CCnt g; CSet g; CAsm g; CRel g] =
  Some (mkK None (fst x) (k_clock cs) (upd g (PDone (k_clock cs) (snd x)) (k_ph cs)) ((g, k_clock cs) :: k_log cs)).
Proof. exact script_run. Qed.

(* what CUID takes from time.Now() at clock value c (ns since 1970), and the
   millisecond / 2^40 ms period of C19_cuid_unique_wallclock in those terms *)
Theorem C19K_clock_meaning :
  forall c : Z,
  unix_of c = (c / 1000000000)%Z /\ nano_of c = Z.to_N (c mod 1000000000) /\
  reading c = (unix_of c, nano_of c) /\ ts_at c = cuid_timestamp (unix_of c) (nano_of c) /\
  nsec_ok (reading c) /\
  ms_at c = (c / 1000000 - 1483228800000)%Z /\ ms_of (reading c) = ms_at c /\
  epoch_at c = (ms_at c / 1099511627776)%Z /\ epoch_of (reading c) = epoch_at c.
Proof.
  exact (fun c => conj eq_refl (conj eq_refl (conj eq_refl (conj eq_refl (conj (nano_of_ok c)
           (conj eq_refl (conj (ms_of_reading c) (conj eq_refl (epoch_of_reading c))))))))).
Qed.

Theorem C19K_serial_meaning :
  forall mac st0,
  serial mac st0 [] = (st0, []) /\
  forall g c t,
    serial mac st0 ((g, c) :: t) =
    (fst (cuid_step mac (fst (serial mac st0 t)) (unix_of c) (nano_of c)),
     (g, c, snd (cuid_step mac (fst (serial mac st0 t)) (unix_of c) (nano_of c))) :: snd (serial mac st0 t)).
Proof. exact (fun mac st0 => conj eq_refl (fun g c t => eq_refl)). Qed.

Theorem C19K_state_meaning :
  (forall st0 c0 K, cinit st0 c0 K = mkK None st0 c0 (repeat PIdle K) []) /\
  (forall cs g c id, returned cs g c id <->
     nth_error (k_ph cs) g = Some (PRet c id) \/ nth_error (k_ph cs) g = Some (PDone c id)) /\
  (forall cs, all_done cs = forallb is_done (k_ph cs)) /\
  (forall p, held p = true <->
     p = PHeld \/ (exists c, p = PRead c) \/ (exists c s, p = PCmp c s) \/ (exists c, p = PCnt c) \/
     (exists c, p = PSet c) \/ (exists c id, p = PRet c id)) /\
  (forall ls, asm_of ls = flat_map (fun lab => match lab with CAsm g => [g] | _ => [] end) ls).
Proof. exact state_meaning. Qed.

(* --- (a) every schedule of the system as the code is, is a serial execution ---

   In every state of every run from K idle goroutines (any K, any generator
   state st0, any clock value c0):
   - at most one goroutine is between Lock() and the deferred Unlock(), and it
     is the one recorded as holding the mutex (mutual exclusion);
   - the ghost log lists the goroutines in the order of their CAsm actions in
     the schedule, i.e. in the order of the critical sections;
   with (S, res) = serial mac st0 (log):
   - while the mutex is free the shared pair (lastTime, lastCounter) IS the
     generator state S of the serial execution;
   - goroutine g has produced the string id from the instant c iff (g, c, id) is
     in res: it reports what Ids.cuid_step gives at its place in that order;
   - no goroutine is served twice; once all K have returned the order of service
     is a permutation of the K goroutines;
   - every instant used lies between c0 and the current clock, and the instants
     in the order of the critical sections do not decrease (each was read
     inside its critical section) - the hypothesis of C19_cuid_unique_wallclock;
   - S and the strings reported, oldest first, are Ids.cuid_run_state / cuid_run
     over those instants: the run of K concurrent callers is a run of the
     sequential model. *)
Theorem C19K_serial_order :
  forall (mac : bytes) (st0 : cuid_state) (c0 : Z) (K : nat) ls cs,
  crun false true mac (cinit st0 c0 K) ls = Some cs ->
  (forall g1 g2, held (nth g1 (k_ph cs) PIdle) = true -> held (nth g2 (k_ph cs) PIdle) = true -> g1 = g2) /\
  (forall g, held (nth g (k_ph cs) PIdle) = true <-> k_mutex cs = Some g) /\
  map fst (k_log cs) = rev (asm_of ls) /\
  let S := fst (serial mac st0 (k_log cs)) in
  let res := snd (serial mac st0 (k_log cs)) in
  (k_mutex cs = None -> k_last cs = S) /\
  (forall g c id, returned cs g c id <-> In (g, c, id) res) /\
  NoDup (map fst (k_log cs)) /\
  (all_done cs = true -> Permutation.Permutation (map fst (k_log cs)) (seq 0 K)) /\
  (forall g c, In (g, c) (k_log cs) -> (c0 <= c <= k_clock cs)%Z) /\
  znondecreasing (map ms_at (rev (map snd (k_log cs)))) /\
  S = cuid_run_state mac st0 (map reading (rev (map snd (k_log cs)))) /\
  map snd (rev res) = cuid_run mac st0 (map reading (rev (map snd (k_log cs)))).
Proof. exact serial_order. Qed.

(* later critical section, later (or the same) instant: the log is sorted *)
Theorem C19K_log_sorted :
  forall (mac : bytes) (st0 : cuid_state) (c0 : Z) (K : nat) ls cs,
  crun false true mac (cinit st0 c0 K) ls = Some cs ->
  forall pre g2 c2 post g1 c1, k_log cs = pre ++ (g2, c2) :: post -> In (g1, c1) post -> (c1 <= c2)%Z.
Proof. exact log_sorted. Qed.

(* the invariant behind (a) is inductive *)
Theorem C19K_invariant :
  forall (mac : bytes) (st0 : cuid_state) (c0 : Z) (K : nat),
  CI mac st0 c0 K (cinit st0 c0 K) /\
  (forall cs lab cs', CI mac st0 c0 K cs -> cstep false true mac cs lab = Some cs' -> CI mac st0 c0 K cs').
Proof. exact (fun mac st0 c0 K => conj (cinit_ci mac st0 c0 K) (ci_step mac st0 c0 K)). Qed.

Theorem C19K_invariant_meaning :
  forall (mac : bytes) (st0 : cuid_state) (c0 : Z) (K : nat) cs,
  CI mac st0 c0 K cs <->
  length (k_ph cs) = K /\ (c0 <= k_clock cs)%Z /\
  (forall g p, nth_error (k_ph cs) g = Some p ->
     ph_ok mac st0 c0 (k_mutex cs) (k_last cs) (k_clock cs) (k_log cs) g p) /\
  (k_mutex cs = None -> k_last cs = fst (serial mac st0 (k_log cs))) /\
  (forall g, k_mutex cs = Some g -> exists p, nth_error (k_ph cs) g = Some p /\ held p = true) /\
  desc c0 (k_clock cs) (map snd (k_log cs)) /\
  (forall g c id, In (g, c, id) (snd (serial mac st0 (k_log cs))) ->
     exists p, nth_error (k_ph cs) g = Some p /\ ret_of p = Some (c, id)) /\
  NoDup (map fst (k_log cs)).
Proof. exact CI_meaning. Qed.

(* per program point: who holds the mutex and how the shared pair relates to
   the generator state S of the serial execution *)
Theorem C19K_phase_invariant_meaning :
  forall (mac : bytes) (st0 : cuid_state) (c0 : Z) m last clk log g,
  let S := fst (serial mac st0 log) in
  let res := snd (serial mac st0 log) in
  (ph_ok mac st0 c0 m last clk log g PIdle <-> True) /\
  (ph_ok mac st0 c0 m last clk log g PHeld <-> m = Some g /\ last = S) /\
  (forall c, ph_ok mac st0 c0 m last clk log g (PNow c) <-> False) /\
  (forall c, ph_ok mac st0 c0 m last clk log g (PRead c) <-> m = Some g /\ last = S /\ fresh c0 clk log c) /\
  (forall c same, ph_ok mac st0 c0 m last clk log g (PCmp c same) <->
     m = Some g /\ last = S /\ fresh c0 clk log c /\ same = (ts_at c =? cs_last_time S)%N) /\
  (forall c, ph_ok mac st0 c0 m last clk log g (PCnt c) <->
     m = Some g /\ fresh c0 clk log c /\
     last = {| cs_last_time := cs_last_time S;
               cs_last_counter := if (ts_at c =? cs_last_time S)%N then u64 (cs_last_counter S + 1) else lit 5 |}) /\
  (forall c, ph_ok mac st0 c0 m last clk log g (PSet c) <->
     m = Some g /\ fresh c0 clk log c /\ last = fst (cuid_at mac S c)) /\
  (forall c id, ph_ok mac st0 c0 m last clk log g (PRet c id) <-> m = Some g /\ last = S /\ In (g, c, id) res) /\
  (forall c id, ph_ok mac st0 c0 m last clk log g (PDone c id) <-> In (g, c, id) res) /\
  (forall c, fresh c0 clk log c <-> (c <= clk)%Z /\ (c0 <= c)%Z /\ forall x, In x log -> (snd x <= c)%Z) /\
  (forall hi, desc c0 hi [] <-> True) /\
  (forall hi c r, desc c0 hi (c :: r) <-> (c0 <= c <= hi)%Z /\ desc c0 c r).
Proof. exact ph_ok_meaning. Qed.

(* --- hence: never the same value twice, under any number of concurrent
   callers and any schedule ---

   For every run of the system as the code is, while the clock stays within
   one 2^40 ms period (about 34.8 years: the timestamp field wraps) and no
   millisecond is used by more than 2^24 calls (C19_cuid_burst_refuted is what
   happens beyond): two goroutines that have produced the same string are the
   same goroutine. C19K_unique_small: with at most 2^24 goroutines the second
   hypothesis holds by itself. *)
Theorem C19K_unique :
  forall (mac : bytes) (st0 : cuid_state) (c0 : Z) (K : nat) ls cs,
  crun false true mac (cinit st0 c0 K) ls = Some cs ->
  epoch_at c0 = epoch_at (k_clock cs) ->
  (forall m, zoccurrences (map ms_at (map snd (k_log cs))) m <= p24)%N ->
  forall g1 g2 c1 c2 id, returned cs g1 c1 id -> returned cs g2 c2 id -> g1 = g2.
Proof. exact unique. Qed.

Theorem C19K_unique_small :
  forall (mac : bytes) (st0 : cuid_state) (c0 : Z) (K : nat) ls cs,
  crun false true mac (cinit st0 c0 K) ls = Some cs ->
  epoch_at c0 = epoch_at (k_clock cs) ->
  (N.of_nat K <= 16777216)%N ->
  forall g1 g2 c1 c2 id, returned cs g1 c1 id -> returned cs g2 c2 id -> g1 = g2.
Proof. exact unique_small. Qed.

(* IDs of later milliseconds sort after those of earlier ones (Go's string
   order), whichever goroutines produced them, within one 2^40 ms period *)
Theorem C19K_ordered :
  forall (mac : bytes) (st0 : cuid_state) (c0 : Z) (K : nat) ls cs,
  crun false true mac (cinit st0 c0 K) ls = Some cs ->
  forall g1 g2 c1 c2 id1 id2, returned cs g1 c1 id1 -> returned cs g2 c2 id2 ->
  (ms_at c1 < ms_at c2)%Z -> epoch_at c1 = epoch_at c2 ->
  lex_lt id1 id2 = true.
Proof. exact ordered. Qed.

(* --- (b) progress ---

   Every action other than a clock tick uses up exactly one unit of cmeasure
   (7 per goroutine that has not begun, 0 for one that returned; any variant),
   so a schedule from K idle goroutines contains at most 7K of them, and one
   that contains 7K has let everybody return. In every state of a run of the
   system as the code is: while somebody has not returned some goroutine can
   move, and if the mutex is held it is the holder (the holder is never
   blocked); a state in which no goroutine can move is one in which all have
   returned; a tick-free continuation that lets everybody return exists; and
   when all have returned the mutex is free and every goroutine reports a
   string. So under any scheduler that keeps moving goroutines while one can
   move - no fairness between goroutines is needed, a goroutine makes one call -
   every goroutine returns. *)
Theorem C19K_progress :
  forall (mac : bytes) (st0 : cuid_state) (c0 : Z) (K : nat),
  (forall narrow locked cs lab cs', cstep narrow locked mac cs lab = Some cs' ->
     if is_tick lab then cmeasure cs' = cmeasure cs else S (cmeasure cs') = cmeasure cs) /\
  (forall narrow locked cs ls cs', crun narrow locked mac cs ls = Some cs' ->
     length (filter (fun lab => negb (is_tick lab)) ls) + cmeasure cs' = cmeasure cs) /\
  cmeasure (cinit st0 c0 K) = 7 * K /\
  (forall cs, cmeasure cs = 0 <-> all_done cs = true) /\
  forall ls cs, crun false true mac (cinit st0 c0 K) ls = Some cs ->
    (all_done cs = false ->
       exists lab cs', no_tick lab /\ cstep false true mac cs lab = Some cs' /\
                       (forall g, k_mutex cs = Some g -> actor lab = Some g)) /\
    ((forall lab cs', no_tick lab -> cstep false true mac cs lab <> Some cs') -> all_done cs = true) /\
    (length (filter (fun lab => negb (is_tick lab)) ls) = 7 * K -> all_done cs = true) /\
    (exists ls' cs', crun false true mac cs ls' = Some cs' /\ Forall no_tick ls' /\ all_done cs' = true) /\
    (all_done cs = true -> k_mutex cs = None /\
       forall g, g < K -> exists c id, nth_error (k_ph cs) g = Some (PDone c id)).
Proof. exact progress. Qed.

(* --- (c) the theorem depends on where the clock is read ---

   time.Now() moved in front of lastMutex.Lock() ("narrow the lock"), everything
   else unchanged, the mutex in place. Three calls; the clock never goes back
   and advances by 0.6 ms in all, within one period; goroutine 0 makes its call
   alone in millisecond M and has returned before the others begin (mid: the
   state after the first 7 actions). Goroutines 1 and 2 race around the
   millisecond boundary: 2 reads the clock (M), the clock passes the boundary,
   1 reads it (M+1), 1 takes the mutex first and sets lastTime = M+1, then 2
   enters with its stale M, finds M <> lastTime, starts the counter again at 0 -
   and returns the ID goroutine 0 returned. The instants in the order of the
   critical sections are M, M+1, M: not a run the sequence theorems cover.
   (Remark, not a theorem here: with two calls only no collision is possible
   in a variant with the mutex - every two-element sequence of timestamps is
   `contiguous`, C19_cuid_unique_contiguous - so the witness needs three.) *)
Theorem C19K_narrow_refuted :
  exists mac st0 c0 ls mid cs id,
    crun true true mac (cinit st0 c0 3) ls = Some cs /\ all_done cs = true /\
    crun true true mac (cinit st0 c0 3) (firstn 7 ls) = Some mid /\
    k_ph mid = [PDone c0 id; PIdle; PIdle] /\
    (k_clock cs = c0 + 600000)%Z /\ epoch_at c0 = epoch_at (k_clock cs) /\
    k_ph cs = [PDone c0 id; PDone (c0 + 600000)%Z (id_of cs 1); PDone c0 id] /\
    id_of cs 1 <> id /\
    map snd (k_log cs) = [c0; (c0 + 600000)%Z; c0] /\
    (ms_at c0 < ms_at (c0 + 600000))%Z.
Proof. exact narrow_refuted. Qed.

(* ... and on the mutex: without it two goroutines in one millisecond, the clock
   standing still, both find timestamp <> lastTime, both write counter 0 and
   return the same ID *)
Theorem C19K_unlocked_refuted :
  exists mac st0 c0 ls cs id,
    crun false false mac (cinit st0 c0 2) ls = Some cs /\ all_done cs = true /\
    k_clock cs = c0 /\ k_ph cs = [PDone c0 id; PDone c0 id].
Proof. exact unlocked_refuted. Qed.

(* --- the tie to the source: Gen/CuidPos.v, regenerated from ids.go on every
   run (translator/cuid_pos.go): every event of CUID's body that matters for the
   critical section, (depth, kind, text) in execution order --- *)

(* the table is the one Model/CuidConc.v was written against *)
Theorem cuid_events_pinned : cuid_events = cuid_events_v1.
Proof. exact cuid_events_eq_v1. Qed.

(* whatever else it says: the body begins, outside any branch or loop, with
   lastMutex.Lock() and the deferred lastMutex.Unlock(); nothing after them
   touches the mutex, takes the address of a shared variable, defers anything,
   starts a goroutine or builds a function literal; the clock is read after
   them, outside any branch or loop. So time.Now() and every access to
   lastTime / lastCounter are made while lastMutex is held. *)
Theorem C19K_clock_under_lock : clock_under_lock cuid_events.
Proof. exact cuid_clock_under_lock. Qed.

Theorem C19K_clock_under_lock_meaning :
  (forall evs, clock_under_lock evs <->
     exists rest,
       evs = (0, "lock", "lastMutex.Lock()")%string :: (0, "defer unlock", "lastMutex.Unlock()")%string :: rest /\
       Forall (fun e => inert e = true) rest /\
       Exists (fun e => kind_of e = "clock"%string) rest /\
       Forall (fun e => kind_of e = "clock"%string -> depth_of e = 0) rest) /\
  (forall e, inert e = true <->
     ~ In (kind_of e) ["lock"; "unlock"; "mutex"; "defer lock"; "defer unlock"; "defer mutex";
                       "defer clock"; "defer call"; "go"; "funclit"; "addr"]%string).
Proof. exact (conj clock_under_lock_meaning inert_meaning). Qed.

(* the events other than plain calls and conversions, in order: the model's
   CAcq (and the defer that is CRel at the return); CNow; CCmp; CCnt (either
   branch); CSet; CAsm (lastCounter, macAddress, lastCounter); return *)
Theorem C19K_critical_order :
  critical cuid_events =
  [(0, "lock", "lastMutex.Lock()"); (0, "defer unlock", "lastMutex.Unlock()");
   (0, "clock", "time.Now()");
   (0, "read", "lastTime");
   (1, "incdec", "lastCounter++"); (1, "write", "lastCounter");
   (0, "write", "lastTime");
   (0, "read", "lastCounter"); (0, "read", "macAddress"); (0, "read", "lastCounter");
   (0, "return", "base64")]%string.
Proof. exact cuid_critical_order. Qed.

Print Assumptions C19K_cut_is_cuid_step.
Print Assumptions C19K_cut_is_run.
Print Assumptions C19K_clock_meaning.
Print Assumptions C19K_serial_meaning.
Print Assumptions C19K_state_meaning.
Print Assumptions C19K_serial_order.
Print Assumptions C19K_log_sorted.
Print Assumptions C19K_invariant.
Print Assumptions C19K_invariant_meaning.
Print Assumptions C19K_phase_invariant_meaning.
Print Assumptions C19K_unique.
Print Assumptions C19K_unique_small.
Print Assumptions C19K_ordered.
Print Assumptions C19K_progress.
Print Assumptions C19K_narrow_refuted.
Print Assumptions C19K_unlocked_refuted.
Print Assumptions cuid_events_pinned.
Print Assumptions C19K_clock_under_lock.
Print Assumptions C19K_clock_under_lock_meaning.
Print Assumptions C19K_critical_order.
(* non-vacuity (Proofs/CuidConcEx.v): three goroutines, a run of the system as
   the code is with the clock advancing while the mutex is held and two calls
   in one later millisecond; what they report; a state in the middle of a
   critical section; the uniqueness and order theorems applied to the run; one
   goroutine alone; the narrowed variant's schedule is not a schedule of the
   system as the code is; with the mutex the unlocked schedule blocks *)
Print Assumptions faithful_ex.
Print Assumptions faithful_mid_ex.
Print Assumptions unique_ex.
Print Assumptions ordered_ex.
Print Assumptions cut_ex.
Print Assumptions narrow_not_faithful.
Print Assumptions locked_blocks.
