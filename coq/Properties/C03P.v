(* C03 (and C04, C05) — the decision rules of the package, TRANSLATED from the
   Go source on every run (Gen/PureFn.v, translator/purefn.go: a delimited
   subset of Go, anything outside it is a translator error), are the decisions
   of the hand-written model Model/Sess.v. Statements only; proofs in
   Proofs/PureFnEquiv.v (they do not depend on the shape of the generated
   terms, only on their meaning).

   Trusted here: the translator's reading of the subset (Go's int64 + as
   wrap64 (a + b), time.Since(t) as since t now, >= as Z.leb with the operands
   swapped, a once-defined local replaced by its definition, the mapping of
   fields and configuration variables to projections of Sess.rec / Sess.cfg).
   Several time.Since calls inside one function are translated with ONE `now`:
   the model's request reads the clock once (in Go successive readings differ
   by the nanoseconds between them). Go's int is taken as 64-bit.
   gen_addDurations wraps as Go does; the model saturates; they agree on int64
   durations that are not both negative (dur_cfg). The session theorems assume
   RotateLaws3.cfg_ok (0 <= grace, idexpiry <= MaxInt64); with the int64 range
   of the two variables that implies dur_cfg (C03P_cfg_ok_dur_cfg), so the
   theorems below apply wherever those do; a configuration with both durations
   negative is outside cfg_ok, and there Go and the model do differ
   (C03P_addDurations_differs_negative). *)
From Sessions Require Import Model.Base Model.Sess Gen.PureFn Proofs.RotateLaws3 Proofs.PureFnEquiv.
Local Open Scope Z_scope.

Theorem C03P_dur_cfg : forall c,
  dur_cfg c <->
  ((min64 <= c_idexpiry c <= max64 /\ min64 <= c_grace c <= max64) /\
   (0 <= c_idexpiry c \/ 0 <= c_grace c)).
Proof. intro c. reflexivity. Qed.

Theorem C03P_cfg_ok_dur_cfg : forall c,
  cfg_ok c -> min64 <= c_idexpiry c -> c_grace c <= max64 -> dur_cfg c.
Proof. exact cfg_ok_dur_cfg. Qed.

(* addDurations (session.go) is the model's saturating sum on int64 durations
   of which at least one is non-negative ... *)
Theorem C03P_addDurations : forall a b,
  min64 <= a <= max64 -> min64 <= b <= max64 -> 0 <= a \/ 0 <= b ->
  gen_addDurations a b = sat_add a b.
Proof. exact gen_addDurations_sat. Qed.

(* ... and not when both are negative: the Go code wraps, the model saturates *)
Theorem C03P_addDurations_differs_negative :
  gen_addDurations (-1) min64 = max64 /\ sat_add (-1) min64 = min64.
Proof. exact gen_addDurations_differs_negative. Qed.

(* Session.Expired() is Sess.expired *)
Theorem C03P_Expired : forall c r now, dur_cfg c -> gen_Expired c r now = expired c r now.
Proof. exact gen_Expired_eq. Qed.

Theorem C03P_Expired_differs_negative :
  let c := mkCfg 0 (-1) min64 0 0 1 true false in
  let r := mkRec 0 0 (AOther 0) 0 None None None in
  gen_Expired c r 0 = false /\ expired c r 0 = true.
Proof. exact gen_Expired_differs_negative. Qed.

(* Start: `timeUntouched >= SessionExpiry` *)
Theorem C03P_stale : forall c r now,
  gen_stale c r now = (c_expiry c <=? since (r_access r) now).
Proof. exact gen_stale_eq. Qed.

(* Start: `session.referenceID == "" && age >= SessionIDExpiry` *)
Theorem C03P_rotate : forall c r now,
  gen_rotate c r now =
  negb (match r_ref r with Some _ => true | None => false end) && (c_idexpiry c <=? since (r_created r) now).
Proof. exact gen_rotate_eq. Qed.

(* Start: `age >= addDurations(SessionIDExpiry, SessionIDGracePeriod)` *)
Theorem C03P_backstop : forall c r now,
  dur_cfg c ->
  gen_backstop c r now = (sat_add (c_idexpiry c) (c_grace c) <=? since (r_created r) now).
Proof. exact gen_backstop_eq. Qed.

(* Start: `if valid && !AcceptChangingUserAgent { valid = lastAgentHash == 0 ||
   lastAgentHash == agentHash }`: valid afterwards *)
Theorem C03P_ua_ok : forall c r now valid h,
  gen_ua_ok c r now valid h = valid && ua_ok (c_acceptua c) (r_ua r) h.
Proof. exact gen_ua_ok_eq. Qed.

(* compact: `age > SessionCacheExpiry` is Sess.is_idle *)
Theorem C03P_idle : forall s e ob,
  hget s (snd e) = Some ob -> is_idle s e = gen_idle (conf s) (o_rec ob) (now s).
Proof. exact gen_idle_eq. Qed.

(* Sess.start is the function that takes its four time / user-agent decisions
   with the translated conditions (start_gen: the text of Sess.start with
   gen_stale, gen_ua_ok, gen_rotate, gen_backstop in the place of its own
   expressions - Proofs/PureFnEquiv.v) *)
Theorem C03P_start_uses_translated : forall s q, dur_cfg (conf s) -> start s q = start_gen s q.
Proof. exact start_uses_gen. Qed.

Print Assumptions C03P_dur_cfg.
Print Assumptions C03P_cfg_ok_dur_cfg.
Print Assumptions C03P_addDurations.
Print Assumptions C03P_addDurations_differs_negative.
Print Assumptions C03P_Expired.
Print Assumptions C03P_Expired_differs_negative.
Print Assumptions C03P_stale.
Print Assumptions C03P_rotate.
Print Assumptions C03P_backstop.
Print Assumptions C03P_ua_ok.
Print Assumptions C03P_idle.
Print Assumptions C03P_start_uses_translated.
