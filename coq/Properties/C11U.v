(* C11 / C08 — acknowledgements of the user-wide calls LogOut(userID),
   RefreshUser and of the exclusive LogIn under ARBITRARY fault plans (audit
   finding 10). Statements only; proofs in Proofs/UserFault.v .. UserFault4.v,
   non-vacuity examples and the refutation witness in Proofs/UserFaultEx.v.

   Every theorem quantifies over ALL fault plans: `plan s` (which of the coming
   persistence calls fail) is arbitrary. The Go code drops the error of
   cache.compact inside sessions.Get / sessions.Set and reports the errors of
   UserSessions, LoadSession and of the write-through SaveSession; the theorems
   say what is true then:
     - Ok  => every ID the index listed is logged out (resp. carries the new
              user) in the STORE and in the CACHE, whatever flushes failed;
     - Err => a failed UserSessions call changed nothing; otherwise the listed
              IDs before the failing one are done, the rest is untouched;
     - nothing panics (C11_nopanic_logout_user / _refresh_user in C11.v).
   Hypothesis on the pre-state: wf (below). Its middle clause - every cached
   object's own ID is the key it is cached under - holds in every state reached
   without faults, but a RegenerateID whose first save fails breaks it, and
   from such a state LogOut(userID) acknowledges without having written the
   listed record: C11U_logout_user_stale_refuted, C11U_logout_user_stale_history
   (candidate defect of session.go, see the history there). *)
From Sessions Require Import Model.Base Model.Sess Model.Hist Proofs.SessDefs
  Proofs.CrashFault Proofs.CrashFault11 Proofs.HistInv Proofs.HistInv2 Proofs.HistInv3
  Proofs.UserLaws Proofs.UserHist Proofs.UserHist2 Proofs.UserHistEx
  Proofs.UserFault Proofs.UserFault2 Proofs.UserFault3 Proofs.UserFault4 Proofs.UserFault5
  Proofs.UserFaultEx Proofs.UserFaultEx2.

(* ---- the notions, spelled out ---- *)

(* cached indices are valid; a cached object's own ID is its cache key; cache
   keys are unique *)
Definition wf (s : st) : Prop :=
  (forall k o, In (k, o) (cache s) -> o < length (heap s)) /\
  (forall k o ob, In (k, o) (cache s) -> hget s o = Some ob -> o_id ob = k) /\
  NoDup (map fst (cache s)).

(* a condition on the user recorded under ID k: Ps on the stored record, Pm on
   the cached object *)
Definition user_at (Ps Pm : option user -> Prop) (s : st) (k : key) : Prop :=
  (forall r, lookup (store s) k = Some r -> Ps (r_user r)) /\
  (forall o ob, lookup (cache s) k = Some o -> hget s o = Some ob -> Pm (r_user (o_rec ob))).

Definition logged_out_at : st -> key -> Prop := user_at (fun x => x = None) (fun x => x = None).
Definition refreshed_at (u : user) : st -> key -> Prop :=
  user_at (fun x => x = Some (fst u, 0%N)) (fun x => x = Some u).

(* the store keeps the user's ID only: the codec maps Some (i, v) to Some (i, 0) *)
Definition closed (Qs Qm : option user -> Prop) : Prop :=
  forall x, Qm x -> Qs (match x with Some (i, _) => Some (i, 0%N) | None => None end).

(* under the IDs satisfying P, every codec-closed condition on the user that
   held in s holds in s': those sessions' users were not touched *)
Definition untouched (s s' : st) (P : key -> Prop) : Prop :=
  forall Qs Qm, closed Qs Qm -> forall k, P k -> user_at Qs Qm s k -> user_at Qs Qm s' k.

(* what UserSessions(i) answers *)
Definition index (s : st) (i : N) : list key :=
  map fst (filter (fun kg : key * option N => match snd kg with Some v => N.eqb i v | None => false end) (graves s)) ++
  map fst (filter (fun kr => user_is i (r_user (snd kr))) (store s)).

Theorem C11U_index_is_listed : forall s i, index s i = listed s i.
Proof. reflexivity. Qed.

Theorem C11U_index_answer :
  forall s i s1 l, p_usersessions s i = (s1, l) ->
    (l = Some (index s i) /\ only_logged s s1 (EvUserSessions i true)) \/
    (l = None /\ only_logged s s1 (EvUserSessions i false) /\ exists p, plan s = true :: p /\ plan s1 = p).
Proof. exact p_usersessions_cases. Qed.

(* ---- (a) LogOut(userID) returned nil ---- *)
Theorem C11U_logout_user_ack :
  forall s u s',
    wf s -> logout_user s u = (s', Ok tt) ->
    wf s' /\
    (forall k, In k (index s u) -> logged_out_at s' k) /\
    (forall k, logged_out_at s k -> logged_out_at s' k) /\
    untouched s s' (fun k => ~ In k (index s u)).
Proof. exact ack_logout_user. Qed.

(* ---- (b) RefreshUser returned nil ---- *)
Theorem C11U_refresh_user_ack :
  forall s u s',
    wf s -> refresh_user s u = (s', Ok tt) ->
    wf s' /\
    (forall k, In k (index s (fst u)) -> refreshed_at u s' k) /\
    (forall k, refreshed_at u s k -> refreshed_at u s' k) /\
    untouched s s' (fun k => ~ In k (index s (fst u))).
Proof. exact ack_refresh_user. Qed.

(* ---- (d), (e) they returned an error ---- *)

(* (e) the UserSessions call failed: s' is s with that event logged *)
Definition index_call_failed (s : st) (i : N) (s' : st) (e : site) : Prop :=
  e = EUserSessions /\
  (heap s' = heap s /\ cache s' = cache s /\ store s' = store s /\ graves s' = graves s /\
   pending s' = pending s /\ now s' = now s /\ supply s' = supply s /\ conf s' = conf s /\ tb s' = tb s /\
   evs s' = EvUserSessions i false :: evs s) /\
  exists p, plan s = true :: p /\ plan s' = p.

(* (d) the loop stopped at listed ID k: the IDs before it are done; a failed
   load (ECacheGet) left k and everything after it untouched; a failed
   write-through save (ECacheSet) left k changed in memory only *)
Definition stopped_at (Ps Pm : option user -> Prop) (s : st) (i : N) (s' : st) (e : site) : Prop :=
  exists pre k post, index s i = pre ++ k :: post /\
    (forall k', In k' pre -> user_at Ps Pm s' k') /\
    (e = ECacheGet \/
     (e = ECacheSet /\ forall o ob, lookup (cache s') k = Some o -> hget s' o = Some ob -> Pm (r_user (o_rec ob)))) /\
    (forall Qs Qm, closed Qs Qm ->
       forall k', ~ In k' pre -> (e = ECacheSet -> k' <> k) -> user_at Qs Qm s k' -> user_at Qs Qm s' k').

Theorem C11U_logout_user_err :
  forall s u s' e,
    wf s -> logout_user s u = (s', Err e) ->
    wf s' /\ plan s <> [] /\
    (forall k, logged_out_at s k -> logged_out_at s' k) /\
    (index_call_failed s u s' e \/ stopped_at (fun x => x = None) (fun x => x = None) s u s' e).
Proof. exact err_logout_user. Qed.

Theorem C11U_refresh_user_err :
  forall s u s' e,
    wf s -> refresh_user s u = (s', Err e) ->
    wf s' /\ plan s <> [] /\
    (forall k, refreshed_at u s k -> refreshed_at u s' k) /\
    (index_call_failed s (fst u) s' e \/
     stopped_at (fun x => x = Some (fst u, 0%N)) (fun x => x = Some u) s (fst u) s' e).
Proof. exact err_refresh_user. Qed.

(* without a planned fault both return nil (cached indices valid is enough) *)
Theorem C11U_user_calls_ok_without_fault :
  forall s, (forall k o, In (k, o) (cache s) -> o < length (heap s)) -> plan s = [] ->
    (forall u, exists s', logout_user s u = (s', Ok tt)) /\ (forall u, exists s', refresh_user s u = (s', Ok tt)).
Proof. exact user_calls_nopanic_ff. Qed.

(* ---- (c) the exclusive LogIn returned nil ---- *)
Theorem C11U_login_exclusive_ack :
  forall s o ob u s' cks,
    cache_ok s -> nodup_ok s -> fresh_ok s -> hget s o = Some ob ->
    login s o u true = (s', Ok tt, cks) ->
    let i := o_id ob in
    let nid := KGen (supply s) in
    written s' o /\
    (exists ob', hget s' o = Some ob' /\ o_id ob' = nid /\ r_user (o_rec ob') = Some u) /\
    (exists r, lookup (store s') nid = Some r /\ r_user r = Some (fst u, 0%N)) /\
    cks = [CkLive nid] /\
    (exists rr, lookup (store s') i = Some rr /\ r_ref rr = Some nid /\ r_user rr = None) /\
    (forall k, In k (index s (fst u)) -> k <> i -> k <> nid -> logged_out_at s' k) /\
    i <> nid /\ (forall k, lookup (store s) k <> None -> k <> nid).
Proof. exact ack_login_excl. Qed.

(* ---- (d) the exclusive LogIn returned an error ---- *)
Theorem C11U_login_exclusive_err :
  forall s o ob u s' e cks,
    wf s -> hget s o = Some ob -> login s o u true = (s', Err e, cks) ->
    let i := o_id ob in
    let nid := KGen (supply s) in
    cks = [] /\
    ((e = ELoginLogout /\ exists e', logout_user s (fst u) = (s', Err e')) \/
     ((e = ELoginSave \/ e = ELoginRegen) /\
      (exists ob', hget s' o = Some ob' /\ r_user (o_rec ob') = Some u) /\
      (forall k, In k (index s (fst u)) -> k <> i -> k <> nid -> logged_out_at s' k))).
Proof. exact err_login_excl. Qed.

(* the phases after the user-wide logout leave all other IDs alone, whatever fails *)
Theorem C11U_login_exclusive_phases :
  forall s o ob u s' res cks,
    wf s -> hget s o = Some ob -> login s o u true = (s', res, cks) ->
    let i := o_id ob in
    let nid := KGen (supply s) in
    (exists e, logout_user s (fst u) = (s', Err e) /\ res = Err ELoginLogout /\ cks = []) \/
    (exists sA, logout_user s (fst u) = (sA, Ok tt) /\ wf sA /\
       (res = Ok tt \/ (res = Err ELoginSave /\ cks = []) \/ (res = Err ELoginRegen /\ cks = [])) /\
       (exists ob', hget s' o = Some ob' /\ r_user (o_rec ob') = Some u) /\
       (forall Qs Qm, closed Qs Qm -> forall k, k <> i -> k <> nid -> user_at Qs Qm sA k -> user_at Qs Qm s' k)).
Proof. exact login_excl_phases. Qed.


(* ---- along histories ----

   reach c hs: the world after history hs from the initial state; ff_hop /
   crash_free: the step plans no fault / no crash. From every world such a
   history reaches, the user-wide steps with an ARBITRARY fault plan pl; the
   world after the step includes the clean-ups fired after the call. An
   acknowledged LogOut(userID) survives the loss of the cache. (With faults in
   the history BEFORE the call the acknowledgement is false:
   C11U_logout_user_stale_history.) *)

Definition step_stopped_at (Ps Pm : option user -> Prop) (s : st) (i : N) (s' : st) (e : site) : Prop :=
  (e = EUserSessions /\ forall Qs Qm, closed Qs Qm -> forall k, user_at Qs Qm s k -> user_at Qs Qm s' k) \/
  (exists pre k post, index s i = pre ++ k :: post /\
     (forall k', In k' pre -> user_at Ps Pm s' k') /\
     (e = ECacheGet \/ e = ECacheSet) /\
     (forall Qs Qm, closed Qs Qm ->
        forall k', ~ In k' pre -> (e = ECacheSet -> k' <> k) -> user_at Qs Qm s k' -> user_at Qs Qm s' k')).

Theorem C11U_logout_user_hist :
  forall c hs, Forall ff_hop hs -> Forall crash_free hs -> forall u tbl pl,
    let w := reach c hs in
    let w' := fst (step w (HLogoutUser u tbl pl)) in
    let rc := ob_res (snd (step w (HLogoutUser u tbl pl))) in
    (forall e, rc <> RPanic e) /\
    (forall k, logged_out_at (w_st w) k -> logged_out_at (w_st w') k) /\
    (rc = RVoid ->
       (forall k, In k (index (w_st w) u) -> logged_out_at (w_st w') k /\ nouser_at (w_st w') k) /\
       untouched (w_st w) (w_st w') (fun k => ~ In k (index (w_st w) u))) /\
    (forall e, rc = RErr e ->
       pl <> [] /\ step_stopped_at (fun x => x = None) (fun x => x = None) (w_st w) u (w_st w') e).
Proof. exact logout_user_fault_hist. Qed.

Theorem C11U_refresh_user_hist :
  forall c hs, Forall ff_hop hs -> Forall crash_free hs -> forall u tbl pl,
    let w := reach c hs in
    let w' := fst (step w (HRefreshUser u tbl pl)) in
    let rc := ob_res (snd (step w (HRefreshUser u tbl pl))) in
    (forall e, rc <> RPanic e) /\
    (forall k, refreshed_at u (w_st w) k -> refreshed_at u (w_st w') k) /\
    (rc = RVoid ->
       (forall k, In k (index (w_st w) (fst u)) -> refreshed_at u (w_st w') k) /\
       untouched (w_st w) (w_st w') (fun k => ~ In k (index (w_st w) (fst u)))) /\
    (forall e, rc = RErr e ->
       pl <> [] /\
       step_stopped_at (fun x => x = Some (fst u, 0%N)) (fun x => x = Some u) (w_st w) (fst u) (w_st w') e).
Proof. exact refresh_user_fault_hist. Qed.

Theorem C11U_logout_user_survives :
  forall c hs, Forall ff_hop hs -> Forall crash_free hs -> forall u tbl pl h k,
    loses_cache h ->
    ob_res (snd (step (reach c hs) (HLogoutUser u tbl pl))) = RVoid -> In k (index (w_st (reach c hs)) u) ->
    nouser_at (w_st (fst (step (fst (step (reach c hs) (HLogoutUser u tbl pl))) h))) k.
Proof. exact logout_user_fault_survives_hist. Qed.

(* the exclusive LogIn at a script position of a request of such a history
   (handler_at: Start returned object o, the operations pre have run, the next
   one runs on s), every persistence call from there on may fail *)
Theorem C11U_login_exclusive_hist :
  forall c hs, Forall ff_hop hs -> Forall crash_free hs ->
  forall r pre s o u pl s' cks,
    handler_at (reach c hs) r pre s o -> login (set_plan s pl) o u true = (s', Ok tt, cks) ->
    exists ob, hget s o = Some ob /\
      let i := o_id ob in
      let nid := KGen (supply s) in
      written s' o /\
      (exists ob', hget s' o = Some ob' /\ o_id ob' = nid /\ r_user (o_rec ob') = Some u) /\
      (exists rr, lookup (store s') nid = Some rr /\ r_user rr = Some (fst u, 0%N)) /\
      cks = [CkLive nid] /\
      (exists rr, lookup (store s') i = Some rr /\ r_ref rr = Some nid /\ r_user rr = None) /\
      (forall k, In k (index s (fst u)) -> k <> i -> k <> nid -> logged_out_at s' k).
Proof. exact login_excl_fault_hist. Qed.

Theorem C11U_ex_hist :
  (Forall ff_hop hE /\ Forall crash_free hE) /\
  let w := reach (cfgE 1) hE in
  listed (w_st w) 5 = [KGen 5; KGen 1; KGen 3] /\
  ob_res (snd (step w (HLogoutUser 5 [] plE))) = RVoid /\
  length (filter (fun e => match e with EvSave _ _ false => true | _ => false end) (ob_evs (snd (step w (HLogoutUser 5 [] plE))))) = 1 /\
  map (fun kr => (fst kr, r_user (snd kr))) (ob_store (snd (step w (HLogoutUser 5 [] plE))))
  = [(KGen 0, None); (KGen 1, None); (KGen 2, None); (KGen 3, None); (KGen 4, None); (KGen 6, None); (KGen 7, Some (6, 0)%N)] /\
  ob_res (snd (step w (HLogoutUser 5 [] [false; false; false; false; false; true]))) = RErr ECacheGet /\
  map (fun kr => (fst kr, r_user (snd kr))) (ob_store (snd (step w (HLogoutUser 5 [] [false; false; false; false; false; true]))))
  = [(KGen 0, None); (KGen 1, None); (KGen 2, None); (KGen 3, Some (5, 0)%N); (KGen 4, None); (KGen 6, None); (KGen 7, Some (6, 0)%N)].
Proof. exact (conj hE_ff logout_user_fault_hist_nonvacuous). Qed.

(* ---- the middle clause of wf cannot be dropped (candidate defect) ---- *)

Definition C11U_logout_user_stale_statement : Prop :=
  forall s u s',
    (forall k o, In (k, o) (cache s) -> o < length (heap s)) -> NoDup (map fst (cache s)) -> plan s = [] ->
    logout_user s u = (s', Ok tt) -> forall k, In k (index s u) -> logged_out_at s' k.

Theorem C11U_logout_user_stale_refuted : ~ C11U_logout_user_stale_statement.
Proof. exact ack_logout_user_nocok_refuted. Qed.

(* the state: reached by one request whose LogIn failed at RegenerateID's first
   save; LogOut(5) without any fault returns Ok, saves under KGen 1 only, and
   the stored record under the listed ID KGen 0 keeps user 5 *)
Theorem C11U_logout_user_stale_witness :
  st_of cfgB [hB1] = sB /\
  (forall k o, In (k, o) (cache sB) -> o < length (heap sB)) /\ NoDup (map fst (cache sB)) /\ plan sB = [] /\
  ~ (forall k o ob, In (k, o) (cache sB) -> hget sB o = Some ob -> o_id ob = k) /\
  index sB 5 = [KGen 0] /\
  exists s' r, logout_user sB 5 = (s', Ok tt) /\ lookup (store s') (KGen 0) = Some r /\ r_user r = Some (5, 0)%N /\
               evs s' = [EvSave (KGen 1) (codec cfgB (mkRec 0 0 (V4 1 2 3 4 5) 7 None None (Some []))) true; EvUserSessions 5 true].
Proof. exact (conj sB_reached sB_facts). Qed.

(* what the client sees: LogIn fails (one failed save), LogOut(5) returns nil,
   cache loss, the same cookie yields a session logged in as user 5 *)
Theorem C11U_logout_user_stale_history :
  map ob_res (run cfgB hB) = [RSess; RVoid; RVoid; RSess] /\
  map ob_script (run cfgB hB) = [[SErr ELoginRegen]; []; []; []] /\
  map ob_jar (run cfgB hB) = [CKey (KGen 0); CNone; CNone; CKey (KGen 0)] /\
  map (fun o => option_map (fun kr => (fst kr, r_user (snd kr))) (ob_start o)) (run cfgB hB)
  = [Some (KGen 0, None); None; None; Some (KGen 0, Some (5, 0)%N)] /\
  map (fun o => length (filter (fun e => match e with EvSave _ _ false | EvLoad _ false | EvLoadUser _ false
                                                     | EvDelete _ false | EvUserSessions _ false => true | _ => false end) (ob_evs o)))
      (run cfgB hB) = [1; 0; 0; 0].
Proof. exact logout_user_stale_history. Qed.


(* the same pre-state defeats the exclusive LogIn: client 2's exclusive LogIn as
   user 5 returns nil; after a cache loss client 1's cookie (KGen 0) still
   yields a session of user 5 *)
Theorem C11U_login_exclusive_stale_history :
  map ob_res (run cfgB hX) = [RSess; RSess; RVoid; RSess] /\
  map ob_script (run cfgB hX) = [[SErr ELoginRegen]; [SOk]; []; []] /\
  map ob_jar (run cfgB hX) = [CKey (KGen 0); CKey (KGen 3); CNone; CKey (KGen 0)] /\
  map (fun o => option_map (fun kr => (fst kr, r_user (snd kr))) (ob_start o)) (run cfgB hX)
  = [Some (KGen 0, None); Some (KGen 2, None); None; Some (KGen 0, Some (5, 0)%N)] /\
  map (fun o => map (fun kr => (fst kr, r_user (snd kr))) (ob_store o)) (run cfgB hX)
  = [[(KGen 0, Some (5, 0)%N)];
     [(KGen 0, Some (5, 0)%N); (KGen 1, None); (KGen 2, None); (KGen 3, Some (5, 0)%N)];
     [(KGen 0, Some (5, 0)%N); (KGen 1, None); (KGen 2, None); (KGen 3, Some (5, 0)%N)];
     [(KGen 0, Some (5, 0)%N); (KGen 1, None); (KGen 2, None); (KGen 3, Some (5, 0)%N)]].
Proof. exact login_exclusive_stale_history. Qed.

Print Assumptions C11U_index_is_listed.
Print Assumptions C11U_index_answer.
Print Assumptions C11U_logout_user_ack.
Print Assumptions C11U_refresh_user_ack.
Print Assumptions C11U_logout_user_err.
Print Assumptions C11U_refresh_user_err.
Print Assumptions C11U_user_calls_ok_without_fault.
Print Assumptions C11U_login_exclusive_ack.
Print Assumptions C11U_login_exclusive_err.
Print Assumptions C11U_login_exclusive_phases.
Print Assumptions C11U_logout_user_hist.
Print Assumptions C11U_refresh_user_hist.
Print Assumptions C11U_logout_user_survives.
Print Assumptions C11U_login_exclusive_hist.
Print Assumptions C11U_ex_hist.
Print Assumptions C11U_logout_user_stale_refuted.
Print Assumptions C11U_logout_user_stale_witness.
Print Assumptions C11U_logout_user_stale_history.
Print Assumptions C11U_login_exclusive_stale_history.
