(* C10 at the level of histories, continued (C10L) — C10_restart for the ID change
   made by LogIn in the handler script, and for scripts with further operations
   before and after RegenerateID. Statements only; proofs are in
   Proofs/CrashRestart5.v (LogIn) and CrashRestart6.v (scripts), examples in
   Proofs/LEx.v; built on PE's store-level theorems (Properties/C10.v:
   C10_resolves_login, C10_resolves_regenerate, frozen, resolves_to), PD's
   C04_seq_regenerate / C04_seq_login, PF's closed forms (Proofs/HistInv*.v) and
   the empty-cache Start of Proofs/CrashRestart.v. Fault-free.

   Scenario (hcrash w r n k o ob script): as regen_crash of C10H.v with the
   script as a parameter. In world w — satisfying the invariants of SessDefs.v,
   which hold after every fault-free, crash-free history (C07) — request step r,
   fault-free, presents k; k is cached as object o (content ob, a session
   record), the store holds its durable part (write-through, C09), the record is
   acceptable and neither due nor past the backstop, so Start makes no
   persistence call; the handler runs script; the process stops after n
   persistence calls (rq_crash r = Some n); the grace period is positive and no
   clean-up of w is due.

   dat r / uid r     the data (nil map read as empty) and the user ID of a record
   probe_ok c t q rk, probe_q k r2, req_end w r, pres w r   as in C10H.v
   pcalls l          the number of persistence calls among the events l
   plainop op        op is Set, Delete, Get or GetAndDelete
   DS d ops x        x is the data after some prefix of the operations ops,
                     starting from d (dnext: Set / Delete /
                     GetAndDelete applied to the data) *)
From Sessions Require Import Model.Base Model.Sess Model.Hist Proofs.SessDefs
  Proofs.HistInv Proofs.HistInv2 Proofs.HistInv3.
From Sessions Require Import Proofs.CrashFault3 Proofs.CrashFault5 Proofs.CrashFault6 Proofs.LiveHist4.
From Sessions Require Import Proofs.CrashRestart Proofs.CrashRestart2 Proofs.CrashRestart3 Proofs.CrashRestart4
  Proofs.CrashRestart5 Proofs.CrashRestart6 Proofs.LEx.
Local Open Scope Z_scope.

(* what the scenario assumes, spelled out; with script [RegenerateID] it is
   regen_crash of C10H.v *)
Theorem C10L_scenario : forall w r n k o ob script,
  hcrash w r n k o ob script <->
  sess_inv (w_st w) /\ rq_plan r = [] /\ rq_crash r = Some n /\ rq_script r = script /\
  pres w r = CKey k /\ lookup (cache (w_st w)) k = Some o /\ hget (w_st w) o = Some ob /\
  r_ref (o_rec ob) = None /\
  (exists r0, lookup (store (w_st w)) k = Some r0 /\ durable r0 = durable (codec (conf (w_st w)) (o_rec ob))) /\
  rec_valid (conf (w_st w)) (now (w_st w)) (req_q w r) (o_rec ob) = true /\
  (c_idexpiry (conf (w_st w)) <=? since (r_created (o_rec ob)) (now (w_st w))) = false /\
  (sat_add (c_idexpiry (conf (w_st w))) (c_grace (conf (w_st w))) <=? since (r_created (o_rec ob)) (now (w_st w))) = false /\
  0 < c_grace (conf (w_st w)) /\
  (forall d k', In (d, k') (pending (w_st w)) -> now (w_st w) < d).
Proof. exact hcrash_meaning. Qed.

Theorem C10L_scenario_regen : forall w r n k o ob,
  hcrash w r n k o ob [SRegen] <-> regen_crash w r n k o ob.
Proof. exact hcrash_regen. Qed.

(* ---------------- the ID change made by LogIn (exclusive or not) ------------- *)

(* The world after the crash. l: the events of the step, oldest first; the store
   is PE's frozen store after n persistence calls of them.
   - at every n the old ID resolves (at most one hop) to a session record with
     the data the session had when LogIn was called;
   - at n = 0 that record also carries the pre-call user;
   - l contains a save of the session under its OLD ID with the new user
     attached (every run makes it: LogIn stores the user before changing the
     ID); from that call on — n > pcalls l0' — the old ID resolves to a record
     with the new user;
   - when n covers all calls, the new ID resolves to the session with the data
     and the new user.
   Between the first call and that save the user of what the old ID resolves to
   is not determined by C10_resolves_login (in the model it is the pre-call user
   or none: LogOut's save, or the user-wide logout of an exclusive LogIn). *)
Theorem C10L_crash_world_login : forall w r n k o ob u ex,
  hcrash w r n k o ob [SLogIn u ex] ->
  let D := dat (o_rec ob) in let U := uid (o_rec ob) in
  let s' := w_st (fst (step w (HReq r))) in
  exists l,
    l = rev (evs (req_end w r)) /\
    cache s' = [] /\ plan s' = [] /\ now s' = now (w_st w) /\ conf s' = conf (w_st w) /\
    store s' = frozen (w_st w) l n /\
    resolves_to (fun x => dat x = D) (store s') k /\
    (n = 0%nat -> resolves_to (full D U) (store s') k) /\
    ((length l <= n)%nat ->
       resolves_to (fun x => dat x = D /\ uid x = Some (fst u)) (store s') (KGen (supply (w_st w)))) /\
    exists l0' r0 lR,
      l = (l0' ++ [EvSave k r0 true]) ++ lR /\ uid r0 = Some (fst u) /\ dat r0 = D /\ r_ref r0 = None /\
      ((pcalls l0' < n)%nat -> resolves_to (fun x => dat x = D /\ uid x = Some (fst u)) (store s') k).
Proof. exact crash_store_login. Qed.

(* C10_restart, old ID: the next request (any script, any client or a forged
   cookie) presenting k is served — Start returns a session, not a replaced-ID
   record — with the pre-call data at every crash point; with the pre-call user
   at n = 0; with the new user for n > pcalls l0' (l0' as above; it does not
   depend on n: req_end ignores the crash point). *)
Theorem C10L_restart_old_login : forall w r n k o ob u ex r2,
  hcrash w r n k o ob [SLogIn u ex] ->
  let w' := fst (step w (HReq r)) in
  rq_plan r2 = [] -> rq_crash r2 = None -> pres w' r2 = CKey k ->
  (forall rk, lookup (store (w_st w')) k = Some rk ->
     probe_ok (conf (w_st w)) (now (w_st w)) (probe_q k r2) rk) ->
  ob_res (snd (step w' (HReq r2))) = RSess /\
  exists id rc, ob_start (snd (step w' (HReq r2))) = Some (id, rc) /\ r_ref rc = None /\
    dat rc = dat (o_rec ob) /\
    (n = 0%nat -> uid rc = uid (o_rec ob)) /\
    exists l0' r0 lR,
      rev (evs (req_end w r)) = (l0' ++ [EvSave k r0 true]) ++ lR /\ uid r0 = Some (fst u) /\
      ((pcalls l0' < n)%nat -> uid rc = Some (fst u)).
Proof. exact restart_old_login. Qed.

(* C10_restart, new ID: when the process stopped after the last persistence call
   of the step, a request presenting the new ID is served the session with the
   data and the new user *)
Theorem C10L_restart_new_login : forall w r n k o ob u ex r2,
  hcrash w r n k o ob [SLogIn u ex] ->
  let w' := fst (step w (HReq r)) in let nid := KGen (supply (w_st w)) in
  (length (evs (req_end w r)) <= n)%nat ->
  rq_plan r2 = [] -> rq_crash r2 = None -> pres w' r2 = CKey nid ->
  (forall rk, lookup (store (w_st w')) nid = Some rk ->
     probe_ok (conf (w_st w)) (now (w_st w)) (probe_q nid r2) rk) ->
  ob_res (snd (step w' (HReq r2))) = RSess /\
  exists id rc, ob_start (snd (step w' (HReq r2))) = Some (id, rc) /\ r_ref rc = None /\
                dat rc = dat (o_rec ob) /\ uid rc = Some (fst u).
Proof. exact restart_new_login. Qed.

(* --------- operations before and after RegenerateID in the same script -------- *)

Theorem C10L_plainop_def : forall op,
  plainop op = match op with SSet _ _ | SDel _ | SGet _ | SGetDel _ => true | _ => false end.
Proof. exact plainop_def. Qed.

Theorem C10L_DS_def : forall d ops x,
  DS d ops x <-> exists j, (j <= length ops)%nat /\ x = fold_left dnext (firstn j ops) d.
Proof. exact DS_meaning. Qed.

Theorem C10L_dnext_def : forall d op,
  dnext d op = match op with SSet k v => kv_set d k v | SDel k | SGetDel k => kv_del d k | _ => d end.
Proof. exact dnext_def. Qed.

(* C10H_restart_old generalised: the script is pre ++ [RegenerateID] ++ post with
   pre, post lists of Set / Delete / Get / GetAndDelete; the session's data map is d0. After a
   crash at ANY persistence-call boundary of the step — inside pre, inside
   RegenerateID, inside post — a request presenting the OLD ID is served: Start
   returns a session, not a replaced-ID record, with the pre-call user, whose
   data is the data after some prefix of the script's operations (never a torn
   or foreign state). *)
Theorem C10L_restart_old_script : forall w r n k o ob pre post d0 r2,
  hcrash w r n k o ob (pre ++ SRegen :: post) ->
  forallb plainop pre = true -> forallb plainop post = true -> r_data (o_rec ob) = Some d0 ->
  let w' := fst (step w (HReq r)) in
  rq_plan r2 = [] -> rq_crash r2 = None -> pres w' r2 = CKey k ->
  (forall rk, lookup (store (w_st w')) k = Some rk ->
     probe_ok (conf (w_st w)) (now (w_st w)) (probe_q k r2) rk) ->
  ob_res (snd (step w' (HReq r2))) = RSess /\
  exists id rc, ob_start (snd (step w' (HReq r2))) = Some (id, rc) /\ r_ref rc = None /\
                uid rc = uid (o_rec ob) /\ DS d0 (pre ++ post) (dat rc).
Proof. exact restart_old_script. Qed.

(* ... and the new ID once every call of the step was made *)
Theorem C10L_restart_new_script : forall w r n k o ob pre post d0 r2,
  hcrash w r n k o ob (pre ++ SRegen :: post) ->
  forallb plainop pre = true -> forallb plainop post = true -> r_data (o_rec ob) = Some d0 ->
  let w' := fst (step w (HReq r)) in let nid := KGen (supply (w_st w)) in
  (length (evs (req_end w r)) <= n)%nat ->
  rq_plan r2 = [] -> rq_crash r2 = None -> pres w' r2 = CKey nid ->
  (forall rk, lookup (store (w_st w')) nid = Some rk ->
     probe_ok (conf (w_st w)) (now (w_st w)) (probe_q nid r2) rk) ->
  ob_res (snd (step w' (HReq r2))) = RSess /\
  exists id rc, ob_start (snd (step w' (HReq r2))) = Some (id, rc) /\ r_ref rc = None /\
                uid rc = uid (o_rec ob) /\ DS d0 (pre ++ post) (dat rc).
Proof. exact restart_new_script. Qed.

(* the store-level statement behind both *)
Theorem C10L_crash_world_script : forall w r n k o ob pre post d0,
  hcrash w r n k o ob (pre ++ SRegen :: post) ->
  forallb plainop pre = true -> forallb plainop post = true -> r_data (o_rec ob) = Some d0 ->
  let F := Fs (uid (o_rec ob)) d0 (pre ++ post) in
  let s' := w_st (fst (step w (HReq r))) in
  cache s' = [] /\ plan s' = [] /\ now s' = now (w_st w) /\ conf s' = conf (w_st w) /\
  resolves_to F (store s') k /\
  ((length (evs (req_end w r)) <= n)%nat -> resolves_to F (store s') (KGen (supply (w_st w)))).
Proof. exact crash_store_script. Qed.

(* ------------------------------- non-vacuity -------------------------------- *)

(* the client of C10H_ex_scenario_handler (user 5, session 1 with data {1: 2})
   logs in as user 6, not exclusively; the step makes 5 persistence calls (LogOut's
   save; the save with user 6 — so pcalls l0' = 1; a flush; the new record; the
   replaced-ID record): user 5 at n = 0, none at n = 1, user 6 from n = 2 on *)
Theorem C10L_ex_scenario_login : forall n, hcrash wG (r1L n) n (KGen 1) 0 obG [SLogIn (6%N, 1%N) false].
Proof. exact login_crash_ex. Qed.

Theorem C10L_ex_outcomes_login :
  map pcalls [[]; [EvSave (KGen 1) (mkRec 0 0 (AOther 0) 0 None None None) true]] = [0; 1]%nat /\
  length (evs (req_end wG (r1L 0))) = 6%nat /\
  map outcomeL [0; 1; 2; 3; 4; 5; 6]%nat =
  [(CKey (KGen 1), RSess, Some ([(1%N, 2%N)], Some 5%N));
   (CKey (KGen 1), RSess, Some ([(1%N, 2%N)], None));
   (CKey (KGen 1), RSess, Some ([(1%N, 2%N)], Some 6%N));
   (CKey (KGen 1), RSess, Some ([(1%N, 2%N)], Some 6%N));
   (CKey (KGen 1), RSess, Some ([(1%N, 2%N)], Some 6%N));
   (CKey (KGen 1), RSess, Some ([(1%N, 2%N)], Some 6%N));
   (CKey (KGen 1), RSess, Some ([(1%N, 2%N)], Some 6%N))].
Proof. exact restart_login_ex. Qed.

Theorem C10L_ex_probe_login :
  Forall (fun n => forall rk, lookup (store (w_st (fst (step wG (HReq (r1L n)))))) (KGen 1) = Some rk ->
                   probe_ok (conf (w_st wG)) (now (w_st wG)) (probe_q (KGen 1) r2X) rk)
         [0; 1; 2; 3; 4; 5; 6]%nat.
Proof. exact restart_login_probe_ex. Qed.

Theorem C10L_ex_new_login :
  let w' := fst (step wG (HReq (r1L 6))) in
  supply (w_st wG) = 2%N /\ ob_res (snd (step w' (HReq r3L))) = RSess /\
  option_map (fun x => (fst x, dat (snd x), uid (snd x))) (ob_start (snd (step w' (HReq r3L)))) =
    Some (KGen 2, [(1%N, 2%N)], Some 6%N).
Proof. exact restart_login_new_ex. Qed.

(* the same client: Set 3 4; RegenerateID; Delete 1 — crash points 0..6 *)
Theorem C10L_ex_scenario_script : forall n,
  hcrash wG (r1S n) n (KGen 1) 0 obG ([SSet 3 4] ++ SRegen :: [SDel 1]).
Proof. exact script_crash_ex. Qed.

Theorem C10L_ex_outcomes_script :
  r_data (o_rec obG) = Some [(1%N, 2%N)] /\
  map (fun j => dafter [(1%N, 2%N)] (firstn j ([SSet 3 4] ++ [SDel 1]))) [0; 1; 2]%nat =
    [[(1%N, 2%N)]; [(1%N, 2%N); (3%N, 4%N)]; [(3%N, 4%N)]] /\
  map outcomeS [0; 1; 2; 3; 4; 5; 6]%nat =
  [(RSess, Some (KGen 1, [(1%N, 2%N)], Some 5%N));
   (RSess, Some (KGen 1, [(1%N, 2%N); (3%N, 4%N)], Some 5%N));
   (RSess, Some (KGen 1, [(1%N, 2%N); (3%N, 4%N)], Some 5%N));
   (RSess, Some (KGen 1, [(1%N, 2%N); (3%N, 4%N)], Some 5%N));
   (RSess, Some (KGen 2, [(1%N, 2%N); (3%N, 4%N)], Some 5%N));
   (RSess, Some (KGen 2, [(3%N, 4%N)], Some 5%N));
   (RSess, Some (KGen 2, [(3%N, 4%N)], Some 5%N))].
Proof. exact restart_script_ex. Qed.

(* the same with GetAndDelete: an absent key first (no persistence call), then
   Set 3 4; RegenerateID; GetAndDelete 1 — the same outcomes at every crash point *)
Theorem C10L_ex_scenario_script_getdel : forall n,
  hcrash wG (r1G n) n (KGen 1) 0 obG ([SGetDel 9; SSet 3 4] ++ SRegen :: [SGetDel 1]).
Proof. exact script_crash_ex_getdel. Qed.

Theorem C10L_ex_outcomes_script_getdel :
  forallb plainop [SGetDel 9; SSet 3 4] = true /\ forallb plainop [SGetDel 1] = true /\
  map (fun j => dafter [(1%N, 2%N)] (firstn j ([SGetDel 9; SSet 3 4] ++ [SGetDel 1]))) [0; 1; 2; 3]%nat =
    [[(1%N, 2%N)]; [(1%N, 2%N)]; [(1%N, 2%N); (3%N, 4%N)]; [(3%N, 4%N)]] /\
  map outcomeG [0; 1; 2; 3; 4; 5; 6]%nat = map outcomeS [0; 1; 2; 3; 4; 5; 6]%nat.
Proof. exact restart_script_ex_getdel. Qed.

Print Assumptions C10L_scenario.
Print Assumptions C10L_scenario_regen.
Print Assumptions C10L_crash_world_login.
Print Assumptions C10L_restart_old_login.
Print Assumptions C10L_restart_new_login.
Print Assumptions C10L_plainop_def.
Print Assumptions C10L_DS_def.
Print Assumptions C10L_dnext_def.
Print Assumptions C10L_restart_old_script.
Print Assumptions C10L_restart_new_script.
Print Assumptions C10L_crash_world_script.
Print Assumptions C10L_ex_scenario_login.
Print Assumptions C10L_ex_outcomes_login.
Print Assumptions C10L_ex_probe_login.
Print Assumptions C10L_ex_new_login.
Print Assumptions C10L_ex_scenario_script.
Print Assumptions C10L_ex_outcomes_script.
Print Assumptions C10L_ex_scenario_script_getdel.
Print Assumptions C10L_ex_outcomes_script_getdel.
