(* C04 at history level — every creation and every ID change draws exactly one
   fresh ID. Statements only; proofs are in Proofs/HistLift3.v, HistLift8.v,
   HistLift9.v (on PF's event-log invariant, Properties/C07.v). The per-call
   content of C04 (the new record keeps data and user, the old ID becomes a
   reference, the clean-up is queued) is in Properties/C04.v; its history form
   for the old ID is C05H_placeholder_origin / C05H_grace_kept.

   dlist evs      the ordinals of the EvDraw events of evs, in order
   flv n cks      the ordinals m >= n of the live cookies CkLive (KGen m) of cks, in order
   nseq n c       n, n+1, .., n+c-1
   ob_drawn       the number of IDs generated so far, after the step *)
From Sessions Require Import Model.Base Model.Sess Model.Hist Proofs.SessDefs
  Proofs.HistInv Proofs.HistInv2 Proofs.HistInv3 Proofs.HistLift Proofs.HistLift2 Proofs.HistLift3
  Proofs.HistLift4 Proofs.HistLift5 Proofs.HistLift6 Proofs.HistLift7 Proofs.HistLift8 Proofs.HistLift9
  Proofs.HistLiftEx.

(* In every request step of every fault-free, crash-free history, with n0 IDs
   generated before the step: the IDs drawn in the step are n0, n0+1, .. without
   gap or repetition; they are exactly, in order, the IDs announced by the
   response's live cookies that had not been drawn before the step. So Start's
   creation or rotation and each RegenerateID / LogIn of the script (each sets
   exactly one live cookie with the new ID: C18_sop and the C04_seq theorems) draws exactly
   one ID, and a redirected replaced ID (live cookie with an old ID) draws none. *)
Theorem C04H_draws :
  forall c hs r, Forall ff_hop hs -> Forall crash_free hs -> rq_plan r = [] -> rq_crash r = None ->
  let w := reach c hs in let n0 := supply (w_st w) in let o := snd (step w (HReq r)) in
  dlist (ob_evs o) = flv n0 (ob_cookies o) /\
  dlist (ob_evs o) = nseq n0 (length (dlist (ob_evs o))) /\
  ob_drawn o = (n0 + N.of_nat (length (dlist (ob_evs o))))%N.
Proof. exact draws_reach. Qed.

(* No other hop (wait, purge, cache loss, restart, user-wide logout or refresh,
   reconfiguration) generates an ID. *)
Theorem C04H_no_draw :
  forall c hs h, Forall ff_hop hs -> Forall crash_free hs -> ff_hop h -> (forall r, h <> HReq r) ->
  ob_drawn (snd (step (reach c hs) h)) = supply (w_st (reach c hs)).
Proof. exact nodraw_reach. Qed.

Print Assumptions C04H_draws.
Print Assumptions C04H_no_draw.
(* non-vacuity (Proofs/HistLiftEx.v) *)
Print Assumptions hX_run.
Print Assumptions draws_ex.
