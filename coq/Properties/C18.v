(* C18 — every live cookie carries the current ID of the session the call
   returns or operates on, and that ID resolves to a session (not to a
   replaced-ID record); nothing is set when nothing changed; a deletion cookie
   only for an ID that is dead afterwards; CkBad (anything but a template-built
   live cookie or a proper deletion) is never emitted. Statements only; proofs
   are in Proofs/RotateLaws*.v. *)
From Sessions Require Import Model.Base Model.Sess Model.Hist Proofs.SessDefs
  Proofs.RotateLaws Proofs.RotateLaws2 Proofs.RotateLaws3 Proofs.RotateLaws5 Proofs.RotateLaws6
  Proofs.RotateEx.

(* Start, fault-free: each Live v has v = the ID of the returned session at the
   end of the call and L' v is not a reference; Deleting only if the presented
   ID resolves to nothing afterwards; a returned session is never a
   replaced-ID record; when nothing is set, the presented ID is the returned
   session's ID. The presented value is assumed not to be
   the next ID the server will generate (IDs are unguessable, C19). *)
Theorem C18_start :
  forall s q s' res cks,
    plan s = [] -> cache_ok s -> nodup_ok s -> fresh_ok s ->
    q_cookie q <> CKey (KGen (supply s)) ->
    start s q = (s', res, cks) ->
    (forall v, In (CkLive v) cks ->
       exists o ob rv, res = Ok (Some o) /\ hget s' o = Some ob /\ o_id ob = v /\
                       L s' v = Some rv /\ r_ref rv = None) /\
    (In CkDelete cks -> exists k, q_cookie q = CKey k /\ L s' k = None) /\
    (forall o, res = Ok (Some o) -> exists ob, hget s' o = Some ob /\ r_ref (o_rec ob) = None) /\
    (forall o, res = Ok (Some o) -> cks = [] ->
       exists ob, hget s' o = Some ob /\ q_cookie q = CKey (o_id ob)).
Proof. exact start_cookies_ok. Qed.

(* consequently a browser applying the response's cookies in order holds the
   current ID of the session the request was given *)
Theorem C18_jar :
  forall s q s' o cks,
    plan s = [] -> cache_ok s -> nodup_ok s -> fresh_ok s ->
    q_cookie q <> CKey (KGen (supply s)) ->
    start s q = (s', Ok (Some o), cks) ->
    exists ob, hget s' o = Some ob /\ apply_cookies (q_cookie q) cks = CKey (o_id ob).
Proof. exact start_jar. Qed.

(* handler operations (RegenerateID, LogIn; the others set no live cookie) *)
Theorem C18_sop :
  forall s o ob hc op s' r cks,
    plan s = [] -> cache_ok s -> nodup_ok s -> fresh_ok s ->
    hget s o = Some ob -> r_ref (o_rec ob) = None ->
    do_sop s o hc op = (s', r, cks) ->
    forall v, In (CkLive v) cks ->
      exists ob' rv, hget s' o = Some ob' /\ o_id ob' = v /\ L s' v = Some rv /\ r_ref rv = None.
Proof. exact do_sop_cookies_ok. Qed.

(* no cookie at all when the presented ID is current and no rotation is due *)
Theorem C18_silent :
  forall s q k r,
    plan s = [] -> cache_ok s -> nodup_ok s -> fresh_ok s -> cfg_ok (conf s) ->
    q_cookie q = CKey k -> L s k = Some r -> r_ref r = None ->
    valid_for (conf s) r (now s) q = true ->
    (since (r_created r) (now s) < c_idexpiry (conf s))%Z ->
    exists s' o,
      start s q = (s', Ok (Some o), []) /\
      draws (evs s') = draws (evs s) /\ supply s' = supply s /\
      hget s' o = Some (mkObj k (seen_rec r (now s) q)) /\
      L s' k = Some (if cached s' k then seen_rec r (now s) q else r) /\
      pending s' = pending s.
Proof. exact start_keep. Qed.

(* for every state and fault plan: a Start that returns a session sets nothing
   or ends with a live cookie *)
Theorem C18_last_live :
  forall s q s' o cks, start s q = (s', Ok (Some o), cks) ->
    cks = [] \/ exists pre v, cks = pre ++ [CkLive v].
Proof. exact start_last_live. Qed.

(* for every state and fault plan: CkBad is never emitted *)
Theorem C18_no_bad_start : forall s q n, ~ In (CkBad n) (snd (start s q)).
Proof. exact start_plain. Qed.

Theorem C18_no_bad_sop : forall s o hc op n, ~ In (CkBad n) (snd (do_sop s o hc op)).
Proof. exact do_sop_plain. Qed.

Print Assumptions C18_start.
Print Assumptions C18_jar.
Print Assumptions C18_sop.
Print Assumptions C18_silent.
Print Assumptions C18_last_live.
Print Assumptions C18_no_bad_start.
Print Assumptions C18_no_bad_sop.
(* non-vacuity (Proofs/RotateEx.v) *)
Print Assumptions cookies_ex.
Print Assumptions start_keep_ex.
Print Assumptions start_chain_ex.
