(* C13 — per-key locks are mutually exclusive. Statements only; proofs are in
   Proofs/Mutex*.v. The protocol model (Model/Mutex.v) has any number of
   goroutines, keys, script operations and purge requests. `adm_run` spells out
   the property's provisos: a purge treats an entry as stale only when its lock
   count is 0 (holds are shorter than the staleness timeout), and an Unlock of a
   key the caller does not hold is taken by the manager only when that key is
   not held. *)
From Sessions Require Import Model.Base Model.Mutex Gen.MutexTbl
  Proofs.MutexBasics Proofs.MutexSafety Proofs.MutexProgress Proofs.MutexIndep Proofs.MutexTheorems.

(* In every state of every admissible run, two goroutines that are both between
   the return of Lock(k) and the manager's receipt of their Unlock(k) are the
   same goroutine. *)
Theorem C13 :
  forall (scripts : list (list op)) (purges : nat) (ls : list label) (st : state),
    run (init scripts purges) ls = Some st -> adm_run (init scripts purges) ls ->
    forall k g1 g2, holds st g1 k -> holds st g2 k -> g1 = g2.
Proof. exact c13_exclusion. Qed.

(* Counting form; a grant in progress and a holder never coexist. *)
Theorem C13_count :
  forall scripts purges ls st,
    run (init scripts purges) ls = Some st -> adm_run (init scripts purges) ls ->
    forall k, cH st k <= 1 /\
              (forall c, mgr st = MAcqSend c k \/ mgr st = MRelSend c k -> cH st k = 0).
Proof. exact c13_count. Qed.

(* The invariant of DESIGN.md Appendix A is inductive: it holds initially and
   every enabled admissible transition preserves it. *)
Theorem C13_invariant :
  (forall scripts purges, Inv (init scripts purges)) /\
  (forall st l st', step st l = Some st' -> adm st l -> Inv st -> Inv st').
Proof. exact (conj inv_init inv_step). Qed.

(* Why the proviso is there: without it a stale purge of a held entry lets a
   second locker in. *)
Theorem C13_needs_hold_bound_refuted :
  exists scripts purges ls st,
    run (init scripts purges) ls = Some st /\ 2 <= cH st 0 /\ holds st 0 0 /\ holds st 2 0.
Proof. exact needs_hold_bound_refuted. Qed.

(* mutexes.go as it is now has the forms the model was written against. *)
Theorem C13_source_pinned : mutex_source_pinned_statement.
Proof. exact mutex_source_pinned. Qed.

Print Assumptions C13.
Print Assumptions C13_count.
Print Assumptions C13_invariant.
Print Assumptions C13_needs_hold_bound_refuted.
Print Assumptions C13_source_pinned.
