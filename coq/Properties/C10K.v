(* C10 for ANY handler script and ANY crash point (R10). Statements only; proofs are in
   Proofs/CrashAny.v .. CrashAny5.v (on top of HistLiftB.v, LineageB.v, LineageG.v,
   LineageG2.v, LineageF.v: the events-of-a-step machinery of C07K), non-vacuity in
   Proofs/CrashAnyEx.v.

   Properties/C10.v, C10H.v, C10L.v, C10C.v prove no-dangling per CALL (all fault
   plans) and the restart theorems for a crashing step whose script is exactly
   [RegenerateID] or [LogIn] (C10L: data operations around one RegenerateID), from
   states satisfying the invariants of SessDefs.v (heap mark 0: crash-free
   histories). Here: a fault-free request step (rq_plan r = []) with ANY handler
   script - any number of ID changes, logins, logouts, data operations - stopped
   after ANY number n of its persistence calls (rq_crash r = Some n), from any world
   satisfying LIx (Properties/C07K.v: C05H's invariant at some heap mark; every
   state reached by a fault-free history with process stops anywhere has it,
   C07K_LIx_reach).

   SCOPE. The model is sequential: one request (or other hop) at a time; a process stop
   occurs only INSIDE a request step (Hist.step has no crash point in waits, purges,
   user-wide calls), after some number n of the step's persistence calls. Nothing
   here is about concurrent requests.

   no_deletes. The theorems of (b) and (d) ask that the events the stop KEEPS - the
   first n persistence calls, ev_prefix (events of the completed step) n - contain
   no deletion (the _pre forms): the stop precedes any Destroy, invalidation by Start
   or clean-up the step would go on to make (what comes after the stop never
   happened). The forms without _pre ask it of the whole completed step and are
   corollaries.

   PROVED
   (a) C10K_no_dangling_any - "at no crash point does the store hold a replaced-ID
       record that points at an ID which does not exist", in full: a replaced-ID
       record of the store the stop leaves names an ID the store holds, unless that
       ID has been deleted (it is in the store's index of deleted IDs: Destroy, an
       invalidation or backstop expiry by Start, a clean-up that came due - in this
       or an earlier step) or was drawn before the step and already absent before
       it. Never an ID the step drew and has not saved yet (C10K_no_dangling_fresh):
       RegenerateID saves the new ID before the reference under the old one, in
       every operation that changes the ID (C10K_nd_regenerate .. C10K_nd_script).
       C10K_no_dangling_any is RELATIVE to the pre-state (the gone_in disjunct: a
       reference that was already dangling before the step is allowed, since the
       theorem starts from an arbitrary LIx state). The ABSOLUTE form holds along
       histories: C10K_no_dangling_reach_abs - in every state reached by a fault-free
       history with stops anywhere, every replaced-ID record names an ID that is
       stored or has been deleted (nd_ok of RefreshUser and PurgeSessions added:
       C10K_nd_refresh_user, C10K_nd_purge).
   (b) C10K_presented_resolves_any - structure: every chain k0 -> .. -> kn of
       replaced-ID records ending at a session record in the store before the step
       (in particular the one the client's ID heads) still resolves in the store
       after the stop, through the same records and then through IDs drawn by this
       step only, to a session record; that record was in the store under its ID
       before the step or was written under it by a successful save of the step.
       Hypotheses: the step deletes nothing when run to completion (no_deletes: no
       Destroy, Start accepts the presented record, no clean-up due - a check on
       the step's event log) and graves_drawn (the index of deleted IDs mentions
       only drawn IDs; it holds in every state a fault-free history reaches:
       C10K_graves_drawn_reach - so the _reach forms below need neither it nor LIx).
       C10K_presented_resolves_any says where the record at the end comes from.
   (c) C10K_completed_new_id - the step run to completion (no Destroy): the ID of
       the handler's session at the end is stored as a session's record (with
       C07K_late_step: also after a stop behind the last persistence call). It says
       NOTHING about the data or the user of that record.

   (b, content) C10K_presented_data_any - the DATA of the record that the presented ID
       resolves to after the stop is the data the store held under the session's ID
       before the step, or one of the data states of the script (the data after 0,
       1, 2, .. of its operations) starting from the data of the session Start
       returns: "all previously acknowledged data", possibly plus a prefix of this
       request's own writes, never anything else. Extra hypotheses: a cached copy
       of the session agrees with the store on the data (write-through; C10C has
       the same hypothesis), and d0 is the data of the session Start returns in the
       completed step (C01/C09: the stored data). Behind it: C10K_step_saves_data -
       every save of the step, under the session's old ID or an ID the step draws,
       of a session's record, writes such data (operation by operation:
       CrashAny6.v, CrashAny7.v; LogOut(userID) inside an exclusive LogIn included).

   NOT PROVED (C10K_content_statement): the same with the USER of the record (the
   states (data, user) after 0, 1, 2, .. operations, with LogIn's intermediate "no
   user"): the safe-save lemma of LogOut(userID) (CrashFault4) needs the constraint
   on written records to be indifferent to the user field. Computed for every n of a
   step with script [Set; RegenerateID; Set; LogIn; Delete] in Proofs/CrashAnyEx.v
   (ca_resolved): exactly those states. A proof needs three more invariants threaded
   through every operation (the object cached under the session's ID is the
   handler's; the stored record under it is the handler's content after every
   operation; no other ID of the session holds a session's record), because
   LogOut(userID) inside an exclusive LogIn rewrites whatever object it finds under
   the session's ID.

   (d) C10K_restart_presented - the request after the restart: from the world the stop
       leaves, a request presenting k0 again that passes Start's checks on the
       record stored under k0 (probe_ok of C10H) is served a session whose data is
       the stored data or one of the script's data states. Start follows the whole
       chain on the empty cache (CrashChain3.probe_chain_step asks nothing of the
       heap, so it applies to the crashed world at any heap mark).

   LIg = LIx and graves_drawn; kept by every fault-free step, holds in every reachable
   state (C10K_LIg_step, C10K_LIg_reach). *)
From Sessions Require Import Model.Base Model.Sess Model.Hist Model.Corr Proofs.SessDefs
  Proofs.HistInv Proofs.HistInv2 Proofs.HistInv3 Proofs.HistLift Proofs.HistLift3 Proofs.HistLift4 Proofs.HistLiftB
  Proofs.LineageB Proofs.LineageK Proofs.LineageK2 Proofs.LineageK3 Proofs.LineageF
  Proofs.CrashAny Proofs.CrashAny2 Proofs.CrashAny3 Proofs.CrashAny4 Proofs.CrashAny5 Proofs.CrashAny6 Proofs.CrashAny7
  Proofs.CrashAny8 Proofs.CrashAny9 Proofs.CrashAny10 Proofs.CrashAny11 Proofs.CrashAny12 Proofs.CrashAnyEx.
From Sessions Require Proofs.CrashFault Proofs.CrashFault2 Proofs.CrashFault3 Proofs.CrashChain Proofs.CrashRestart.

(* ------------------------------------------------------- the notions *)

(* drawn before the step and absent from its store *)
Theorem C10K_gone_in_meaning : forall s t, gone_in s t <-> lookup (store s) t = None /\ key_drawn s t.
Proof. exact (fun s t => iff_refl _). Qed.

(* NoDang X0 (store, deleted IDs): every replaced-ID record names a stored ID, an ID
   of X0, or a deleted ID *)
Theorem C10K_NoDang_meaning :
  forall X0 sg, NoDang X0 sg <->
  forall k r t, lookup (fst sg) k = Some r -> r_ref r = Some t ->
    lookup (fst sg) t <> None \/ (X0 t \/ lookup (snd sg) t <> None).
Proof. exact (fun X0 sg => iff_refl _). Qed.

(* nd_ok X0 s s': the call from s to s' keeps NoDang at every persistence-call boundary *)
Theorem C10K_nd_ok_meaning :
  forall X0 s s', nd_ok X0 s s' <->
  (NoDang X0 (store s, graves s) ->
   exists l, CrashFault.ext s s' l /\ CrashFault2.steps_ok (NoDang X0) (store s, graves s) l).
Proof. exact (fun X0 s s' => iff_refl _). Qed.

Theorem C10K_steps_ok_meaning :
  forall I l sg, CrashFault2.steps_ok I sg l -> forall n, I (fold_left apply_ev (ev_prefix l n) sg).
Proof. exact steps_ok_prefix_fold. Qed.

Theorem C10K_fresh_meaning : forall n0 t, fresh_from_n n0 t <-> exists m, t = KGen m /\ (n0 <= m)%N.
Proof. exact (fun n0 t => iff_refl _). Qed.

Theorem C10K_graves_drawn_meaning : forall s, graves_drawn s <-> forall k, lookup (graves s) k <> None -> key_drawn s k.
Proof. exact (fun s => iff_refl _). Qed.

Theorem C10K_no_deletes_meaning :
  forall l, no_deletes l <-> Forall (fun e => match e with EvDelete _ _ => false | _ => true end = true) l.
Proof. exact no_deletes_meaning. Qed.

(* ------------------------------------------------------- (a) operation by operation *)

Theorem C10K_nd_regenerate :
  forall b X0 base s o s' res cks, Gb b Q0 base s -> hg s o -> regenerate s o = (s', res, cks) -> nd_ok X0 s s'.
Proof. exact nd_regenerate. Qed.

Theorem C10K_nd_start : forall b X0 base s q, Gb b Q0 base s -> nd_ok X0 s (fst (fst (start s q))).
Proof. exact nd_start. Qed.

Theorem C10K_nd_login :
  forall b X0 base s o u ex, Gb b Q0 base s -> b <= o -> hg s o -> nd_ok X0 s (fst (fst (login s o u ex))).
Proof. exact nd_login. Qed.

Theorem C10K_nd_handler_op :
  forall b X0 base s o hc op, Gb b Q0 base s -> b <= o -> hg s o -> nd_ok X0 s (fst (fst (do_sop s o hc op))).
Proof. exact nd_do_sop. Qed.

Theorem C10K_nd_script :
  forall b X0 base hc ops s o, Gb b Q0 base s -> b <= o -> hg s o -> nd_ok X0 s (fst (fst (run_script s o hc ops))).
Proof. exact nd_run_script. Qed.

Theorem C10K_nd_delete : forall X0 s k s' ok, cache_delete s k = (s', ok) -> nd_ok X0 s s'.
Proof. exact nd_cache_delete. Qed.

(* whole steps: at every persistence-call boundary *)
Theorem C10K_nd_step :
  forall b X0 w r, LIb b (w_st w) -> rq_plan r = [] -> NoDang X0 (store (w_st w), graves (w_st w)) ->
  CrashFault2.steps_ok (NoDang X0) (store (w_st w), graves (w_st w)) (ob_evs (snd (step w (HReq (nocrash r))))).
Proof. exact step_nodangling. Qed.

(* the state a stop leaves *)
Theorem C10K_no_dangling_any :
  forall w r n, LIx (w_st w) -> rq_plan r = [] -> rq_crash r = Some n ->
  forall k rk t,
    lookup (store (w_st (fst (step w (HReq r))))) k = Some rk -> r_ref rk = Some t ->
    lookup (store (w_st (fst (step w (HReq r))))) t <> None \/
    lookup (graves (w_st (fst (step w (HReq r))))) t <> None \/
    gone_in (w_st w) t.
Proof. exact no_dangling_any. Qed.

Theorem C10K_no_dangling_fresh :
  forall w r n, LIx (w_st w) -> rq_plan r = [] -> rq_crash r = Some n ->
  forall k rk m,
    lookup (store (w_st (fst (step w (HReq r))))) k = Some rk -> r_ref rk = Some (KGen m) ->
    (supply (w_st w) <= m)%N ->
    lookup (store (w_st (fst (step w (HReq r))))) (KGen m) <> None \/
    lookup (graves (w_st (fst (step w (HReq r))))) (KGen m) <> None.
Proof. exact no_dangling_fresh. Qed.

(* ------------------------------------------------------- (b) the presented ID still resolves *)

Theorem C10K_presented_resolves_any :
  forall w r n k0 rest,
  LIx (w_st w) -> graves_drawn (w_st w) -> rq_plan r = [] -> rq_crash r = Some n ->
  no_deletes (ob_evs (snd (step w (HReq (nocrash r))))) ->
  CrashChain.spath (fun _ => True) (store (w_st w)) k0 rest ->
  exists tl rend,
    CrashChain.spath (fun _ => True) (store (w_st (fst (step w (HReq r))))) k0 (rest ++ tl) /\
    Forall (fresh_from_n (supply (w_st w))) tl /\
    lookup (store (w_st (fst (step w (HReq r))))) (last (rest ++ tl) k0) = Some rend /\ r_ref rend = None /\
    (lookup (store (w_st w)) (last (rest ++ tl) k0) = Some rend \/
     In (EvSave (last (rest ++ tl) k0) rend true) (ob_evs (snd (step w (HReq (nocrash r)))))).
Proof. exact chain_resolves_stop_record. Qed.

(* hence in C10C's terms *)
Theorem C10K_presented_resolves_chain :
  forall w r n k0,
  LIx (w_st w) -> graves_drawn (w_st w) -> rq_plan r = [] -> rq_crash r = Some n ->
  no_deletes (ob_evs (snd (step w (HReq (nocrash r))))) ->
  CrashChain.resolves_chain (fun _ => True) (store (w_st w)) k0 ->
  CrashChain.resolves_chain (fun _ => True) (store (w_st (fst (step w (HReq r))))) k0.
Proof. exact resolves_chain_stop. Qed.

(* the pieces: a replaced-ID record of the pre-state keeps its target at any crash
   point of a step that deletes nothing; nothing stored disappears *)
Theorem C10K_edge_kept :
  forall w r n, LIx (w_st w) -> rq_plan r = [] -> rq_crash r = Some n ->
  no_deletes (ev_prefix (ob_evs (snd (step w (HReq (nocrash r))))) n) ->
  forall k rk t, lookup (store (w_st w)) k = Some rk -> r_ref rk = Some t ->
  exists rk', lookup (store (w_st (fst (step w (HReq r))))) k = Some rk' /\ r_ref rk' = Some t.
Proof. exact edge_kept. Qed.

(* ------------------------------------------------------- (b) the data of the record it resolves to *)

Theorem C10K_op_data_meaning :
  forall d op, op_data d op =
  match op with
  | SSet k v => kv_set d k v
  | SDel k => kv_del d k
  | SGetDel k => match kv_get d k with Some _ => kv_del d k | None => d end
  | _ => d
  end.
Proof. reflexivity. Qed.

Theorem C10K_script_data_meaning :
  forall d, script_data d [] = [d] /\ forall op t, script_data d (op :: t) = d :: script_data (op_data d op) t.
Proof. intro d. split; reflexivity. Qed.

(* KC S PSd k r: if k is in S and r is a session's record, its data satisfies PSd;
   ELC: every save writes such a record *)
Theorem C10K_KC_meaning :
  forall S PSd k r, KC S PSd k r <-> (S k -> r_ref r = None -> PSd (CrashFault3.dat r)).
Proof. exact (fun S PSd k r => iff_refl _). Qed.

Theorem C10K_ELC_meaning :
  forall S PSd e, ELC S PSd e <-> match e with EvSave k r _ => KC S PSd k r | _ => True end.
Proof. exact (fun S PSd e => iff_refl _). Qed.

(* every save of a step that deletes nothing *)
Theorem C10K_step_saves_data :
  forall b (S : key -> Prop) (PSd : list (N * N) -> Prop) w r k0 d0,
  LIb b (w_st w) -> rq_plan r = [] -> presents w r = CKey k0 -> lookup (store (w_st w)) k0 <> None ->
  CrashFault2.J (KC S PSd) (w_st w) ->
  (forall id0 rc0, ob_start (snd (step w (HReq (nocrash r)))) = Some (id0, rc0) -> r_data rc0 = Some d0) ->
  (forall x, In x (script_data d0 (rq_script r)) -> PSd x) ->
  no_del (ob_evs (snd (step w (HReq (nocrash r))))) ->
  Forall (ELC S PSd) (ob_evs (snd (step w (HReq (nocrash r))))).
Proof. exact step_saves_data. Qed.

Theorem C10K_presented_data_any :
  forall w r n k0 rest rn d0,
  LIx (w_st w) -> graves_drawn (w_st w) -> rq_plan r = [] -> rq_crash r = Some n ->
  no_deletes (ob_evs (snd (step w (HReq (nocrash r))))) ->
  presents w r = CKey k0 ->
  CrashChain.spath (fun _ => True) (store (w_st w)) k0 rest ->
  lookup (store (w_st w)) (last rest k0) = Some rn ->
  (forall o ob, In (last rest k0, o) (cache (w_st w)) -> hget (w_st w) o = Some ob -> r_ref (o_rec ob) = None ->
     CrashFault3.dat (o_rec ob) = CrashFault3.dat rn) ->
  (forall id0 rc0, ob_start (snd (step w (HReq (nocrash r)))) = Some (id0, rc0) -> r_data rc0 = Some d0) ->
  CrashChain.resolves_chain
    (fun rd => CrashFault3.dat rd = CrashFault3.dat rn \/ In (CrashFault3.dat rd) (script_data d0 (rq_script r)))
    (store (w_st (fst (step w (HReq r))))) k0.
Proof. exact presented_data_any. Qed.

(* ------------------------------------------------------- from reachable states *)

Theorem C10K_graves_drawn_step :
  forall w h, LIx (w_st w) -> graves_drawn (w_st w) -> ff_hop h -> graves_drawn (w_st (fst (step w h))).
Proof. exact graves_drawn_step. Qed.

Theorem C10K_graves_drawn_reach : forall c hs, Forall ff_hop hs -> graves_drawn (w_st (reach c hs)).
Proof. exact graves_drawn_reach. Qed.

Theorem C10K_no_dangling_reach :
  forall c hs r n, Forall ff_hop hs -> rq_plan r = [] -> rq_crash r = Some n ->
  forall k rk t,
    lookup (store (w_st (fst (step (reach c hs) (HReq r))))) k = Some rk -> r_ref rk = Some t ->
    lookup (store (w_st (fst (step (reach c hs) (HReq r))))) t <> None \/
    lookup (graves (w_st (fst (step (reach c hs) (HReq r))))) t <> None \/
    gone_in (w_st (reach c hs)) t.
Proof. exact no_dangling_reach. Qed.

Theorem C10K_presented_resolves_reach :
  forall c hs r n k0 rest,
  Forall ff_hop hs -> rq_plan r = [] -> rq_crash r = Some n ->
  no_deletes (ob_evs (snd (step (reach c hs) (HReq (nocrash r))))) ->
  CrashChain.spath (fun _ => True) (store (w_st (reach c hs))) k0 rest ->
  exists tl rend,
    CrashChain.spath (fun _ => True) (store (w_st (fst (step (reach c hs) (HReq r))))) k0 (rest ++ tl) /\
    Forall (fresh_from_n (supply (w_st (reach c hs)))) tl /\
    lookup (store (w_st (fst (step (reach c hs) (HReq r))))) (last (rest ++ tl) k0) = Some rend /\ r_ref rend = None /\
    (lookup (store (w_st (reach c hs))) (last (rest ++ tl) k0) = Some rend \/
     In (EvSave (last (rest ++ tl) k0) rend true) (ob_evs (snd (step (reach c hs) (HReq (nocrash r)))))).
Proof. exact presented_resolves_reach. Qed.

Theorem C10K_presented_data_reach :
  forall c hs r n k0 rest rn d0,
  Forall ff_hop hs -> rq_plan r = [] -> rq_crash r = Some n ->
  no_deletes (ob_evs (snd (step (reach c hs) (HReq (nocrash r))))) ->
  presents (reach c hs) r = CKey k0 ->
  CrashChain.spath (fun _ => True) (store (w_st (reach c hs))) k0 rest ->
  lookup (store (w_st (reach c hs))) (last rest k0) = Some rn ->
  (forall o ob, In (last rest k0, o) (cache (w_st (reach c hs))) -> hget (w_st (reach c hs)) o = Some ob -> r_ref (o_rec ob) = None ->
     CrashFault3.dat (o_rec ob) = CrashFault3.dat rn) ->
  (forall id0 rc0, ob_start (snd (step (reach c hs) (HReq (nocrash r)))) = Some (id0, rc0) -> r_data rc0 = Some d0) ->
  CrashChain.resolves_chain
    (fun rd => CrashFault3.dat rd = CrashFault3.dat rn \/ In (CrashFault3.dat rd) (script_data d0 (rq_script r)))
    (store (w_st (fst (step (reach c hs) (HReq r))))) k0.
Proof. exact presented_data_reach. Qed.

Theorem C10K_LIg_meaning : forall s, LIg s <-> LIx s /\ graves_drawn s.
Proof. exact (fun s => iff_refl _). Qed.

Theorem C10K_LIg_step : forall w h, LIg (w_st w) -> ff_hop h -> LIg (w_st (fst (step w h))).
Proof. exact LIg_step. Qed.

Theorem C10K_LIg_reach : forall c hs, Forall ff_hop hs -> LIg (w_st (reach c hs)).
Proof. exact LIg_reach. Qed.

(* ------------------------------------------------------- (d) the request after the restart *)

Theorem C10K_probe_ok_meaning :
  forall c t q r, CrashRestart.probe_ok c t q r <->
  rec_valid c t q r = true /\
  ((isref r = true \/ (c_idexpiry c <=? since (r_created r) t)%Z = false) ->
   (sat_add (c_idexpiry c) (c_grace c) <=? since (r_created r) t)%Z = false).
Proof. exact (fun c t q r => iff_refl _). Qed.

Theorem C10K_restart_presented :
  forall w r n k0 rest rn d0 r2,
  LIx (w_st w) -> graves_drawn (w_st w) -> rq_plan r = [] -> rq_crash r = Some n ->
  no_deletes (ob_evs (snd (step w (HReq (nocrash r))))) ->
  presents w r = CKey k0 ->
  CrashChain.spath (fun _ => True) (store (w_st w)) k0 rest ->
  lookup (store (w_st w)) (last rest k0) = Some rn ->
  (forall o ob, In (last rest k0, o) (cache (w_st w)) -> hget (w_st w) o = Some ob -> r_ref (o_rec ob) = None ->
     CrashFault3.dat (o_rec ob) = CrashFault3.dat rn) ->
  (forall id0 rc0, ob_start (snd (step w (HReq (nocrash r)))) = Some (id0, rc0) -> r_data rc0 = Some d0) ->
  let w' := fst (step w (HReq r)) in
  rq_plan r2 = [] -> rq_crash r2 = None -> presents w' r2 = CKey k0 ->
  (forall rk, lookup (store (w_st w')) k0 = Some rk ->
     CrashRestart.probe_ok (conf (w_st w')) (now (w_st w')) (mkReq (CKey k0) (rq_create r2) (rq_addr r2) (rq_ua r2)) rk) ->
  ob_res (snd (step w' (HReq r2))) = RSess /\
  exists id rc, ob_start (snd (step w' (HReq r2))) = Some (id, rc) /\ r_ref rc = None /\
    (CrashFault3.dat rc = CrashFault3.dat rn \/ In (CrashFault3.dat rc) (script_data d0 (rq_script r))).
Proof. exact restart_presented. Qed.

Theorem C10K_restart_presented_reach :
  forall c hs r n k0 rest rn d0 r2,
  Forall ff_hop hs -> rq_plan r = [] -> rq_crash r = Some n ->
  no_deletes (ob_evs (snd (step (reach c hs) (HReq (nocrash r))))) ->
  presents (reach c hs) r = CKey k0 ->
  CrashChain.spath (fun _ => True) (store (w_st (reach c hs))) k0 rest ->
  lookup (store (w_st (reach c hs))) (last rest k0) = Some rn ->
  (forall o ob, In (last rest k0, o) (cache (w_st (reach c hs))) -> hget (w_st (reach c hs)) o = Some ob -> r_ref (o_rec ob) = None ->
     CrashFault3.dat (o_rec ob) = CrashFault3.dat rn) ->
  (forall id0 rc0, ob_start (snd (step (reach c hs) (HReq (nocrash r)))) = Some (id0, rc0) -> r_data rc0 = Some d0) ->
  let w' := fst (step (reach c hs) (HReq r)) in
  rq_plan r2 = [] -> rq_crash r2 = None -> presents w' r2 = CKey k0 ->
  (forall rk, lookup (store (w_st w')) k0 = Some rk ->
     CrashRestart.probe_ok (conf (w_st w')) (now (w_st w')) (mkReq (CKey k0) (rq_create r2) (rq_addr r2) (rq_ua r2)) rk) ->
  ob_res (snd (step w' (HReq r2))) = RSess /\
  exists id rc, ob_start (snd (step w' (HReq r2))) = Some (id, rc) /\ r_ref rc = None /\
    (CrashFault3.dat rc = CrashFault3.dat rn \/ In (CrashFault3.dat rc) (script_data d0 (rq_script r))).
Proof. exact restart_presented_reach. Qed.

(* ------------------------------------------------------- the _pre forms: only the events the stop keeps *)

Theorem C10K_no_deletes_prefix : forall l n, no_deletes l -> no_deletes (ev_prefix l n).
Proof. exact no_deletes_prefix. Qed.

(* ndp l: the events of l before its first deletion *)
Theorem C10K_ndp_meaning :
  ndp [] = [] /\ forall e t, ndp (e :: t) = if CrashFault.is_delete e then [] else e :: ndp t.
Proof. split; reflexivity. Qed.

Theorem C10K_presented_resolves_pre :
  forall w r n k0 rest,
  LIx (w_st w) -> graves_drawn (w_st w) -> rq_plan r = [] -> rq_crash r = Some n ->
  no_deletes (ev_prefix (ob_evs (snd (step w (HReq (nocrash r))))) n) ->
  CrashChain.spath (fun _ => True) (store (w_st w)) k0 rest ->
  exists tl rend,
    CrashChain.spath (fun _ => True) (store (w_st (fst (step w (HReq r))))) k0 (rest ++ tl) /\
    Forall (fresh_from_n (supply (w_st w))) tl /\
    lookup (store (w_st (fst (step w (HReq r))))) (last (rest ++ tl) k0) = Some rend /\ r_ref rend = None /\
    (lookup (store (w_st w)) (last (rest ++ tl) k0) = Some rend \/
     In (EvSave (last (rest ++ tl) k0) rend true) (ev_prefix (ob_evs (snd (step w (HReq (nocrash r))))) n)).
Proof. exact chain_resolves_stop_record_pre. Qed.

(* every save of a step BEFORE ITS FIRST DELETION *)
Theorem C10K_step_saves_data_pre :
  forall b (S : key -> Prop) (PSd : list (N * N) -> Prop) w r k0 d0,
  LIb b (w_st w) -> rq_plan r = [] -> presents w r = CKey k0 -> lookup (store (w_st w)) k0 <> None ->
  CrashFault2.J (KC S PSd) (w_st w) ->
  (forall id0 rc0, ob_start (snd (step w (HReq (nocrash r)))) = Some (id0, rc0) -> r_data rc0 = Some d0) ->
  (forall x, In x (script_data d0 (rq_script r)) -> PSd x) ->
  Forall (ELC S PSd) (ndp (ob_evs (snd (step w (HReq (nocrash r)))))).
Proof. exact step_saves_data_pre. Qed.

Theorem C10K_presented_data_pre :
  forall w r n k0 rest rn d0,
  LIx (w_st w) -> graves_drawn (w_st w) -> rq_plan r = [] -> rq_crash r = Some n ->
  no_deletes (ev_prefix (ob_evs (snd (step w (HReq (nocrash r))))) n) ->
  presents w r = CKey k0 ->
  CrashChain.spath (fun _ => True) (store (w_st w)) k0 rest ->
  lookup (store (w_st w)) (last rest k0) = Some rn ->
  (forall o ob, In (last rest k0, o) (cache (w_st w)) -> hget (w_st w) o = Some ob -> r_ref (o_rec ob) = None ->
     CrashFault3.dat (o_rec ob) = CrashFault3.dat rn) ->
  (forall id0 rc0, ob_start (snd (step w (HReq (nocrash r)))) = Some (id0, rc0) -> r_data rc0 = Some d0) ->
  CrashChain.resolves_chain
    (fun rd => CrashFault3.dat rd = CrashFault3.dat rn \/ In (CrashFault3.dat rd) (script_data d0 (rq_script r)))
    (store (w_st (fst (step w (HReq r))))) k0.
Proof. exact presented_data_pre. Qed.

Theorem C10K_presented_data_reach_pre :
  forall c hs r n k0 rest rn d0,
  Forall ff_hop hs -> rq_plan r = [] -> rq_crash r = Some n ->
  no_deletes (ev_prefix (ob_evs (snd (step (reach c hs) (HReq (nocrash r))))) n) ->
  presents (reach c hs) r = CKey k0 ->
  CrashChain.spath (fun _ => True) (store (w_st (reach c hs))) k0 rest ->
  lookup (store (w_st (reach c hs))) (last rest k0) = Some rn ->
  (forall o ob, In (last rest k0, o) (cache (w_st (reach c hs))) -> hget (w_st (reach c hs)) o = Some ob -> r_ref (o_rec ob) = None ->
     CrashFault3.dat (o_rec ob) = CrashFault3.dat rn) ->
  (forall id0 rc0, ob_start (snd (step (reach c hs) (HReq (nocrash r)))) = Some (id0, rc0) -> r_data rc0 = Some d0) ->
  CrashChain.resolves_chain
    (fun rd => CrashFault3.dat rd = CrashFault3.dat rn \/ In (CrashFault3.dat rd) (script_data d0 (rq_script r)))
    (store (w_st (fst (step (reach c hs) (HReq r))))) k0.
Proof. exact presented_data_reach_pre. Qed.

Theorem C10K_restart_presented_pre :
  forall w r n k0 rest rn d0 r2,
  LIx (w_st w) -> graves_drawn (w_st w) -> rq_plan r = [] -> rq_crash r = Some n ->
  no_deletes (ev_prefix (ob_evs (snd (step w (HReq (nocrash r))))) n) ->
  presents w r = CKey k0 ->
  CrashChain.spath (fun _ => True) (store (w_st w)) k0 rest ->
  lookup (store (w_st w)) (last rest k0) = Some rn ->
  (forall o ob, In (last rest k0, o) (cache (w_st w)) -> hget (w_st w) o = Some ob -> r_ref (o_rec ob) = None ->
     CrashFault3.dat (o_rec ob) = CrashFault3.dat rn) ->
  (forall id0 rc0, ob_start (snd (step w (HReq (nocrash r)))) = Some (id0, rc0) -> r_data rc0 = Some d0) ->
  let w' := fst (step w (HReq r)) in
  rq_plan r2 = [] -> rq_crash r2 = None -> presents w' r2 = CKey k0 ->
  (forall rk, lookup (store (w_st w')) k0 = Some rk ->
     CrashRestart.probe_ok (conf (w_st w')) (now (w_st w')) (mkReq (CKey k0) (rq_create r2) (rq_addr r2) (rq_ua r2)) rk) ->
  ob_res (snd (step w' (HReq r2))) = RSess /\
  exists id rc, ob_start (snd (step w' (HReq r2))) = Some (id, rc) /\ r_ref rc = None /\
    (CrashFault3.dat rc = CrashFault3.dat rn \/ In (CrashFault3.dat rc) (script_data d0 (rq_script r))).
Proof. exact restart_presented_pre. Qed.

(* ------------------------------------------------------- (a) absolute, along histories *)

Theorem C10K_nd_refresh_user :
  forall b X0 base s u s' r, Gb b Q0 base s -> refresh_user s u = (s', r) -> nd_ok X0 s s'.
Proof. exact nd_refresh_user. Qed.

Theorem C10K_nd_purge : forall b X0 base s, Gb b Q0 base s -> nd_ok X0 s (purge s).
Proof. exact nd_purge. Qed.

Theorem C10K_no_dangling_step_abs :
  forall w h, LIx (w_st w) -> NoDang (fun _ => False) (store (w_st w), graves (w_st w)) -> ff_hop h ->
  NoDang (fun _ => False) (store (w_st (fst (step w h))), graves (w_st (fst (step w h)))).
Proof. exact NDabs_step. Qed.

Theorem C10K_no_dangling_reach_abs :
  forall c hs, Forall ff_hop hs ->
  forall k r t, lookup (store (w_st (reach c hs))) k = Some r -> r_ref r = Some t ->
    lookup (store (w_st (reach c hs))) t <> None \/ lookup (graves (w_st (reach c hs))) t <> None.
Proof. exact no_dangling_reach_abs. Qed.

(* ------------------------------------------------------- (c) the completed step *)

Theorem C10K_completed_new_id :
  forall w r, LIx (w_st w) -> rq_plan r = [] -> ~ In SDestroy (rq_script r) ->
  forall kf rcf, ob_final (snd (step w (HReq (nocrash r)))) = Some (kf, rcf) ->
  exists rk, lookup (store (w_st (fst (step w (HReq (nocrash r)))))) kf = Some rk /\ r_ref rk = None.
Proof. exact completed_final_stored_any. Qed.

(* ------------------------------------------------------- the statement that is left *)

(* the states of a session's content (data, user) during and after one operation *)
Definition op_states (c : list (N * N) * option N) (op : sop) : list (list (N * N) * option N) :=
  let '(d, u) := c in
  match op with
  | SSet k v => [(kv_set d k v, u)]
  | SDel k => [(kv_del d k, u)]
  | SGetDel k => [(kv_del d k, u)]
  | SLogIn us _ => [(d, None); (d, Some (fst us))]
  | SLogOut => [(d, None)]
  | _ => []
  end.

Fixpoint script_states (c : list (N * N) * option N) (ops : list sop) : list (list (N * N) * option N) :=
  match ops with
  | [] => [c]
  | op :: t => c :: match rev (op_states c op) with
                    | [] => script_states c t
                    | c' :: _ => removelast (op_states c op) ++ script_states c' t
                    end
  end.

Definition C10K_content_statement : Prop :=
  forall w r n k0 rest rn,
  LIx (w_st w) -> graves_drawn (w_st w) -> rq_plan r = [] -> rq_crash r = Some n ->
  no_deletes (ob_evs (snd (step w (HReq (nocrash r))))) ->
  presents w r = CKey k0 ->
  CrashChain.spath (fun _ => True) (store (w_st w)) k0 rest ->
  lookup (store (w_st w)) (last rest k0) = Some rn ->
  CrashChain.resolves_chain
    (fun rd => In (CrashFault3.dat rd, CrashFault3.uid rd) (script_states (CrashFault3.dat rn, CrashFault3.uid rn) (rq_script r)))
    (store (w_st (fst (step w (HReq r))))) k0.

Print Assumptions C10K_gone_in_meaning.
Print Assumptions C10K_NoDang_meaning.
Print Assumptions C10K_nd_ok_meaning.
Print Assumptions C10K_steps_ok_meaning.
Print Assumptions C10K_fresh_meaning.
Print Assumptions C10K_graves_drawn_meaning.
Print Assumptions C10K_no_deletes_meaning.
Print Assumptions C10K_nd_regenerate.
Print Assumptions C10K_nd_start.
Print Assumptions C10K_nd_login.
Print Assumptions C10K_nd_handler_op.
Print Assumptions C10K_nd_script.
Print Assumptions C10K_nd_delete.
Print Assumptions C10K_nd_step.
Print Assumptions C10K_no_dangling_any.
Print Assumptions C10K_no_dangling_fresh.
Print Assumptions C10K_presented_resolves_any.
Print Assumptions C10K_presented_resolves_chain.
Print Assumptions C10K_edge_kept.
Print Assumptions C10K_op_data_meaning.
Print Assumptions C10K_script_data_meaning.
Print Assumptions C10K_KC_meaning.
Print Assumptions C10K_ELC_meaning.
Print Assumptions C10K_step_saves_data.
Print Assumptions C10K_presented_data_any.
Print Assumptions C10K_graves_drawn_step.
Print Assumptions C10K_graves_drawn_reach.
Print Assumptions C10K_no_dangling_reach.
Print Assumptions C10K_presented_resolves_reach.
Print Assumptions C10K_presented_data_reach.
Print Assumptions C10K_LIg_meaning.
Print Assumptions C10K_LIg_step.
Print Assumptions C10K_LIg_reach.
Print Assumptions C10K_probe_ok_meaning.
Print Assumptions C10K_restart_presented.
Print Assumptions C10K_restart_presented_reach.
Print Assumptions C10K_no_deletes_prefix.
Print Assumptions C10K_ndp_meaning.
Print Assumptions C10K_presented_resolves_pre.
Print Assumptions C10K_step_saves_data_pre.
Print Assumptions C10K_presented_data_pre.
Print Assumptions C10K_presented_data_reach_pre.
Print Assumptions C10K_restart_presented_pre.
Print Assumptions C10K_nd_refresh_user.
Print Assumptions C10K_nd_purge.
Print Assumptions C10K_no_dangling_step_abs.
Print Assumptions C10K_no_dangling_reach_abs.
Print Assumptions C10K_completed_new_id.
(* non-vacuity (Proofs/CrashAnyEx.v): a step with script [Set; RegenerateID; Set; LogIn;
   Delete] presenting a replaced ID, stopped after every number of its 9 calls *)
Print Assumptions ca_LIx.
Print Assumptions ca_world.
Print Assumptions ca_step.
Print Assumptions ca_resolved.
Print Assumptions ca_theorems.
Print Assumptions ca_completed.
Print Assumptions ca_script_data.
Print Assumptions ca_data_theorem.
Print Assumptions ca_restart_answers.
Print Assumptions ca_restart_theorem.
(* a step that goes on to Destroy, stopped before the deletion: the _pre form applies *)
Print Assumptions ca_destroy_log.
Print Assumptions ca_destroy_pre.
