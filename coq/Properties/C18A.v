(* C18A — cookie attributes and the browser's cookie identity (C18, and the jar
   clauses of C07 and C03). Statements only; proofs are in Proofs/CookieRender.v
   and Proofs/CookieRender2.v, examples in Proofs/CookieRenderEx.v, the model in
   Model/Cookie.v.

   The session model (Model/Sess.v) emits abstract cookies CkLive k | CkDelete |
   CkBad n, and Model/Hist.v keeps an abstract jar CNone | CKey k per client.
   Model/Cookie.v adds what these stand for:

     template      what NewSessionCookie() returns (Domain, Path, Secure, HttpOnly,
                   Partitioned, SameSite, MaxAge, Expires)
     render name t the http.Cookie that session.go hands to http.SetCookie for an
                   abstract cookie: CkLive k -> the template with Name := name,
                   Value := the ID k; CkDelete -> what deleteCookie (as repaired
                   in /repo 7b26151) builds: the template with Name := name,
                   Value := "deleted", Expires := Unix 0, MaxAge := -1
     render_old    the same before 7b26151 (a copy of the request cookie: no attributes)
     ctx           the request being answered: canonical host, default-path (RFC 6265 5.1.4)
     jar_apply     the browser's cookie store under one Set-Cookie (RFC 6265 5.3:
                   the cookie is ignored if the host does not domain-match its
                   Domain; otherwise it removes the stored cookie with the same
                   (name, domain, path) and, unless expired, takes its place)
     session_key   the (name, domain, path) of the cookies rendered from (name, t) in a context
     abs_jar       the abstract jar value a browser jar stands for: the value
                   stored under session_key
     tmpl_usable   the browser accepts the template's Domain for this request
                   and a live cookie built from the template is not expired on arrival
     brun          a history of Model/Hist.v run together with one browser jar
                   per client (each request step carries its context and the
                   browser's clock)

   That session.go builds its cookies as render says - which http.SetCookie
   sites exist and which fields each assigns - is pinned against the source by
   cookie_sites_pinned (Gen/CookieShape.v is regenerated from session.go on
   every run), and compared with the Set-Cookie lines of the real code, field by
   field, by the harness family cookieattr (checks/cookie_attr.py). *)
From Coq Require Import String.
From Sessions Require Import Model.Base Model.Sess Model.Hist Model.Cookie Proofs.SessDefs
  Proofs.HistInv3 Proofs.HistLift3 Proofs.CookieRender Proofs.CookieRender2 Proofs.CookieRenderEx
  Gen.CookieShape Proofs.CookieRenderPinned.

(* (a) Every rendered live cookie has the configured name, the session ID as its
   value, and every attribute equal to the template's. *)
Theorem C18A_live_attrs :
  forall name t k, exists h, render name t (CkLive k) = Some h /\
    h_name h = name /\ h_value h = VId k /\
    h_domain h = t_domain t /\ h_path h = t_path t /\
    h_secure h = t_secure t /\ h_httponly h = t_httponly t /\ h_partitioned h = t_partitioned t /\
    h_samesite h = t_samesite t /\ h_maxage h = t_maxage t /\ h_expires h = t_expires t.
Proof. exact render_live_attrs. Qed.

(* ... and nothing of name, template and ID is lost in it *)
Theorem C18A_live_injective :
  forall name name' t t' k k',
    render name t (CkLive k) = render name' t' (CkLive k') -> name = name' /\ t = t' /\ k = k'.
Proof. exact render_live_injective. Qed.

(* (b) The rendered deletion cookie has the configured name, a value that is not
   an ID (not 24 characters), is expired at every instant, keeps the template's
   Domain, Path, Secure, HttpOnly, Partitioned and SameSite, and in every request
   context has the same browser identity as - and is accepted exactly when -
   every live cookie rendered from the same name and template. *)
Theorem C18A_delete_ok :
  forall name t, exists h, render name t CkDelete = Some h /\
    h_name h = name /\ is_id (h_value h) = false /\
    (forall now, expired_at now h = true) /\
    h_domain h = t_domain t /\ h_path h = t_path t /\
    h_secure h = t_secure t /\ h_httponly h = t_httponly t /\ h_partitioned h = t_partitioned t /\
    h_samesite h = t_samesite t /\
    (forall x k, key_of x h = key_of x (live_cookie name t k)) /\
    (forall x k, accepted x h = accepted x (live_cookie name t k)).
Proof. exact render_delete_ok. Qed.

(* a template that names its Domain and a Path beginning with "/" gives the
   session cookie one identity whatever request is answered *)
Theorem C18A_key_fixed :
  forall x x' name t, t_domain t <> EmptyString -> starts_with_slash (t_path t) = true ->
    session_key x name t = session_key x' name t.
Proof. exact session_key_fixed. Qed.

(* (c) Refinement, one response: for every list cs of model cookies without
   CkBad, every browser jar j (holding whatever other cookies), every context
   and instant at which the template is usable: applying the rendered cookies to
   j agrees with Hist.apply_cookies on the abstract jar. *)
Theorem C18A_jar_refines :
  forall x now name t, tmpl_usable x now name t = true ->
  forall cs j, (forall n, ~ In (CkBad n) cs) ->
    abs_jar x name t (jar_apply_all x now j (render_all name t cs)) = apply_cookies (abs_jar x name t j) cs.
Proof. exact jar_refines. Qed.

(* ... the stored cookie is the live cookie with every attribute of the
   template (entry_of: CKey k -> Some (live_cookie name t k), otherwise nothing
   is stored), whatever the browser held before, once the response sets anything *)
Theorem C18A_jar_entry :
  forall x now name t c cs j, tmpl_usable x now name t = true -> (forall n, ~ In (CkBad n) (c :: cs)) ->
    jar_lookup (session_key x name t) (jar_apply_all x now j (render_all name t (c :: cs))) =
    entry_of name t (apply_cookies CNone (c :: cs)).
Proof. exact jar_entry_after. Qed.

(* ... cookies with another identity are left alone, and the store keeps at
   most one cookie per identity *)
Theorem C18A_jar_others :
  forall x now name t k', ckey_eqb k' (session_key x name t) = false ->
  forall cs j, jar_lookup k' (jar_apply_all x now j (render_all name t cs)) = jar_lookup k' j.
Proof. exact jar_others_kept. Qed.

Theorem C18A_jar_nodup :
  forall x now hs j, jar_nodup j = true -> jar_nodup (jar_apply_all x now j hs) = true.
Proof. exact jar_nodup_kept. Qed.

(* (c) Refinement, any sequence of responses, each in its own context and at
   its own instant, as long as each context gives the session cookie the
   identity K and finds the template usable. *)
Theorem C18A_browse_refines :
  forall name t K rs j,
    Forall (fun r : ctx * Z * list cookie =>
              session_key (fst (fst r)) name t = K /\
              tmpl_usable (fst (fst r)) (snd (fst r)) name t = true /\
              (forall n, ~ In (CkBad n) (snd r))) rs ->
    abs_at K (browse name t j rs) = abs_browse (abs_at K j) rs.
Proof. exact browse_refines. Qed.

(* (c) Along histories. Every history of Model/Hist.v - whatever its faults,
   crashes, scripts and forged requests - run together with one browser per
   client that applies the rendered Set-Cookie headers of the responses to the
   client's own requests: the world is the one Hist computes, and after every
   prefix the abstract jar of every client is what its browser holds under the
   session cookie's identity. Hence every theorem about w_jars / ob_jar (C07:
   the jar is empty after the response that ends a session and never holds a
   former ID again; C18H_session: the jar holds the session's final ID;
   C03_dead) is a theorem about browsers that distinguish Domain and Path. *)
Theorem C18A_browser_sim :
  forall name t K c (hs : list (hop * ctx * Z)),
    Forall (fun hx => session_key (snd (fst hx)) name t = K /\
                      tmpl_usable (snd (fst hx)) (snd hx) name t = true) hs ->
    let hops := map (fun hx => fst (fst hx)) hs in
    let wb := brun name t (mkWorld (init_st c) []) [] hs in
    fst wb = reach c hops /\
    forall client, abs_at K (bjar_of (snd wb) client) = jar_of (w_jars (reach c hops)) client.
Proof. exact browser_sim_init. Qed.

(* the same for one request step from any world *)
Theorem C18A_step_browser :
  forall w r x nowb name t j,
    rq_present r = PJar -> tmpl_usable x nowb name t = true ->
    abs_jar x name t j = jar_of (w_jars w) (rq_client r) ->
    abs_jar x name t (jar_apply_all x nowb j (render_all name t (ob_cookies (snd (step w (HReq r)))))) =
    ob_jar (snd (step w (HReq r))).
Proof. exact step_browser. Qed.

(* C18H_session transferred: after a fault-free request step that returns a
   session and does not destroy it, the client's browser holds under the session
   cookie's identity the session's final ID kf - as the live cookie with every
   attribute of the template whenever the response set a cookie. *)
Theorem C18A_browser_session :
  forall c hs r x nowb name t j,
    Forall ff_hop hs -> Forall crash_free hs -> rq_plan r = [] -> rq_crash r = None ->
    let w := reach c hs in let o := snd (step w (HReq r)) in
    ob_res o = RSess -> ~ In SDestroy (firstn (List.length (ob_script o)) (rq_script r)) ->
    rq_present r = PJar -> tmpl_usable x nowb name t = true ->
    abs_jar x name t j = jar_of (w_jars w) (rq_client r) ->
    let j' := jar_apply_all x nowb j (render_all name t (ob_cookies o)) in
    exists kf rf, ob_final o = Some (kf, rf) /\ abs_jar x name t j' = CKey kf /\
      (ob_cookies o <> [] -> jar_lookup (session_key x name t) j' = Some (live_cookie name t kf)).
Proof. exact browser_session. Qed.

(* C07 / C03 transferred: whenever the abstract jar is empty after a step, the
   browser holds no cookie under the session cookie's identity *)
Theorem C18A_browser_emptied :
  forall w r x nowb name t j,
    rq_present r = PJar -> tmpl_usable x nowb name t = true ->
    abs_jar x name t j = jar_of (w_jars w) (rq_client r) ->
    ob_jar (snd (step w (HReq r))) = CNone ->
    jar_lookup (session_key x name t)
      (jar_apply_all x nowb j (render_all name t (ob_cookies (snd (step w (HReq r)))))) = None.
Proof. exact browser_emptied. Qed.

(* (d) D11: with the deletion cookie as built before 7b26151 there is a
   template with a non-empty Path, a request context, and an ID such that after
   the live cookie and then the deletion cookie the abstract jar is empty but
   the browser still holds the live cookie - and the repaired deletion cookie
   empties it. Witness: name "id", Path "/app" (nothing else set), the deletion
   answering a request whose default-path is "/" on www.example.com. *)
Theorem C18A_old_delete_refuted :
  exists name t x now k,
    tmpl_usable x now name t = true /\ t_path t <> EmptyString /\
    let j1 := jar_apply_all x now [] (render_all name t [CkLive k]) in
    let j2 := jar_apply_all x now j1 (render_all_old name t true [CkDelete]) in
    apply_cookies (apply_cookies CNone [CkLive k]) [CkDelete] = CNone /\
    abs_jar x name t j2 = CKey k /\
    jar_lookup (session_key x name t) j2 = Some (live_cookie name t k) /\
    jar_apply_all x now j1 (render_all name t [CkDelete]) = [].
Proof. exact old_delete_refuted. Qed.

(* The tie of render / render_old to session.go. Gen/CookieShape.v is
   regenerated from the source on every run (translator/cookie_shape.go): every
   `http.SetCookie(w, X)` of the package with the function it is in, the
   statement in the same block that defines X, and everything that touches X
   between that statement and the call; every call of deleteCookie with the
   assignments to the cookie it passes; every "Set-Cookie" string literal. They
   equal the copy Model/Cookie.v was written against (Proofs/CookieRenderPinned.v). *)
Theorem cookie_sites_pinned :
  cookie_sites = cookie_sites_v1 /\ delete_cookie_calls = delete_cookie_calls_v1 /\
  set_cookie_literals = set_cookie_literals_v1.
Proof. split; [reflexivity | split; reflexivity]. Qed.

(* ... which reads: three live sites, each a fresh NewSessionCookie() result to
   which exactly Name and Value are assigned; deleteCookie, a copy of a fresh
   NewSessionCookie() result to which exactly Name, Value, Expires and MaxAge are
   assigned; two calls of deleteCookie, both passing a cookie whose Name is
   SessionCookie (looked up by that name, or a template to which that name was
   assigned); no Set-Cookie header written by hand. *)
Local Open Scope string_scope.
Definition site_read (s : string * string * string * string * list string) : string * string * list string :=
  match s with (fn, _, origin, _, touches) => (fn, origin, touches) end.
Theorem cookie_sites_read :
  map site_read cookie_sites =
  [("Start", "template", ["Name = SessionCookie"; "Value = currentID"]);
   ("Start", "template", ["Name = SessionCookie"; "Value = id"]);
   ("Session.RegenerateID", "template", ["Name = SessionCookie"; "Value = id"]);
   ("deleteCookie", "template copy",
    ["Name = cookie.Name"; "Value = ""deleted"""; "Expires = time.Unix(0, 0)"; "MaxAge = -1"])] /\
  delete_cookie_calls =
  [("Start", "deleteCookie(cookie, response)", ["cookie, err := request.Cookie(SessionCookie)"]);
   ("Session.Destroy", "deleteCookie(cookie, response)",
    ["cookie, err := request.Cookie(SessionCookie)"; "cookie = NewSessionCookie()"; "cookie.Name = SessionCookie"])] /\
  set_cookie_literals = [].
Proof. split; [reflexivity | split; reflexivity]. Qed.
Local Close Scope string_scope.

Print Assumptions C18A_live_attrs.
Print Assumptions C18A_live_injective.
Print Assumptions C18A_delete_ok.
Print Assumptions C18A_key_fixed.
Print Assumptions C18A_jar_refines.
Print Assumptions C18A_jar_entry.
Print Assumptions C18A_jar_others.
Print Assumptions C18A_jar_nodup.
Print Assumptions C18A_browse_refines.
Print Assumptions C18A_browser_sim.
Print Assumptions C18A_step_browser.
Print Assumptions C18A_browser_session.
Print Assumptions C18A_browser_emptied.
Print Assumptions C18A_old_delete_refuted.
Print Assumptions cookie_sites_pinned.
Print Assumptions cookie_sites_read.
(* non-vacuity (Proofs/CookieRenderEx.v) *)
Print Assumptions render_live_ex.
Print Assumptions render_delete_ex.
Print Assumptions key_fixed_ex.
Print Assumptions usable_ex.
Print Assumptions jar_refines_ex.
Print Assumptions browse_ex.
Print Assumptions brun_ex.
Print Assumptions browser_sim_ex.
Print Assumptions browser_session_ex.
Print Assumptions browser_emptied_ex.
Print Assumptions old_delete_ex.
