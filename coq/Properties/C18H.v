(* C18 at history level — what the cookies of the responses of fault-free,
   crash-free histories say. Statements only; proofs are in Proofs/HistLift.v ..
   HistLift9.v, built on the per-call theorems of Properties/C18.v (PD) and the
   history invariant of Properties/C07.v (PF).

   reach c hs       the world after history hs from the initial state init_st c
   presents w r     what request step r presents in world w (jar or forged value)
   lastl None cks   the last live cookie of the list cks, if any
   apply_cookies    the browser of Model/Hist.v applying Set-Cookie headers in order
   ob_final         the handler's session (ID, fields) after the script
   Every request step of every fault-free, crash-free history is the step
   (HReq r) taken from reach c hs for some prefix hs: the theorems below quantify
   over all of them. *)
From Sessions Require Import Model.Base Model.Sess Model.Hist Proofs.SessDefs
  Proofs.HistInv Proofs.HistInv2 Proofs.HistInv3 Proofs.HistLift Proofs.HistLift2 Proofs.HistLift3
  Proofs.HistLift4 Proofs.HistLift5 Proofs.HistLift6 Proofs.HistLift7 Proofs.HistLift8 Proofs.HistLift9
  Proofs.HistLiftEx.
From Sessions Require Proofs.RotateLaws3.

(* CkBad (anything but a template-built live cookie or a proper deletion) occurs
   in no response of any history — whatever its faults, crashes and scripts. *)
Theorem C18H_no_bad :
  forall c hs, Forall (fun o => forall n, ~ In (CkBad n) (ob_cookies o)) (run c hs).
Proof. exact no_bad_run. Qed.

(* A request step that returns a session, with kf the ID of the handler's
   session at the end of the request (after any rotation by Start and any
   RegenerateID / LogIn of the script):
   - that session is not a replaced-ID record;
   - the last live cookie of the response, if there is one, carries kf;
   - if the response sets no live cookie, the presented ID is kf (it is current);
   - unless the script executed Destroy: a browser that applies the cookies to
     what was presented holds kf — so the jar of a cookie-following client is
     CKey kf — and kf resolves in the post-state (L) to a session's record, not
     to a replaced-ID record.
   No hypothesis on the presented value. *)
Theorem C18H_session :
  forall c hs r, Forall ff_hop hs -> Forall crash_free hs -> rq_plan r = [] -> rq_crash r = None ->
  let w := reach c hs in let o := snd (step w (HReq r)) in let s' := w_st (fst (step w (HReq r))) in
  ob_res o = RSess ->
  exists kf rf, ob_final o = Some (kf, rf) /\ r_ref rf = None /\
    (forall v, lastl None (ob_cookies o) = Some v -> v = kf) /\
    (lastl None (ob_cookies o) = None -> presents w r = CKey kf) /\
    (~ In SDestroy (firstn (length (ob_script o)) (rq_script r)) ->
       apply_cookies (presents w r) (ob_cookies o) = CKey kf /\
       (rq_present r = PJar -> ob_jar o = CKey kf) /\
       exists rL, L s' kf = Some rL /\ r_ref rL = None).
Proof. exact c18_reach. Qed.

(* A request step that returns no session sets no live cookie, and a deletion
   cookie only for a presented ID that resolves to nothing afterwards. (The
   presented value is assumed not to be the next ID the server will generate, as
   in C18_start.) *)
Theorem C18H_no_session :
  forall c hs r, Forall ff_hop hs -> Forall crash_free hs -> rq_plan r = [] -> rq_crash r = None ->
  let w := reach c hs in let o := snd (step w (HReq r)) in
  presents w r <> CKey (KGen (supply (w_st w))) -> ob_res o <> RSess ->
  (forall v, ~ In (CkLive v) (ob_cookies o)) /\
  (In CkDelete (ob_cookies o) -> exists k, presents w r = CKey k /\ L (w_st (fst (step w (HReq r)))) k = None).
Proof. exact c18_nosess_reach. Qed.

(* Nothing is set when nothing changed: the presented ID is the current ID of a
   session that passes Start's checks and is younger than SessionIDExpiry, and
   the script neither changes the ID nor destroys (calm_op: Set, Delete, Get,
   GetAndDelete, LogOut): the response carries no cookie at all. *)
Theorem C18H_silent :
  forall c hs r k rk, Forall ff_hop hs -> Forall crash_free hs -> rq_plan r = [] -> rq_crash r = None ->
  let w := reach c hs in
  RotateLaws3.cfg_ok (conf (w_st w)) ->
  presents w r = CKey k -> L (w_st w) k = Some rk -> r_ref rk = None ->
  RotateLaws3.valid_for (conf (w_st w)) rk (now (w_st w)) (req_of w r) = true ->
  (since (r_created rk) (now (w_st w)) < c_idexpiry (conf (w_st w)))%Z ->
  forallb calm_op (rq_script r) = true ->
  ob_res (snd (step w (HReq r))) = RSess /\ ob_cookies (snd (step w (HReq r))) = [].
Proof. exact silent_reach. Qed.

(* the same three from any state satisfying the invariant LI of C05H.v *)
Theorem C18H_session_step :
  forall w r, LI (w_st w) -> rq_plan r = [] -> rq_crash r = None ->
  c18_obs w r (w_st (fst (step w (HReq r)))) (snd (step w (HReq r))).
Proof. exact step_c18. Qed.

Print Assumptions C18H_no_bad.
Print Assumptions C18H_session.
Print Assumptions C18H_no_session.
Print Assumptions C18H_silent.
Print Assumptions C18H_session_step.
(* non-vacuity (Proofs/HistLiftEx.v) *)
Print Assumptions hX_run.
Print Assumptions c18_ex.
Print Assumptions silent_ex.
