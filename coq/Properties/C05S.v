(* C05, the interleaving clause - "any interleaving of the delayed clean-up with
   concurrent requests on old and new IDs" - at the granularity of the cache
   operations. Statements only; the model is Model/StartSteps.v, the proofs are
   in Proofs/StartSteps.v .. StartSteps14.v, the examples in Proofs/StartStepsEx.v.

   WHY THIS GRANULARITY. The clean-up goroutine of RegenerateID
   (`time.Sleep(SessionIDGracePeriod); sessions.Delete(oldID)`) takes no per-ID
   lock, only the cache mutex inside sessions.Delete. Properties/Granularity.v
   shows that every cache operation (Get, Set, Delete, compact, Purge) is one
   critical section of that mutex. So the clean-up can fall between any two
   cache operations of a Start that is under way, and nowhere finer. In
   Model/Hist.v the clean-ups run between calls (fire_due after Start, after
   every handler operation, in waits); here they run inside Start.

   Model/StartSteps.v re-expresses Start with a hook after each of its cache
   operations (the first look-up; the Delete of an invalid or over-age record;
   the two Sets of RegenerateID; every Get of the reference loop; the Set of a
   created session), numbered 1, 2, .. in the order the request makes them, and
   0 for "on entry".  start_interrupted s q (Some i) runs fire_due - every
   clean-up whose due instant has been reached - right after operation i.

   The states in question: plan s = [] (no fault planned) with the invariants
   of reachable states cache_ok / nodup_ok / fresh_ok / ref_wf
   (C05H_inv_implies), and a clean-up (d, k) queued with d <= now s that has
   not run. Such states occur in every history: mid_wait w d is the state
   inside a wait after the clock has moved and before the clean-ups run
   (C05S_states_occur).

   Vocabulary
   L s k            the record k resolves to (cached object over stored record)
   chain_rec s r [k1;..;kn]   r refers to k1, which resolves to a record that
                    refers to k2, .., kn resolves to a record that is not a
                    replaced-ID record (an intact chain)
   notdue s k       no queued clean-up of k has reached its instant
   handed s o k g t q   object o of s has ID k, (data, user ID) = g, no
                    reference field, and carries request q's bookkeeping
                    (access time t, address, agent)
   cached_chain s o rest o'   the same chain, every ID of it in the cache,
                    o' the object at its end
   no_session       Start's "nothing, or a new empty session" (Properties/C02.v)
   offst s          no fault planned, MaxSessionCacheSize = 0, nothing cached
   stored_chain s r rest   the chain as the store holds it
   ne s             s without its event log

   LIMITS. (1) start_interrupted fires all clean-ups that are due at the same
   interruption point. Separate clean-up goroutines firing after different
   cache operations of one request are covered by C05S_scheduled_served
   (fire_sched sc: after operation n exactly the due clean-ups of the IDs sc n
   fire) at the level of the result; the exact state equations are stated for
   the single point. Under the hypothesis of (b) - no later member of the
   presented ID's chain is due - the other due clean-ups concern IDs the request
   never looks at, and the theorems allow any number of them. When a later
   member IS due at the same instant (two ID changes in one request, e.g.
   rotation and LogIn), the request can find the middle of its chain gone and
   return "Reference session not found": two_due_witness - also the outcome of
   a serial order (clean-up of the middle ID, request, clean-up of the presented
   ID), never a placeholder, never a panic.
   (2) With a bounded cache the *result* of the interrupted request is that of
   a serial order (C05S_interrupted_served), but which entries end up cached
   may differ from both serial orders, because the size-triggered eviction of
   later loads sees one entry fewer: bounded_cache_witness. The exact equations
   are therefore stated for the two cases without eviction: every ID of the
   chain cached (C05S_interrupted_exact: equal states, log included) and the
   cache switched off (C05S_interrupted_off: equal states up to the order of
   the log). *)
From Coq Require Import String.
From Sessions Require Import Model.Base Model.Sess Model.Hist Model.StartSteps Proofs.SessDefs
  Proofs.HistLift4
  Proofs.StartSteps Proofs.StartSteps2 Proofs.StartSteps3 Proofs.StartSteps4 Proofs.StartSteps5
  Proofs.StartSteps6 Proofs.StartSteps7 Proofs.StartSteps8 Proofs.StartSteps9 Proofs.StartSteps10
  Proofs.StartSteps11 Proofs.StartSteps12 Proofs.StartSteps13 Proofs.StartSteps14 Proofs.StartStepsEx.
From Sessions Require Import Gen.LockPos Gen.SessShape Proofs.ShapePinned Proofs.StartStepsPin.
From Sessions Require Proofs.RotateLaws2.
From Sessions Require Proofs.RotateLaws3 Proofs.RotateLaws4 Proofs.C01Spec Proofs.StartLaws3.

(* --- (a) the decomposition is faithful --------------------------------------

   With no interruption point the decomposed Start IS Sess.start: every state,
   every request, every fault plan. This equation is what ties StartSteps.v to
   the model that the correspondence check exercises against the Go code. *)
Theorem C05S_faithful : forall s q, start_interrupted s q None = start s q.
Proof. exact start_interrupted_none. Qed.

(* ... and its hooks stand where the source has its cache operations. From the
   tables regenerated from session.go on every run: the statements of Start
   that are or contain operations on the session table, in source order, are
   these six - the places where start_body, destroy_h, regenerate_h, follow_h
   and create_session_h apply the hook - and RegenerateID makes exactly two
   sessions.Set, Destroy exactly one sessions.Delete. A cache operation added
   to or removed from one of these functions breaks one of the equations (as
   it breaks Properties/Shape.v). *)
Theorem C05S_hooks_at_source_start :
  cache_ops_of (events_of "Start"%string lock_events) =
  [("get", "id"); ("destroy", "session"); ("regenerate", "session"); ("delete", "id");
   ("get", "currentID"); ("set", "session")]%string.
Proof. exact start_cache_ops_pinned. Qed.

Theorem C05S_hooks_at_source_regenerate :
  table_calls "Session.RegenerateID"%string =
  ["if err = sessions.Set(s); err != nil"; "if err = sessions.Set(refSession); err != nil"]%string.
Proof. exact regenerate_cache_ops_pinned. Qed.

Theorem C05S_hooks_at_source_destroy :
  table_calls "Session.Destroy"%string = ["if err := sessions.Delete(id); err != nil"]%string.
Proof. exact destroy_cache_ops_pinned. Qed.

(* A hook that does nothing after operations 1, 2, .. changes nothing ... *)
Theorem C05S_faithful_ext :
  forall h, (forall n s, h (S n) s = s) -> forall s q, start_body h s q = start s q.
Proof. exact start_body_ext. Qed.

(* ... so interruption point 0 is the serial order "clean-ups, then the request". *)
Theorem C05S_point0_is_serial : forall s q, start_interrupted s q (Some 0) = start (fire_due s) q.
Proof. exact start_interrupted_before. Qed.

(* The states the theorems below speak about occur inside every wait. *)
Theorem C05S_states_occur :
  forall w d, LI (w_st w) ->
  w_st (fst (step w (HWait d))) = fire_due (mid_wait w d) /\
  plan (mid_wait w d) = [] /\ cache_ok (mid_wait w d) /\ nodup_ok (mid_wait w d) /\
  fresh_ok (mid_wait w d) /\ RotateLaws4.ref_wf (mid_wait w d).
Proof. exact states_occur. Qed.

(* --- (b) a replaced ID is presented while its clean-up is due ---------------

   k heads an intact chain k -> k1 -> .. -> kn (n >= 1) whose head record passes
   Start's checks for q (not idle for SessionExpiry, acceptable peer and agent)
   and is below the backstop age; no clean-up of k1..kn is due (that of k, and
   of any ID outside the chain, may be).

   Point 0: the clean-up of k runs first; the request finds nothing under k:
   first cookie the deletion cookie, then no session / a new empty one, and k
   resolves to nothing afterwards. *)
Theorem C05S_interrupted_before :
  forall s q k d,
  plan s = [] -> cache_ok s -> nodup_ok s -> fresh_ok s ->
  q_cookie q = CKey k -> In (d, k) (pending s) -> (d <= now s)%Z ->
  exists s' res nck,
    start_interrupted s q (Some 0) = (s', res, CkDelete :: nck) /\
    start (fire_due s) q = (s', res, CkDelete :: nck) /\
    StartLaws3.no_session (fire_due s) q s' res nck /\
    L s' k = None.
Proof. exact start_interrupted_before_dead. Qed.

(* Every point i >= 1: the interrupted request and the uninterrupted one (the
   serial order "request, then clean-up") both succeed, both set exactly the
   cookie Live kn, and both hand out an object with ID kn, the data and user ID
   of the record kn resolved to, no reference field (the live session itself,
   never a placeholder), carrying this request's bookkeeping. The session kn is
   still there afterwards. If the point lies within the request (i <= 1 + n)
   everything that was due - k in particular - is gone from cache, store and
   queue when the request returns; if it lies beyond, nothing fired and the two
   runs are the same. *)
Theorem C05S_interrupted_served :
  forall s q k r rest i,
  plan s = [] -> cache_ok s -> nodup_ok s -> fresh_ok s -> RotateLaws4.ref_wf s ->
  q_cookie q = CKey k -> L s k = Some r -> RotateLaws4.chain_rec s r rest -> rest <> [] ->
  RotateLaws3.valid_for (conf s) r (now s) q = true ->
  (since (r_created r) (now s) < sat_add (c_idexpiry (conf s)) (c_grace (conf s)))%Z ->
  (forall k', In k' rest -> notdue s k') ->
  1 <= i ->
  let kn := last rest k in
  exists rn si oi ss os,
    L s kn = Some rn /\ r_ref rn = None /\
    start_interrupted s q (Some i) = (si, Ok (Some oi), [CkLive kn]) /\
    handed si oi kn (C01Spec.content_of rn) (now s) q /\
    start s q = (ss, Ok (Some os), [CkLive kn]) /\
    handed ss os kn (C01Spec.content_of rn) (now s) q /\
    (exists rk, L si kn = Some rk /\ r_ref rk = None) /\
    (i <= S (length rest) -> forall d k0, In (d, k0) (pending s) -> (d <= now s)%Z ->
       lookup (cache si) k0 = None /\ lookup (store si) k0 = None /\ ~ In (d, k0) (pending si)) /\
    (S (length rest) < i -> si = ss /\ oi = os).
Proof. exact interrupted_served. Qed.

(* Several clean-up goroutines: a schedule sc assigns to each cache operation n
   of the request (n >= 1) the IDs whose clean-ups fire right after it (those
   of them that are queued and due; the rest stay queued). Whatever the
   schedule, the request presenting the head of an intact chain whose later
   members are not due returns the live session kn with the redirect cookie,
   and kn is still there afterwards. (start_body: Start from its first cache
   operation on; clean-ups that fire before it are part of the state s.) *)
Theorem C05S_scheduled_served :
  forall sc s q k r rest,
  plan s = [] -> cache_ok s -> nodup_ok s -> fresh_ok s -> RotateLaws4.ref_wf s ->
  q_cookie q = CKey k -> L s k = Some r -> RotateLaws4.chain_rec s r rest -> rest <> [] ->
  RotateLaws3.valid_for (conf s) r (now s) q = true ->
  (since (r_created r) (now s) < sat_add (c_idexpiry (conf s)) (c_grace (conf s)))%Z ->
  (forall k', In k' rest -> notdue s k') ->
  let kn := last rest k in
  exists rn s' o',
    L s kn = Some rn /\ r_ref rn = None /\
    start_body (fire_sched sc) s q = (s', Ok (Some o'), [CkLive kn]) /\
    handed s' o' kn (C01Spec.content_of rn) (now s) q /\
    (exists rk, L s' kn = Some rk /\ r_ref rk = None).
Proof. exact scheduled_served. Qed.

(* the schedule "every ID after operation i, nothing elsewhere" is the hook of
   start_interrupted *)
Theorem C05S_schedule_single_point :
  forall i n s, fire_sched (fun n' _ => Nat.eqb n' i) n s = fire_at i n s.
Proof. exact fire_sched_at. Qed.

Theorem C05S_handed_meaning :
  forall s o k g t q, handed s o k g t q <->
  exists ob, hget s o = Some ob /\ o_id ob = k /\ C01Spec.content_of (o_rec ob) = g /\
             r_ref (o_rec ob) = None /\
             r_access (o_rec ob) = t /\ r_ip (o_rec ob) = q_addr q /\ r_ua (o_rec ob) = q_ua q.
Proof. exact handed_def. Qed.

Theorem C05S_notdue_meaning :
  forall s k, notdue s k <-> forall d, In (d, k) (pending s) -> (now s < d)%Z.
Proof. exact notdue_def. Qed.

(* The same in exact form when the presented ID and its chain are cached (what
   RegenerateID leaves behind in a running process whose cache is large enough):
   for every interruption point within the request, the interrupted request
   returns what Start returns and ends in EXACTLY the state of the serial order
   "Start, then the clean-up pass" - heap, cache, store, index of deleted IDs,
   queue, event log and all. *)
Theorem C05S_interrupted_exact :
  forall s q k o0 ob rest o' i,
  plan s = [] -> cache_ok s -> RotateLaws4.ref_wf s ->
  q_cookie q = CKey k -> lookup (cache s) k = Some o0 -> hget s o0 = Some ob ->
  cached_chain s o0 rest o' -> rest <> [] ->
  RotateLaws3.valid_for (conf s) (o_rec ob) (now s) q = true ->
  (since (r_created (o_rec ob)) (now s) < sat_add (c_idexpiry (conf s)) (c_grace (conf s)))%Z ->
  (forall k', In k' rest -> notdue s k') ->
  1 <= i <= S (length rest) ->
  exists s', start s q = (s', Ok (Some o'), [CkLive (last rest k)]) /\
             start_interrupted s q (Some i) = (fire_due s', Ok (Some o'), [CkLive (last rest k)]).
Proof. exact start_interrupted_cached. Qed.

(* The same with the cache switched off (MaxSessionCacheSize = 0, nothing
   cached: every cache operation is a load): for every interruption point
   within the request, the interrupted request returns what Start returns - the
   same handle - and ends in the state of "Start, then the clean-up pass" in
   every field except the event log, where the deletion sits among the loads at
   the point where the clean-up fell (off_run_ex shows the three logs). *)
Theorem C05S_interrupted_off :
  forall s q k r rest i,
  offst s ->
  q_cookie q = CKey k -> lookup (store s) k = Some r -> stored_chain s r rest -> rest <> [] ->
  length rest <= N.to_nat (supply s) ->
  RotateLaws3.valid_for (conf s) r (now s) q = true ->
  (since (r_created r) (now s) < sat_add (c_idexpiry (conf s)) (c_grace (conf s)))%Z ->
  (forall k', In k' rest -> notdue s k') ->
  1 <= i <= S (length rest) ->
  exists ss si o',
    start s q = (ss, Ok (Some o'), [CkLive (last rest k)]) /\
    start_interrupted s q (Some i) = (si, Ok (Some o'), [CkLive (last rest k)]) /\
    ne si = ne (fire_due ss).
Proof. exact start_interrupted_off. Qed.

Theorem C05S_offst_meaning :
  forall s, offst s <-> plan s = [] /\ c_maxcache (conf s) = 0%Z /\ forall j, lookup (cache s) j = None.
Proof. exact offst_def. Qed.

Theorem C05S_ne_meaning :
  forall a b, ne a = ne b ->
  heap a = heap b /\ cache a = cache b /\ store a = store b /\ pending a = pending b /\
  now a = now b /\ supply a = supply b /\ conf a = conf b /\ plan a = plan b /\
  graves a = graves b /\ tb a = tb b.
Proof. exact ne_fields. Qed.

(* In no case does the reference loop hand out a replaced-ID record: whatever
   runs between its cache operations (any hook at all, any state, any fault
   plan), when it returns an object, that object has no reference field in the
   state it returns. *)
Theorem C05S_loop_never_placeholder :
  forall h fuel n s o lk s' o' lk',
  follow_h h n fuel s o lk = (s', Ok (o', lk')) ->
  exists ob, hget s' o' = Some ob /\ r_ref (o_rec ob) = None.
Proof. exact follow_h_never_placeholder. Qed.

(* The bookkeeping at the end of Start and the clean-up pass commute, exactly. *)
Theorem C05S_cleanup_commutes_with_bookkeeping :
  forall s o f, fire_due (hupd s o f) = hupd (fire_due s) o f.
Proof. exact fire_due_hupd. Qed.

(* --- (c) the current ID is presented while clean-ups of predecessors fire ----

   k resolves to a session's record (not a replaced-ID record) that passes
   Start's checks and is not due for rotation: Start makes one cache operation.
   Point 1 is exactly "Start, then the clean-up pass"; points >= 2 lie beyond
   the request; point 0 is "the clean-up pass, then Start" - and if no clean-up
   of k itself is due (its predecessors' are), that order returns the same
   session with the same record. The clean-up of a predecessor and a request on
   the current ID commute. *)
Theorem C05S_current_commutes :
  forall s q k r,
  plan s = [] -> cache_ok s -> nodup_ok s -> fresh_ok s -> RotateLaws3.cfg_ok (conf s) ->
  q_cookie q = CKey k -> L s k = Some r -> r_ref r = None ->
  RotateLaws3.valid_for (conf s) r (now s) q = true ->
  (since (r_created r) (now s) < c_idexpiry (conf s))%Z ->
  exists s' o,
    start s q = (s', Ok (Some o), []) /\
    hget s' o = Some (mkObj k (RotateLaws3.seen_rec r (now s) q)) /\
    start_interrupted s q (Some 1) = (fire_due s', Ok (Some o), []) /\
    (forall i, 2 <= i -> start_interrupted s q (Some i) = (s', Ok (Some o), [])) /\
    start_interrupted s q (Some 0) = start (fire_due s) q /\
    (notdue s k -> exists s0 o0,
       start (fire_due s) q = (s0, Ok (Some o0), []) /\
       hget s0 o0 = Some (mkObj k (RotateLaws3.seen_rec r (now s) q))).
Proof. exact start_interrupted_current. Qed.

(* The same request when its ID is due for rotation (age >= SessionIDExpiry):
   Start makes three cache operations - the look-up and the two Sets of
   RegenerateID - and the clean-ups may fire after any of them. No clean-up of k
   itself is due (k is a session's ID; its predecessors' are). For every point i >= 1 the
   interrupted request does what the uninterrupted one does (C04_seq_rotate):
   it draws the next ID j, hands out the same object under j with the rotated
   record and this request's bookkeeping, sets exactly the cookie Live j, leaves
   the rotated record stored under j and the replaced-ID record k -> j stored
   under k, and queues the clean-up of k; and if the point lies within the
   request (i <= 3) every ID whose clean-up was due is gone from cache and
   store when it returns. (Point 0 is "clean-ups, then the request":
   C05S_point0_is_serial.) *)
Theorem C05S_current_rotating :
  forall s q k r i,
  plan s = [] -> cache_ok s -> nodup_ok s -> fresh_ok s ->
  q_cookie q = CKey k -> L s k = Some r -> r_ref r = None ->
  RotateLaws3.valid_for (conf s) r (now s) q = true ->
  (c_idexpiry (conf s) <= since (r_created r) (now s))%Z ->
  notdue s k ->
  1 <= i ->
  let j := KGen (supply s) in
  let t := now s in
  exists si oi ss os,
    start_interrupted s q (Some i) = (si, Ok (Some oi), [CkLive j]) /\
    hget si oi = Some (mkObj j (RotateLaws3.seen_rec (RotateLaws2.rot_rec r t) t q)) /\
    supply si = (supply s + 1)%N /\
    lookup (store si) j = Some (codec (conf s) (RotateLaws2.rot_rec r t)) /\
    lookup (store si) k = Some (codec (conf s) (RotateLaws2.ref_rec r t j)) /\
    In ((t + c_grace (conf s))%Z, k) (pending si) /\
    (i <= 3 -> forall d k0, In (d, k0) (pending s) -> (d <= now s)%Z ->
       lookup (cache si) k0 = None /\ lookup (store si) k0 = None) /\
    start s q = (ss, Ok (Some os), [CkLive j]) /\
    hget ss os = Some (mkObj j (RotateLaws3.seen_rec (RotateLaws2.rot_rec r t) t q)) /\
    lookup (store ss) j = Some (codec (conf s) (RotateLaws2.rot_rec r t)) /\
    lookup (store ss) k = Some (codec (conf s) (RotateLaws2.ref_rec r t j)).
Proof. exact start_interrupted_rotate. Qed.

Print Assumptions C05S_faithful.
Print Assumptions C05S_hooks_at_source_start.
Print Assumptions C05S_hooks_at_source_regenerate.
Print Assumptions C05S_hooks_at_source_destroy.
Print Assumptions C05S_faithful_ext.
Print Assumptions C05S_point0_is_serial.
Print Assumptions C05S_states_occur.
Print Assumptions C05S_interrupted_before.
Print Assumptions C05S_interrupted_served.
Print Assumptions C05S_scheduled_served.
Print Assumptions C05S_schedule_single_point.
Print Assumptions C05S_handed_meaning.
Print Assumptions C05S_notdue_meaning.
Print Assumptions C05S_interrupted_exact.
Print Assumptions C05S_interrupted_off.
Print Assumptions C05S_offst_meaning.
Print Assumptions C05S_ne_meaning.
Print Assumptions C05S_loop_never_placeholder.
Print Assumptions C05S_cleanup_commutes_with_bookkeeping.
Print Assumptions C05S_current_commutes.
Print Assumptions C05S_current_rotating.
(* non-vacuity and witnesses (Proofs/StartStepsEx.v) *)
Print Assumptions served_ex.
Print Assumptions served_run_ex.
Print Assumptions served_left_ex.
Print Assumptions cached_ex.
Print Assumptions cached_run_ex.
Print Assumptions off_ex.
Print Assumptions off_run_ex.
Print Assumptions current_ex.
Print Assumptions current_run_ex.
Print Assumptions rotate_ex.
Print Assumptions rotate_run_ex.
Print Assumptions bounded_cache_witness.
Print Assumptions bounded_cache_witness_inv.
Print Assumptions two_due_witness.
Print Assumptions sched_ex.
Print Assumptions sched_run_ex.
