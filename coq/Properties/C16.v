(* C16 — gob encoding restores a session exactly, and old records stay
   readable. Statements only; proofs are in Proofs/CodecLaws.v and CodecPinned.v. gob_version,
   gob_enc and gob_dec are regenerated from GobEncode/GobDecode on every run
   (Gen/Layout.v); `load` stands for Persistence.LoadUser and is universally
   quantified. Assumed, not proved: encoding/gob restores each value it is
   given (the wire is modelled as the list of typed values); the model of
   time.Time's binary form (zone offset) is compared with the real library by
   the correspondence check. *)
From Sessions Require Import Model.Base Model.Codec Gen.Layout Proofs.CodecText Proofs.CodecDefs Proofs.CodecPinned Proofs.CodecLaws.

(* For every session — ordinary or replaced-ID record, with or without user,
   any instants (zone offset representable in time's binary form), strings,
   fingerprint, data nil / empty / any finite map — decoding the encoding
   yields the same fields, nil data as the empty map, the user re-loaded by
   ID; an error exactly when LoadUser fails. *)
Theorem C16_roundtrip :
  forall (load : loader) (s : csess),
    gob_dom s = true ->
    gob_roundtrip load gob_version gob_enc gob_dec s = gob_norm load s.
Proof. exact gob_roundtrip_lemma. Qed.

(* The same for every offset GobEncode accepts at all: the instants survive,
   the offset is what time's binary form makes of it. *)
Theorem C16_roundtrip_any_offset :
  forall (load : loader) (s : csess),
    gob_off_ok (t_off (cs_created s)) = true -> gob_off_ok (t_off (cs_access s)) = true ->
    gob_roundtrip load gob_version gob_enc gob_dec s =
    gob_norm load (set_created (gob_time_back (cs_created s)) (set_access (gob_time_back (cs_access s)) s)).
Proof. exact gob_roundtrip_any_offset. Qed.

(* Both sides still use the layout of the pinned commit, so bytes written by
   it keep their meaning. *)
Theorem C16_pinned : gob_version = 1%N /\ gob_enc = layout_v1 /\ gob_dec = layout_v1.
Proof. exact gob_pinned_lemma. Qed.

Print Assumptions C16_roundtrip.
Print Assumptions C16_roundtrip_any_offset.
Print Assumptions C16_pinned.
