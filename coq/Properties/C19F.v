(* C19, the arithmetic of ids.go TRANSLATED, not transcribed: Gen/IdsFn.v is
   produced on every run from the Go AST of ids.go by translator/ids_fn.go (an
   explicitly delimited subset of Go: unsigned arithmetic with the width of the
   Go type made explicit, conversions, comparisons, if/else assigning locals,
   a range over a byte array as fold_left, a counted loop as Nat.iter, string
   indexing as nth; anything else is a hard error). This file states WHAT THE
   TRANSLATED FUNCTIONS COMPUTE as closed arithmetic (the spec_ functions), on the whole
   domain the Go types allow. It depends on the translation only - not on
   Model/Ids.v or Gen/Consts.v - so a rewrite of the Go code that computes the
   same values ((macHash << 5) - macHash -> macHash * 31; timestamp &= (1<<40)-1
   -> timestamp %= 1<<40) keeps it compiling, and a change of the values (the
   spill added to the 64-bit word instead of the 16-bit hash; bits % (base-1);
   1 << 41) breaks a proof. Properties/C19G.v proves that Model/Ids.v computes
   the same specifications, so translation = model. Statements only; proofs in
   Proofs/IdsFnEquiv.v.

   CUID's body is translated whole (gen_cuid_body) and in the pieces at which
   Model/CuidConc.v cuts it; lastMutex.Lock(), the deferred Unlock() and
   now := time.Now() are skipped (their position is Properties/C19K.v's pin);
   now.Unix() : int64 and now.Nanosecond() : int are the parameters unix, nanos.
   Domains of the theorems: unix - every Z (so every int64); nanos - the
   NON-NEGATIVE ints only: the theorems take nanos = Z.of_N nsec for an
   arbitrary N (now.Nanosecond() is in [0, 999999999]). The translation itself
   accepts a negative nanos (sconv, two's complement); no theorem here says
   what it computes there. lastTime, lastCounter - every N (so every uint64);
   the MAC address - every list of numbers (so every [6]byte); gen_bits - a
   timestamp below 2^40 and a hash below 2^16, which is what gen_timestamp and
   gen_machash return (C19F_ranges). A zero divisor or an index out of range,
   on which Go panics and the translation yields 0, does not occur
   (C19F_ranges).

   What is NOT translated: of RandomID only the index expression of
   chars[...] (gen_random_index) and its alphabet; the loop around it - that it
   reads one byte per symbol, writes from the back and returns exactly `length`
   characters - and generateSessionID are Model/Ids.v's transcription (the C19_rid_ and
   C19_session_id_ theorems), tied to the source by constants and the differential
   runs only. Of CUID: everything but the three skipped statements. The
   translator (translator/ids_fn.go) is trusted code: it rejects shadowing
   declarations, assignments to a range variable, string(b) for a byte not
   taken from an all-ASCII literal, and requires each skipped statement
   exactly once; generated names contain an apostrophe, which no Go identifier
   can. *)
From Sessions Require Import Model.Base Gen.IdsFn Proofs.IdsFnEquiv.
Local Open Scope N_scope.

(* the specifications, unfolded *)
Theorem C19F_spec_meaning :
  (forall sec nsec, ts_spec sec nsec =
     (sec * 1000 - 1483228800000 + Z.of_N ((nsec mod 18446744073709551616) / 1000000))%Z) /\
  (forall sec nsec, spec_timestamp sec nsec = Z.to_N (ts_spec sec nsec mod 1099511627776)) /\
  (forall lt lc ts, spec_counter_step lt lc ts =
     (ts, if ts =? lt then (lc + 1) mod 18446744073709551616 else 0)) /\
  (forall mac, spec_machash mac = fold_left (fun h b => (31 * h + b) mod 65536) mac 0) /\
  (forall ts lc h, spec_bits ts lc h = ts * 16777216 + (h * 256 + lc) mod 16777216) /\
  (forall w acc, spec_b62 0 w acc = acc) /\
  (forall n w acc, spec_b62 (S n) w acc =
     spec_b62 n (w / 62) (nth (N.to_nat (w mod 62)) spec_b62_chars 0 :: acc)) /\
  (forall bits, spec_base62 bits = spec_b62 11 bits []) /\
  spec_b62_chars =
    [48;49;50;51;52;53;54;55;56;57;65;66;67;68;69;70;71;72;73;74;75;76;77;78;79;80;81;82;83;84;85;86;87;88;89;90;
     97;98;99;100;101;102;103;104;105;106;107;108;109;110;111;112;113;114;115;116;117;118;119;120;121;122] /\
  (forall mac lt lc sec nsec, spec_cuid mac lt lc sec nsec =
     let ts := spec_timestamp sec nsec in
     let lc' := if ts =? lt then (lc + 1) mod 18446744073709551616 else 0 in
     (ts, lc', spec_base62 (spec_bits ts lc' (spec_machash mac)))).
Proof. exact spec_meaning. Qed.

(* timestamp := uint64(now.Unix())*1000 - referenceDate + uint64(now.Nanosecond())/1000000;
   timestamp &= (1 << 40) - 1 *)
Theorem C19F_gen_timestamp :
  forall (sec : Z) (nsec : N), gen_timestamp sec (Z.of_N nsec) = spec_timestamp sec nsec.
Proof. exact gen_timestamp_spec. Qed.

(* if timestamp == lastTime { lastCounter++ } else { lastCounter = 0 }; lastTime = timestamp *)
Theorem C19F_gen_counter_step :
  forall lt lc ts : N, gen_counter_step lt lc ts = spec_counter_step lt lc ts.
Proof. exact gen_counter_step_spec. Qed.

(* var macHash uint16; for _, b := range macAddress { macHash = (macHash << 5) - macHash; macHash += uint16(b) } *)
Theorem C19F_gen_machash :
  forall mac : bytes, gen_machash mac = spec_machash mac.
Proof. exact gen_machash_spec. Qed.

(* counter, spill into the hash, mac, the assembly of the 64-bit word *)
Theorem C19F_gen_bits :
  forall ts lc h : N, ts < 1099511627776 -> h < 65536 -> gen_bits ts lc h = spec_bits ts lc h.
Proof. exact gen_bits_spec. Qed.

(* chars, base, the loop of 11 digits *)
Theorem C19F_gen_base62 :
  forall bits : N, gen_base62 bits = spec_base62 bits.
Proof. exact gen_base62_spec. Qed.

(* RandomID: chars[int(b[0]) % len(chars)] *)
Theorem C19F_gen_random_index :
  forall b : N,
    gen_random_chars = spec_b62_chars /\ gen_random_index b = Z.of_N (b mod 62) /\
    (Z.to_nat (gen_random_index b) < length gen_random_chars)%nat.
Proof. exact gen_random_index_spec. Qed.

(* the whole body has the data flow of the pieces (the counter piece's lastCounter
   goes into the assembly, the timestamp into both) ... *)
Theorem C19F_body_is_pieces :
  forall (unix nanos : Z) (lt lc : N) (mac : bytes),
  gen_cuid_body unix nanos lt lc mac =
  let ts := gen_timestamp unix nanos in
  let '(lt', lc') := gen_counter_step lt lc ts in
  (lt', lc', gen_base62 (gen_bits ts lc' (gen_machash mac))).
Proof. exact gen_cuid_body_is_pieces. Qed.

(* ... and computes spec_cuid *)
Theorem C19F_gen_cuid_body :
  forall (mac : bytes) (lt lc : N) (sec : Z) (nsec : N),
  gen_cuid_body sec (Z.of_N nsec) lt lc mac = spec_cuid mac lt lc sec nsec.
Proof. exact gen_cuid_body_spec. Qed.

(* results in range; the digit loop's divisor is 62 and its index below the
   alphabet's length: the totalised division and nth of the translation never
   leave the domain on which they are Go's *)
Theorem C19F_ranges :
  (forall sec nsec, spec_timestamp sec nsec < 1099511627776) /\
  (forall mac, spec_machash mac < 65536) /\
  length spec_b62_chars = 62%nat /\
  (forall w, (N.to_nat (w mod 62) < length spec_b62_chars)%nat).
Proof. exact spec_ranges. Qed.

Print Assumptions C19F_spec_meaning.
Print Assumptions C19F_gen_timestamp.
Print Assumptions C19F_gen_counter_step.
Print Assumptions C19F_gen_machash.
Print Assumptions C19F_gen_bits.
Print Assumptions C19F_gen_base62.
Print Assumptions C19F_gen_random_index.
Print Assumptions C19F_body_is_pieces.
Print Assumptions C19F_gen_cuid_body.
Print Assumptions C19F_ranges.
