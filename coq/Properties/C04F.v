(* C04, K goroutines, with a FINER cut of Start than Properties/C04K.v: the
   read of age and validity under the session's RLock (session.go: right after
   the look-up, before the validity and rotation tests) is a world action of
   its own, between the look-up and the rest. Statements only; model:
   Model/StartConcFine.v; proofs: Proofs/StartConcFine.v (the simulation),
   StartConcFine2.v, StartConcFineEx.v.

   WHY. With the local cache on, the single cut of Model/StartConc.v cannot
   show the double mint of the unlocked system: both look-ups return the same
   heap object and the age test, placed in the rest there, re-reads it
   (unlocked_cache_reports_ex: one draw). In Go the age is read BEFORE the
   rotation test. With the read as an action of its own the unlocked schedule
   look-up 0; look-up 1; read 0; read 1; rest 0; rest 1 draws two IDs WITH the
   cache on (C04F_unlocked_cache_refuted).

   WHAT HOLDS UNDER THE LOCK. The finer cut collapses: every admissible step of
   the locked fine system from a state of its invariant is a step of the coarse
   system between the abstractions (`abs`: both phases "between look-up and
   rest" become PLooked), or - the read - leaves the abstraction unchanged
   (C04F_step_simulates, C04F_run_simulates). What makes the read harmless: the
   value read is still what a read of the shared state now would give, because
   nobody else acts on the world while a goroutine is between its look-up and
   its rest (mutual exclusion, C13 transported by C04K's invariant). Hence the
   serial-order theorem and "one new ID, everybody on it" hold of the fine
   system word for word (C04F_fine_serial_order, C04F_fine_one_new_id).

   SCOPE, as in C04K.v: K plain calls of Start (empty handler script) on one ID
   carried as a forged cookie, the lock key being that ID's code (FI0 is CI0 of
   the abstraction); handler and due clean-ups sit inside the critical section
   in this model.

   PART 2: ONE ACTION PER CACHE OPERATION (Model/StartConcOps.v; proofs in
   Proofs/StartConcOps.v .. StartConcOps3.v, StartConcOpsEx.v). What Start does
   after its look-up is a resumable program `rest_prog` whose nodes are: the
   read under RLock; the read of referenceID; Destroy's sessions.Delete;
   creation's sessions.Set; RegenerateID's two sessions.Set (each a node); the
   backstop's sessions.Delete; in the reference loop the read of the fuel and
   per hop the read of referenceID with its sessions.Get; the bookkeeping under
   the session's lock. OStep g runs g's next node on the shared state as it is
   then; OFin g is the epilogue. C04F_program_is_rest: the program run to its
   end with nothing in between is start_rest (so, with C04K_cut_is_start, the
   look-up followed by the program is Sess.start). The same simulation (the
   ghost `o_snap` is the state the coarse system sees; it stands still during
   OStep) gives C04F_ops_step_simulates / C04F_ops_run_simulates, and hence
   C04F_ops_serial_order and C04F_ops_one_new_id; C04F_ops_unlocked_cache_refuted
   is the double mint at this granularity.

   WHAT IS NOT DONE. The look-up itself and each node are atomic: a cache
   operation is one critical section of the cache mutex (Properties/Granularity.v),
   but the persistence calls inside it are not cut further. Progress
   (C04K_progress) is not restated for the two finer systems. Handler scripts
   and due clean-ups: inside the lock in all three systems, see SCOPE. *)
From Sessions Require Import Model.Base Model.Sess Model.Hist Model.Mutex Model.StartConc Model.StartConcFine
  Model.StartConcOps
  Proofs.MutexBasics Proofs.SessDefs Proofs.HistLift3 Proofs.HistLift4 Proofs.HistLift8
  Proofs.C04Conc2 Proofs.C04Conc3
  Proofs.StartConc Proofs.StartConc2 Proofs.StartConcFine Proofs.StartConcFine2 Proofs.StartConcEx
  Proofs.StartConcFineEx Proofs.StartConcOps Proofs.StartConcOps2 Proofs.StartConcOps3 Proofs.StartConcOpsEx.
From Sessions Require Proofs.StartLaws4.
From Coq Require Permutation.

(* --- the second cut is faithful: read, then the rest driven by what was read,
   with nothing in between, is the coarse rest (and so, with C04K_cut_is_start,
   look-up; read; rest is Sess.start) --- *)
Theorem C04F_second_cut_is_rest :
  forall c s q found cks failed,
  start_rest c s q found cks failed = start_rest3 c s q found cks failed (start_read c s q found).
Proof. exact rest3_read. Qed.

Theorem C04F_read_meaning :
  forall c s q,
  start_read c s q None = None /\
  forall k o,
    start_read c s q (Some (k, o)) =
    match hget s o with
    | Some ob =>
      Some (negb (c_expiry c <=? since (r_access (o_rec ob)) (now s))%Z
            && ip_ok (c_acceptip c) (r_ip (o_rec ob)) (q_addr q)
            && ua_ok (c_acceptua c) (r_ua (o_rec ob)) (q_ua q),
            since (r_created (o_rec ob)) (now s))
    | None => None
    end.
Proof. exact (fun c s q => conj eq_refl (fun k o => eq_refl)). Qed.

(* --- initial states and the abstraction --- *)
Theorem C04F_initial_meaning :
  forall kk reqs w fs, FI0 kk reqs w fs <-> CI0 kk reqs w (abs fs).
Proof. exact (fun kk reqs w fs => conj (fun H => H) (fun H => H)). Qed.

Theorem C04F_abs_meaning :
  (forall fs, abs fs = mkC (f_lock fs) (f_st fs) (f_jars fs) (map abs_phase (f_ph fs)) (f_acts fs)) /\
  abs_phase FIdle = PIdle /\
  (forall s0 jar f c b, abs_phase (FLooked s0 jar f c b) = PLooked s0 jar f c b) /\
  (forall s0 jar f c b rd, abs_phase (FRead s0 jar f c b rd) = PLooked s0 jar f c b) /\
  (forall o, abs_phase (FDone o) = PDone o) /\
  (forall l, abs_label (FL l) = [CL l]) /\ (forall g, abs_label (FLook g) = [CLook g]) /\
  (forall g, abs_label (FReadL g) = []) /\ (forall g, abs_label (FRest g) = [CRest g]) /\
  (forall d, abs_label (FTick d) = [CTick d]) /\
  (forall ls, abs_run ls = flat_map abs_label ls).
Proof. repeat split. Qed.

Theorem C04F_finit_initial :
  forall k reqs w purges, Forall (plain_on k) reqs ->
  FI0 k reqs w (finit k reqs w purges) /\ abs (finit k reqs w purges) = cinit k reqs w purges.
Proof. exact (fun k reqs w purges H => conj (finit_fi0 k reqs w purges H) (abs_finit k reqs w purges)). Qed.

(* --- the simulation --- *)
Theorem C04F_invariant_meaning :
  forall kk reqs w fs,
  FI kk reqs w fs <->
  CI kk reqs w (abs fs) /\
  forall g s0 jar f c b rd r,
    nth_error (f_ph fs) g = Some (FRead s0 jar f c b rd) -> nth_error reqs g = Some r ->
    rd = start_read (conf s0) (f_st fs) (rq_request jar r) f.
Proof. exact (fun kk reqs w fs => conj (fun H => H) (fun H => H)). Qed.

Theorem C04F_step_simulates :
  forall kk reqs w fs lab fs',
  FI kk reqs w fs -> fstep true reqs fs lab = Some fs' -> fadm fs lab ->
  FI kk reqs w fs' /\ crun true reqs (abs fs) (abs_label lab) = Some (abs fs') /\
  cadm_run true reqs (abs fs) (abs_label lab).
Proof. exact fstep_sim. Qed.

Theorem C04F_run_simulates :
  forall kk reqs w ls fs fs',
  FI kk reqs w fs -> frun true reqs fs ls = Some fs' -> fadm_run true reqs fs ls ->
  FI kk reqs w fs' /\ crun true reqs (abs fs) (abs_run ls) = Some (abs fs') /\
  cadm_run true reqs (abs fs) (abs_run ls).
Proof. exact frun_sim. Qed.

(* --- (a) for the fine system: every admissible run is a serial execution --- *)
Theorem C04F_fine_serial_order :
  forall kk reqs w fs0 ls fs,
  FI0 kk reqs w fs0 -> frun true reqs fs0 ls = Some fs -> fadm_run true reqs fs0 ls ->
  (forall g1 g2, holds_key (f_lock fs) g1 kk = true -> holds_key (f_lock fs) g2 kk = true -> g1 = g2) /\
  (forall g, is_mid (nth g (f_ph fs) FIdle) = true -> holds_key (f_lock fs) g kk = true) /\
  f_acts fs = rev (acts_of (abs_run ls)) /\
  (forall g s0 jar f c b rd r,
     nth_error (f_ph fs) g = Some (FRead s0 jar f c b rd) -> nth_error reqs g = Some r ->
     rd = start_read (conf s0) (f_st fs) (rq_request jar r) f) /\
  let W := fst (serial reqs w (f_acts fs)) in
  let res := snd (serial reqs w (f_acts fs)) in
  (existsb is_mid (f_ph fs) = false -> mkWorld (f_st fs) (f_jars fs) = W) /\
  (forall g o, nth_error (f_ph fs) g = Some (FDone o) <-> In (g, o) res) /\
  NoDup (map fst res) /\
  (forallb f_is_done (f_ph fs) = true -> Permutation.Permutation (map fst res) (seq 0 (length reqs))).
Proof. exact fine_serial_order. Qed.

(* --- (b) for the fine system: one new ID, everybody on it --- *)
Theorem C04F_fine_one_new_id :
  forall reqs k rc w,
  LI (w_st w) -> L (w_st w) k = Some rc -> r_ref rc = None ->
  (c_idexpiry (conf (w_st w)) <= since (r_created rc) (now (w_st w)))%Z ->
  (0 < c_grace (conf (w_st w)))%Z ->
  (since (r_access rc) (now (w_st w)) < c_expiry (conf (w_st w)))%Z ->
  Forall (acc_req k rc (conf (w_st w))) reqs ->
  forall kk fs0 ls fs,
  FI0 kk reqs w fs0 -> frun true reqs fs0 ls = Some fs -> fadm_run true reqs fs0 ls ->
  let acts := f_acts fs in
  let c := conf (w_st w) in
  let n := supply (w_st w) in
  request_first acts -> Forall tick_nonneg acts ->
  (ticks acts < c_grace c)%Z ->
  (ticks acts + StartLaws4.slack c < c_expiry c)%Z ->
  (ticks acts + StartLaws4.slack c < sat_add (c_idexpiry c) (c_grace c))%Z ->
  (forall g o, nth_error (f_ph fs) g = Some (FDone o) ->
     joined (KGen n) rc n o /\ (dlist (ob_evs o) = [n] \/ dlist (ob_evs o) = [])) /\
  (goroutines acts <> [] ->
     exists g1 r1 o1 rest,
       nth_error reqs g1 = Some r1 /\ nth_error (f_ph fs) g1 = Some (FDone o1) /\
       snd (serial reqs w acts) = rest ++ [(g1, o1)] /\
       rotated (KGen n) rc (now (w_st w)) (req_of w r1) n o1 /\ dlist (ob_evs o1) = [n] /\
       Forall (fun go => dlist (ob_evs (snd go)) = []) rest /\
       (existsb is_mid (f_ph fs) = false -> supply (f_st fs) = (n + 1)%N)) /\
  (goroutines acts = [] -> existsb is_mid (f_ph fs) = false -> supply (f_st fs) = n).
Proof. exact fine_one_new_id. Qed.

(* --- (d) without the lock, the cache ON: two IDs --- *)
Theorem C04F_unlocked_cache_refuted :
  exists reqs k rc w ls fs mid,
    LI (w_st w) /\ L (w_st w) k = Some rc /\ r_ref rc = None /\
    (c_idexpiry (conf (w_st w)) <= since (r_created rc) (now (w_st w)))%Z /\
    (0 < c_grace (conf (w_st w)))%Z /\
    (since (r_access rc) (now (w_st w)) < c_expiry (conf (w_st w)))%Z /\
    Forall (acc_req k rc (conf (w_st w))) reqs /\
    c_maxcache (conf (w_st w)) = 10%Z /\ map fst (cache (w_st w)) = [k] /\
    frun false reqs (finit (key_code k) reqs w 0) ls = Some fs /\
    request_first (f_acts fs) /\ ticks (f_acts fs) = 0%Z /\
    frun false reqs (finit (key_code k) reqs w 0) (firstn 4 ls) = Some mid /\
    (exists s0 jar c b s0' jar' c' b' o rd,
       nth_error (f_ph mid) 0 = Some (FRead s0 jar (Some (k, o)) c b rd) /\
       nth_error (f_ph mid) 1 = Some (FRead s0' jar' (Some (k, o)) c' b' rd)) /\
    let n := supply (w_st w) in
    exists o0 o1,
      nth_error (f_ph fs) 0 = Some (FDone o0) /\ nth_error (f_ph fs) 1 = Some (FDone o1) /\
      ob_res o0 = RSess /\ ob_res o1 = RSess /\
      ob_cookies o0 = [CkLive (KGen n)] /\ ob_cookies o1 = [CkLive (KGen (n + 1))] /\
      option_map fst (ob_start o0) = Some (KGen n) /\ option_map fst (ob_start o1) = Some (KGen (n + 1)) /\
      supply (f_st fs) = (n + 2)%N.
Proof. exact unlocked_cache_refuted. Qed.

(* ======== PART 2: one world action per cache operation ======== *)

Theorem C04F_program_is_rest :
  forall c s q found cks failed,
  StartConcOps.run (rest_prog c q found cks failed) s =
  let '(s', r, ck) := start_rest c s q found cks failed in (s', (r, ck)).
Proof. exact run_rest_prog. Qed.

Theorem C04F_run_meaning :
  (forall A (a : A) s, StartConcOps.run (Done a) s = (s, a)) /\
  (forall A (k : st -> st * prog A) s,
     StartConcOps.run (Op k) s = let '(s', p') := k s in StartConcOps.run p' s').
Proof. exact (conj (fun A a s => eq_refl) (fun A k s => eq_refl)). Qed.

Theorem C04F_ops_initial_meaning :
  forall kk reqs w os, OI0 kk reqs w os <-> CI0 kk reqs w (oabs os) /\ o_st os = o_snap os.
Proof. exact (fun kk reqs w os => conj (fun H => H) (fun H => H)). Qed.

Theorem C04F_oinit_initial :
  forall k reqs w purges, Forall (plain_on k) reqs ->
  OI0 k reqs w (oinit k reqs w purges) /\ oabs (oinit k reqs w purges) = cinit k reqs w purges.
Proof. exact (fun k reqs w purges H => conj (oinit_oi0 k reqs w purges H) (oabs_oinit k reqs w purges)). Qed.

Theorem C04F_ops_invariant_meaning :
  forall kk reqs w os,
  OI kk reqs w os <->
  CI kk reqs w (oabs os) /\
  (existsb o_is_mid (o_ph os) = false -> o_st os = o_snap os) /\
  forall g s0 jar f c b p r,
    nth_error (o_ph os) g = Some (OMid s0 jar f c b p) -> nth_error reqs g = Some r ->
    StartConcOps.run p (o_st os) =
    let '(s', rs, ck) := start_rest (conf s0) (o_snap os) (rq_request jar r) f c b in (s', (rs, ck)).
Proof. exact (fun kk reqs w os => conj (fun H => H) (fun H => H)). Qed.

Theorem C04F_ops_step_simulates :
  forall kk reqs w os lab os',
  OI kk reqs w os -> ostep true reqs os lab = Some os' -> oadm os lab ->
  OI kk reqs w os' /\ crun true reqs (oabs os) (oabs_label lab) = Some (oabs os') /\
  cadm_run true reqs (oabs os) (oabs_label lab).
Proof. exact ostep_sim. Qed.

Theorem C04F_ops_run_simulates :
  forall kk reqs w ls os os',
  OI kk reqs w os -> orun true reqs os ls = Some os' -> oadm_run true reqs os ls ->
  OI kk reqs w os' /\ crun true reqs (oabs os) (oabs_run ls) = Some (oabs os') /\
  cadm_run true reqs (oabs os) (oabs_run ls).
Proof. exact orun_sim. Qed.

Theorem C04F_ops_serial_order :
  forall kk reqs w os0 ls os,
  OI0 kk reqs w os0 -> orun true reqs os0 ls = Some os -> oadm_run true reqs os0 ls ->
  (forall g1 g2, holds_key (o_lock os) g1 kk = true -> holds_key (o_lock os) g2 kk = true -> g1 = g2) /\
  (forall g, o_is_mid (nth g (o_ph os) OIdle) = true -> holds_key (o_lock os) g kk = true) /\
  o_acts os = rev (acts_of (oabs_run ls)) /\
  (forall g s0 jar f c b p r,
     nth_error (o_ph os) g = Some (OMid s0 jar f c b p) -> nth_error reqs g = Some r ->
     StartConcOps.run p (o_st os) =
     let '(s', rs, ck) := start_rest (conf s0) (o_snap os) (rq_request jar r) f c b in (s', (rs, ck))) /\
  let W := fst (serial reqs w (o_acts os)) in
  let res := snd (serial reqs w (o_acts os)) in
  (existsb o_is_mid (o_ph os) = false -> mkWorld (o_st os) (o_jars os) = W) /\
  (forall g o, nth_error (o_ph os) g = Some (ODone o) <-> In (g, o) res) /\
  NoDup (map fst res) /\
  (forallb o_is_done (o_ph os) = true -> Permutation.Permutation (map fst res) (seq 0 (length reqs))).
Proof. exact ops_serial_order. Qed.

Theorem C04F_ops_one_new_id :
  forall reqs k rc w,
  LI (w_st w) -> L (w_st w) k = Some rc -> r_ref rc = None ->
  (c_idexpiry (conf (w_st w)) <= since (r_created rc) (now (w_st w)))%Z ->
  (0 < c_grace (conf (w_st w)))%Z ->
  (since (r_access rc) (now (w_st w)) < c_expiry (conf (w_st w)))%Z ->
  Forall (acc_req k rc (conf (w_st w))) reqs ->
  forall kk os0 ls os,
  OI0 kk reqs w os0 -> orun true reqs os0 ls = Some os -> oadm_run true reqs os0 ls ->
  let acts := o_acts os in
  let c := conf (w_st w) in
  let n := supply (w_st w) in
  request_first acts -> Forall tick_nonneg acts ->
  (ticks acts < c_grace c)%Z ->
  (ticks acts + StartLaws4.slack c < c_expiry c)%Z ->
  (ticks acts + StartLaws4.slack c < sat_add (c_idexpiry c) (c_grace c))%Z ->
  (forall g o, nth_error (o_ph os) g = Some (ODone o) ->
     joined (KGen n) rc n o /\ (dlist (ob_evs o) = [n] \/ dlist (ob_evs o) = [])) /\
  (goroutines acts <> [] ->
     exists g1 r1 o1 rest,
       nth_error reqs g1 = Some r1 /\ nth_error (o_ph os) g1 = Some (ODone o1) /\
       snd (serial reqs w acts) = rest ++ [(g1, o1)] /\
       rotated (KGen n) rc (now (w_st w)) (req_of w r1) n o1 /\ dlist (ob_evs o1) = [n] /\
       Forall (fun go => dlist (ob_evs (snd go)) = []) rest /\
       (existsb o_is_mid (o_ph os) = false -> supply (o_st os) = (n + 1)%N)) /\
  (goroutines acts = [] -> existsb o_is_mid (o_ph os) = false -> supply (o_st os) = n).
Proof. exact ops_one_new_id. Qed.

Theorem C04F_ops_unlocked_cache_refuted :
  exists reqs k rc w ls os,
    LI (w_st w) /\ L (w_st w) k = Some rc /\ r_ref rc = None /\
    (c_idexpiry (conf (w_st w)) <= since (r_created rc) (now (w_st w)))%Z /\
    (0 < c_grace (conf (w_st w)))%Z /\
    (since (r_access rc) (now (w_st w)) < c_expiry (conf (w_st w)))%Z /\
    Forall (acc_req k rc (conf (w_st w))) reqs /\
    c_maxcache (conf (w_st w)) = 10%Z /\ map fst (cache (w_st w)) = [k] /\
    orun false reqs (oinit (key_code k) reqs w 0) ls = Some os /\
    request_first (o_acts os) /\ ticks (o_acts os) = 0%Z /\
    let n := supply (w_st w) in
    exists o0 o1,
      nth_error (o_ph os) 0 = Some (ODone o0) /\ nth_error (o_ph os) 1 = Some (ODone o1) /\
      ob_res o0 = RSess /\ ob_res o1 = RSess /\
      ob_cookies o0 = [CkLive (KGen n)] /\ ob_cookies o1 = [CkLive (KGen (n + 1))] /\
      option_map fst (ob_start o0) = Some (KGen n) /\ option_map fst (ob_start o1) = Some (KGen (n + 1)) /\
      supply (o_st os) = (n + 2)%N.
Proof. exact ops_unlocked_cache_refuted. Qed.

Print Assumptions C04F_second_cut_is_rest.
Print Assumptions C04F_read_meaning.
Print Assumptions C04F_initial_meaning.
Print Assumptions C04F_abs_meaning.
Print Assumptions C04F_finit_initial.
Print Assumptions C04F_invariant_meaning.
Print Assumptions C04F_step_simulates.
Print Assumptions C04F_run_simulates.
Print Assumptions C04F_fine_serial_order.
Print Assumptions C04F_fine_one_new_id.
Print Assumptions C04F_unlocked_cache_refuted.
(* non-vacuity (Proofs/StartConcFineEx.v): an admissible run of the locked fine
   system with the cache on, all hypotheses of C04F_fine_one_new_id; what the
   goroutines report; a state with one goroutine past its read and two waiting;
   what the unlocked goroutines report *)
Print Assumptions fine_locked_ex.
Print Assumptions fine_locked_reports_ex.
Print Assumptions fine_mid_ex.
Print Assumptions unlocked_cache_fine_reports_ex.
(* part 2 *)
Print Assumptions C04F_program_is_rest.
Print Assumptions C04F_run_meaning.
Print Assumptions C04F_ops_initial_meaning.
Print Assumptions C04F_oinit_initial.
Print Assumptions C04F_ops_invariant_meaning.
Print Assumptions C04F_ops_step_simulates.
Print Assumptions C04F_ops_run_simulates.
Print Assumptions C04F_ops_serial_order.
Print Assumptions C04F_ops_one_new_id.
Print Assumptions C04F_ops_unlocked_cache_refuted.
Print Assumptions ops_locked_ex.
Print Assumptions ops_locked_reports_ex.
Print Assumptions ops_mid_ex.
