(* C12 — the cache keeps to its size, evicts least recently used, sweeps idle
   entries at writes, and flushes before dropping.
   Statements only; proofs are in Proofs/CacheInv.v … CacheInv5.v; the model is
   Model/Sess.v (cache_get, cache_set, cache_delete, compact, sweep, evict,
   pick_victim, purge).

   Standing assumptions on the state s, spelled out in every statement:
     plan s = []                    no fault is planned (C12 is fault-free),
     cache_live s                   every cached index is an object of the heap
                                    (implied by SessDefs.cache_ok; unlike
                                    cache_ok it also holds inside RegenerateID),
     NoDup (map fst (cache s))      cache keys are unique (the cache is a map).
   Everything else — the tie-break list tb s, the configuration, the clock, the
   objects — is arbitrary. N is c_maxcache (conf s).

   Vocabulary from the proofs files:
     is_idle s (k,o)     c_cacheexpiry < since (access time of o) (now s)   [Model]
     sweep_phase s       the state after the idle sweep of compact
     size_phase s r      the state after the size loop of compact entered in s
     drops P s D s'      from s, the keys D were, one after the other, saved
                         under their cache key with the record of the cached
                         object and then removed from the cache, each step
                         satisfying P at its moment, giving s'
     Pmin s k o          o's access time is minimal among the entries of cache s
     touch s o           s with the access time of object o set to now s
     rivals s o ob o0    the cached entries under other IDs whose access time
                         (after touch) is not below that of the entry o0 cached
                         under the written ID
     late_others s ob    the same for the usual case o0 = o under cache_ok:
                         other entries with access time >= now s
     Lc s k              option_map (codec (conf s)) (L s k)
     within s            0 <= N -> |cache s| <= N
     cop, step_cop, run_cops   cache operations (Get, Set, Delete, Purge, clock
                         step, configuration change, new tie-break list, object
                         allocation, arbitrary object mutation) and their fold *)
From Sessions Require Import Model.Base Model.Sess Model.Hist Proofs.SessDefs
  Proofs.CacheInv Proofs.CacheInv2 Proofs.CacheInv3 Proofs.CacheInv4 Proofs.CacheInv5.
Local Open Scope Z_scope.

Theorem C12_hyp_from_cache_ok : forall s, cache_ok s -> cache_live s.
Proof. exact cache_ok_live. Qed.

(* ------------------------------------------------------------ C12_bound *)

(* Set of an object whose ID is not cached: room is made before inserting. *)
Theorem C12_bound_set_new : forall s o ob,
  plan s = [] -> cache_live s -> NoDup (map fst (cache s)) ->
  hget s o = Some ob -> 0 < c_maxcache (conf s) -> lookup (cache s) (o_id ob) = None ->
  Z.of_nat (length (cache (fst (cache_set s o)))) <= c_maxcache (conf s).
Proof. exact c12_bound_set_new. Qed.

(* Set of an object whose ID is cached (room request 0): the bound holds if the
   cache was within N already, or if fewer than N other entries have an access
   time that is not below the written entry's. *)
Theorem C12_bound_set_cached : forall s o ob o0,
  plan s = [] -> cache_live s -> NoDup (map fst (cache s)) ->
  hget s o = Some ob -> 0 < c_maxcache (conf s) -> lookup (cache s) (o_id ob) = Some o0 ->
  (Z.of_nat (length (cache s)) <= c_maxcache (conf s) \/
   Z.of_nat (length (rivals s o ob o0)) < c_maxcache (conf s)) ->
  Z.of_nat (length (cache (fst (cache_set s o)))) <= c_maxcache (conf s).
Proof. exact c12_bound_set_cached. Qed.

(* The same for a state with cache_ok where the cached object is the one being
   written: the side condition reads on the state before the write. *)
Theorem C12_bound_set_cached_ok : forall s o ob,
  plan s = [] -> cache_ok s -> NoDup (map fst (cache s)) ->
  hget s o = Some ob -> 0 < c_maxcache (conf s) -> lookup (cache s) (o_id ob) = Some o ->
  (Z.of_nat (length (cache s)) <= c_maxcache (conf s) \/
   Z.of_nat (length (late_others s ob)) < c_maxcache (conf s)) ->
  Z.of_nat (length (cache (fst (cache_set s o)))) <= c_maxcache (conf s).
Proof. exact setok_bound_cached. Qed.

(* The property's reading of the side condition: operations are spaced in time,
   every other cached entry was last accessed strictly before now. *)
Theorem C12_bound_set_spaced : forall s o ob,
  plan s = [] -> cache_ok s -> NoDup (map fst (cache s)) ->
  hget s o = Some ob -> 0 < c_maxcache (conf s) -> lookup (cache s) (o_id ob) = Some o ->
  (forall k' o', lookup (cache s) k' = Some o' -> k' <> o_id ob -> obj_access s o' < now s) ->
  Z.of_nat (length (cache (fst (cache_set s o)))) <= c_maxcache (conf s).
Proof. exact setok_bound_spaced. Qed.

(* Unconditionally: N + 1. *)
Theorem C12_bound_set_weak : forall s o ob,
  plan s = [] -> cache_live s -> NoDup (map fst (cache s)) ->
  hget s o = Some ob -> 0 <= c_maxcache (conf s) ->
  Z.of_nat (length (cache (fst (cache_set s o)))) <= c_maxcache (conf s) + 1.
Proof. exact c12_bound_set_weak. Qed.

(* ... and N + 1 is reached: without the side condition the cached case of the
   bound is false of the model (all-equal access times after N was lowered; the
   victim may be the entry being written, which is then put back). *)
Theorem C12_bound_cached_tie_refuted :
  exists s o ob,
    plan s = [] /\ cache_ok s /\ NoDup (map fst (cache s)) /\
    hget s o = Some ob /\ lookup (cache s) (o_id ob) = Some o /\ 0 < c_maxcache (conf s) /\
    Z.of_nat (length (cache (fst (cache_set s o)))) = c_maxcache (conf s) + 1.
Proof. exact c12_bound_cached_tie_refuted. Qed.

(* Get that loads. *)
Theorem C12_bound_get : forall s k r,
  plan s = [] -> cache_live s -> NoDup (map fst (cache s)) ->
  lookup (cache s) k = None -> lookup (store s) k = Some r -> 0 < c_maxcache (conf s) ->
  Z.of_nat (length (cache (fst (cache_get s k)))) <= c_maxcache (conf s).
Proof. exact c12_bound_get. Qed.

(* compact never evicts more than needed: with room after the sweep nothing
   more is dropped; without, the result fits exactly. *)
Theorem C12_bound_exact : forall s r,
  plan s = [] -> cache_live s -> NoDup (map fst (cache s)) ->
  (Z.of_nat (length (cache (sweep_phase s))) + r <= c_maxcache (conf s) ->
   compact s r = sweep_phase s) /\
  (0 <= c_maxcache (conf s) ->
   c_maxcache (conf s) < Z.of_nat (length (cache (sweep_phase s))) + r ->
   Z.of_nat (length (cache (compact s r))) + Z.min r (c_maxcache (conf s)) = c_maxcache (conf s)).
Proof. exact c12_exact. Qed.

(* --------------------------------------------- C12_zero, C12_unbounded *)

Theorem C12_zero_set : forall s o ob,
  plan s = [] -> cache_live s -> NoDup (map fst (cache s)) ->
  hget s o = Some ob -> c_maxcache (conf s) = 0 -> cache (fst (cache_set s o)) = [].
Proof. exact c12_zero_set. Qed.

(* under any fault plan, in any state *)
Theorem C12_zero_get : forall s k,
  c_maxcache (conf s) = 0 -> cache (fst (cache_get s k)) = cache s.
Proof. exact get_zero. Qed.

Theorem C12_unbounded_compact : forall s r,
  plan s = [] -> cache_live s -> NoDup (map fst (cache s)) -> c_maxcache (conf s) < 0 ->
  cache (compact s r) = filter (fun e => negb (is_idle s e)) (cache s).
Proof. exact c12_unbounded_compact. Qed.

Theorem C12_unbounded_set : forall s o ob,
  plan s = [] -> cache_live s -> NoDup (map fst (cache s)) ->
  hget s o = Some ob -> c_maxcache (conf s) < 0 ->
  cache (fst (cache_set s o)) =
  upsert (filter (fun e => negb (is_idle (touch s o) e)) (cache s)) (o_id ob) o.
Proof. exact c12_unbounded_set. Qed.

Theorem C12_unbounded_set_ok : forall s o ob,
  plan s = [] -> cache_ok s -> NoDup (map fst (cache s)) ->
  hget s o = Some ob -> c_maxcache (conf s) < 0 ->
  forall e, In e (cache s) -> fst e <> o_id ob -> is_idle s e = false ->
            In e (cache (fst (cache_set s o))).
Proof. exact setok_unbounded. Qed.

Theorem C12_unbounded_get : forall s k r,
  plan s = [] -> cache_live s -> NoDup (map fst (cache s)) ->
  lookup (cache s) k = None -> lookup (store s) k = Some r -> c_maxcache (conf s) < 0 ->
  cache (fst (cache_get s k)) =
  upsert (filter (fun e => negb (is_idle s e)) (cache s)) k (length (heap s)).
Proof. exact c12_unbounded_get. Qed.

(* -------------------------------------------------------------- C12_lru *)

(* the victim is an entry with minimal access time *)
Theorem C12_lru_victim : forall s k o,
  pick_victim s = Some (k, o) ->
  In (k, o) (cache s) /\ forall e, In e (cache s) -> obj_access s o <= obj_access s (snd e).
Proof. exact c12_lru_victim. Qed.

(* the size loop: succeeds, is a sequence of flush-and-drop steps each of which
   takes an entry that is minimal at its moment, ends within the requested
   room, and does nothing if there was room *)
Theorem C12_lru_evict : forall fuel s req,
  plan s = [] -> cache_live s -> NoDup (map fst (cache s)) ->
  (length (cache s) <= fuel)%nat -> req <= c_maxcache (conf s) ->
  exists D s',
    evict fuel s req = (s', true) /\ drops Pmin s D s' /\
    Z.of_nat (length (cache s')) + req <= c_maxcache (conf s) /\
    (c_maxcache (conf s) < Z.of_nat (length (cache s)) + req ->
     Z.of_nat (length (cache s')) + req = c_maxcache (conf s)) /\
    (Z.of_nat (length (cache s)) + req <= c_maxcache (conf s) -> D = [] /\ s' = s).
Proof. exact c12_lru_evict. Qed.

(* compact as a whole: an entry that left (idle or for size) is no newer than
   any entry that stayed *)
Theorem C12_lru_compact : forall s r,
  plan s = [] -> cache_live s -> NoDup (map fst (cache s)) ->
  forall k o, lookup (cache s) k = Some o -> lookup (cache (compact s r)) k = None ->
  forall e, In e (cache (compact s r)) -> obj_access s o <= obj_access s (snd e).
Proof. exact compact_order. Qed.

(* Set and Get: among the entries cached before the write, none that survives
   is strictly older than one that left; the written / loaded entry itself is
   not a candidate *)
Theorem C12_lru_set : forall s o ob,
  plan s = [] -> cache_ok s -> NoDup (map fst (cache s)) -> hget s o = Some ob ->
  forall k' o' e,
    lookup (cache s) k' = Some o' -> k' <> o_id ob ->
    lookup (cache (fst (cache_set s o))) k' = None ->
    In e (cache (fst (cache_set s o))) -> fst e <> o_id ob ->
    obj_access s o' <= obj_access s (snd e).
Proof. exact setok_lru. Qed.

Theorem C12_lru_get : forall s k r k' o' e,
  plan s = [] -> cache_live s -> NoDup (map fst (cache s)) ->
  lookup (cache s) k = None -> lookup (store s) k = Some r -> c_maxcache (conf s) <> 0 ->
  lookup (cache s) k' = Some o' -> lookup (cache (fst (cache_get s k))) k' = None ->
  In e (cache (fst (cache_get s k))) -> fst e <> k ->
  obj_access s o' <= obj_access s (snd e).
Proof. exact c12_lru_get. Qed.

(* ------------------------------------------------------------- C12_idle *)

(* compact is the sweep followed by the size loop, and the sweep removes
   exactly the entries whose age exceeds SessionCacheExpiry (order kept) *)
Theorem C12_idle_sweep : forall s r,
  plan s = [] -> cache_live s -> NoDup (map fst (cache s)) ->
  compact s r = size_phase (sweep_phase s) r /\
  cache (sweep_phase s) = filter (fun e => negb (is_idle s e)) (cache s).
Proof. exact c12_idle_sweep. Qed.

Theorem C12_idle_pred : forall s k o,
  is_idle s (k, o) = true <-> c_cacheexpiry (conf s) < since (obj_access s o) (now s).
Proof. exact is_idle_iff. Qed.

Theorem C12_idle_compact : forall s r,
  plan s = [] -> cache_live s -> NoDup (map fst (cache s)) ->
  (forall e, In e (cache (compact s r)) -> In e (cache s) /\ is_idle s e = false) /\
  (forall k o, lookup (cache s) k = Some o -> is_idle s (k, o) = true ->
               lookup (cache (compact s r)) k = None).
Proof. exact c12_idle_compact. Qed.

(* "forever": no hypothesis on access times is needed, ages saturate at
   MaxInt64 as time.Since does *)
Theorem C12_idle_forever : forall s,
  plan s = [] -> cache_live s -> NoDup (map fst (cache s)) -> c_cacheexpiry (conf s) = max64 ->
  (forall e, is_idle s e = false) /\ cache (sweep_phase s) = cache s.
Proof. exact c12_idle_forever. Qed.

Theorem C12_idle_set : forall s o ob,
  plan s = [] -> cache_ok s -> NoDup (map fst (cache s)) -> hget s o = Some ob ->
  forall e, In e (cache (fst (cache_set s o))) -> fst e <> o_id ob ->
            In e (cache s) /\ is_idle s e = false.
Proof. exact setok_survivor. Qed.

Theorem C12_idle_get : forall s k r e,
  plan s = [] -> cache_live s -> NoDup (map fst (cache s)) ->
  lookup (cache s) k = None -> lookup (store s) k = Some r -> c_maxcache (conf s) <> 0 ->
  In e (cache (fst (cache_get s k))) -> fst e <> k -> In e (cache s) /\ is_idle s e = false.
Proof. exact c12_idle_get. Qed.

(* ------------------------------------------------------------ C12_flush *)

Theorem C12_codec_idem : forall c r, codec c (codec c r) = codec c r.
Proof. exact codec_idem. Qed.

(* an entry that leaves through compact: the store then holds its in-memory
   record, all fields, as the codec returns it; the object itself is unchanged *)
Theorem C12_flush_compact : forall s r k o ob,
  plan s = [] -> cache_live s -> NoDup (map fst (cache s)) ->
  lookup (cache s) k = Some o -> hget s o = Some ob -> lookup (cache (compact s r)) k = None ->
  lookup (store (compact s r)) k = Some (codec (conf s) (o_rec ob)) /\
  hget (compact s r) o = Some ob.
Proof. exact c12_flush_compact. Qed.

Theorem C12_flush_purge : forall s k o ob,
  plan s = [] -> cache_live s -> NoDup (map fst (cache s)) ->
  lookup (cache s) k = Some o -> hget s o = Some ob ->
  cache (purge s) = [] /\ lookup (store (purge s)) k = Some (codec (conf s) (o_rec ob)).
Proof. exact c12_flush_purge. Qed.

Theorem C12_flush_set : forall s o ob,
  plan s = [] -> cache_ok s -> NoDup (map fst (cache s)) -> hget s o = Some ob ->
  forall k' o' ob',
    lookup (cache s) k' = Some o' -> hget s o' = Some ob' -> k' <> o_id ob ->
    lookup (cache (fst (cache_set s o))) k' = None ->
    lookup (store (fst (cache_set s o))) k' = Some (codec (conf s) (o_rec ob')).
Proof. exact setok_flush. Qed.

Theorem C12_flush_get : forall s k r k' o' ob',
  plan s = [] -> cache_live s -> NoDup (map fst (cache s)) ->
  lookup (cache s) k = None -> lookup (store s) k = Some r -> c_maxcache (conf s) <> 0 ->
  lookup (cache s) k' = Some o' -> hget s o' = Some ob' ->
  lookup (cache (fst (cache_get s k))) k' = None ->
  lookup (store (fst (cache_get s k))) k' = Some (codec (conf s) (o_rec ob')).
Proof. exact c12_flush_get. Qed.

(* the logical contents, read through the codec, do not change *)
Theorem C12_Lc_compact : forall s r,
  plan s = [] -> cache_live s -> NoDup (map fst (cache s)) ->
  (forall k, Lc (compact s r) k = Lc s k) /\ (store_norm s -> store_norm (compact s r)).
Proof. exact c12_Lc_compact. Qed.

Theorem C12_Lc_purge : forall s,
  plan s = [] -> cache_live s -> NoDup (map fst (cache s)) ->
  (forall k, Lc (purge s) k = Lc s k) /\ (store_norm s -> store_norm (purge s)).
Proof. exact c12_Lc_purge. Qed.

Theorem C12_Lc_get : forall s k r,
  plan s = [] -> cache_live s -> NoDup (map fst (cache s)) ->
  lookup (cache s) k = None -> lookup (store s) k = Some r ->
  forall k', Lc (fst (cache_get s k)) k' = Lc s k'.
Proof. exact c12_Lc_get. Qed.

Theorem C12_Lc_set : forall s o ob k',
  plan s = [] -> cache_ok s -> NoDup (map fst (cache s)) -> hget s o = Some ob ->
  k' <> o_id ob -> Lc (fst (cache_set s o)) k' = Lc s k'.
Proof. exact c12_Lc_set. Qed.

(* the access time the store receives: exact with gob, to the second with JSON *)
Theorem C12_flush_access : forall c r,
  r_access (codec c r) = if c_json c then r_access r - r_access r mod second else r_access r.
Proof. exact codec_access. Qed.

(* ------------------------------------- between writes; invariants kept *)

Theorem C12_nogrow_delete : forall s k, cache (fst (cache_delete s k)) = remove (cache s) k.
Proof. exact delete_cache. Qed.

Theorem C12_nogrow_get : forall s k,
  plan s = [] -> (lookup (cache s) k <> None \/ lookup (store s) k = None) ->
  cache (fst (cache_get s k)) = cache s.
Proof. exact get_nogrow. Qed.

Theorem C12_set_keeps_cache_ok : forall s o ob,
  plan s = [] -> cache_ok s -> NoDup (map fst (cache s)) -> hget s o = Some ob ->
  cache_ok (fst (cache_set s o)).
Proof. exact setok_cache_ok. Qed.

(* ------------------------------------------------------------ sequences *)

Theorem C12_seq_inv : forall s0 ops,
  plan s0 = [] -> cache_live s0 -> NoDup (map fst (cache s0)) ->
  let s := run_cops s0 ops in plan s = [] /\ cache_live s /\ NoDup (map fst (cache s)).
Proof. exact c12_seq_inv. Qed.

(* after any sequence, a Set obeys N + 1, and N when the ID is new, or the
   cache was within N, or ties are few *)
Theorem C12_seq_set_bound : forall s0 ops o ob,
  plan s0 = [] -> cache_live s0 -> NoDup (map fst (cache s0)) ->
  let s := run_cops s0 ops in
  hget s o = Some ob -> 0 < c_maxcache (conf s) ->
  Z.of_nat (length (cache (step_cop s (OSet o)))) <= c_maxcache (conf s) + 1 /\
  (lookup (cache s) (o_id ob) = None \/ within s \/
   (exists o0, lookup (cache s) (o_id ob) = Some o0 /\
               Z.of_nat (length (rivals s o ob o0)) < c_maxcache (conf s)) ->
   Z.of_nat (length (cache (step_cop s (OSet o)))) <= c_maxcache (conf s)).
Proof. exact c12_seq_set_bound. Qed.

Theorem C12_seq_get_bound : forall s0 ops k r,
  plan s0 = [] -> cache_live s0 -> NoDup (map fst (cache s0)) ->
  let s := run_cops s0 ops in
  lookup (cache s) k = None -> lookup (store s) k = Some r -> 0 < c_maxcache (conf s) ->
  Z.of_nat (length (cache (step_cop s (OGet k)))) <= c_maxcache (conf s).
Proof. exact c12_seq_get_bound. Qed.

(* once within N the cache stays within N under every operation; only a
   configuration change to a size the cache does not fit in can break that *)
Theorem C12_seq_within : forall s0 ops,
  plan s0 = [] -> cache_live s0 -> NoDup (map fst (cache s0)) -> within s0 ->
  (forall pre c post, ops = pre ++ OCfg c :: post -> within (set_conf (run_cops s0 pre) c)) ->
  within (run_cops s0 ops).
Proof. exact c12_seq_within. Qed.

Theorem C12_seq_zero : forall s0 ops,
  plan s0 = [] -> cache_live s0 -> NoDup (map fst (cache s0)) ->
  let s := run_cops s0 ops in
  c_maxcache (conf s) = 0 ->
  (forall o, hget s o <> None -> cache (step_cop s (OSet o)) = []) /\
  (forall k, cache (step_cop s (OGet k)) = cache s).
Proof. exact c12_seq_zero. Qed.

(* operations that are not writes never add an entry *)
Theorem C12_seq_nogrow : forall s0 ops op,
  plan s0 = [] -> cache_live s0 -> NoDup (map fst (cache s0)) ->
  let s := run_cops s0 ops in
  is_write s op = false -> (length (cache (step_cop s op)) <= length (cache s))%nat.
Proof. exact c12_nogrow. Qed.

Print Assumptions C12_hyp_from_cache_ok.
Print Assumptions C12_bound_set_new.
Print Assumptions C12_bound_set_cached.
Print Assumptions C12_bound_set_cached_ok.
Print Assumptions C12_bound_set_spaced.
Print Assumptions C12_bound_set_weak.
Print Assumptions C12_bound_cached_tie_refuted.
Print Assumptions C12_bound_get.
Print Assumptions C12_bound_exact.
Print Assumptions C12_zero_set.
Print Assumptions C12_zero_get.
Print Assumptions C12_unbounded_compact.
Print Assumptions C12_unbounded_set.
Print Assumptions C12_unbounded_set_ok.
Print Assumptions C12_unbounded_get.
Print Assumptions C12_lru_victim.
Print Assumptions C12_lru_evict.
Print Assumptions C12_lru_compact.
Print Assumptions C12_lru_set.
Print Assumptions C12_lru_get.
Print Assumptions C12_idle_sweep.
Print Assumptions C12_idle_pred.
Print Assumptions C12_idle_compact.
Print Assumptions C12_idle_forever.
Print Assumptions C12_idle_set.
Print Assumptions C12_idle_get.
Print Assumptions C12_codec_idem.
Print Assumptions C12_flush_compact.
Print Assumptions C12_flush_purge.
Print Assumptions C12_flush_set.
Print Assumptions C12_flush_get.
Print Assumptions C12_Lc_compact.
Print Assumptions C12_Lc_purge.
Print Assumptions C12_Lc_get.
Print Assumptions C12_Lc_set.
Print Assumptions C12_flush_access.
Print Assumptions C12_nogrow_delete.
Print Assumptions C12_nogrow_get.
Print Assumptions C12_set_keeps_cache_ok.
Print Assumptions C12_seq_inv.
Print Assumptions C12_seq_set_bound.
Print Assumptions C12_seq_get_bound.
Print Assumptions C12_seq_within.
Print Assumptions C12_seq_zero.
Print Assumptions C12_seq_nogrow.
