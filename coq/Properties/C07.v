(* C07 — destroyed or invalidated sessions never come back.
   Statements only; proofs are in Proofs/HistInv.v, HistInv2.v, HistInv3.v,
   Proofs/IsoLaws.v and Proofs/DeadLaws.v. All statements are about fault-free execution (no planned
   persistence failure); crashes, cache loss and restarts are allowed where a
   history is quantified. *)
From Sessions Require Import Model.Base Model.Sess Model.Hist Proofs.SessDefs
  Proofs.HistInv Proofs.HistInv2 Proofs.HistInv3 Proofs.IsoLaws Proofs.DeadLaws.

(* Destroy removes the ID from cache and store together, sends the expiring
   cookie, issues one DeleteSession and touches no other ID. *)
Theorem C07_destroy :
  forall s o hc ob, plan s = [] -> hget s o = Some ob ->
  exists s', destroy s o hc = (s', Ok tt, [CkDelete]) /\
    lookup (cache s') (o_id ob) = None /\ lookup (store s') (o_id ob) = None /\ L s' (o_id ob) = None /\
    (forall k, k <> o_id ob -> lookup (cache s') k = lookup (cache s) k /\ lookup (store s') k = lookup (store s) k) /\
    heap s' = heap s /\ evs s' = EvDelete (o_id ob) true :: evs s /\ supply s' = supply s /\ pending s' = pending s.
Proof. exact destroy_spec. Qed.

(* The invariants of SessDefs.v (with "no fault planned") are preserved by
   every fault-free, crash-free step of a history, whatever the hop. *)
Theorem C07_inv_step :
  forall w h, sess_inv (w_st w) -> ff_hop h -> crash_free h -> sess_inv (w_st (fst (step w h))).
Proof. exact step_sess_inv. Qed.

(* With crashes: cache_ok, nodup_ok and fresh_ok hold after every fault-free
   history from the initial state, the heap clause of fresh_ok from a heap mark b
   on (b = 0, i.e. fresh_ok itself, when no step crashed). *)
Theorem C07_inv_hist :
  forall c hs, Forall ff_hop hs ->
  exists b, let s := w_st (reach c hs) in
    plan s = [] /\ cache_ok s /\ nodup_ok s /\ fresh_from b s /\ (Forall crash_free hs -> b = 0).
Proof. exact hist_sess_inv. Qed.

(* ... and the restriction is needed: after a crash the heap clause of fresh_ok
   as written in SessDefs.v fails (objects of the lost process stay in the
   model's heap, unreachable). *)
Theorem C07_fresh_heap_clause_crash_refuted :
  exists c hs, Forall ff_hop hs /\ ~ fresh_ok (w_st (reach c hs)).
Proof. exact fresh_ok_crash_refuted. Qed.

(* An ID in use (stored, cached, awaiting clean-up, or target of a stored
   reference) is never drawn again, in any fault-free continuation. *)
Theorem C07_not_reissued :
  forall c hs1 hs2 n, Forall ff_hop hs1 -> Forall ff_hop hs2 ->
  in_use (w_st (reach c hs1)) (KGen n) ->
  Forall (fun o => ~ In (EvDraw n) (ob_evs o)) (run_from (reach c hs1) hs2).
Proof. exact not_reissued_reach. Qed.

(* An ID that was drawn and is absent from cache and store (as after Destroy,
   C07_destroy) stays dead in every fault-free continuation, with crashes, cache
   loss and restarts anywhere: never cached or stored again, no save under it,
   no Start returns a session with that ID, no handler ends up with it, no live
   cookie carries it. *)
Theorem C07_stays_dead :
  forall c hs1 hs2 k, Forall ff_hop hs1 -> Forall ff_hop hs2 ->
  key_drawn (w_st (reach c hs1)) k ->
  lookup (cache (w_st (reach c hs1))) k = None -> lookup (store (w_st (reach c hs1))) k = None ->
  lookup (cache (w_st (after (reach c hs1) hs2))) k = None /\
  lookup (store (w_st (after (reach c hs1) hs2))) k = None /\
  Forall (dead_obs k) (run_from (reach c hs1) hs2).
Proof. exact stays_dead_reach. Qed.

(* A request whose handler script ends with Destroy (the last operation it
   executed; the model stops the script there: no further calls on the destroyed
   object): the handler's session ID k is dead from then on, the response carries
   the expiring cookie, a cookie-following client is left without cookie, and in
   every fault-free continuation (crashes, cache loss, restarts included) k is
   never cached, stored, saved under, returned by Start, or sent as live cookie. *)
Theorem C07_destroyed_never_returns :
  forall c hs1 r hs2,
  Forall ff_hop hs1 -> rq_plan r = [] -> rq_crash r = None -> Forall ff_hop hs2 ->
  ob_script (snd (step (reach c hs1) (HReq r))) <> [] ->
  nth_error (rq_script r) (length (ob_script (snd (step (reach c hs1) (HReq r)))) - 1) = Some SDestroy ->
  exists k rc, ob_final (snd (step (reach c hs1) (HReq r))) = Some (k, rc) /\
    In CkDelete (ob_cookies (snd (step (reach c hs1) (HReq r)))) /\
    (rq_present r = PJar -> ob_jar (snd (step (reach c hs1) (HReq r))) = CNone) /\
    absent (w_st (after (fst (step (reach c hs1) (HReq r))) hs2)) k /\
    Forall (dead_obs k) (run_from (fst (step (reach c hs1) (HReq r))) hs2).
Proof. exact destroyed_never_returns. Qed.

(* A request presenting an ID k whose record fails Start's validity check (idle
   for SessionExpiry or longer, or a peer/agent anomaly): the response begins with
   the expiring cookie and carries no live cookie for k, Start does not return k,
   the client does not keep k, and k is dead in every fault-free continuation. *)
Theorem C07_invalidated_never_returns :
  forall c hs1 r hs2 k r0,
  Forall ff_hop hs1 -> rq_plan r = [] -> rq_crash r = None -> Forall ff_hop hs2 ->
  presented (reach c hs1) r = CKey k -> L (w_st (reach c hs1)) k = Some r0 ->
  rec_valid (conf (w_st (reach c hs1))) (now (w_st (reach c hs1)))
            (mkReq (presented (reach c hs1) r) (rq_create r) (rq_addr r) (rq_ua r)) r0 = false ->
  (exists rest, ob_cookies (snd (step (reach c hs1) (HReq r))) = CkDelete :: rest /\ ~ In (CkLive k) rest) /\
  (forall rc, ob_start (snd (step (reach c hs1) (HReq r))) <> Some (k, rc)) /\
  (rq_present r = PJar -> ob_jar (snd (step (reach c hs1) (HReq r))) <> CKey k) /\
  absent (w_st (after (fst (step (reach c hs1) (HReq r))) hs2)) k /\
  Forall (dead_obs k) (run_from (fst (step (reach c hs1) (HReq r))) hs2).
Proof. exact invalidated_never_returns. Qed.

Print Assumptions C07_destroy.
Print Assumptions C07_inv_step.
Print Assumptions C07_inv_hist.
Print Assumptions C07_fresh_heap_clause_crash_refuted.
Print Assumptions C07_not_reissued.
Print Assumptions C07_stays_dead.
Print Assumptions C07_destroyed_never_returns.
Print Assumptions C07_invalidated_never_returns.
