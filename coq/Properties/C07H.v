(* C07 for every former ID - no ID that ever belonged to an ended session yields
   it again (audit task A5). Statements only; proofs are in Proofs/Lineage.v,
   Lineage2.v .. Lineage9.v, non-vacuity in Proofs/LineageEx.v. They ride on the
   generic history lifting of Proofs/HistLift3.v (C05H) and use the per-step
   theorems of Proofs/DeadLaws.v (C07).

   Properties/C07.v speaks of the ID the session had when it ended. Here: the
   whole lineage of that ID.

   reach c hs, after w hs   the world after history hs from the initial state of
                            configuration c / from world w (HistInv3.v)
   L s k                    the record ID k resolves to: cached object, else store
   absent s k               k is in neither cache nor store
   lineage s kn k           k is kn; or k was drawn and resolves to nothing (a
                            former ID already cleaned up); or k resolves to a
                            replaced-ID record whose reference is in the lineage.
                            A chain k0 -> k1 -> .. -> kn of replaced-ID records
                            ("old IDs still in grace"), any of them possibly
                            gone already, is in it link by link.
   presents w r             what request step r presents in world w: the client's
                            cookie jar, or a forged value (anybody, any ID)
   dead_answer o            the only things such a request gets (below)
   lin_obs D o              what every step shows about the IDs of D (below)
   all_steps P w hs         P holds of every step of hs run from w

   Histories: fault-free (no planned persistence failure) and crash-free (no
   process stop inside a step): requests by any client presenting anything with
   any handler script, waits (clean-ups fire), purges, cache loss (HDropCache),
   restarts (HRestart: cache and pending clean-ups lost), user-wide logout and
   refresh, configuration changes. Crashes inside a step are covered for the
   ended ID itself by C07_stays_dead, not here for the former IDs (the lifting of
   HistLift3.v is crash-free).

   Data identity: a request presenting an ID of the lineage is answered with no
   session at all, or with one created in that very step - ID drawn in that step,
   no user, no data - which is exactly the "fresh" alternative of the C01 ghost
   specification (Proofs/C01Spec.v: g_step), so it carries nobody's data
   (C07H_dead_answer_ghost); and no step whatsoever returns or leaves a handler
   with a session under an ID of the lineage, nor draws such an ID again, so no
   later session sits under a former ID (lin_obs). *)
From Sessions Require Import Model.Base Model.Sess Model.Hist Model.Corr Proofs.SessDefs
  Proofs.HistInv Proofs.HistInv2 Proofs.HistInv3 Proofs.HistLift Proofs.HistLift3 Proofs.HistLift4
  Proofs.IsoLaws Proofs.DeadLaws Proofs.C01Spec
  Proofs.Lineage Proofs.Lineage2 Proofs.Lineage3 Proofs.Lineage4 Proofs.Lineage5 Proofs.Lineage6
  Proofs.Lineage7 Proofs.Lineage8 Proofs.Lineage9 Proofs.LineageEx.

(* ------------------------------------------------------- the notions, unfolded *)

Theorem C07H_lineage_meaning :
  forall s kn k, lineage s kn k <->
  k = kn \/ (key_drawn s k /\ L s k = None) \/
  (exists r t, L s k = Some r /\ r_ref r = Some t /\ lineage s kn t).
Proof. exact lineage_meaning. Qed.

(* What a request gets that presented an ID of the lineage: no session, after
   the expiring cookie; or the error ERefMissing (the replaced-ID record points
   at a session that is gone) or EExpiredID (past the backstop age; the record is
   deleted), without any cookie; or - createIfNew - a session created in this
   step: ID drawn in this step, not a replaced-ID record, no user, no data, after
   the expiring cookie. Never a panic, never another error, never a stored
   session. *)
Theorem C07H_dead_answer_meaning :
  forall o, dead_answer o <->
  match ob_res o with
  | RNone => ob_start o = None /\ ob_cookies o = [CkDelete]
  | RErr e => (e = ERefMissing \/ e = EExpiredID) /\ ob_start o = None /\ ob_cookies o = []
  | RSess => exists n rc rest, ob_start o = Some (KGen n, rc) /\ In (EvDraw n) (ob_evs o) /\
               r_ref rc = None /\ r_user rc = None /\ r_data rc = Some [] /\
               ob_cookies o = CkDelete :: CkLive (KGen n) :: rest
  | RPanic _ | RVoid | RCrashed => False
  end.
Proof. exact dead_answer_meaning. Qed.

(* What every step shows, whoever acts and whatever is presented: the session
   Start returned and the handler's session after the script carry no ID of D,
   the returned session is not a replaced-ID record, and no ID of D is drawn. *)
Theorem C07H_lin_obs_meaning :
  forall D o, lin_obs D o <->
  (forall k rc, ob_start o = Some (k, rc) -> ~ D k /\ r_ref rc = None) /\
  (forall k rc, ob_final o = Some (k, rc) -> ~ D k) /\
  (forall n, D (KGen n) -> ~ In (EvDraw n) (ob_evs o)).
Proof. exact lin_obs_meaning. Qed.

Theorem C07H_lin_claim_meaning :
  forall D w h o, lin_claim D w h o <->
  lin_obs D o /\ forall r k, h = HReq r -> presents w r = CKey k -> D k -> dead_answer o.
Proof. exact lin_claim_meaning. Qed.

Theorem C07H_presents_meaning :
  forall w r, presents w r = match rq_present r with PJar => jar_of (w_jars w) (rq_client r) | PForge c => c end.
Proof. exact presents_meaning. Qed.

Theorem C07H_all_steps_meaning :
  forall P hs w, all_steps P w hs <->
  forall hs1 h hs2, hs = hs1 ++ h :: hs2 -> P (after w hs1) h (snd (step (after w hs1) h)).
Proof. exact all_steps_pointwise. Qed.

(* ------------------------------------------------------- the theorems *)

(* Destroy by the application. A request whose handler script ends with Destroy
   (the last operation it executed), after any history: its final session ID kn
   is drawn and absent, and for the lineage of kn in the state right after that
   step - kn, every replaced-ID record leading to it, every former ID already
   gone - every step of every continuation satisfies lin_claim: requests
   presenting any ID of the lineage get a dead_answer, and nobody is ever given a
   session under such an ID. *)
Theorem C07H_destroyed_former_ids :
  forall c hs1 r hs2,
  Forall ff_hop hs1 -> Forall crash_free hs1 -> rq_plan r = [] -> rq_crash r = None ->
  Forall ff_hop hs2 -> Forall crash_free hs2 ->
  ob_script (snd (step (reach c hs1) (HReq r))) <> [] ->
  nth_error (rq_script r) (length (ob_script (snd (step (reach c hs1) (HReq r)))) - 1) = Some SDestroy ->
  exists kn rc, ob_final (snd (step (reach c hs1) (HReq r))) = Some (kn, rc) /\
    key_drawn (w_st (fst (step (reach c hs1) (HReq r)))) kn /\
    absent (w_st (fst (step (reach c hs1) (HReq r)))) kn /\
    all_steps (lin_claim (lineage (w_st (fst (step (reach c hs1) (HReq r)))) kn))
              (fst (step (reach c hs1) (HReq r))) hs2.
Proof. exact destroyed_lineage. Qed.

(* Invalidation by Start (idle for SessionExpiry, or a peer/agent anomaly): the
   same for the lineage of the presented ID k. *)
Theorem C07H_invalidated_former_ids :
  forall c hs1 r hs2 k r0,
  Forall ff_hop hs1 -> Forall crash_free hs1 -> rq_plan r = [] -> rq_crash r = None ->
  Forall ff_hop hs2 -> Forall crash_free hs2 ->
  presented (reach c hs1) r = CKey k -> L (w_st (reach c hs1)) k = Some r0 ->
  rec_valid (conf (w_st (reach c hs1))) (now (w_st (reach c hs1)))
            (mkReq (presented (reach c hs1) r) (rq_create r) (rq_addr r) (rq_ua r)) r0 = false ->
  key_drawn (w_st (fst (step (reach c hs1) (HReq r)))) k /\
  absent (w_st (fst (step (reach c hs1) (HReq r)))) k /\
  all_steps (lin_claim (lineage (w_st (fst (step (reach c hs1) (HReq r)))) k))
            (fst (step (reach c hs1) (HReq r))) hs2.
Proof. exact invalidated_lineage. Qed.

(* The general form: from any world whose state satisfies C05H's invariant LI
   (every reachable one: C05H_inv_init, C05H_inv_step) in which kn is drawn and
   absent - however that came about. *)
Theorem C07H_lineage_dead :
  forall w kn hs,
  LI (w_st w) -> key_drawn (w_st w) kn -> absent (w_st w) kn -> Forall ff_hop hs -> Forall crash_free hs ->
  all_steps (lin_claim (lineage (w_st w) kn)) w hs.
Proof. exact lineage_dead. Qed.

(* Pointwise: at any later point, a request (any client, jar or forged cookie, any
   peer, createIfNew or not, any script) presenting any ID of the lineage. *)
Theorem C07H_former_id_presented :
  forall w kn hs r k,
  LI (w_st w) -> key_drawn (w_st w) kn -> absent (w_st w) kn -> Forall ff_hop hs -> Forall crash_free hs ->
  rq_plan r = [] -> rq_crash r = None ->
  lineage (w_st w) kn k -> presents (after w hs) r = CKey k ->
  dead_answer (snd (step (after w hs) (HReq r))).
Proof. exact lineage_probe. Qed.

(* At any later point every ID of the lineage still resolves to nothing or to a
   replaced-ID record into the lineage: never to a session, cached or stored. *)
Theorem C07H_lineage_stays :
  forall w kn hs k,
  LI (w_st w) -> key_drawn (w_st w) kn -> absent (w_st w) kn -> Forall ff_hop hs -> Forall crash_free hs ->
  lineage (w_st w) kn k ->
  L (w_st (after w hs)) k = None \/
  exists r t, L (w_st (after w hs)) k = Some r /\ r_ref r = Some t /\ lineage (w_st w) kn t.
Proof. exact lineage_stays. Qed.

(* The invariant behind it, for any set D of IDs: LN D s = LI s and every ID of D
   is drawn and the store holds nothing under it or a replaced-ID record naming
   an ID of D. Every fault-free, crash-free step of every hop kind keeps it. *)
Theorem C07H_inv_meaning :
  forall D s, LN D s <->
  GW (fun s => Q0 s /\
        forall k, D k -> kd (supply s) k /\
          (sref s k = None \/ exists t, sref s k = Some (Some t) /\ D t)) s.
Proof. exact LN_meaning. Qed.

Theorem C07H_inv_step :
  forall D w h, LN D (w_st w) -> ff_hop h -> crash_free h -> LN D (w_st (fst (step w h))).
Proof. exact LN_step. Qed.

(* In the terms of the C01 ghost specification: the session of a dead_answer, if
   any, has content ([], None) and an ID drawn in that step, and g_step accepts
   the step whatever the ghost holds for the client - it is nobody's session. *)
Theorem C07H_dead_answer_fresh :
  forall o, dead_answer o ->
  forall id rc, ob_start o = Some (id, rc) -> content_of rc = ([], None) /\ drawn_in (ob_evs o) id = true.
Proof. exact dead_answer_fresh. Qed.

Theorem C07H_dead_answer_ghost :
  forall o g r, dead_answer o -> fst (g_step g (HReq r) o) = true.
Proof. exact dead_answer_ghost. Qed.

(* Why the lineage taken at the end contains "any ID that ever belonged to it":
   replaced-ID records are immutable. A record k -> j, in any state satisfying
   LI, after any fault-free, crash-free history: k resolves to nothing or still
   to a replaced-ID record naming j (never re-pointed, never a session again)... *)
Theorem C07H_ref_fate :
  forall w hs k j r,
  LI (w_st w) -> L (w_st w) k = Some r -> r_ref r = Some j -> Forall ff_hop hs -> Forall crash_free hs ->
  LI (w_st (after w hs)) /\ key_drawn (w_st (after w hs)) k /\
  (L (w_st (after w hs)) k = None \/ exists r', L (w_st (after w hs)) k = Some r' /\ r_ref r' = Some j).
Proof. exact ref_fate. Qed.

(* ... hence a chain k -> .. -> m of replaced-ID records that existed at any
   earlier point is absorbed: if m is in the lineage taken later, so is k. *)
Theorem C07H_rchain_meaning :
  forall s k m, rchain s k m <-> k = m \/ exists r t, L s k = Some r /\ r_ref r = Some t /\ rchain s t m.
Proof. exact rchain_meaning. Qed.

Theorem C07H_chain_into_lineage :
  forall w hs kn k m,
  LI (w_st w) -> Forall ff_hop hs -> Forall crash_free hs ->
  rchain (w_st w) k m -> lineage (w_st (after w hs)) kn m -> lineage (w_st (after w hs)) kn k.
Proof. exact chain_into_lineage. Qed.

(* ------------------------------------------------------- the chain before the ending request

   The theorems above take the lineage in the state right after the session
   ended. These start from the chain as it stood BEFORE the ending request:
   rchain s k m says k leads to m through replaced-ID records in state s
   (k0 -> k1 -> .. -> m). *)

(* Destroy by the application, in full: the ending request presented kp - the
   session's current ID or a replaced one still in grace (any ID resolving to a
   record) - and its handler's last executed operation is Destroy. Whether or not
   Start (rotation due, or reached through replaced IDs) or the handler (LogIn,
   RegenerateID) changed the session's ID within that request: kp and every ID
   k that led to kp before the request are in the lineage, taken right after the
   request, of the ID kn the handler destroyed, and presenting any of them at any
   later point (any client, jar or forged, createIfNew or not, before or after
   cache loss and restarts) gets a dead_answer. *)
Theorem C07H_destroyed_presented_chain :
  forall c hs1 r kp r0,
  Forall ff_hop hs1 -> Forall crash_free hs1 -> rq_plan r = [] -> rq_crash r = None ->
  presents (reach c hs1) r = CKey kp -> L (w_st (reach c hs1)) kp = Some r0 ->
  ob_script (snd (step (reach c hs1) (HReq r))) <> [] ->
  nth_error (rq_script r) (length (ob_script (snd (step (reach c hs1) (HReq r)))) - 1) = Some SDestroy ->
  exists kn rcf, ob_final (snd (step (reach c hs1) (HReq r))) = Some (kn, rcf) /\
    (forall k, rchain (w_st (reach c hs1)) k kp -> lineage (w_st (fst (step (reach c hs1) (HReq r)))) kn k) /\
    forall k hs2 r2,
      rchain (w_st (reach c hs1)) k kp ->
      Forall ff_hop hs2 -> Forall crash_free hs2 -> rq_plan r2 = [] -> rq_crash r2 = None ->
      presents (after (fst (step (reach c hs1) (HReq r))) hs2) r2 = CKey k ->
      dead_answer (snd (step (after (fst (step (reach c hs1) (HReq r))) hs2) (HReq r2))).
Proof. exact destroyed_presented_chain. Qed.

(* The link inside the ending request, observably: the ID of the session Start
   returned is in the lineage of the ID the handler destroyed, and so is every
   chain that led to it before the request. *)
Theorem C07H_destroyed_start_chain :
  forall w r,
  LI (w_st w) -> rq_plan r = [] -> rq_crash r = None ->
  ob_script (snd (step w (HReq r))) <> [] ->
  nth_error (rq_script r) (length (ob_script (snd (step w (HReq r)))) - 1) = Some SDestroy ->
  exists id0 rc0 kn rcf,
    ob_start (snd (step w (HReq r))) = Some (id0, rc0) /\
    ob_final (snd (step w (HReq r))) = Some (kn, rcf) /\
    forall k, rchain (w_st w) k id0 -> lineage (w_st (fst (step w (HReq r)))) kn k.
Proof. exact destroyed_start_chain. Qed.

(* Without a hypothesis on what was presented: chains that ended, before the
   request, at the very ID the handler destroyed. *)
Theorem C07H_destroyed_chain :
  forall c hs1 r,
  Forall ff_hop hs1 -> Forall crash_free hs1 -> rq_plan r = [] -> rq_crash r = None ->
  ob_script (snd (step (reach c hs1) (HReq r))) <> [] ->
  nth_error (rq_script r) (length (ob_script (snd (step (reach c hs1) (HReq r)))) - 1) = Some SDestroy ->
  exists kn rc, ob_final (snd (step (reach c hs1) (HReq r))) = Some (kn, rc) /\
    forall k hs2 r2,
      rchain (w_st (reach c hs1)) k kn ->
      Forall ff_hop hs2 -> Forall crash_free hs2 -> rq_plan r2 = [] -> rq_crash r2 = None ->
      presents (after (fst (step (reach c hs1) (HReq r))) hs2) r2 = CKey k ->
      dead_answer (snd (step (after (fst (step (reach c hs1) (HReq r))) hs2) (HReq r2))).
Proof. exact destroyed_chain. Qed.

(* Invalidation by Start: the presented ID k0 fails the validity check (idle for
   SessionExpiry, or a peer/agent anomaly) and is destroyed; every ID that led to
   k0 before the request, presented later, gets a dead_answer. *)
Theorem C07H_invalidated_chain :
  forall c hs1 r k0 r0,
  Forall ff_hop hs1 -> Forall crash_free hs1 -> rq_plan r = [] -> rq_crash r = None ->
  presented (reach c hs1) r = CKey k0 -> L (w_st (reach c hs1)) k0 = Some r0 ->
  rec_valid (conf (w_st (reach c hs1))) (now (w_st (reach c hs1)))
            (mkReq (presented (reach c hs1) r) (rq_create r) (rq_addr r) (rq_ua r)) r0 = false ->
  forall k hs2 r2,
    rchain (w_st (reach c hs1)) k k0 ->
    Forall ff_hop hs2 -> Forall crash_free hs2 -> rq_plan r2 = [] -> rq_crash r2 = None ->
    presents (after (fst (step (reach c hs1) (HReq r))) hs2) r2 = CKey k ->
    dead_answer (snd (step (after (fst (step (reach c hs1) (HReq r))) hs2) (HReq r2))).
Proof. exact invalidated_chain. Qed.

Print Assumptions C07H_lineage_meaning.
Print Assumptions C07H_dead_answer_meaning.
Print Assumptions C07H_lin_obs_meaning.
Print Assumptions C07H_lin_claim_meaning.
Print Assumptions C07H_presents_meaning.
Print Assumptions C07H_all_steps_meaning.
Print Assumptions C07H_destroyed_former_ids.
Print Assumptions C07H_invalidated_former_ids.
Print Assumptions C07H_lineage_dead.
Print Assumptions C07H_former_id_presented.
Print Assumptions C07H_lineage_stays.
Print Assumptions C07H_inv_meaning.
Print Assumptions C07H_inv_step.
Print Assumptions C07H_dead_answer_fresh.
Print Assumptions C07H_dead_answer_ghost.
Print Assumptions C07H_ref_fate.
Print Assumptions C07H_rchain_meaning.
Print Assumptions C07H_chain_into_lineage.
Print Assumptions C07H_destroyed_presented_chain.
Print Assumptions C07H_destroyed_start_chain.
Print Assumptions C07H_destroyed_chain.
Print Assumptions C07H_invalidated_chain.
(* non-vacuity (Proofs/LineageEx.v): two ID changes, Destroy during grace, all
   three IDs presented before and after a restart and a cache loss *)
Print Assumptions lx_life.
Print Assumptions lx_destroyed_hyps.
Print Assumptions lx_state_after_destroy.
Print Assumptions lx_lineage.
Print Assumptions lx_answers.
Print Assumptions lx_theorem.
Print Assumptions lx_probe.
Print Assumptions lx_chain.
Print Assumptions lx_invalidated.
(* the ending request changes the ID itself (Start's rotation, then RegenerateID, then Destroy) *)
Print Assumptions lx_changing_hyps.
Print Assumptions lx_changing_theorem.
Print Assumptions lx_changing_answers.
