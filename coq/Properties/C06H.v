(* C06 at the history level — IP and user-agent anomalies destroy the session
   for good; legitimate changes move it along.
   Statements only; proofs are in Proofs/LiveHist8.v (built on PC's
   StartLaws*.v, PF's HistInv*.v / DeadLaws.v). Vocabulary as in
   Properties/C02H.v and Properties/C06.v. *)
From Sessions Require Import Model.Base Model.Sess Model.Hist Proofs.SessDefs
  Proofs.HistInv Proofs.HistInv2 Proofs.HistInv3 Proofs.LiveHist4 Proofs.LiveHist8.
From Sessions Require Proofs.StartLaws Proofs.StartLaws2 Proofs.StartLaws3.

(* C06_destroy's state hypotheses hold in every state reached by a fault-free,
   crash-free history: a request whose peer or agent fails the rule for the
   record the presented ID resolves to (session or replaced-ID record) gets no
   existing session, the record is gone from cache and store, the deletion
   cookie is sent, every other ID keeps its content *)
Theorem C06H_destroy :
  forall c hs r k r0,
    Forall ff_hop hs -> Forall crash_free hs ->
    pres (reach c hs) r = CKey k -> L (w_st (reach c hs)) k = Some r0 ->
    ip_ok (c_acceptip (conf (w_st (reach c hs)))) (r_ip r0) (rq_addr r) = false \/
    ua_ok (c_acceptua (conf (w_st (reach c hs)))) (r_ua r0) (rq_ua r) = false ->
    let w := reach c hs in
    let s1 := req_s1 w r in
    let q := req_q w r in
    exists s' res nck,
      start s1 q = (s', res, CkDelete :: nck) /\
      StartLaws3.no_session s1 q s' res nck /\
      lookup (cache s') k = None /\ lookup (store s') k = None /\
      (forall k', k' <> k -> k' <> KGen (supply (w_st w)) -> StartLaws.Lc s' k' = StartLaws.Lc (w_st w) k') /\
      StartLaws2.ok s' /\ conf s' = conf (w_st w).
Proof. exact anomaly_hist. Qed.

(* ... and for good: the step does not return the session, starts its response
   with the expiring cookie, the client does not keep the ID, and the ID never
   resolves again in any fault-free continuation (crashes, cache loss, restarts
   allowed); no later step saves under it, returns it or sends it as cookie *)
Theorem C06H_destroy_for_good :
  forall c hs1 r hs2 k r0,
    Forall ff_hop hs1 -> rq_plan r = [] -> rq_crash r = None -> Forall ff_hop hs2 ->
    pres (reach c hs1) r = CKey k -> L (w_st (reach c hs1)) k = Some r0 ->
    ip_ok (c_acceptip (conf (w_st (reach c hs1)))) (r_ip r0) (rq_addr r) = false \/
    ua_ok (c_acceptua (conf (w_st (reach c hs1)))) (r_ua r0) (rq_ua r) = false ->
    (forall rc, ob_start (snd (step (reach c hs1) (HReq r))) <> Some (k, rc)) /\
    (exists rest, ob_cookies (snd (step (reach c hs1) (HReq r))) = CkDelete :: rest /\ ~ In (CkLive k) rest) /\
    (rq_present r = PJar -> ob_jar (snd (step (reach c hs1) (HReq r))) <> CKey k) /\
    L (w_st (after (fst (step (reach c hs1) (HReq r))) hs2)) k = None /\
    Forall (dead_obs k) (run_from (fst (step (reach c hs1) (HReq r))) hs2).
Proof. exact anomaly_dead_hist. Qed.

(* C06_moves has no state hypotheses; as a step reports it — every world, any
   fault plan, crash or not: the session a request step reports as returned by
   Start records this request's peer address and agent and the current instant *)
Theorem C06H_moves :
  forall w r k rc,
    ob_start (snd (step w (HReq r))) = Some (k, rc) ->
    r_ip rc = rq_addr r /\ r_ua rc = rq_ua r /\ r_access rc = now (w_st w).
Proof. exact moves_obs. Qed.

Print Assumptions C06H_destroy.
Print Assumptions C06H_destroy_for_good.
Print Assumptions C06H_moves.
(* non-vacuity (Proofs/LiveHist8.v, Module Ex8) *)
Print Assumptions Ex8.anomaly_applies.
Print Assumptions Ex8.moves_applies.
