(* C19 — generated identifiers have the promised shape, entropy and uniqueness.
   Statements only; proofs are in Proofs/IdsLaws.v, IdsLaws2.v, IdsLaws3.v; the
   models are in Model/Ids.v. Bytes are N below 256 (all_bytes); streams are
   what crypto/rand.Reader delivers; wall-clock readings are (Unix seconds,
   nanoseconds). *)
From Coq Require Import String.
From Sessions Require Import Model.Base Model.Ids Gen.Consts
  Proofs.IdsLaws Proofs.IdsLaws2 Proofs.IdsLaws3.
Local Open Scope N_scope.

(* ---- the source as it is now ---- *)

Theorem C19_source_constants :
  ids_reference_date = 1483228800000 /\ ids_session_bytes = 16 /\
  ids_start_guard_len = 24 /\
  ids_rid_chars = b62_v1 /\ ids_rid_modulus = 62 /\
  ids_cuid_chars = b62_v1 /\ ids_cuid_base = 62 /\
  ids_cuid_literals = cuid_literals_v1 /\ ids_cuid_digits = 11.
Proof. exact ids_consts_pinned. Qed.

Theorem C19_source_randomness_and_lock :
  ids_rand_import = "crypto/rand"%string /\
  ids_session_source = "rand.Read(b);"%string /\
  ids_session_encoding = "base64.StdEncoding"%string /\
  ids_rid_source = "rand.Reader.Read(b[:]);"%string /\
  ids_cuid_locked = true.
Proof. exact ids_sources_pinned. Qed.

(* ---- session IDs ---- *)

Theorem C19_b64_length :
  forall s : bytes, length s = 16%nat -> length (b64_encode s) = 24%nat.
Proof. exact b64_length. Qed.

(* the decoder is a left inverse (on byte strings of every length, 16 included) *)
Theorem C19_b64_injective :
  forall s : bytes, all_bytes s = true -> b64_decode (b64_encode s) = Some s.
Proof. exact b64_decode_encode. Qed.

Theorem C19_b64_cookie_safe :
  forall s : bytes, all_bytes s = true -> forallb cookie_safe_byte (b64_encode s) = true.
Proof. exact b64_cookie_safe. Qed.

Theorem C19_session_id_shape :
  forall stream id rest : bytes,
    generate_session_id stream = Some (id, rest) ->
    length id = 24%nat /\ (length rest + 16 = length stream)%nat /\ start_guard id = true.
Proof. exact session_id_shape. Qed.

Theorem C19_session_id_injective :
  forall s1 s2 id r1 r2 : bytes,
    all_bytes s1 = true -> all_bytes s2 = true ->
    generate_session_id s1 = Some (id, r1) -> generate_session_id s2 = Some (id, r2) ->
    firstn 16 s1 = firstn 16 s2.
Proof. exact session_id_injective. Qed.

Theorem C19_session_id_cookie_roundtrip :
  forall stream id rest : bytes,
    all_bytes stream = true ->
    generate_session_id stream = Some (id, rest) ->
    forallb cookie_safe_byte id = true /\
    sanitize_cookie_value id = id /\ parse_cookie_value id = Some id.
Proof. exact session_id_cookie_roundtrip. Qed.

(* ---- RandomID ---- *)

Theorem C19_rid_length :
  forall (n : nat) (stream id rest : bytes),
    random_id n stream = Some (id, rest) ->
    length id = n /\ (length rest + n = length stream)%nat.
Proof. exact rid_length. Qed.

Theorem C19_rid_total :
  forall (n : nat) (stream : bytes),
    (n <= length stream)%nat -> exists id rest, random_id n stream = Some (id, rest).
Proof. exact random_id_total. Qed.

Theorem C19_rid_alphabet :
  forall (n : nat) (stream id rest : bytes),
    random_id n stream = Some (id, rest) -> forall ch, In ch id -> In ch ids_rid_chars.
Proof. exact rid_alphabet. Qed.

Theorem C19_rid_symbols :
  length ids_rid_chars = 62%nat /\ NoDup ids_rid_chars /\
  forall b, In b ids_rid_chars <-> alnum b = true.
Proof. exact rid_symbols. Qed.

Theorem C19_rid_surjective :
  forall ch : N, In ch ids_rid_chars -> exists b, b < 256 /\ rid_symbol b = ch.
Proof. exact rid_surjective. Qed.

Theorem C19_rid_every_symbol_occurs :
  forall (ch : N) (n : nat),
    In ch ids_rid_chars -> (0 < n)%nat ->
    exists stream id, all_bytes stream = true /\ random_id n stream = Some (id, []) /\ In ch id.
Proof. exact rid_every_symbol_occurs. Qed.

(* ---- CUID ---- *)

Theorem C19_cuid_length :
  forall (mac : bytes) (st : cuid_state) (sec : Z) (nsec : N),
    length (snd (cuid_step mac st sec nsec)) = 11%nat.
Proof. exact cuid_length. Qed.

Theorem C19_cuid_alphabet :
  forall (mac : bytes) (st : cuid_state) (sec : Z) (nsec : N),
    forall ch, In ch (snd (cuid_step mac st sec nsec)) -> In ch ids_cuid_chars.
Proof. exact cuid_alphabet. Qed.

(* injective in the 64-bit word: 62^11 > 2^64 *)
Theorem C19_cuid_injective :
  forall w1 w2 : N, w1 < pow64 -> w2 < pow64 -> cuid_string w1 = cuid_string w2 -> w1 = w2.
Proof. exact cuid_string_injective. Qed.

(* the uint64 arithmetic of the timestamp, wrap-around included *)
Theorem C19_cuid_timestamp_spec :
  forall (sec : Z) (nsec : N),
    nsec < 1000000000 ->
    Z.of_N (cuid_timestamp sec nsec) = (wall_ms sec nsec mod 1099511627776)%Z.
Proof. exact cuid_timestamp_spec. Qed.

(* the word under the digits: timestamp, then (hash * 256 + counter) mod 2^24 *)
Theorem C19_cuid_bits_spec :
  forall (mac : bytes) (ts lc : N),
    ts < p40 -> cuid_bits mac ts lc = ts * p24 + (mac_hash mac * 256 + lc) mod p24.
Proof. exact cuid_bits_spec. Qed.

Theorem C19_cuid_unique :
  forall (mac : bytes) (st : cuid_state) (times : list (Z * N)),
    nondecreasing (map ts_of times) -> bounded_repeats (map ts_of times) ->
    NoDup (cuid_run mac st times).
Proof. exact cuid_unique. Qed.

Theorem C19_cuid_unique_contiguous :
  forall (mac : bytes) (st : cuid_state) (times : list (Z * N)),
    contiguous (map ts_of times) -> bounded_repeats (map ts_of times) ->
    NoDup (cuid_run mac st times).
Proof. exact cuid_unique_contiguous. Qed.

Theorem C19_cuid_unique_wallclock :
  forall (mac : bytes) (st : cuid_state) (times : list (Z * N)),
    (forall t, In t times -> nsec_ok t) ->
    (forall a b, In a times -> In b times -> epoch_of a = epoch_of b) ->
    znondecreasing (map ms_of times) ->
    (forall m, zoccurrences (map ms_of times) m <= p24) ->
    NoDup (cuid_run mac st times).
Proof. exact cuid_unique_wallclock. Qed.

Theorem C19_cuid_ordered :
  forall (mac : bytes) (st1 st2 : cuid_state) (sec1 sec2 : Z) (nsec1 nsec2 : N),
    cuid_timestamp sec1 nsec1 < cuid_timestamp sec2 nsec2 ->
    lex_lt (snd (cuid_step mac st1 sec1 nsec1)) (snd (cuid_step mac st2 sec2 nsec2)) = true.
Proof. exact cuid_ordered. Qed.

Theorem C19_cuid_ordered_wallclock :
  forall (mac : bytes) (st1 st2 : cuid_state) (sec1 sec2 : Z) (nsec1 nsec2 : N),
    nsec1 < 1000000000 -> nsec2 < 1000000000 ->
    (wall_ms sec1 nsec1 < wall_ms sec2 nsec2)%Z ->
    (wall_ms sec1 nsec1 / 1099511627776 = wall_ms sec2 nsec2 / 1099511627776)%Z ->
    lex_lt (snd (cuid_step mac st1 sec1 nsec1)) (snd (cuid_step mac st2 sec2 nsec2)) = true.
Proof. exact cuid_ordered_wallclock. Qed.

(* observations outside the property's scope *)
Theorem C19_cuid_clock_back_refuted :
  exists mac st times,
    bounded_repeats (map ts_of times) /\ ~ contiguous (map ts_of times) /\
    ~ NoDup (cuid_run mac st times).
Proof. exact cuid_clock_back_refuted. Qed.

Theorem C19_cuid_burst_refuted :
  forall (mac : bytes) (t c : N) (sec : Z) (nsec : N),
    cuid_timestamp sec nsec = t -> c + p24 + 1 < pow64 ->
    snd (cuid_step mac {| cs_last_time := t; cs_last_counter := c |} sec nsec) =
    snd (cuid_step mac {| cs_last_time := t; cs_last_counter := c + p24 |} sec nsec).
Proof. exact cuid_burst_refuted. Qed.

Print Assumptions C19_source_constants.
Print Assumptions C19_source_randomness_and_lock.
Print Assumptions C19_b64_length.
Print Assumptions C19_b64_injective.
Print Assumptions C19_b64_cookie_safe.
Print Assumptions C19_session_id_shape.
Print Assumptions C19_session_id_injective.
Print Assumptions C19_session_id_cookie_roundtrip.
Print Assumptions C19_rid_length.
Print Assumptions C19_rid_total.
Print Assumptions C19_rid_alphabet.
Print Assumptions C19_rid_symbols.
Print Assumptions C19_rid_surjective.
Print Assumptions C19_rid_every_symbol_occurs.
Print Assumptions C19_cuid_length.
Print Assumptions C19_cuid_alphabet.
Print Assumptions C19_cuid_injective.
Print Assumptions C19_cuid_timestamp_spec.
Print Assumptions C19_cuid_bits_spec.
Print Assumptions C19_cuid_unique.
Print Assumptions C19_cuid_unique_contiguous.
Print Assumptions C19_cuid_unique_wallclock.
Print Assumptions C19_cuid_ordered.
Print Assumptions C19_cuid_ordered_wallclock.
Print Assumptions C19_cuid_clock_back_refuted.
Print Assumptions C19_cuid_burst_refuted.
