(* The conditions of the modelled functions are those the model was written
   against (regenerated from session.go / cache.go on every run). *)
From Coq Require Import List String.
From Sessions Require Import Gen.SessShape Proofs.ShapePinned.

Theorem sess_shape_pinned : sess_conditions = sess_conditions_v1.
Proof. reflexivity. Qed.

(* Start and LogIn take the per-ID lock and release it by defer; no other use. *)
Theorem idlock_uses_pinned : idlock_uses = idlock_uses_v1.
Proof. reflexivity. Qed.

Print Assumptions sess_shape_pinned.
Print Assumptions idlock_uses_pinned.
