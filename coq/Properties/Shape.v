(* The conditions of the modelled functions are those the model was written
   against (regenerated from session.go / cache.go on every run). *)
From Coq Require Import List String.
From Sessions Require Import Gen.SessShape Gen.LockPos Proofs.ShapePinned.

Theorem sess_shape_pinned : sess_conditions = sess_conditions_v1.
Proof. reflexivity. Qed.

(* Start and LogIn take the per-ID lock and release it by defer; no other use. *)
Theorem idlock_uses_pinned : idlock_uses = idlock_uses_v1.
Proof. reflexivity. Qed.

(* Where the lock is taken (Gen/LockPos.v: the statements of Start and LogIn
   that matter for the critical section, in source order with their blocks):
   the table is the one the model was written against, ... *)
Theorem lock_events_pinned : lock_events = lock_events_v1.
Proof. reflexivity. Qed.

(* ... and, whatever else it says: in Start, `Lock(x)`, `defer Unlock(x)` and
   `sessions.Get(x)` on the same expression stand directly after one another in
   one block; before them the function only assigns and returns (it touches
   neither the session table nor the lock manager); after them there is no
   further use of the lock manager, nothing deferred or run as a goroutine, no
   function literal. So every access Start makes to the session table lies
   between taking the lock on the presented ID and the deferred release. *)
Theorem start_lock_precedes_get :
  lock_shape lev_inert "get" true (events_of "Start" lock_events).
Proof. apply lock_shapeb_sound. vm_compute. reflexivity. Qed.

(* In LogIn, `Lock(x)`, `defer Unlock(x)` and the call of RegenerateID stand
   directly after one another in one block; before them LogIn only assigns,
   returns and stores the session (the user), after them it only returns. *)
Theorem login_lock_brackets_regenerate :
  lock_shape lev_inert_or_set "regenerate" false (events_of "Session.LogIn" lock_events).
Proof. apply lock_shapeb_sound. vm_compute. reflexivity. Qed.

Print Assumptions sess_shape_pinned.
Print Assumptions idlock_uses_pinned.
Print Assumptions lock_events_pinned.
Print Assumptions start_lock_precedes_get.
Print Assumptions login_lock_brackets_regenerate.
