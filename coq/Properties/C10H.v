(* C10 at the level of histories — C10_restart: after a crash in the middle of an
   ID change the old ID (and, once every call was made, the new ID) is served
   with the session's content. Statements only; proofs are in
   Proofs/CrashRestart.v (Start on an empty cache), CrashRestart2.v (the world
   Hist.step's crash branch leaves; the rotating Start) and CrashRestart3.v,
   built on PE's store-level theorems (Properties/C10.v: C10_resolves_start,
   frozen, resolves_to), PF's closed forms of cache.Get / Start / RegenerateID
   (Proofs/HistInv*.v) and PA's cache invariant. Fault-free.

   Scenario (rot_crash w r n k D U): in world w — satisfying the invariants of
   SessDefs.v (sess_inv: they hold after every fault-free, crash-free history,
   C07) — request step r, fault-free, with no handler script, presents k (jar or
   forged); k is a session with data D and user ID U in the store and, if
   cached, in the cache (PE's presented); Start rotates k (PE's start_rotates:
   the record is acceptable and SessionIDExpiry has passed); the process stops
   after n persistence calls (rq_crash r = Some n); the grace period is positive
   and no clean-up of w is due (so none fires inside the step).

   probe_ok c t q rk   the stored record rk under the ID the next request
                       presents makes that request acceptable at time t: idle
                       time below SessionExpiry, AcceptRemoteIP / agent rules
                       met w.r.t. rk's recorded peer and agent, and — for a
                       replaced-ID record, or a session whose ID is not due —
                       age below SessionIDExpiry + grace (the backstop)
   probe_q k r2        the request r2 makes when it presents k
   req_end w r         the state the API calls of step r had reached when the
                       process stopped (its event log lists the step's calls)
   pres w r            what request step r presents in world w *)
From Sessions Require Import Model.Base Model.Sess Model.Hist Proofs.SessDefs
  Proofs.HistInv Proofs.HistInv2 Proofs.HistInv3.
From Sessions Require Import Proofs.CrashFault3 Proofs.CrashFault5 Proofs.CrashFault6 Proofs.LiveHist4.
From Sessions Require Import Proofs.CrashRestart Proofs.CrashRestart2 Proofs.CrashRestart3 Proofs.CrashRestart4.
Local Open Scope Z_scope.

(* what the scenario assumes, spelled out *)
Theorem C10H_scenario : forall w r n k D U,
  rot_crash w r n k D U <->
  sess_inv (w_st w) /\ rq_plan r = [] /\ rq_crash r = Some n /\ rq_script r = [] /\
  pres w r = CKey k /\ presented (w_st w) k D U /\
  start_rotates (req_s1 w r) (req_q w r) = true /\
  0 < c_grace (conf (w_st w)) /\
  (forall d k', In (d, k') (pending (w_st w)) -> now (w_st w) < d).
Proof. exact rot_crash_meaning. Qed.

Theorem C10H_probe_ok_meaning : forall c t q rk,
  probe_ok c t q rk <->
  (negb (c_expiry c <=? since (r_access rk) t) && ip_ok (c_acceptip c) (r_ip rk) (q_addr q)
   && ua_ok (c_acceptua c) (r_ua rk) (q_ua q) = true /\
   ((r_ref rk <> None \/ since (r_created rk) t < c_idexpiry c) ->
    since (r_created rk) t < sat_add (c_idexpiry c) (c_grace c))).
Proof. exact probe_ok_meaning. Qed.

(* The world after the crash: the store is PE's frozen store of the rotating
   Start's events; cache, pending work and the response are lost; clock,
   configuration and cookie jars are as before. The old ID resolves in it (at
   most one hop) to a record with the pre-call data and user; so does the new ID
   when n covers all persistence calls of the step. *)
Theorem C10H_crash_world : forall w r n k D U,
  rot_crash w r n k D U ->
  let s' := w_st (fst (step w (HReq r))) in
  exists l s2 o cks,
    start (req_s1 w r) (req_q w r) = (s2, Ok (Some o), cks) /\ l = rev (evs s2) /\
    length l = length (evs (req_end w r)) /\
    store s' = frozen (req_s1 w r) l n /\
    cache s' = [] /\ plan s' = [] /\ now s' = now (w_st w) /\ conf s' = conf (w_st w) /\
    w_jars (fst (step w (HReq r))) = w_jars w /\
    resolves_to (full D U) (store s') k /\
    ((length l <= n)%nat -> resolves_to (full D U) (store s') (KGen (supply (w_st w)))).
Proof. exact crash_store_rot. Qed.

(* C10_restart, old ID: the next request (any script, any client or a forged
   cookie) presenting k is served — Start returns a session, not a replaced-ID
   record, carrying the pre-call data and user *)
Theorem C10H_restart_old : forall w r n k D U r2,
  rot_crash w r n k D U ->
  let w' := fst (step w (HReq r)) in
  rq_plan r2 = [] -> rq_crash r2 = None -> pres w' r2 = CKey k ->
  (forall rk, lookup (store (w_st w')) k = Some rk ->
     probe_ok (conf (w_st w)) (now (w_st w)) (probe_q k r2) rk) ->
  ob_res (snd (step w' (HReq r2))) = RSess /\
  exists id rc, ob_start (snd (step w' (HReq r2))) = Some (id, rc) /\ r_ref rc = None /\ full D U rc.
Proof. exact restart_old. Qed.

(* the same after a wait of d (within grace and SessionExpiry: probe_ok at the
   later instant) *)
Theorem C10H_restart_old_later : forall w r n k D U d r2,
  rot_crash w r n k D U ->
  let w' := fst (step w (HReq r)) in let w2 := fst (step w' (HWait d)) in
  rq_plan r2 = [] -> rq_crash r2 = None -> pres w2 r2 = CKey k ->
  (forall rk, lookup (store (w_st w')) k = Some rk ->
     probe_ok (conf (w_st w)) (now (w_st w) + d) (probe_q k r2) rk) ->
  ob_res (snd (step w2 (HReq r2))) = RSess /\
  exists id rc, ob_start (snd (step w2 (HReq r2))) = Some (id, rc) /\ r_ref rc = None /\ full D U rc.
Proof. exact restart_old_later. Qed.

(* C10_restart, new ID: when the process stopped after the last persistence call
   of the step, a request presenting the new ID is served the same way *)
Theorem C10H_restart_new : forall w r n k D U r2,
  rot_crash w r n k D U ->
  let w' := fst (step w (HReq r)) in let nid := KGen (supply (w_st w)) in
  (length (evs (req_end w r)) <= n)%nat ->
  rq_plan r2 = [] -> rq_crash r2 = None -> pres w' r2 = CKey nid ->
  (forall rk, lookup (store (w_st w')) nid = Some rk ->
     probe_ok (conf (w_st w)) (now (w_st w)) (probe_q nid r2) rk) ->
  ob_res (snd (step w' (HReq r2))) = RSess /\
  exists id rc, ob_start (snd (step w' (HReq r2))) = Some (id, rc) /\ r_ref rc = None /\ full D U rc.
Proof. exact restart_new. Qed.

(* ---- the ID change made by the handler: script [RegenerateID] ----

   Scenario (regen_crash w r n k o ob): as above, but Start does not rotate: the
   presented ID k is cached as object o (content ob, a session record), the
   store holds its durable part (write-through, C09), the record is acceptable
   and neither due nor past the backstop — Start makes no persistence call —
   and the script is [SRegen]. D and U are the data and user ID of ob. *)
Theorem C10H_scenario_handler : forall w r n k o ob,
  regen_crash w r n k o ob <->
  sess_inv (w_st w) /\ rq_plan r = [] /\ rq_crash r = Some n /\ rq_script r = [SRegen] /\
  pres w r = CKey k /\ lookup (cache (w_st w)) k = Some o /\ hget (w_st w) o = Some ob /\
  r_ref (o_rec ob) = None /\
  (exists r0, lookup (store (w_st w)) k = Some r0 /\ durable r0 = durable (codec (conf (w_st w)) (o_rec ob))) /\
  rec_valid (conf (w_st w)) (now (w_st w)) (req_q w r) (o_rec ob) = true /\
  (c_idexpiry (conf (w_st w)) <=? since (r_created (o_rec ob)) (now (w_st w))) = false /\
  (sat_add (c_idexpiry (conf (w_st w))) (c_grace (conf (w_st w))) <=? since (r_created (o_rec ob)) (now (w_st w))) = false /\
  0 < c_grace (conf (w_st w)) /\
  (forall d k', In (d, k') (pending (w_st w)) -> now (w_st w) < d).
Proof. exact regen_crash_meaning. Qed.

Theorem C10H_crash_world_handler : forall w r n k o ob,
  regen_crash w r n k o ob ->
  let D := dat (o_rec ob) in let U := uid (o_rec ob) in
  let s' := w_st (fst (step w (HReq r))) in
  exists l,
    cache s' = [] /\ plan s' = [] /\ now s' = now (w_st w) /\ conf s' = conf (w_st w) /\
    store s' = frozen (w_st w) l n /\ length l = length (evs (req_end w r)) /\
    resolves_to (full D U) (store s') k /\
    ((length l <= n)%nat -> resolves_to (full D U) (store s') (KGen (supply (w_st w)))).
Proof. exact crash_store_regen. Qed.

Theorem C10H_restart_old_handler : forall w r n k o ob r2,
  regen_crash w r n k o ob ->
  let w' := fst (step w (HReq r)) in
  rq_plan r2 = [] -> rq_crash r2 = None -> pres w' r2 = CKey k ->
  (forall rk, lookup (store (w_st w')) k = Some rk ->
     probe_ok (conf (w_st w)) (now (w_st w)) (probe_q k r2) rk) ->
  ob_res (snd (step w' (HReq r2))) = RSess /\
  exists id rc, ob_start (snd (step w' (HReq r2))) = Some (id, rc) /\ r_ref rc = None /\
                full (dat (o_rec ob)) (uid (o_rec ob)) rc.
Proof. exact restart_old_regen. Qed.

Theorem C10H_restart_new_handler : forall w r n k o ob r2,
  regen_crash w r n k o ob ->
  let w' := fst (step w (HReq r)) in let nid := KGen (supply (w_st w)) in
  (length (evs (req_end w r)) <= n)%nat ->
  rq_plan r2 = [] -> rq_crash r2 = None -> pres w' r2 = CKey nid ->
  (forall rk, lookup (store (w_st w')) nid = Some rk ->
     probe_ok (conf (w_st w)) (now (w_st w)) (probe_q nid r2) rk) ->
  ob_res (snd (step w' (HReq r2))) = RSess /\
  exists id rc, ob_start (snd (step w' (HReq r2))) = Some (id, rc) /\ r_ref rc = None /\
                full (dat (o_rec ob)) (uid (o_rec ob)) rc.
Proof. exact restart_new_regen. Qed.

Theorem C10H_ex_scenario_handler : forall n, regen_crash wG (r1G n) n (KGen 1) 0 obG.
Proof. exact regen_crash_ex. Qed.

Theorem C10H_ex_outcomes_handler :
  Forall (fun n => exists rk,
    outcomeG n = (RCrashed, CKey (KGen 1), Some rk, RSess, Some ([(1%N, 2%N)], Some 5%N)) /\
    probe_ok (conf (w_st wG)) (now (w_st wG)) (probe_q (KGen 1) r2X) rk)
  [0; 1; 2; 3]%nat.
Proof. exact restart_regen_ex. Qed.

(* the client's browser never saw a response: its jar still holds the old ID *)
Theorem C10H_jar_kept : forall w r n c,
  rq_crash r = Some n -> jar_of (w_jars (fst (step w (HReq r)))) c = jar_of (w_jars w) c.
Proof. exact crash_jar. Qed.

(* The general tool: a request presenting k to a world with an empty cache in
   whose store k resolves (at most one hop) to a session with content (D, U). *)
Theorem C10H_probe : forall w r k D U,
  plan (w_st w) = [] -> cache (w_st w) = [] ->
  rq_plan r = [] -> rq_crash r = None -> pres w r = CKey k ->
  resolves_to (full D U) (store (w_st w)) k ->
  (forall rk, lookup (store (w_st w)) k = Some rk ->
     probe_ok (conf (w_st w)) (now (w_st w)) (mkReq (CKey k) (rq_create r) (rq_addr r) (rq_ua r)) rk) ->
  ob_res (snd (step w (HReq r))) = RSess /\
  exists id rc, ob_start (snd (step w (HReq r))) = Some (id, rc) /\ r_ref rc = None /\ full D U rc.
Proof. exact probe_step. Qed.

(* non-vacuity: the scenario holds of a concrete history for every crash point,
   and the outcomes are as stated (n = 0..4 covers: before any save, after the
   save of the new record, after the save of the replaced-ID record) *)
Theorem C10H_ex_scenario : forall n, rot_crash wX (r1X n) n (KGen 1) [(1%N, 2%N)] (Some 5%N).
Proof. exact rot_crash_ex. Qed.

Theorem C10H_ex_outcomes :
  Forall (fun n => exists rk,
    outcome n = (RCrashed, CKey (KGen 1), Some rk, RSess, Some ([(1%N, 2%N)], Some 5%N)) /\
    probe_ok (conf (w_st wX)) (now (w_st wX)) (probe_q (KGen 1) r2X) rk)
  [0; 1; 2; 3; 4]%nat.
Proof. exact restart_ex. Qed.

Print Assumptions C10H_scenario.
Print Assumptions C10H_probe_ok_meaning.
Print Assumptions C10H_crash_world.
Print Assumptions C10H_restart_old.
Print Assumptions C10H_restart_old_later.
Print Assumptions C10H_restart_new.
Print Assumptions C10H_scenario_handler.
Print Assumptions C10H_crash_world_handler.
Print Assumptions C10H_restart_old_handler.
Print Assumptions C10H_restart_new_handler.
Print Assumptions C10H_ex_scenario_handler.
Print Assumptions C10H_ex_outcomes_handler.
Print Assumptions C10H_jar_kept.
Print Assumptions C10H_probe.
Print Assumptions C10H_ex_scenario.
Print Assumptions C10H_ex_outcomes.
