(* C05 at history level — replaced IDs reach the live session during grace and
   nothing afterwards, along fault-free, crash-free histories (Hist.step,
   Hist.run). Statements only; proofs are in Proofs/HistLift.v .. HistLift9.v,
   built on the per-call theorems of Properties/C05.v (PD), the history invariant
   of Properties/C07.v (PF) and the closed forms of Proofs/HistInv*.v.

   reach c hs     the world after history hs from the initial state init_st c
   after w hs     the world after history hs from world w
   LI s           the invariant between steps: PF's winv, and on the store's
                  view: cached objects agree with the stored record on the
                  reference field, an ID awaiting clean-up is not stored as a
                  session, stored references name drawn IDs with larger ordinals
                  than the ID they are stored under, no ID is queued twice
   Lref s k x     k resolves (L) to a record whose reference field is x
   hist_ok P w hs every hop of hs satisfies P in the world it starts from
   presents w r   what request step r presents (the client's jar or a forged value) *)
From Sessions Require Import Model.Base Model.Sess Model.Hist Proofs.SessDefs
  Proofs.HistInv Proofs.HistInv2 Proofs.HistInv3 Proofs.HistLift Proofs.HistLift2 Proofs.HistLift3
  Proofs.HistLift4 Proofs.HistLift5 Proofs.HistLift6 Proofs.HistLift7 Proofs.HistLift8 Proofs.HistLift9
  Proofs.HistLiftEx.
From Sessions Require Proofs.RotateLaws3 Proofs.RotateLaws4.

(* --- 1. references point upwards in every reachable state ---------------- *)

(* The invariant holds initially, is preserved by every fault-free, crash-free
   step of every hop kind (requests with any script, waits, purges, cache loss,
   restarts, user-wide logout/refresh, reconfiguration), and implies the
   invariants of SessDefs.v and PD's ref_wf. *)
Theorem C05H_inv_init : forall c, LI (init_st c).
Proof. exact LI_init. Qed.

Theorem C05H_inv_step :
  forall w h, LI (w_st w) -> ff_hop h -> crash_free h -> LI (w_st (fst (step w h))).
Proof. exact LI_step. Qed.

Theorem C05H_inv_implies :
  forall s, LI s -> sess_inv s /\ RotateLaws4.ref_wf s.
Proof. exact LI_implies. Qed.

Theorem C05H_ref_wf_hist :
  forall c hs, Forall ff_hop hs -> Forall crash_free hs -> RotateLaws4.ref_wf (w_st (reach c hs)).
Proof. exact ref_wf_hist. Qed.

(* In every response of every fault-free, crash-free history: the result is
   never the error ERefLoop (the fuel Start gives to follow is never used up),
   and neither the session Start hands to the handler nor the handler's session
   at the end of the script is a replaced-ID record. No hypothesis on the
   presented values. *)
Theorem C05H_never_placeholder_hist :
  forall c hs, Forall ff_hop hs -> Forall crash_free hs ->
  Forall (fun o => ob_res o <> RErr ERefLoop /\
                   (forall k r, ob_start o = Some (k, r) -> r_ref r = None) /\
                   (forall k r, ob_final o = Some (k, r) -> r_ref r = None)) (run c hs).
Proof. exact never_placeholder_hist. Qed.

(* --- 3. the grace period -------------------------------------------------- *)

(* Where replaced-ID records come from: after a request step at instant T with
   grace period g configured, every ID that resolves to a reference record
   either resolved to the same reference before the step, or its clean-up is
   queued for T + g. *)
Theorem C05H_placeholder_origin :
  forall w r k j, LI (w_st w) -> rq_plan r = [] -> rq_crash r = None ->
  let s := w_st w in let s' := w_st (fst (step w (HReq r))) in
  Lref s' k (Some j) -> Lref s k (Some j) \/ In ((now s + c_grace (conf s))%Z, k) (pending s').
Proof. exact placeholder_origin_L. Qed.

(* A replaced-ID record k -> j whose clean-up is queued for d0 is kept: after any
   history of fault-free, crash-free hops other than restarts, started while the
   clock is below d0, in which waits keep the clock below d0 and no request that
   presents k itself is answered with a deletion cookie or the expired-ID error
   (kept_hop), k still resolves to a reference to j and the clean-up is still
   queued. Nothing else deletes or overwrites it: not the requests of other
   clients, not handlers, not user-wide logouts, not flushes, purges, cache
   loss or reconfiguration (the grace period may even change). *)
Theorem C05H_grace_kept :
  forall k j d0 w hs,
  LI (w_st w) -> Lref (w_st w) k (Some j) -> In (d0, k) (pending (w_st w)) ->
  hist_ok (kept_hop k d0) w hs ->
  let s := w_st (after w hs) in
  LI s /\ Lref s k (Some j) /\ In (d0, k) (pending s).
Proof. exact kept_after_L. Qed.

(* The two together, for one ID change: an ID k that is a session's ID before a
   request step at instant T (grace period g configured) and a reference to j
   after it stays a reference to j, clean-up queued for T + g, through every
   later history of kept hops: it is not deleted before its clean-up is due. *)
Theorem C05H_replaced_kept :
  forall w r0 k j hs, LI (w_st w) -> rq_plan r0 = [] -> rq_crash r0 = None ->
  let s := w_st w in let w1 := fst (step w (HReq r0)) in
  Lref s k None -> Lref (w_st w1) k (Some j) ->
  hist_ok (kept_hop k (now s + c_grace (conf s))) w1 hs ->
  let s2 := w_st (after w1 hs) in
  LI s2 /\ Lref s2 k (Some j) /\ In ((now s + c_grace (conf s))%Z, k) (pending s2).
Proof. exact replaced_kept. Qed.

(* the conditions on the hops, spelled out *)
Theorem C05H_kept_hop_def :
  forall k0 d0 w h, kept_hop k0 d0 w h <->
  ff_hop h /\ crash_free h /\ (now (w_st w) < d0)%Z /\
  match h with
  | HReq r => presents w r = CKey k0 ->
              ~ In CkDelete (ob_cookies (snd (step w h))) /\ ob_res (snd (step w h)) <> RErr EExpiredID
  | HWait d => (now (w_st w) + d < d0)%Z
  | HRestart => False
  | _ => True
  end.
Proof. exact kept_hop_def. Qed.

(* C05_chain in reachable states, on the store's view: schain s k [k1;..;kn]
   says k is stored as a reference to k1, .., k(n-1) as a reference to kn, and
   kn as a session's record. *)
Theorem C05H_chain_live :
  forall s q k rest r,
  LI s -> q_cookie q = CKey k -> schain s k rest -> rest <> [] -> L s k = Some r ->
  RotateLaws3.valid_for (conf s) r (now s) q = true ->
  (since (r_created r) (now s) < sat_add (c_idexpiry (conf s)) (c_grace (conf s)))%Z ->
  let kn := last rest k in
  exists s' o' rn r',
    start s q = (s', Ok (Some o'), [CkLive kn]) /\
    L s kn = Some rn /\ r_ref rn = None /\ (r' = rn \/ r' = codec (conf s) rn) /\
    hget s' o' = Some (mkObj kn (RotateLaws3.seen_rec r' (now s) q)) /\
    supply s' = supply s /\
    (exists rk, L s' kn = Some rk /\ r_ref rk = None).
Proof. exact chain_live. Qed.

(* The grace window. It starts in a state (satisfying LI, e.g. any reachable one)
   where k is the ID of a session, at instant T0 with grace period g0 > 0. Its
   hops (live_hop) are fault-free, crash-free, not restarts; waits are
   non-negative and keep the clock below T0 + g0; reconfigurations keep the
   grace period g0; request scripts do not destroy; and a request presenting an
   ID on the chain from k is not answered with a deletion cookie or the
   expired-ID error. Then at the end of the window the chain from k is intact —
   every ID change in the window appended one hop — ... *)
Theorem C05H_chain_kept :
  forall k w hs,
  LI (w_st w) -> Lref (w_st w) k None -> (0 < c_grace (conf (w_st w)))%Z ->
  hist_ok (live_hop k (now (w_st w)) (c_grace (conf (w_st w)))) w hs ->
  let s := w_st (after w hs) in
  LI s /\ exists rest, RotateLaws4.chain_from s k rest.
Proof. exact chain_kept_L. Qed.

(* ... and if k has been replaced meanwhile, presenting it (acceptable peer, not
   idle for SessionExpiry, not past the backstop age) returns the session at the
   end of the chain, with the single cookie Live of that session's current ID. *)
Theorem C05H_grace_live :
  forall k w hs q r,
  LI (w_st w) -> Lref (w_st w) k None -> (0 < c_grace (conf (w_st w)))%Z ->
  hist_ok (live_hop k (now (w_st w)) (c_grace (conf (w_st w)))) w hs ->
  let s := w_st (after w hs) in
  q_cookie q = CKey k -> L s k = Some r -> r_ref r <> None ->
  RotateLaws3.valid_for (conf s) r (now s) q = true ->
  (since (r_created r) (now s) < sat_add (c_idexpiry (conf s)) (c_grace (conf s)))%Z ->
  exists rest s' o' rn r',
    rest <> [] /\ RotateLaws4.chain_from s k rest /\
    start s q = (s', Ok (Some o'), [CkLive (last rest k)]) /\
    L s (last rest k) = Some rn /\ r_ref rn = None /\ (r' = rn \/ r' = codec (conf s) rn) /\
    hget s' o' = Some (mkObj (last rest k) (RotateLaws3.seen_rec r' (now s) q)).
Proof. exact grace_live_L. Qed.

Theorem C05H_live_hop_def :
  forall k0 T0 g0 w h, live_hop k0 T0 g0 w h <->
  ff_hop h /\ crash_free h /\
  match h with
  | HReq r => ~ In SDestroy (rq_script r) /\
              forall k, presents w r = CKey k -> on_chain k0 (w_st w) k ->
                ~ In CkDelete (ob_cookies (snd (step w h))) /\ ob_res (snd (step w h)) <> RErr EExpiredID
  | HWait d => (0 <= d)%Z /\ (now (w_st w) + d < T0 + g0)%Z
  | HSetCfg c => c_grace c = g0
  | HRestart => False
  | _ => True
  end.
Proof. exact live_hop_def. Qed.

(* After the grace period: from a state in which the clean-up of k is queued for
   d0, after any fault-free, crash-free, restart-free history, a wait that brings
   the clock to d0 or later leaves k in neither cache nor store; and it stays
   dead in every fault-free continuation (crashes, cache loss, restarts
   included): never cached, stored, saved under, returned or sent as a live
   cookie again. *)
Theorem C05H_grace_dead :
  forall k d0 w hs d,
  LI (w_st w) -> In (d0, k) (pending (w_st w)) -> hist_ok norestart_hop w hs ->
  (d0 <= now (w_st (after w hs)) + d)%Z ->
  let s := w_st (fst (step (after w hs) (HWait d))) in
  LI s /\ lookup (cache s) k = None /\ lookup (store s) k = None /\ L s k = None.
Proof. exact dead_after_wait. Qed.

Theorem C05H_grace_dead_forever :
  forall k d0 w hs d hs2,
  LI (w_st w) -> In (d0, k) (pending (w_st w)) -> hist_ok norestart_hop w hs ->
  (d0 <= now (w_st (after w hs)) + d)%Z -> Forall ff_hop hs2 ->
  let w' := fst (step (after w hs) (HWait d)) in
  lookup (cache (w_st (after w' hs2))) k = None /\ lookup (store (w_st (after w' hs2))) k = None /\
  Forall (dead_obs k) (run_from w' hs2).
Proof. exact dead_after_wait_forever. Qed.

Print Assumptions C05H_inv_init.
Print Assumptions C05H_inv_step.
Print Assumptions C05H_inv_implies.
Print Assumptions C05H_ref_wf_hist.
Print Assumptions C05H_never_placeholder_hist.
Print Assumptions C05H_placeholder_origin.
Print Assumptions C05H_grace_kept.
Print Assumptions C05H_replaced_kept.
Print Assumptions C05H_kept_hop_def.
Print Assumptions C05H_chain_live.
Print Assumptions C05H_chain_kept.
Print Assumptions C05H_grace_live.
Print Assumptions C05H_live_hop_def.
Print Assumptions C05H_grace_dead.
Print Assumptions C05H_grace_dead_forever.
(* non-vacuity (Proofs/HistLiftEx.v) *)
Print Assumptions hX_run.
Print Assumptions ref_wf_ex.
Print Assumptions origin_ex.
Print Assumptions kept_ex.
Print Assumptions window_ex.
Print Assumptions dead_ex.
