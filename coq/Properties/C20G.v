(* C20: Model/Password.v's `reasonable` is the cascade that Properties/C20F.v
   proves of the function translated from passwords.go; with Go's range over a
   string given by the model's UTF-8 decoder (indexed_runes: byte offset and
   rune per decode1 step; invalid bytes are U+FFFD with width 1) the
   translation equals the model for all word lists, every case-folding
   function, all names and all byte strings, constants matched by name - so
   C20_first_rule, C20_lists_rejected and C20_names_monotone are theorems about
   the translation. Depends on Model/Password.v and so on Gen/Consts.v: it stops
   compiling with C20_source_constants when the constant extractor rejects the
   source. Statements only; proofs in Proofs/PwFnModel.v. *)
From Sessions Require Import Model.Base Model.Password Gen.Consts Gen.PwFn
  Proofs.PasswordLaws Proofs.PwFnEquiv Proofs.PwFnModel.

Theorem C20G_constants_by_name :
  to_verdict C_PasswordOK = PasswordOK /\ to_verdict C_PasswordTooShort = PasswordTooShort /\
  to_verdict C_PasswordIsAName = PasswordIsAName /\ to_verdict C_PasswordWasCompromised = PasswordWasCompromised /\
  to_verdict C_PasswordFoundInDictionary = PasswordFoundInDictionary /\
  to_verdict C_PasswordRepetitive = PasswordRepetitive /\ to_verdict C_PasswordSequential = PasswordSequential /\
  forall c, verdict_code (to_verdict c) = pw_const_code c.
Proof.
  exact (conj eq_refl (conj eq_refl (conj eq_refl (conj eq_refl (conj eq_refl (conj eq_refl (conj eq_refl to_verdict_code))))))).
Qed.

(* Go's range over a string with the model's decoder: offsets and runes *)
Theorem C20G_range_string :
  (forall s, indexed_runes s = ir_fuel (length s) 0 s) /\
  (forall off s, ir_fuel 0 off s = []) /\
  (forall f off, ir_fuel (S f) off [] = []) /\
  (forall f off b t, ir_fuel (S f) off (b :: t) =
     (off, fst (decode1 (b :: t))) ::
     ir_fuel f (off + Z.of_nat (snd (decode1 (b :: t)))) (skipn (snd (decode1 (b :: t))) (b :: t))) /\
  (forall s, map snd (indexed_runes s) = runes s) /\
  (forall s, well_indexed (indexed_runes s)).
Proof.
  exact (conj (fun s => eq_refl) (conj (fun off s => eq_refl) (conj (fun f off => eq_refl)
          (conj (fun f off b t => eq_refl) (conj indexed_runes_runes indexed_runes_well))))).
Qed.

Theorem C20G_model_is_spec :
  forall common dict tolower names pw,
    to_verdict (spec_reasonable common dict tolower (runes pw) names pw) = reasonable common dict tolower names pw.
Proof. exact reasonable_is_spec. Qed.

Theorem C20G_translation_is_model :
  forall (common dict : list bytes) (tolower : bytes -> bytes) (names : list bytes) (pw : bytes),
    to_verdict (gen_reasonable common dict tolower indexed_runes pw names) = reasonable common dict tolower names pw.
Proof. exact gen_reasonable_eq. Qed.

(* C20's theorems, of the translation *)
Theorem C20G_first_rule :
  forall common dict tolower names pw,
    first_rule common dict tolower names pw (to_verdict (gen_reasonable common dict tolower indexed_runes pw names)).
Proof. exact gen_first_rule. Qed.

Theorem C20G_lists_rejected :
  forall common dict tolower names pw,
    In pw common \/ In pw dict -> gen_reasonable common dict tolower indexed_runes pw names <> C_PasswordOK.
Proof. exact gen_lists_rejected. Qed.

Theorem C20G_names_monotone :
  forall common dict tolower names names' pw,
    incl names names' ->
    gen_reasonable common dict tolower indexed_runes pw names <> C_PasswordOK ->
    gen_reasonable common dict tolower indexed_runes pw names' <> C_PasswordOK.
Proof. exact gen_names_monotone. Qed.

Print Assumptions C20G_constants_by_name.
Print Assumptions C20G_range_string.
Print Assumptions C20G_model_is_spec.
Print Assumptions C20G_translation_is_model.
Print Assumptions C20G_first_rule.
Print Assumptions C20G_lists_rejected.
Print Assumptions C20G_names_monotone.
(* non-vacuity (Proofs/PwFnModel.v): one password per verdict through the
   translation with the model's to_lower, among them two repetitive ones (a
   two-byte rune repeated; eight invalid bytes, each U+FFFD), and the pairs
   indexed_runes yields on a string with a two-byte rune and an invalid byte *)
Print Assumptions gen_ex.
