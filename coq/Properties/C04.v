(* C04 — a due ID is replaced exactly once and the session survives (per call,
   sequential part C04_seq). Statements only; proofs are in Proofs/RotateLaws*.v.
   L s k is the record ID k resolves to (cached object over stored record);
   rot_rec r t is r with created = lastAccess = t; ref_rec r t j is the
   placeholder left under a replaced ID, naming j; seen_rec is the bookkeeping
   of an accepted request; draws lists the IDs generated (EvDraw events). *)
From Sessions Require Import Model.Base Model.Sess Model.Hist Proofs.SessDefs
  Proofs.RotateLaws Proofs.RotateLaws2 Proofs.RotateLaws3 Proofs.RotateLaws6 Proofs.RotateEx.

(* Start, rotation due: one draw j, cookies [Live j], the returned object has ID
   j and the old record with created = lastAccess = now and this request's
   peer/agent; j resolves to it (to its encoded form when it is not cached);
   the presented ID resolves to a reference to j; its clean-up is queued. *)
Theorem C04_seq_rotate :
  forall s q k r,
    plan s = [] -> cache_ok s -> nodup_ok s -> fresh_ok s ->
    q_cookie q = CKey k -> L s k = Some r -> r_ref r = None ->
    valid_for (conf s) r (now s) q = true ->
    (c_idexpiry (conf s) <= since (r_created r) (now s))%Z ->
    let j := KGen (supply s) in
    let t := now s in
    exists s' o,
      start s q = (s', Ok (Some o), [CkLive j]) /\
      draws (evs s') = supply s :: draws (evs s) /\ supply s' = (supply s + 1)%N /\
      hget s' o = Some (mkObj j (seen_rec (rot_rec r t) t q)) /\
      L s' j = Some (if cached s' j then seen_rec (rot_rec r t) t q else codec (conf s) (rot_rec r t)) /\
      L s' k = Some (if cached s' k then ref_rec r t j else codec (conf s) (ref_rec r t j)) /\
      lookup (store s') j = Some (codec (conf s) (rot_rec r t)) /\
      lookup (store s') k = Some (codec (conf s) (ref_rec r t j)) /\
      pending s' = pending s ++ [((t + c_grace (conf s))%Z, k)].
Proof. exact start_rotate. Qed.

(* Start, ID younger than SessionIDExpiry: no draw, no cookie, same ID, the
   record unchanged except for the bookkeeping (which reaches L only when the
   session is cached: with cache size 0 nothing is written). *)
Theorem C04_seq_keep :
  forall s q k r,
    plan s = [] -> cache_ok s -> nodup_ok s -> fresh_ok s -> cfg_ok (conf s) ->
    q_cookie q = CKey k -> L s k = Some r -> r_ref r = None ->
    valid_for (conf s) r (now s) q = true ->
    (since (r_created r) (now s) < c_idexpiry (conf s))%Z ->
    exists s' o,
      start s q = (s', Ok (Some o), []) /\
      draws (evs s') = draws (evs s) /\ supply s' = supply s /\
      hget s' o = Some (mkObj k (seen_rec r (now s) q)) /\
      L s' k = Some (if cached s' k then seen_rec r (now s) q else r) /\
      pending s' = pending s.
Proof. exact start_keep. Qed.

(* RegenerateID: the same post-condition *)
Theorem C04_seq_regenerate :
  forall s o ob,
    plan s = [] -> cache_ok s -> nodup_ok s -> fresh_ok s -> hget s o = Some ob ->
    let j := KGen (supply s) in
    let t := now s in
    exists s',
      regenerate s o = (s', Ok tt, [CkLive j]) /\
      draws (evs s') = supply s :: draws (evs s) /\
      supply s' = (supply s + 1)%N /\
      hget s' o = Some (mkObj j (rot_rec (o_rec ob) t)) /\
      L s' j = Some (if cached s' j then rot_rec (o_rec ob) t else codec (conf s) (rot_rec (o_rec ob) t)) /\
      L s' (o_id ob) = Some (if cached s' (o_id ob) then ref_rec (o_rec ob) t j
                             else codec (conf s) (ref_rec (o_rec ob) t j)) /\
      lookup (store s') j = Some (codec (conf s) (rot_rec (o_rec ob) t)) /\
      lookup (store s') (o_id ob) = Some (codec (conf s) (ref_rec (o_rec ob) t j)) /\
      pending s' = pending s ++ [((t + c_grace (conf s))%Z, o_id ob)].
Proof. exact regenerate_C04. Qed.

(* LogIn (exclusive or not): the same, with the user attached *)
Theorem C04_seq_login :
  forall s o ob u ex,
    plan s = [] -> cache_ok s -> nodup_ok s -> fresh_ok s -> hget s o = Some ob ->
    let j := KGen (supply s) in
    let t := now s in
    exists s' r',
      login s o u ex = (s', Ok tt, [CkLive j]) /\
      draws (evs s') = supply s :: draws (evs s) /\
      hget s' o = Some (mkObj j r') /\
      r_user r' = Some u /\ r_data r' = r_data (o_rec ob) /\ r_ref r' = r_ref (o_rec ob) /\
      r_created r' = t /\ r_access r' = t /\ r_ip r' = r_ip (o_rec ob) /\ r_ua r' = r_ua (o_rec ob) /\
      L s' j = Some (if cached s' j then r' else codec (conf s) r') /\
      L s' (o_id ob) = Some (if cached s' (o_id ob) then ref_rec (o_rec ob) t j
                             else codec (conf s) (ref_rec (o_rec ob) t j)) /\
      pending s' = pending s ++ [((t + c_grace (conf s))%Z, o_id ob)].
Proof. exact login_C04. Qed.

(* what the new record keeps and what the placeholder looks like *)
Theorem C04_same_session :
  forall r t,
    r_data (rot_rec r t) = r_data r /\ r_user (rot_rec r t) = r_user r /\ r_ref (rot_rec r t) = r_ref r /\
    r_created (rot_rec r t) = t /\ r_access (rot_rec r t) = t /\
    r_ip (rot_rec r t) = r_ip r /\ r_ua (rot_rec r t) = r_ua r.
Proof. exact rot_rec_same. Qed.

Theorem C04_placeholder :
  forall r t j,
    r_ref (ref_rec r t j) = Some j /\ r_user (ref_rec r t j) = None /\ r_data (ref_rec r t j) = None /\
    r_created (ref_rec r t j) = t /\ r_access (ref_rec r t j) = t /\
    forall c, r_ref (codec c (ref_rec r t j)) = Some j /\ r_user (codec c (ref_rec r t j)) = None /\
              r_data (codec c (ref_rec r t j)) = Some [] /\
              r_created (codec c (ref_rec r t j)) = r_access (codec c (ref_rec r t j)).
Proof. exact ref_rec_shape. Qed.

(* SessionIDExpiry = 0: every accepted request rotates; = max64: none does *)
Theorem C04_always :
  forall s r, c_idexpiry (conf s) = 0%Z -> (r_created r <= now s)%Z ->
    (c_idexpiry (conf s) <= since (r_created r) (now s))%Z.
Proof. exact rotate_always. Qed.

Theorem C04_never :
  forall s r, c_idexpiry (conf s) = max64 -> (now s - max64 + 1 <= r_created r)%Z ->
    (since (r_created r) (now s) < c_idexpiry (conf s))%Z.
Proof. exact rotate_never. Qed.

Print Assumptions C04_seq_rotate.
Print Assumptions C04_seq_keep.
Print Assumptions C04_seq_regenerate.
Print Assumptions C04_seq_login.
Print Assumptions C04_same_session.
Print Assumptions C04_placeholder.
Print Assumptions C04_always.
Print Assumptions C04_never.
(* non-vacuity: concrete states on which the hypotheses hold and the
   conclusions are read off (Proofs/RotateEx.v) *)
Print Assumptions start_rotate_ex.
Print Assumptions start_rotate_ex_size1.
Print Assumptions start_keep_ex.
Print Assumptions rotate_always_never_ex.
Print Assumptions regenerate_ex.
Print Assumptions login_ex.
