(* C08 at the level of histories, continued (C08L): the user attached by LogIn
   survives the rest of the handler script and the loss of the cache — without
   the hypothesis that C08H_survives_request_partial had to add. Statements
   only; proofs are in Proofs/UserSurv.v (and the example in Proofs/LEx.v), built
   on PF's per-call theorems and condition ust (Proofs/UserLaws.v), the history
   invariant LI of Properties/C05H.v (its reference-field clause: a handler's
   session is stored as a session record under its ID) and the empty-cache Start
   of Proofs/CrashRestart.v.

   LI s                  the invariant of C05H.v; it holds in every state
                         reached by a fault-free, crash-free history
                         (C05H_inv_init, C05H_inv_step), in particular in
                         w_st (reach c hs)
   handler_at w r pre s o  (C08H.v) the operation at script position |pre| of
                         request step r runs on state s with handle o
   keeps_user op         op is none of LogOut, LogIn, Destroy: Set, Delete, Get,
                         GetAndDelete, RegenerateID
   loses_cache h         h = HDropCache \/ h = HRestart
   probe_ok c t q rk     (C10H.v) the stored record rk makes request q
                         acceptable at time t *)
From Sessions Require Import Model.Base Model.Sess Model.Hist Proofs.SessDefs
  Proofs.HistInv Proofs.HistInv2 Proofs.HistInv3 Proofs.UserLaws
  Proofs.UserHist Proofs.UserHist2 Proofs.UserHistEx Proofs.HistLift4 Proofs.UserSurv Proofs.LEx.
From Sessions Require Import Proofs.LiveHist4.
From Sessions Require Proofs.CrashFault3 Proofs.CrashRestart.

Theorem C08L_keeps_user_def : forall op,
  keeps_user op = true <-> (op <> SLogOut /\ op <> SDestroy /\ forall u ex, op <> SLogIn u ex).
Proof. exact keeps_user_def. Qed.

(* Wherever a handler operation runs, the handle is a session (not a replaced-ID
   record) and the store holds a session record under its ID. *)
Theorem C08L_handler_session : forall w r pre s o, LI (w_st w) -> handler_at w r pre s o ->
  exists ob rr, hget s o = Some ob /\ r_ref (o_rec ob) = None /\
                lookup (store s) (o_id ob) = Some rr /\ r_ref rr = None.
Proof. exact handler_session. Qed.

(* After a request whose script ends with LogIn, the record stored under the new
   ID is a session record carrying the user's ID: what
   C08H_survives_request_partial assumed. *)
Theorem C08L_stored_session : forall w r pre s o u ex,
  LI (w_st w) -> handler_at w r pre s o ->
  rq_plan r = [] -> rq_crash r = None -> rq_script r = pre ++ [SLogIn u ex] ->
  exists rk, lookup (store (w_st (fst (step w (HReq r))))) (KGen (supply s)) = Some rk /\ r_ref rk = None /\
             r_user rk = Some (fst u, 0%N).
Proof. exact login_stored_session. Qed.

(* C08H_survives_request_partial at full strength: after LogIn as the last
   operation of a script and the loss of the cache, a request presenting the new
   ID — acceptable w.r.t. the stored record — is handed a session carrying the
   user's ID. *)
Theorem C08L_survives_request : forall w r pre s o u ex h r3,
  LI (w_st w) -> handler_at w r pre s o ->
  rq_plan r = [] -> rq_crash r = None -> rq_script r = pre ++ [SLogIn u ex] -> loses_cache h ->
  let n := supply s in
  let w1 := fst (step w (HReq r)) in let w2 := fst (step w1 h) in
  rq_plan r3 = [] -> rq_crash r3 = None -> pres w2 r3 = CKey (KGen n) ->
  (forall rk, lookup (store (w_st w1)) (KGen n) = Some rk ->
     CrashRestart.probe_ok (conf (w_st w1)) (now (w_st w1)) (mkReq (CKey (KGen n)) (rq_create r3) (rq_addr r3) (rq_ua r3)) rk) ->
  ob_res (snd (step w2 (HReq r3))) = RSess /\
  exists id rc, ob_start (snd (step w2 (HReq r3))) = Some (id, rc) /\ r_ref rc = None /\
                CrashFault3.uid rc = Some (fst u).
Proof. exact login_then_request_full. Qed.

(* the same from the initial state: every fault-free, crash-free history *)
Theorem C08L_survives_request_hist : forall c hs r pre s o u ex h r3,
  Forall ff_hop hs -> Forall crash_free hs -> handler_at (reach c hs) r pre s o ->
  rq_plan r = [] -> rq_crash r = None -> rq_script r = pre ++ [SLogIn u ex] -> loses_cache h ->
  let n := supply s in
  let w1 := fst (step (reach c hs) (HReq r)) in let w2 := fst (step w1 h) in
  rq_plan r3 = [] -> rq_crash r3 = None -> pres w2 r3 = CKey (KGen n) ->
  (forall rk, lookup (store (w_st w1)) (KGen n) = Some rk ->
     CrashRestart.probe_ok (conf (w_st w1)) (now (w_st w1)) (mkReq (CKey (KGen n)) (rq_create r3) (rq_addr r3) (rq_ua r3)) rk) ->
  ob_res (snd (step w2 (HReq r3))) = RSess /\
  exists id rc, ob_start (snd (step w2 (HReq r3))) = Some (id, rc) /\ r_ref rc = None /\
                CrashFault3.uid rc = Some (fst u).
Proof. exact login_then_request_hist. Qed.

(* Operations after the LogIn. The script is pre ++ LogIn u :: post and no
   operation of post is LogOut, LogIn or Destroy. Then, whatever the ID of the
   handler's session is at the end of the request (kf: RegenerateID in post
   changes it again):
   - the handler's session carries u;
   - the store holds under kf a session record with u's ID;
   - after the loss of the cache kf resolves to that record;
   - a cookie-following client holds kf;
   - with post empty, kf is the next ordinal when LogIn ran. *)
Theorem C08L_survives_script : forall w r pre post s o u ex h,
  LI (w_st w) -> handler_at w r pre s o ->
  rq_plan r = [] -> rq_crash r = None -> rq_script r = pre ++ SLogIn u ex :: post ->
  forallb keeps_user post = true -> loses_cache h ->
  let w1 := fst (step w (HReq r)) in let w2 := fst (step w1 h) in
  exists kf rf rr, ob_final (snd (step w (HReq r))) = Some (kf, rf) /\ r_ref rf = None /\ r_user rf = Some u /\
    lookup (store (w_st w1)) kf = Some rr /\ r_ref rr = None /\ r_user rr = Some (fst u, 0%N) /\
    L (w_st w2) kf = Some rr /\ cache (w_st w2) = [] /\
    (rq_present r = PJar -> jar_of (w_jars w2) (rq_client r) = CKey kf) /\
    (post = [] -> kf = KGen (supply s)).
Proof. exact login_script_survives. Qed.

(* ... and a later request presenting kf, acceptable w.r.t. the stored record, is
   handed a session carrying u's ID. *)
Theorem C08L_survives_script_request : forall w r pre post s o u ex h,
  LI (w_st w) -> handler_at w r pre s o ->
  rq_plan r = [] -> rq_crash r = None -> rq_script r = pre ++ SLogIn u ex :: post ->
  forallb keeps_user post = true -> loses_cache h ->
  let w1 := fst (step w (HReq r)) in let w2 := fst (step w1 h) in
  forall r3 kf rf,
  ob_final (snd (step w (HReq r))) = Some (kf, rf) ->
  rq_plan r3 = [] -> rq_crash r3 = None -> pres w2 r3 = CKey kf ->
  (forall rk, lookup (store (w_st w1)) kf = Some rk ->
     CrashRestart.probe_ok (conf (w_st w1)) (now (w_st w1)) (mkReq (CKey kf) (rq_create r3) (rq_addr r3) (rq_ua r3)) rk) ->
  ob_res (snd (step w2 (HReq r3))) = RSess /\
  exists id rc, ob_start (snd (step w2 (HReq r3))) = Some (id, rc) /\ r_ref rc = None /\
                CrashFault3.uid rc = Some (fst u).
Proof. exact login_script_then_request. Qed.

(* non-vacuity: the second browser of C08H_ex_handler sets a value, logs in
   exclusively, sets another value, regenerates its ID (3 -> 4), reads and deletes
   a value; the process restarts; the browser comes back with ID 4 *)
Theorem C08L_ex_invariant : LI (w_st wU).
Proof. exact wU_LI. Qed.

Theorem C08L_ex_handler : handler_at wU rU2 [SSet 1 1] sU 2.
Proof. exact handler_at_ex2. Qed.

Theorem C08L_ex_survives :
  let w1 := fst (step wU (HReq rU2)) in let w2 := fst (step w1 HRestart) in
  rq_script rU2 = [SSet 1 1] ++ SLogIn (5%N, 2%N) true :: [SSet 2 2; SRegen; SGetDel 1] /\
  forallb keeps_user [SSet 2 2; SRegen; SGetDel 1] = true /\
  ob_script (snd (step wU (HReq rU2))) = [SOk; SOk; SOk; SOk; SVal (Some 1%N)] /\
  ob_cookies (snd (step wU (HReq rU2))) = [CkLive (KGen 3); CkLive (KGen 4)] /\
  option_map fst (ob_final (snd (step wU (HReq rU2)))) = Some (KGen 4) /\
  option_map r_user (L (w_st w2) (KGen 4)) = Some (Some (5%N, 0%N)) /\
  jar_of (w_jars w2) 2 = CKey (KGen 4) /\
  option_map (fun x => (fst x, r_user (snd x))) (ob_start (snd (step w2 (HReq (rqu 2 []))))) =
    Some (KGen 4, Some (5%N, 0%N)).
Proof. exact login_script_survives_ex. Qed.

Print Assumptions C08L_keeps_user_def.
Print Assumptions C08L_handler_session.
Print Assumptions C08L_stored_session.
Print Assumptions C08L_survives_request.
Print Assumptions C08L_survives_request_hist.
Print Assumptions C08L_survives_script.
Print Assumptions C08L_survives_script_request.
Print Assumptions C08L_ex_invariant.
Print Assumptions C08L_ex_handler.
Print Assumptions C08L_ex_survives.
