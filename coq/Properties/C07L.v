(* C07, the chain as it stood BEFORE the ending request, for EVERY fault-free
   history (round 4, task R4a, second follow-up). Statements only; proofs are in
   Proofs/LineageG.v, LineageG2.v, LineageH.v, LineageH2.v, non-vacuity in
   Proofs/LineageHEx.v. They are C07H's C07H_ref_fate, C07H_chain_into_lineage,
   C07H_destroyed_presented_chain, C07H_destroyed_start_chain,
   C07H_destroyed_chain and C07H_invalidated_chain with every `Forall crash_free`
   removed: the process may stop after any number of persistence calls of any
   request step (rq_crash r = Some n, any n) before and after the ending request,
   with cache loss and restarts anywhere; only the ending request itself runs to
   completion. Read Properties/C07H.v for lineage, rchain, L, presents,
   dead_answer and Properties/C07K.v for LIx (C05H's LI at some heap mark: holds
   in every state a fault-free history reaches, C07K_LIx_reach).

   How: Proofs/LineageG.v redoes the events-of-a-step development and the crash
   step of C07K for any predicate riding with LI (Section Ride of Lineage5.v) that
   comes with a constraint on what may be written under a key; LineageG2.v
   instantiates it with "k0 is stored as nothing or as a replaced-ID record naming
   j0" (QI k0 j0): no save of any step writes anything else under k0, so the
   record is never re-pointed and never becomes a session, whatever the crash
   points. LineageH.v redoes the link inside the ending request (Lineage8/9.v) for
   an arbitrary heap mark. *)
From Sessions Require Import Model.Base Model.Sess Model.Hist Model.Corr Proofs.SessDefs
  Proofs.HistInv Proofs.HistInv2 Proofs.HistInv3 Proofs.HistLift Proofs.HistLift3 Proofs.HistLift4
  Proofs.IsoLaws Proofs.DeadLaws Proofs.Lineage Proofs.Lineage3 Proofs.Lineage4 Proofs.Lineage5
  Proofs.LineageB Proofs.LineageK2 Proofs.LineageF Proofs.LineageG2 Proofs.LineageH Proofs.LineageH2 Proofs.LineageHEx.

(* the invariant behind immutability: LI at some heap mark, and k0 is drawn and
   stored as nothing or as a replaced-ID record naming j0; every fault-free step of
   every hop kind keeps it, wherever the process stops *)
Theorem C07L_immutable_inv_meaning :
  forall k0 j0 s, LXIx k0 j0 s <->
  exists b, winv b ND s /\ Kcs s /\ PRs s /\ (RWs s /\ Kp s) /\
            kd (supply s) k0 /\ (sref s k0 = None \/ sref s k0 = Some (Some j0)).
Proof. exact (fun k0 j0 s => iff_refl _). Qed.

Theorem C07L_immutable_inv_step :
  forall k0 j0 w h, LXIx k0 j0 (w_st w) -> ff_hop h -> LXIx k0 j0 (w_st (fst (step w h))).
Proof. exact LXIx_step. Qed.

(* C07H_ref_fate: a replaced-ID record k -> j, after every fault-free history: k
   resolves to nothing or still to a replaced-ID record naming j *)
Theorem C07L_ref_fate :
  forall w hs k j r,
  LIx (w_st w) -> L (w_st w) k = Some r -> r_ref r = Some j -> Forall ff_hop hs ->
  LIx (w_st (after w hs)) /\ key_drawn (w_st (after w hs)) k /\
  (L (w_st (after w hs)) k = None \/ exists r', L (w_st (after w hs)) k = Some r' /\ r_ref r' = Some j).
Proof. exact ref_fate_any. Qed.

(* C07H_chain_into_lineage *)
Theorem C07L_chain_into_lineage :
  forall w hs kn k m,
  LIx (w_st w) -> Forall ff_hop hs ->
  rchain (w_st w) k m -> lineage (w_st (after w hs)) kn m -> lineage (w_st (after w hs)) kn k.
Proof. exact chain_into_lineage_any. Qed.

(* C07H_destroyed_presented_chain *)
Theorem C07L_destroyed_presented_chain :
  forall c hs1 r kp r0,
  Forall ff_hop hs1 -> rq_plan r = [] -> rq_crash r = None ->
  presents (reach c hs1) r = CKey kp -> L (w_st (reach c hs1)) kp = Some r0 ->
  ob_script (snd (step (reach c hs1) (HReq r))) <> [] ->
  nth_error (rq_script r) (length (ob_script (snd (step (reach c hs1) (HReq r)))) - 1) = Some SDestroy ->
  exists kn rcf, ob_final (snd (step (reach c hs1) (HReq r))) = Some (kn, rcf) /\
    (forall k, rchain (w_st (reach c hs1)) k kp -> lineage (w_st (fst (step (reach c hs1) (HReq r)))) kn k) /\
    forall k hs2 r2,
      rchain (w_st (reach c hs1)) k kp ->
      Forall ff_hop hs2 -> rq_plan r2 = [] -> rq_crash r2 = None ->
      presents (after (fst (step (reach c hs1) (HReq r))) hs2) r2 = CKey k ->
      dead_answer (snd (step (after (fst (step (reach c hs1) (HReq r))) hs2) (HReq r2))).
Proof. exact destroyed_presented_chain_any. Qed.

(* C07H_destroyed_start_chain, from any state a fault-free history reaches *)
Theorem C07L_destroyed_start_chain :
  forall w r,
  LIx (w_st w) -> rq_plan r = [] -> rq_crash r = None ->
  ob_script (snd (step w (HReq r))) <> [] ->
  nth_error (rq_script r) (length (ob_script (snd (step w (HReq r)))) - 1) = Some SDestroy ->
  exists id0 rc0 kn rcf,
    ob_start (snd (step w (HReq r))) = Some (id0, rc0) /\
    ob_final (snd (step w (HReq r))) = Some (kn, rcf) /\
    forall k, rchain (w_st w) k id0 -> lineage (w_st (fst (step w (HReq r)))) kn k.
Proof. exact destroyed_start_chain_any. Qed.

(* C07H_destroyed_chain *)
Theorem C07L_destroyed_chain :
  forall c hs1 r,
  Forall ff_hop hs1 -> rq_plan r = [] -> rq_crash r = None ->
  ob_script (snd (step (reach c hs1) (HReq r))) <> [] ->
  nth_error (rq_script r) (length (ob_script (snd (step (reach c hs1) (HReq r)))) - 1) = Some SDestroy ->
  exists kn rc, ob_final (snd (step (reach c hs1) (HReq r))) = Some (kn, rc) /\
    forall k hs2 r2,
      rchain (w_st (reach c hs1)) k kn ->
      Forall ff_hop hs2 -> rq_plan r2 = [] -> rq_crash r2 = None ->
      presents (after (fst (step (reach c hs1) (HReq r))) hs2) r2 = CKey k ->
      dead_answer (snd (step (after (fst (step (reach c hs1) (HReq r))) hs2) (HReq r2))).
Proof. exact destroyed_chain_any. Qed.

(* C07H_invalidated_chain *)
Theorem C07L_invalidated_chain :
  forall c hs1 r k0 r0,
  Forall ff_hop hs1 -> rq_plan r = [] -> rq_crash r = None ->
  presented (reach c hs1) r = CKey k0 -> L (w_st (reach c hs1)) k0 = Some r0 ->
  rec_valid (conf (w_st (reach c hs1))) (now (w_st (reach c hs1)))
            (mkReq (presented (reach c hs1) r) (rq_create r) (rq_addr r) (rq_ua r)) r0 = false ->
  forall k hs2 r2,
    rchain (w_st (reach c hs1)) k k0 ->
    Forall ff_hop hs2 -> rq_plan r2 = [] -> rq_crash r2 = None ->
    presents (after (fst (step (reach c hs1) (HReq r))) hs2) r2 = CKey k ->
    dead_answer (snd (step (after (fst (step (reach c hs1) (HReq r))) hs2) (HReq r2))).
Proof. exact invalidated_chain_any. Qed.

Print Assumptions C07L_immutable_inv_meaning.
Print Assumptions C07L_immutable_inv_step.
Print Assumptions C07L_ref_fate.
Print Assumptions C07L_chain_into_lineage.
Print Assumptions C07L_destroyed_presented_chain.
Print Assumptions C07L_destroyed_start_chain.
Print Assumptions C07L_destroyed_chain.
Print Assumptions C07L_invalidated_chain.
(* non-vacuity (Proofs/LineageHEx.v): the ending request changes the ID twice; a
   step with three ID changes then stops between the two saves of RegenerateID *)
Print Assumptions lh_presented_chain.
Print Assumptions lh_answers.
Print Assumptions lh_ref_fate.
