(* C05, audit finding 8 (last bullet): a replaced-ID record keeps
   created = lastAccess = the instant of its replacement (floored by the JSON
   codec) for as long as it exists. PARTIAL. Statements only; proofs are in
   Proofs/ReplRec.v, tests of the full statement in Proofs/ReplRecStmt.v,
   examples in Proofs/ReplRecEx.v.

   C05R_statement (NOT proved): in every state of a fault-free, crash-free
   history every replaced-ID record, stored or on the heap, has
   created = lastAccess, no user, no data. Tested after every prefix of a
   history with all kinds of rotations, user-wide calls, purge, restart, for
   both codecs and five cache sizes (ReplRecStmt.replrec_tests).

   Proved: the same for created = lastAccess in every crash-free history with
   ARBITRARY fault plans but without user-wide operations (nuw: no
   LogOut(userID) / RefreshUser step, no exclusive LogIn in a script); with it
   C05_expired_ref holds of every stored replaced-ID record of such a history
   without its per-call hypothesis. With the birth facts (C04_placeholder,
   C04_seq_regenerate, C04_seq_login: both instants are "now" at the
   replacement) this is "created = lastAccess = T_repl".

   Missing for the full statement: that the objects the loop of
   LogOut(userID)/RefreshUser/exclusive LogIn touches are sessions, not
   replaced-ID records (needs: stored records with a user are sessions'; cached
   objects agree with the store on the reference field; IDs listed by a stale
   user index are not stored). It needs fault-freeness: C05R_needs_fault_free. *)
From Sessions Require Import Model.Base Model.Sess Model.Hist Proofs.SessDefs Proofs.HistInv3
  Proofs.ReplRecStmt Proofs.ReplRec Proofs.ReplRecEx.
Local Open Scope Z_scope.

Definition C05R_statement : Prop :=
  forall c hs, Forall ff_hop hs -> Forall crash_free hs -> repl_ok_st (w_st (reach c hs)) = true.

Theorem C05R_replaced_instants_partial :
  forall c hs, Forall nuw hs ->
    let s := w_st (reach c hs) in
    (forall k r, L s k = Some r -> r_ref r <> None -> r_created r = r_access r) /\
    (forall k r, lookup (store s) k = Some r -> r_ref r <> None -> r_created r = r_access r) /\
    (forall o ob, hget s o = Some ob -> r_ref (o_rec ob) <> None -> r_created (o_rec ob) = r_access (o_rec ob)).
Proof. exact replrec_partial. Qed.

(* C05_expired_ref along such histories, without "created = lastAccess" as a
   hypothesis: Expired() of a stored replaced-ID record turns true when, and not
   before, the grace period measured from its instant is over *)
Theorem C05R_expired_ref_partial :
  forall c hs k r j cf t,
    Forall nuw hs -> lookup (store (w_st (reach c hs))) k = Some r -> r_ref r = Some j ->
    (0 <= c_idexpiry cf)%Z -> (c_grace cf <= max64)%Z ->
    (expired cf r t = true <-> (c_grace cf <= since (r_access r) t)%Z).
Proof. exact expired_ref_hist_partial. Qed.

(* the step of the induction, and what it rests on: Start never returns a
   replaced-ID record as the handler's session *)
Theorem C05R_step : forall w h, nuw h -> R (w_st w) -> R (w_st (fst (step w h))).
Proof. exact R_step. Qed.

Theorem C05R_start_returns_session :
  forall s q s' res cks, start s q = (s', res, cks) -> R s ->
    R s' /\ forall o, res = Ok (Some o) -> exists ob, hget s' o = Some ob /\ r_ref (o_rec ob) = None.
Proof. exact R_start. Qed.

Theorem C05R_nuw_meaning :
  forall h, nuw h <-> match h with
                      | HReq r => rq_crash r = None /\ Forall noex (rq_script r)
                      | HLogoutUser _ _ _ | HRefreshUser _ _ _ => False
                      | _ => True
                      end.
Proof. exact (fun h => iff_refl _). Qed.

Theorem C05R_noex_meaning : forall op, noex op <-> match op with SLogIn _ true => False | _ => True end.
Proof. exact (fun op => iff_refl _). Qed.

Theorem C05R_R_meaning :
  forall s, R s <-> (forall o ob, hget s o = Some ob -> r_ref (o_rec ob) <> None -> r_created (o_rec ob) = r_access (o_rec ob)) /\
                    (forall k r, In (k, r) (store s) -> r_ref r <> None -> r_created r = r_access r).
Proof. exact (fun s => iff_refl _). Qed.

(* Fault-freeness is needed once user-wide operations are allowed: the save of
   the replaced-ID record inside RegenerateID fails (the call returns ERegenRef
   before scheduling the clean-up); LogOut(userID) five seconds later finds the
   old ID listed for the user, gets the cached replaced-ID record and writes it
   through with lastAccess = now: created 10 s, lastAccess 15 s. *)
Theorem C05R_needs_fault_free :
  every_prefix (cfT max64 3 false) (firstn 4 hist_F) = true /\
  repl_ok_st (w_st (reach (cfT max64 3 false) hist_F)) = false /\
  map ob_script (run (cfT max64 3 false) (firstn 3 hist_F)) = [[SOk]; []; [SErr ERegenRef]] /\
  pending (w_st (reach (cfT max64 3 false) hist_F)) = [(50 * sec, KGen 0)] /\
  lookup (store (w_st (reach (cfT max64 3 false) hist_F))) (KGen 1) =
    Some (mkRec (10 * sec) (15 * sec) A1 7 (Some (KGen 2)) None (Some [])).
Proof. exact replrec_needs_fault_free. Qed.

Print Assumptions C05R_replaced_instants_partial.
Print Assumptions C05R_expired_ref_partial.
Print Assumptions C05R_step.
Print Assumptions C05R_start_returns_session.
Print Assumptions C05R_needs_fault_free.
(* tests of the full statement; non-vacuity of the partial theorem *)
Print Assumptions replrec_tests.
Print Assumptions replrec_tests_nonvacuous.
Print Assumptions hist_P_nuw.
Print Assumptions hist_P_applies.
Print Assumptions hist_P_run.
