(* C03 at the history level — idle sessions expire for good; active ones are
   kept, whatever happens to the cache short of losing it.
   Statements only; proofs are in Proofs/LiveHist.v … LiveHist7.v (built on
   PC's StartLaws*, PD's RotateLaws*, PF's HistInv*/DeadLaws) and, for the
   "served its own session" theorems of the audit round (C03H_live_own …),
   Proofs/LiveHist9.v … LiveHist11.v.

   Vocabulary (unfolded by the *_meaning theorems below):
     reach c hs, after w hs   the world after running the history hs from the
                       initial state with configuration c / from world w
     calm j h          the hop h is fault-free and crash-free, loses no cache (it
                       is not HDropCache or HRestart), a wait is not negative,
                       a configuration change keeps the codec (c_json = j);
                       evictions, idle sweeps, HPurge, changes of cache size and
                       of every duration, requests of any client with any script,
                       user-wide logout/refresh are all calm
     fl j t            the instant t as the codec keeps it (JSON: whole seconds)
     Lc s k            what ID k resolves to (cached object, else stored record),
                       read through the codec
     is_own cl h       h is a cookie-following (PJar) request of client cl
     okreq             what such a request must satisfy to be served
     respects (Kk true k) w h   what any other step must respect about the
                       client's ID k: it does not present k, and if its script
                       replaces or deletes its session's ID (RegenerateID, LogIn,
                       Destroy) the session Start gave it is not k
     live_run, all_served   these requirements / "every request of the client
                       returns a session" along a list of hops
     served_own cl w r  (audit finding 6) the request r of client cl in world w
                       is served the client's OWN session: a session is
                       returned, no deletion cookie is in the response, the
                       session returned carries the data and user the client's
                       ID resolved to before the step under that ID or the ID
                       drawn for it in this step, and the ID the client ends on
                       names the handler's session, still resolves to a session
                       and was not deleted from the store in the step
     all_own           served_own for every request of the client along a list
                       of hops (implies all_served: C03H_own_implies_served) *)
From Sessions Require Import Model.Base Model.Sess Model.Hist Proofs.SessDefs
  Proofs.HistInv Proofs.HistInv2 Proofs.HistInv3
  Proofs.LiveHist Proofs.LiveHist2 Proofs.LiveHist3 Proofs.LiveHist4 Proofs.LiveHist5 Proofs.LiveHist6
  Proofs.LiveHist7 Proofs.LiveHist9 Proofs.LiveHist10 Proofs.LiveHist11.
From Sessions Require Proofs.StartLaws Proofs.StartLaws4 Proofs.IsoLaws.

(* ------------------------------------------------ C03H_access_monotone *)

(* In every history without faults, crashes or cache loss — for EVERY cache
   size, 0 and 1 included — the access time an ID resolves to, as the codec
   keeps it, never decreases while the ID exists: between any two states of the
   history in which it resolves. (Flush-before-drop hands the latest access time
   to the store; a reload reads it back; writes set it to the current instant,
   which no record is ahead of.) Replaced-ID records included. *)
Theorem C03H_access_monotone :
  forall c hs1 hs2 k x x',
    Forall (calm (c_json c)) hs1 -> Forall (calm (c_json c)) hs2 ->
    StartLaws.Lc (w_st (reach c hs1)) k = Some x ->
    StartLaws.Lc (w_st (after (reach c hs1) hs2)) k = Some x' ->
    (r_access x <= r_access x')%Z.
Proof. exact access_monotone_hist. Qed.

(* step by step, on the records themselves *)
Theorem C03H_access_monotone_step :
  forall j w h k r r',
    W j w -> calm j h ->
    L (w_st w) k = Some r -> L (w_st (fst (step w h))) k = Some r' ->
    (fl j (r_access r) <= fl j (r_access r'))%Z.
Proof. exact access_monotone_step. Qed.

(* W holds in every state of such a history *)
Theorem C03H_W_reach : forall c hs, Forall (calm (c_json c)) hs -> W (c_json c) (reach c hs).
Proof. exact W_reach. Qed.

(* ... and says, among other things, that no record is ahead of the clock *)
Theorem C03H_access_not_ahead :
  forall j w k r, W j w -> L (w_st w) k = Some r -> (r_access r <= now (w_st w))%Z.
Proof. exact access_not_ahead. Qed.

(* a lower bound, once true and not ahead of the clock, stays true *)
Theorem C03H_lower_bound_run :
  forall j k a hs w,
    W j w -> Forall (calm j) hs -> kd (supply (w_st w)) k ->
    (forall r, L (w_st w) k = Some r -> a <= fl j (r_access r))%Z -> (a <= fl j (now (w_st w)))%Z ->
    forall r', L (w_st (after w hs)) k = Some r' -> (a <= fl j (r_access r'))%Z.
Proof. exact lower_bound_run. Qed.

(* After an accepted cookie-following request of the client that holds k —
   plain, or rotating in Start, RegenerateID or LogIn — the ID then in its jar
   resolves to a session whose access time is the instant of the request as the
   codec keeps it. Cache enabled: every size but 0, size 1 included (with size 1
   a rotated session leaves the cache inside the request; the flush carries the
   access time, so only peer/agent of C06_moves_L are affected, not this). *)
Theorem C03H_access_now :
  forall j c k tl w r,
    owns j c k (fl j tl) w ->
    rq_client r = c -> rq_present r = PJar -> rq_plan r = [] -> rq_crash r = None ->
    okreq j c tl w r ->
    ob_res (snd (step w (HReq r))) = RSess /\
    exists k', ob_jar (snd (step w (HReq r))) = CKey k' /\
      owns j c k' (fl j (now (w_st w))) (fst (step w (HReq r))) /\
      exists r', L (w_st (fst (step w (HReq r)))) k' = Some r' /\ r_ref r' = None /\
                 fl j (r_access r') = fl j (now (w_st w)).
Proof. exact owns_own. Qed.

(* the same for the request that creates the session *)
Theorem C03H_access_now_created :
  forall j c w r,
    W j w -> rq_client r = c -> rq_present r = PJar -> rq_plan r = [] -> rq_crash r = None ->
    (forall k, jar_of (w_jars w) c <> CKey k) -> rq_create r = true ->
    existsb is_destroy (rq_script r) = false ->
    ob_res (snd (step w (HReq r))) = RSess /\
    exists k', ob_jar (snd (step w (HReq r))) = CKey k' /\
      owns j c k' (fl j (now (w_st w))) (fst (step w (HReq r))) /\
      exists r', L (w_st (fst (step w (HReq r)))) k' = Some r' /\ r_ref r' = None /\
                 fl j (r_access r') = fl j (now (w_st w)).
Proof. exact owns_create. Qed.

(* ------------------------------------------------------------ C03H_live *)

(* A client whose session was created by its request r0 and whose later
   requests are each less than SessionExpiry (minus the codec's resolution)
   after the previous one, with acceptable peer/agent, is served every time —
   for all values of SessionIDExpiry (0 … max64), grace period, cache expiry and
   cache size >= 1: requests that rotate the ID and requests after the session
   was evicted, swept, purged and reloaded included. *)
Theorem C03H_live :
  forall c hs0 r0 hs,
    Forall (calm (c_json c)) hs0 ->
    rq_present r0 = PJar -> rq_plan r0 = [] -> rq_crash r0 = None -> rq_create r0 = true ->
    (forall k, jar_of (w_jars (reach c hs0)) (rq_client r0) <> CKey k) ->
    existsb is_destroy (rq_script r0) = false ->
    live_run (c_json c) (rq_client r0) (now (w_st (reach c hs0))) (fst (step (reach c hs0) (HReq r0))) hs ->
    all_served (rq_client r0) (reach c hs0) (HReq r0 :: hs).
Proof. exact live_hist_created. Qed.

(* from any state of the history in which the client's jar holds an ID that
   resolves to a session and awaits no clean-up; the spacing of the first
   request is measured from the session's access time *)
Theorem C03H_live_from :
  forall c hs0 cl k r hs,
    Forall (calm (c_json c)) hs0 ->
    jar_of (w_jars (reach c hs0)) cl = CKey k ->
    L (w_st (reach c hs0)) k = Some r -> r_ref r = None ->
    (forall d k', In (d, k') (pending (w_st (reach c hs0))) -> k' <> k) ->
    live_run (c_json c) cl (r_access r) (reach c hs0) hs ->
    all_served cl (reach c hs0) hs.
Proof. exact live_hist. Qed.

(* the two steps of the induction *)
Theorem C03H_live_other_steps :
  forall j c k a w h,
    owns j c k a w -> calm j h -> is_own c h = false -> respects (Kk true k) w h ->
    owns j c k a (fst (step w h)).
Proof. exact owns_foreign. Qed.

Theorem C03H_live_run :
  forall j c hs k tl w, owns j c k (fl j tl) w -> live_run j c tl w hs -> all_served c w hs.
Proof. exact live_run_served. Qed.

(* ----------------------------------------------------------- C03H_live_own *)

(* Audit finding 6. "Returns a session" is also true of a request with
   createIfNew whose session was destroyed for staleness and replaced by a
   fresh one (Proofs/LiveHist11.v, Ex11.late_returns_a_session). The same
   hypotheses as C03H_live give more: every request of the client is served
   its own, non-expired session — served_own, unfolded in
   C03H_served_own_meaning: no CkDelete among the response cookies; the session
   Start returned has the data and the user of the session the client's ID
   resolved to before the step, is no replaced-ID record, has access time now,
   and its ID is the client's or the one drawn in this step; the client ends
   on the ID of the handler's session, which resolves to a session afterwards
   and of which the store saw no DeleteSession in the step. *)
Theorem C03H_live_own :
  forall c hs0 r0 hs,
    Forall (calm (c_json c)) hs0 ->
    rq_present r0 = PJar -> rq_plan r0 = [] -> rq_crash r0 = None -> rq_create r0 = true ->
    (forall k, jar_of (w_jars (reach c hs0)) (rq_client r0) <> CKey k) ->
    existsb is_destroy (rq_script r0) = false ->
    live_run (c_json c) (rq_client r0) (now (w_st (reach c hs0))) (fst (step (reach c hs0) (HReq r0))) hs ->
    all_own (rq_client r0) (reach c hs0) (HReq r0 :: hs).
Proof. exact live_hist_created_own. Qed.

Theorem C03H_live_from_own :
  forall c hs0 cl k r hs,
    Forall (calm (c_json c)) hs0 ->
    jar_of (w_jars (reach c hs0)) cl = CKey k ->
    L (w_st (reach c hs0)) k = Some r -> r_ref r = None ->
    (forall d k', In (d, k') (pending (w_st (reach c hs0))) -> k' <> k) ->
    live_run (c_json c) cl (r_access r) (reach c hs0) hs ->
    all_own cl (reach c hs0) hs.
Proof. exact live_hist_own. Qed.

(* the induction, and its step for a request of the client *)
Theorem C03H_live_run_own :
  forall j c hs k tl w, owns j c k (fl j tl) w -> live_run j c tl w hs -> all_own c w hs.
Proof. exact live_run_own. Qed.

Theorem C03H_own_request :
  forall j c k tl w r,
    owns j c k (fl j tl) w ->
    rq_client r = c -> rq_present r = PJar -> rq_plan r = [] -> rq_crash r = None ->
    okreq j c tl w r ->
    served_own c w r.
Proof. exact owns_own_served. Qed.

(* the request that creates the session: no deletion cookie, the new ID is not
   deleted in the step *)
Theorem C03H_own_created :
  forall j c w r,
    W j w -> rq_client r = c -> rq_present r = PJar -> rq_plan r = [] -> rq_crash r = None ->
    (forall k, jar_of (w_jars w) c <> CKey k) -> rq_create r = true ->
    existsb is_destroy (rq_script r) = false ->
    served_own c w r.
Proof. exact owns_create_served. Qed.

(* object identity: when the client's ID is cached, Start (on the state the
   request step prepares) returns the very object the cache holds under it —
   also when it rotates the ID, which re-keys that object *)
Theorem C03H_own_same_object :
  forall j c k tl w r o0,
    owns j c k (fl j tl) w ->
    rq_client r = c -> rq_present r = PJar -> okreq j c tl w r ->
    lookup (cache (w_st w)) k = Some o0 ->
    exists s2 ck, start (req_s1 w r) (req_q w r) = (s2, Ok (Some o0), ck) /\ ~ In CkDelete ck.
Proof. exact own_same_object. Qed.

(* all_own says more than all_served *)
Theorem C03H_own_implies_served : forall c hs w, all_own c w hs -> all_served c w hs.
Proof. exact all_own_served. Qed.

(* Why no deletion can hide in such a step, for ARBITRARY fault plans: Start
   asks the store to delete only on its two refusing branches (which return an
   error) and on its invalid/miss branches (which put the deletion cookie in the
   response); so whenever it returns a session without a deletion cookie it
   logged no DeleteSession. Handler operations other than Destroy never do; the
   clean-up goroutines delete only IDs that were awaiting clean-up. *)
Theorem C03H_start_no_delete :
  forall s q s' o cks,
    start s q = (s', Ok (Some o), cks) -> ~ In CkDelete cks ->
    (exists es, evs s' = es ++ evs s /\ Forall nodel es) /\ (supply s <= supply s')%N.
Proof. exact start_nds. Qed.

Theorem C03H_sop_no_delete :
  forall s o hc op, op <> SDestroy ->
    ((exists es, evs (fst (fst (do_sop s o hc op))) = es ++ evs s /\ Forall nodel es) /\
     (supply s <= supply (fst (fst (do_sop s o hc op))))%N) /\
    (snd (do_sop s o hc op) = [] \/ exists n, (supply s <= n)%N /\ snd (do_sop s o hc op) = [CkLive (KGen n)]).
Proof. exact do_sop_nds. Qed.

Theorem C03H_cleanup_deletes_pending :
  forall s, exists es, evs (fire_due s) = es ++ evs s /\ Forall (del_of (pending s)) es /\
                      supply (fire_due s) = supply s.
Proof. exact fire_due_dels. Qed.

(* -------------------------------------------------------- C03H_dead_hist *)

(* A request that finds the presented ID idle for SessionExpiry or longer (a
   session or a replaced-ID record): it is not returned, the response starts
   with the expiring cookie, the client does not keep it, and the ID never
   resolves again in any fault-free continuation — crashes, cache loss and
   restarts allowed there; no later step saves under it, returns it, or sends a
   live cookie for it. *)
Theorem C03H_dead_hist :
  forall c hs1 r hs2 k r0,
    Forall ff_hop hs1 -> rq_plan r = [] -> rq_crash r = None -> Forall ff_hop hs2 ->
    IsoLaws.presented (reach c hs1) r = CKey k -> L (w_st (reach c hs1)) k = Some r0 ->
    StartLaws.stale (conf (w_st (reach c hs1))) r0 (now (w_st (reach c hs1))) = true ->
    (forall rc, ob_start (snd (step (reach c hs1) (HReq r))) <> Some (k, rc)) /\
    (exists rest, ob_cookies (snd (step (reach c hs1) (HReq r))) = CkDelete :: rest /\ ~ In (CkLive k) rest) /\
    (rq_present r = PJar -> ob_jar (snd (step (reach c hs1) (HReq r))) <> CKey k) /\
    L (w_st (after (fst (step (reach c hs1) (HReq r))) hs2)) k = None /\
    Forall (dead_obs k) (run_from (fst (step (reach c hs1) (HReq r))) hs2).
Proof. exact dead_hist. Qed.

(* ------------------------------------------------------- the vocabulary *)

Theorem C03H_calm_meaning :
  forall j h,
    calm j h <->
    match h with
    | HReq r => rq_plan r = [] /\ rq_crash r = None
    | HWait d => (0 <= d)%Z
    | HPurge _ pl => pl = []
    | HDropCache => False
    | HRestart => False
    | HLogoutUser _ _ pl => pl = []
    | HRefreshUser _ _ pl => pl = []
    | HSetCfg c => c_json c = j
    end.
Proof. exact calm_meaning. Qed.

Theorem C03H_fl_meaning : forall j t, fl j t = if j then (t - t mod second)%Z else t.
Proof. exact fl_meaning. Qed.

Theorem C03H_is_own_meaning :
  forall c h,
    is_own c h = match h with
                 | HReq r => N.eqb (rq_client r) c && match rq_present r with PJar => true | PForge _ => false end
                 | _ => false
                 end.
Proof. exact is_own_meaning. Qed.

Theorem C03H_okreq_meaning :
  forall j c tl w r,
    okreq j c tl w r <->
    c_maxcache (conf (w_st w)) <> 0%Z /\
    (0 <= c_grace (conf (w_st w)))%Z /\ (c_idexpiry (conf (w_st w)) <= max64)%Z /\
    (now (w_st w) - tl + (if j then second - 1 else 0) < c_expiry (conf (w_st w)))%Z /\
    (forall k r0, jar_of (w_jars w) c = CKey k -> L (w_st w) k = Some r0 ->
       ip_ok (c_acceptip (conf (w_st w))) (r_ip r0) (rq_addr r) = true /\
       ua_ok (c_acceptua (conf (w_st w))) (r_ua r0) (rq_ua r) = true) /\
    existsb is_destroy (rq_script r) = false.
Proof. exact okreq_meaning. Qed.

Theorem C03H_respects_meaning :
  forall k0 w h,
    respects (Kk true k0) w h <->
    match h with
    | HReq r =>
      (forall k, pres w r = CKey k -> k <> k0) /\
      (existsb destr (rq_script r) = true ->
       forall k rc, ob_start (snd (step w (HReq r))) = Some (k, rc) -> k <> k0)
    | _ => True
    end.
Proof. exact respects_meaning. Qed.

Theorem C03H_pres_meaning :
  forall w r, pres w r = match rq_present r with PJar => jar_of (w_jars w) (rq_client r) | PForge c => c end.
Proof. exact pres_meaning. Qed.

Theorem C03H_destr_meaning :
  forall op, destr op = match op with SRegen | SLogIn _ _ | SDestroy => true | _ => false end.
Proof. exact destr_meaning. Qed.

Theorem C03H_is_destroy_meaning : forall op, is_destroy op = match op with SDestroy => true | _ => false end.
Proof. exact is_destroy_meaning. Qed.

Theorem C03H_live_run_meaning :
  forall j c tl w h t,
    live_run j c tl w (h :: t) <->
    calm j h /\
    (if is_own c h
     then match h with HReq r => okreq j c tl w r | _ => True end /\
          live_run j c (now (w_st w)) (fst (step w h)) t
     else (forall k, jar_of (w_jars w) c = CKey k -> respects (Kk true k) w h) /\
          live_run j c tl (fst (step w h)) t).
Proof. exact live_run_meaning. Qed.

Theorem C03H_all_served_meaning :
  forall c w h t,
    all_served c w (h :: t) <->
    (is_own c h = true -> ob_res (snd (step w h)) = RSess) /\ all_served c (fst (step w h)) t.
Proof. exact all_served_meaning. Qed.

Theorem C03H_owns_meaning :
  forall j c k a w,
    owns j c k a w ->
    jar_of (w_jars w) c = CKey k /\
    (exists r, L (w_st w) k = Some r /\ r_ref r = None /\ (a <= fl j (r_access r))%Z /\ (r_access r <= now (w_st w))%Z) /\
    (forall d k', In (d, k') (pending (w_st w)) -> k' <> k) /\ (a <= fl j (now (w_st w)))%Z /\
    c_json (conf (w_st w)) = j.
Proof. exact owns_meaning. Qed.

Theorem C03H_served_own_meaning :
  forall c w r,
    served_own c w r <->
    let ob := snd (step w (HReq r)) in
    ob_res ob = RSess /\
    ~ In CkDelete (ob_cookies ob) /\
    (forall k r0, jar_of (w_jars w) c = CKey k -> L (w_st w) k = Some r0 ->
       r_ref r0 = None /\ StartLaws.stale (conf (w_st w)) r0 (now (w_st w)) = false /\
       expired (conf (w_st w)) r0 (now (w_st w)) = false /\
       exists id rc, ob_start ob = Some (id, rc) /\ (id = k \/ id = KGen (supply (w_st w))) /\
         r_ref rc = None /\ r_data rc = r_data r0 /\ r_user rc = r_user r0 /\ r_access rc = now (w_st w)) /\
    exists k' rf, ob_jar ob = CKey k' /\ ob_final ob = Some (k', rf) /\ r_ref rf = None /\
      (forall b, ~ In (EvDelete k' b) (ob_evs ob)) /\
      exists r', L (w_st (fst (step w (HReq r)))) k' = Some r' /\ r_ref r' = None.
Proof. exact served_own_meaning. Qed.

Theorem C03H_all_own_meaning :
  forall c w h t,
    all_own c w (h :: t) <->
    match h with HReq r => is_own c h = true -> served_own c w r | _ => True end /\ all_own c (fst (step w h)) t.
Proof. exact all_own_meaning. Qed.

Theorem C03H_nodel_meaning : forall e, nodel e <-> match e with EvDelete _ _ => False | _ => True end.
Proof. exact nodel_meaning. Qed.

Theorem C03H_del_of_meaning :
  forall l e, del_of l e <-> match e with EvDelete k _ => exists d, In (d, k) l | _ => True end.
Proof. exact del_of_meaning. Qed.

Theorem C03H_req_state_meaning :
  forall w r, req_s1 w r = set_tb (set_plan (set_evs (w_st w) []) []) (rq_tb r) /\
              req_q w r = mkReq (pres w r) (rq_create r) (rq_addr r) (rq_ua r).
Proof. exact req_state_meaning. Qed.

(* owns is reached from these facts (in a state satisfying W) *)
Theorem C03H_owns_intro :
  forall j c k w r,
    W j w -> jar_of (w_jars w) c = CKey k -> L (w_st w) k = Some r -> r_ref r = None ->
    (forall d k', In (d, k') (pending (w_st w)) -> k' <> k) ->
    owns j c k (fl j (r_access r)) w.
Proof. exact owns_adopt. Qed.

(* with the address and agent rules switched off ok_peer asks nothing *)
Theorem C03H_ok_peer_off :
  forall c r0 a u, (c_acceptip c <= 1)%Z -> c_acceptua c = true ->
    ip_ok (c_acceptip c) (r_ip r0) a = true /\ ua_ok (c_acceptua c) (r_ua r0) u = true.
Proof. exact ok_peer_off. Qed.

Print Assumptions C03H_access_monotone.
Print Assumptions C03H_access_monotone_step.
Print Assumptions C03H_W_reach.
Print Assumptions C03H_access_not_ahead.
Print Assumptions C03H_lower_bound_run.
Print Assumptions C03H_access_now.
Print Assumptions C03H_access_now_created.
Print Assumptions C03H_live.
Print Assumptions C03H_live_from.
Print Assumptions C03H_live_other_steps.
Print Assumptions C03H_live_run.
Print Assumptions C03H_dead_hist.
Print Assumptions C03H_live_own.
Print Assumptions C03H_live_from_own.
Print Assumptions C03H_live_run_own.
Print Assumptions C03H_own_request.
Print Assumptions C03H_own_created.
Print Assumptions C03H_own_same_object.
Print Assumptions C03H_own_implies_served.
Print Assumptions C03H_start_no_delete.
Print Assumptions C03H_sop_no_delete.
Print Assumptions C03H_cleanup_deletes_pending.
Print Assumptions C03H_served_own_meaning.
Print Assumptions C03H_owns_intro.
(* non-vacuity: a worked history (one cached session, JSON store, two rotations,
   eviction, purge, clean-ups, a user-wide logout, a cache-size change) on which
   the hypotheses of C03H_live are checked by computation, the theorem is
   applied, and the model's run is compared (Proofs/LiveHist7.v, Module Ex) *)
Print Assumptions Ex.live_run_holds.
Print Assumptions Ex.served.
Print Assumptions Ex.run_agrees.
Print Assumptions Ex.access_trace.
Print Assumptions Ex.monotone_applies.
Print Assumptions Ex.too_late.
Print Assumptions Ex.dead_applies.
(* non-vacuity of C03H_live_own (Proofs/LiveHist11.v, Module Ex11): the same
   worked history; a history with grace 0 in which replaced IDs are deleted
   inside the client's own steps; a late request with createIfNew that "returns
   a session" but is not served its own *)
Print Assumptions Ex11.own_all.
Print Assumptions Ex11.own_run.
Print Assumptions Ex11.same_object_applies.
Print Assumptions Ex11.own_all_Z.
Print Assumptions Ex11.own_run_Z.
Print Assumptions Ex11.late_returns_a_session.
Print Assumptions Ex11.late_not_own.
