(* C03 — idle sessions expire and are never served again; active ones are kept.
   Statements only; proofs are in Proofs/StartLaws.v … StartLaws4.v.
     stale c r t        = SessionExpiry <= since (access r) t   (Start's test)
     start_valid c r q t = not stale, address rule, agent rule
     touch s q r        = r with access := now, peer and agent := the request's
     slack c            = 0 (gob) or one second minus 1 ns (JSON) *)
From Sessions Require Import Model.Base Model.Sess Model.Hist
  Proofs.SessDefs Proofs.StartLaws Proofs.StartLaws2 Proofs.StartLaws3 Proofs.StartLaws4
  Proofs.StartLaws5.

Theorem C03_stale_meaning :
  forall c r t, stale c r t = (c_expiry c <=? since (r_access r) t)%Z.
Proof. exact stale_meaning. Qed.

Theorem C03_start_valid_meaning :
  forall c r q t,
    start_valid c r q t =
    negb (stale c r t) && ip_ok (c_acceptip c) (r_ip r) (q_addr q) && ua_ok (c_acceptua c) (r_ua r) (q_ua q).
Proof. exact start_valid_meaning. Qed.

(* The presented ID resolves (cached or stored, reference record or not) to a
   record that has been idle for at least SessionExpiry. *)
Theorem C03_dead :
  forall s q k r,
    plan s = [] -> cache_ok s -> nodup_ok s -> fresh_ok s ->
    q_cookie q = CKey k -> L s k = Some r ->
    stale (conf s) r (now s) = true ->
    exists s' res nck,
      start s q = (s', res, CkDelete :: nck) /\
      no_session s q s' res nck /\
      lookup (cache s') k = None /\ lookup (store s') k = None /\
      (forall k', k' <> k -> k' <> KGen (supply s) -> Lc s' k' = Lc s k') /\
      (store_norm s -> store_norm s') /\
      ok s' /\ conf s' = conf s.
Proof. exact dead_destroys. Qed.

(* SessionExpiry = 0: every session whose access time is not in the future *)
Theorem C03_dead_expiry0 :
  forall c r t, c_expiry c = 0%Z -> (r_access r <= t)%Z -> stale c r t = true.
Proof. exact stale_expiry0. Qed.

(* Expired() is false for every record Start would serve — all values of
   SessionIDExpiry and SessionIDGracePeriod, no side conditions. *)
Theorem C03_expired_pred :
  forall c r q t, r_ref r = None -> start_valid c r q t = true -> expired c r t = false.
Proof. exact expired_pred. Qed.

(* and for the record as Start hands it out (access time = now) *)
Theorem C03_expired_pred_returned :
  forall c r t, r_ref r = None -> r_access r = t -> (0 < c_expiry c)%Z -> expired c r t = false.
Proof. exact expired_touched. Qed.

Theorem C03_expiry_positive_when_served :
  forall c r t, (r_access r <= t)%Z -> stale c r t = false -> (0 < c_expiry c)%Z.
Proof. exact fresh_expiry_pos. Qed.

(* a replaced-ID record that Start accepts is reported expired exactly when
   its grace period is over *)
Theorem C03_expired_pred_ref :
  forall c r q t k, r_ref r = Some k -> start_valid c r q t = true ->
    expired c r t = (c_grace c <=? since (r_access r) t)%Z.
Proof. exact expired_ref_valid. Qed.

(* The plain accepted request (no rotation due). With the cache in use the
   logical content of the ID afterwards is the record with access time = now;
   with cache size 0 (and the ID not cached) the update reaches only the
   returned object, nothing is saved and L is unchanged. *)
Theorem C03_live :
  forall s q k r,
    plan s = [] -> cache_ok s -> nodup_ok s ->
    q_cookie q = CKey k -> L s k = Some r -> r_ref r = None ->
    start_valid (conf s) r q (now s) = true ->
    (c_idexpiry (conf s) <=? since (r_created r) (now s))%Z = false ->
    (sat_add (c_idexpiry (conf s)) (c_grace (conf s)) <=? since (r_created r) (now s))%Z = false ->
    exists s' o,
      start s q = (s', Ok (Some o), []) /\
      hget s' o = Some (mkObj k (touch s q r)) /\
      (lookup (cache s) k <> None \/ c_maxcache (conf s) <> 0%Z ->
         lookup (cache s') k = Some o /\ L s' k = Some (touch s q r)) /\
      (lookup (cache s) k = None -> c_maxcache (conf s) = 0%Z ->
         cache s' = cache s /\ store s' = store s /\ forall k', L s' k' = L s k') /\
      (forall k', k' <> k -> Lc s' k' = Lc s k') /\
      ok s' /\ conf s' = conf s /\ now s' = now s.
Proof. exact live_touch. Qed.

(* the third hypothesis follows from the second for sane configurations *)
Theorem C03_live_backstop_side_condition :
  forall c age, (0 <= c_grace c)%Z -> (c_idexpiry c <= max64)%Z -> (age <= max64)%Z ->
    (c_idexpiry c <=? age)%Z = false -> (sat_add (c_idexpiry c) (c_grace c) <=? age)%Z = false.
Proof. exact backstop_not_before_rotation. Qed.

(* Whatever happens in between that leaves the logical content of k (modulo
   codec) and the configuration alone keeps it on the live side while less than
   SessionExpiry (minus the codec's resolution) has passed. *)
Theorem C03_live_kept :
  forall s1 s2 k r1,
    L s1 k = Some r1 -> Lc s2 k = Lc s1 k -> conf s2 = conf s1 ->
    (0 <= c_expiry (conf s1))%Z ->
    (now s2 - r_access r1 + slack (conf s1) < c_expiry (conf s1))%Z ->
    exists r2, L s2 k = Some r2 /\ codec (conf s1) r2 = codec (conf s1) r1 /\
               stale (conf s2) r2 (now s2) = false.
Proof. exact live_kept. Qed.

(* compaction (idle sweep and eviction, any tie-break order, any number of
   times) is such a step: it is a flush sequence ... *)
Theorem C03_compact_is_flush :
  forall s req, plan s = [] -> NoDup (map fst (cache s)) -> flush s (compact s req).
Proof. exact compact_flush_nodup. Qed.

(* ... and flush sequences preserve the content modulo codec, access time included *)
Theorem C03_flush_keeps :
  forall s s' k, flush s s' -> plan s = [] -> Lc s' k = Lc s k /\ conf s' = conf s.
Proof. exact flush_keeps. Qed.

(* Two requests of one client with any eviction and any wait in between. *)
Theorem C03_live_twice_partial :
  forall s q k r s' o cks sm t1,
    plan s = [] -> cache_ok s -> nodup_ok s ->
    q_cookie q = CKey k -> L s k = Some r -> r_ref r = None ->
    start_valid (conf s) r q (now s) = true ->
    (c_idexpiry (conf s) <=? since (r_created r) (now s))%Z = false ->
    (sat_add (c_idexpiry (conf s)) (c_grace (conf s)) <=? since (r_created r) (now s))%Z = false ->
    lookup (cache s) k <> None \/ c_maxcache (conf s) <> 0%Z ->
    start s q = (s', Ok (Some o), cks) ->
    flush s' sm ->
    (0 <= c_expiry (conf s))%Z ->
    (t1 - now s + slack (conf s) < c_expiry (conf s))%Z ->
    exists r2, L (set_now sm t1) k = Some r2 /\ stale (conf s) r2 t1 = false /\
               durable (codec (conf s) r2) = durable (codec (conf s) r).
Proof. exact live_twice. Qed.


(* ---- along a run ----
   quiet k s s'   : the step from s to s' leaves the configuration and the
                    logical content of k (modulo codec) alone and preserves ok
   live_inv k d s rl : ok s, the content of k is (modulo codec) the record rl
                    as the client's last accepted request left it, a
                    non-reference record with durable part d
   spaced c created tlast alast ulast l : for the requests l (instant, peer,
                    agent, createIfNew) each gap (+ slack) is below
                    SessionExpiry, each peer/agent passes the rules relative to
                    the previous request's, no rotation falls due
   always_served k d l s : whatever quiet steps precede each request of l, it
                    returns the session under the same ID, without cookie, with
                    durable part d *)

Theorem C03_quiet_meaning :
  forall k s s', quiet k s s' <-> conf s' = conf s /\ Lc s' k = Lc s k /\ (ok s -> ok s').
Proof. exact quiet_meaning. Qed.

Theorem C03_live_inv_meaning :
  forall k d s rl,
    live_inv k d s rl <->
    ok s /\ Lc s k = Some (codec (conf s) rl) /\ durable (codec (conf s) rl) = d /\ r_ref rl = None.
Proof. exact live_inv_meaning. Qed.

Theorem C03_always_served_meaning :
  forall k d x t s,
    always_served k d (x :: t) s <->
    forall s1, quiet k s s1 -> now s1 = a_time x ->
      exists s' o ob,
        start s1 (mkReq (CKey k) (a_create x) (a_addr x) (a_ua x)) = (s', Ok (Some o), []) /\
        hget s' o = Some ob /\ o_id ob = k /\ durable (codec (conf s) (o_rec ob)) = d /\
        always_served k d t s'.
Proof. exact always_served_meaning. Qed.

Theorem C03_spaced_meaning :
  forall c created tlast alast ulast x t,
    spaced c created tlast alast ulast (x :: t) <->
    (a_time x - tlast + slack c < c_expiry c)%Z /\
    ip_ok (c_acceptip c) alast (a_addr x) = true /\
    ua_ok (c_acceptua c) ulast (a_ua x) = true /\
    (c_idexpiry c <=? since created (a_time x))%Z = false /\
    spaced c created (a_time x) (a_addr x) (a_ua x) t.
Proof. exact spaced_meaning. Qed.

(* A client that keeps presenting its ID at intervals shorter than
   SessionExpiry is served every time, however often the session is evicted and
   reloaded (and whatever else quiet happens) in between. Cache enabled. *)
Theorem C03_live_run :
  forall k d l s rl,
    live_inv k d s rl ->
    c_maxcache (conf s) <> 0%Z ->
    (0 <= c_expiry (conf s))%Z -> (0 <= c_grace (conf s))%Z -> (c_idexpiry (conf s) <= max64)%Z ->
    spaced (conf s) (created_of d) (r_access rl) (r_ip rl) (r_ua rl) l ->
    always_served k d l s.
Proof. exact live_run. Qed.

Theorem C03_live_inv_init :
  forall k s r, ok s -> L s k = Some r -> r_ref r = None -> live_inv k (durable (codec (conf s) r)) s r.
Proof. exact live_inv_init. Qed.

(* quiet steps: compaction, the clock, other clients' requests *)
Theorem C03_quiet_compact : forall k s req, ok s -> quiet k s (compact s req).
Proof. exact compact_quiet. Qed.

Theorem C03_quiet_flush : forall k s s', flush s s' -> plan s = [] -> quiet k s s'.
Proof. exact flush_quiet. Qed.

Theorem C03_quiet_clock : forall k s t, quiet k s (set_now s t).
Proof. exact set_now_quiet. Qed.

Theorem C03_quiet_trans : forall k a b c, quiet k a b -> quiet k b c -> quiet k a c.
Proof. exact quiet_trans. Qed.

Theorem C03_quiet_unknown_request :
  forall s q k0 k,
    plan s = [] -> cache_ok s -> nodup_ok s -> fresh_ok s ->
    q_cookie q = CKey k0 -> L s k0 = None -> key_drawn s k ->
    quiet k s (fst (fst (start s q))).
Proof. exact unknown_request_quiet. Qed.

Theorem C03_quiet_nolookup_request :
  forall s q k,
    plan s = [] -> cache_ok s -> nodup_ok s -> fresh_ok s ->
    (forall k0, q_cookie q <> CKey k0) -> key_drawn s k ->
    quiet k s (fst (fst (start s q))).
Proof. exact nolookup_request_quiet. Qed.

Theorem C03_quiet_invalid_request :
  forall s q k0 r0 k,
    plan s = [] -> cache_ok s -> nodup_ok s -> fresh_ok s ->
    q_cookie q = CKey k0 -> L s k0 = Some r0 -> start_valid (conf s) r0 q (now s) = false ->
    k <> k0 -> key_drawn s k ->
    quiet k s (fst (fst (start s q))).
Proof. exact invalid_request_quiet. Qed.

Theorem C03_quiet_plain_request :
  forall s q k0 r0 k,
    plan s = [] -> cache_ok s -> nodup_ok s ->
    q_cookie q = CKey k0 -> L s k0 = Some r0 -> r_ref r0 = None ->
    start_valid (conf s) r0 q (now s) = true ->
    (c_idexpiry (conf s) <=? since (r_created r0) (now s))%Z = false ->
    (sat_add (c_idexpiry (conf s)) (c_grace (conf s)) <=? since (r_created r0) (now s))%Z = false ->
    k <> k0 ->
    quiet k s (fst (fst (start s q))).
Proof. exact plain_request_quiet. Qed.

Print Assumptions C03_dead.
Print Assumptions C03_dead_expiry0.
Print Assumptions C03_expired_pred.
Print Assumptions C03_expired_pred_returned.
Print Assumptions C03_expiry_positive_when_served.
Print Assumptions C03_expired_pred_ref.
Print Assumptions C03_live.
Print Assumptions C03_live_backstop_side_condition.
Print Assumptions C03_live_kept.
Print Assumptions C03_compact_is_flush.
Print Assumptions C03_flush_keeps.
Print Assumptions C03_live_twice_partial.
Print Assumptions C03_live_run.
Print Assumptions C03_live_inv_init.
Print Assumptions C03_quiet_compact.
Print Assumptions C03_quiet_flush.
Print Assumptions C03_quiet_clock.
Print Assumptions C03_quiet_trans.
Print Assumptions C03_quiet_unknown_request.
Print Assumptions C03_quiet_nolookup_request.
Print Assumptions C03_quiet_invalid_request.
Print Assumptions C03_quiet_plain_request.
