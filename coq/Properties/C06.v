(* C06 — IP and user-agent anomalies destroy the session; legitimate changes do
   not. Statements only; proofs are in Proofs/StartLaws.v … StartLaws4.v. *)
From Sessions Require Import Model.Base Model.Sess Model.Hist
  Proofs.SessDefs Proofs.StartLaws Proofs.StartLaws2 Proofs.StartLaws3 Proofs.StartLaws4.

(* ---- the pure rules ---- *)

(* n in 2..4, two IPv4 peers: exactly the first n-1 octets must agree *)
Theorem C06_ip :
  forall n a b c d p a' b' c' d' p',
    (2 <= n <= 4)%Z ->
    (ip_ok n (V4 a b c d p) (V4 a' b' c' d' p') = true <->
     firstn (Z.to_nat (n - 1)) [a; b; c; d] = firstn (Z.to_nat (n - 1)) [a'; b'; c'; d']).
Proof. exact ip_ok_v4_firstn. Qed.

Theorem C06_ip_octets :
  forall n a b c d p a' b' c' d' p',
    (2 <= n <= 4)%Z ->
    (ip_ok n (V4 a b c d p) (V4 a' b' c' d' p') = true <->
     (2 <= n -> a = a')%Z /\ (3 <= n -> b = b')%Z /\ (4 <= n -> c = c')%Z).
Proof. exact ip_ok_v4. Qed.

(* anything that is not IPv4 on either side, n <= 1, n >= 5: accepted *)
Theorem C06_ip_other_l : forall n x c, ip_ok n (AOther x) c = true.
Proof. exact ip_ok_other_l. Qed.

Theorem C06_ip_other_r : forall n p x, ip_ok n p (AOther x) = true.
Proof. exact ip_ok_other_r. Qed.

Theorem C06_ip_off : forall n p c, (n <= 1)%Z -> ip_ok n p c = true.
Proof. exact ip_ok_le1. Qed.

Theorem C06_ip_ge5 : forall n p c, (5 <= n)%Z -> ip_ok n p c = true.
Proof. exact ip_ok_ge5. Qed.

(* the last octet and the port are never compared *)
Theorem C06_ip_last_octet_free :
  forall n a b c d p d' p', ip_ok n (V4 a b c d p) (V4 a b c d' p') = true.
Proof. exact ip_ok_last_octet_free. Qed.

Theorem C06_ua :
  forall h c, ua_ok false h c = true <-> h = 0%N \/ h = c.
Proof. exact ua_ok_checking. Qed.

Theorem C06_ua_accepting : forall h c, ua_ok true h c = true.
Proof. exact ua_ok_accepting. Qed.

Theorem C06_ua_missing : forall h, h <> 0%N -> ua_ok false h 0 = false.
Proof. exact ua_ok_missing. Qed.

(* ---- the state machine ---- *)

(* Either rule fails for the record the presented ID resolves to (the session,
   or a replaced-ID record): no existing session is returned, the record is
   gone from cache and store, the deletion cookie is sent, every other ID keeps
   its content. *)
Theorem C06_destroy :
  forall s q k r,
    plan s = [] -> cache_ok s -> nodup_ok s -> fresh_ok s ->
    q_cookie q = CKey k -> L s k = Some r ->
    ip_ok (c_acceptip (conf s)) (r_ip r) (q_addr q) = false \/
    ua_ok (c_acceptua (conf s)) (r_ua r) (q_ua q) = false ->
    exists s' res nck,
      start s q = (s', res, CkDelete :: nck) /\
      no_session s q s' res nck /\
      lookup (cache s') k = None /\ lookup (store s') k = None /\
      (forall k', k' <> k -> k' <> KGen (supply s) -> Lc s' k' = Lc s k') /\
      (store_norm s -> store_norm s') /\
      ok s' /\ conf s' = conf s.
Proof. exact anomaly_destroys. Qed.

(* Whenever Start returns a session — any state, any fault plan, created,
   found, rotated or reached through replaced IDs — the returned object records
   this request's peer address and agent, and the current instant. *)
Theorem C06_moves :
  forall s q s' o cks,
    start s q = (s', Ok (Some o), cks) ->
    (exists ob, hget s' o = Some ob /\
                r_ip (o_rec ob) = q_addr q /\ r_ua (o_rec ob) = q_ua q /\ r_access (o_rec ob) = now s') /\
    now s' = now s.
Proof. exact start_moves. Qed.

(* When that object is the cached one for its ID, the comparison point of the
   next request is this request. (It is not when the object left a small cache
   in mid-request, or with cache size 0: see C03_live.) *)
Theorem C06_moves_L :
  forall s q o,
    touched s q o ->
    forall ob, hget s o = Some ob -> lookup (cache s) (o_id ob) = Some o ->
    exists r, L s (o_id ob) = Some r /\ r_ip r = q_addr q /\ r_ua r = q_ua q /\ r_access r = now s.
Proof. exact touched_L. Qed.

Print Assumptions C06_ip.
Print Assumptions C06_ip_octets.
Print Assumptions C06_ip_other_l.
Print Assumptions C06_ip_other_r.
Print Assumptions C06_ip_off.
Print Assumptions C06_ip_ge5.
Print Assumptions C06_ip_last_octet_free.
Print Assumptions C06_ua.
Print Assumptions C06_ua_accepting.
Print Assumptions C06_ua_missing.
Print Assumptions C06_destroy.
Print Assumptions C06_moves.
Print Assumptions C06_moves_L.
