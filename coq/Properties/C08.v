(* C08 — login attaches and rotates; exclusive login and logout detach everywhere.
   Statements only; proofs are in Proofs/UserLaws.v (on the invariant of
   Proofs/HistInv*.v). Per call, fault-free (plan s = [] is part of sess_inv), for
   any state satisfying cache_ok, nodup_ok and fresh_ok of SessDefs.v. Memory and
   store are both in the statements; the store's index (p_usersessions, `listed`)
   may list IDs that no longer exist. *)
From Sessions Require Import Model.Base Model.Sess Model.Hist Proofs.SessDefs
  Proofs.HistInv Proofs.HistInv2 Proofs.HistInv3 Proofs.UserLaws.

(* what the index answers *)
Theorem C08_index : forall s u, plan s = [] -> snd (p_usersessions s u) = Some (listed s u).
Proof. exact listed_is_index. Qed.

Theorem C08_login :
  forall s o u ex ob, sess_inv s -> hget s o = Some ob ->
  exists s' n ob', login s o u ex = (s', Ok tt, [CkLive (KGen n)]) /\ sess_inv s' /\
    hget s' o = Some ob' /\ o_id ob' = KGen n /\ KGen n <> o_id ob /\ r_user (o_rec ob') = Some u /\
    (exists r, lookup (store s') (KGen n) = Some r /\ r_user r = Some (fst u, 0%N)) /\
    nouser_at s' (o_id ob) /\
    (ex = true -> forall k, In k (listed s (fst u)) -> k <> KGen n -> nouser_at s' k).
Proof. exact login_sess. Qed.

Theorem C08_logout :
  forall s o ob, sess_inv s -> hget s o = Some ob ->
  exists s' ob', logout s o = (s', Ok tt) /\ sess_inv s' /\ hget s' o = Some ob' /\
    o_id ob' = o_id ob /\ r_user (o_rec ob') = None /\
    (r_user (o_rec ob) = None -> s' = s) /\
    (r_user (o_rec ob) <> None ->
       lookup (store s') (o_id ob) = Some (codec (conf s) (set_user (o_rec ob) None))).
Proof. exact logout_sess. Qed.

Theorem C08_logout_user :
  forall s u, sess_inv s ->
  exists s', logout_user s u = (s', Ok tt) /\ sess_inv s' /\ forall k, In k (listed s u) -> nouser_at s' k.
Proof. exact logout_user_sess. Qed.

Theorem C08_refresh :
  forall s u, sess_inv s ->
  exists s', refresh_user s u = (s', Ok tt) /\ sess_inv s' /\
    forall k, In k (listed s (fst u)) ->
      (forall r, lookup (store s') k = Some r -> r_user r = Some (fst u, 0%N)) /\
      (forall o ob, lookup (cache s') k = Some o -> hget s' o = Some ob -> r_user (o_rec ob) = Some u).
Proof. exact refresh_user_sess. Qed.

(* never Panic, never an error, whatever the index lists (IDs without a record
   are skipped) *)
Theorem C08_tolerant :
  forall s, sess_inv s ->
  (forall u, exists s', logout_user s u = (s', Ok tt)) /\
  (forall u, exists s', refresh_user s u = (s', Ok tt)) /\
  (forall o ob u ex, hget s o = Some ob -> exists s' cks, login s o u ex = (s', Ok tt, cks)) /\
  (forall o ob, hget s o = Some ob -> exists s', logout s o = (s', Ok tt)).
Proof. exact user_calls_tolerant. Qed.

Print Assumptions C08_index.
Print Assumptions C08_login.
Print Assumptions C08_logout.
Print Assumptions C08_logout_user.
Print Assumptions C08_refresh.
Print Assumptions C08_tolerant.
