(* C04, the concurrency clause — "K requests presenting the same due ID: exactly
   one new ID is created and all end on it" — for K calls of Start that take
   place one after the other. Statements only; proofs are in Proofs/C04Conc.v
   (Start through a chain of replaced IDs with its post-state written out),
   Proofs/C04Conc2.v (the induction) and Proofs/C04Conc3.v (bounds, histories,
   grace period 0), built on C04_seq_rotate (Properties/C04.v), C05_chain /
   C05H_inv_step / the invariant LI (Properties/C05.v, C05H.v) and C05_grace_dead.

   WHAT IS AND WHAT IS NOT PROVED HERE. The theorems below are about K calls
   executed serially in the model (Hist.step: request steps with an empty
   handler script, with waits between them), in ANY order — the statement is
   symmetric in the K requests: whichever comes first rotates, every other one
   follows the replaced ID. The step from "K goroutines execute Start
   concurrently" to "their critical sections (look-up, validation, rotation,
   following of references) take place one after the other in some order" is
   not a theorem about Go's scheduler; since round 4 it IS a theorem about the
   composition of the lock-table model with Start split at its look-up
   (Model/StartConc.v, Properties/C04K.v: every admissible schedule of K
   goroutines is a serial execution; without the lock two IDs are drawn).
   What remains outside Coq is exactly what these two give:
   (1) Properties/Shape.v: start_lock_precedes_get, login_lock_brackets_regenerate,
       lock_events_pinned — in the source as it is now (Gen/LockPos.v,
       regenerated on every run) Start takes the per-ID lock on the presented
       ID, defers its release, and only then looks the ID up, in one block,
       with no other use of the lock manager, no goroutine and no function
       literal in the function: every access Start makes to the session table
       lies inside the critical section of the presented ID;
   (2) Properties/C13.v: the lock manager gives mutual exclusion between the
       holders of one key (and the race-detector stage of the check exercises
       K goroutines on one ID on the real code).
   Requests presenting DIFFERENT IDs are not serialised by this lock; the
   theorems here say nothing about them.

   Vocabulary (definitions in Proofs/C04Conc2.v, spelled out by the *_meaning
   theorems below):
   plain_req r      a request step that is just a call of Start: empty handler
                    script, no planned fault, no crash
   presents w r     what r presents in world w: its client's jar, or a forged value
   req_of w r       the request Start sees
   LI s             the invariant of reachable states between steps (C05H_inv_init, C05H_inv_step)
   L s k            the record k resolves to (cached object over stored record)
   rotated/joined   what the first / a later call reports
   later_ok         the conditions on the later calls, relative to the worlds
                    they start from
   later_obs        their observations; later_end the world after them
   content_of r     (session data, user ID) of a record
   dlist evs        the IDs drawn (EvDraw) in an event list *)
From Sessions Require Import Model.Base Model.Sess Model.Hist Proofs.SessDefs
  Proofs.HistInv Proofs.HistInv3 Proofs.HistLift3 Proofs.HistLift4 Proofs.HistLift8
  Proofs.C04Conc2 Proofs.C04Conc3 Proofs.C04ConcEx.
From Sessions Require Proofs.RotateLaws2 Proofs.RotateLaws3 Proofs.StartLaws4 Proofs.C01Spec.
From Coq Require Permutation.

(* --- 1. K serial calls on one due ID ---------------------------------------

   In a state satisfying the invariant of reachable states (LI), let k resolve
   to a session's record rc (not a replaced-ID record) that passes Start's
   checks for the first request r1 (not idle for SessionExpiry, acceptable peer
   and agent) and is due (age >= SessionIDExpiry), with a positive grace period
   g; t the instant, n the number of IDs drawn so far, j = KGen n the next ID.
   r1 and the later requests are plain calls of Start presenting k, fault-free;
   each later one starts d >= 0 after the previous call ended, at an instant
   T < t + g at which the replaced-ID record passes Start's checks (checks_ok:
   C04C_checks_from_bounds gives them from T - t < SessionExpiry etc.).
   Then:
   - the first call reports the session under j (rc with created = lastAccess
     = t and r1's peer and agent: same data, same user), sets the cookie to j
     (the only Set-Cookie), and draws exactly the ID n;
   - every later call reports a session under the same ID j with the data and
     user of rc, not a replaced-ID record, its only Set-Cookie is Live j, and
     it draws nothing; no call reports an error (ob_res = RSess);
   - after all K calls and the waits between them n + 1 IDs have been drawn:
     exactly one EvDraw in total.
   "The same session" is: the same ID, the same data, the same user ID, never
   a replaced-ID record. It is not "the same heap object": observations carry
   no object identity, and at cache sizes 0 and 1 the calls do return different
   objects for the one session (same_object_ex; what that costs is C10's
   subject), while with room for two entries they return one object. *)
Theorem C04C_serialised :
  forall k rc w r1 l,
  LI (w_st w) -> plain_req r1 -> presents w r1 = CKey k ->
  L (w_st w) k = Some rc -> r_ref rc = None ->
  RotateLaws3.valid_for (conf (w_st w)) rc (now (w_st w)) (req_of w r1) = true ->
  (c_idexpiry (conf (w_st w)) <= since (r_created rc) (now (w_st w)))%Z ->
  (0 < c_grace (conf (w_st w)))%Z ->
  let n := supply (w_st w) in
  let t := now (w_st w) in
  let c := conf (w_st w) in
  let o1 := snd (step w (HReq r1)) in
  let w1 := fst (step w (HReq r1)) in
  later_ok k rc t n c w1 l ->
  rotated (KGen n) rc t (req_of w r1) n o1 /\ dlist (ob_evs o1) = [n] /\
  Forall (fun o => joined (KGen n) rc n o /\ dlist (ob_evs o) = []) (later_obs w1 l) /\
  supply (w_st (later_end w1 l)) = (n + 1)%N.
Proof. exact serialised. Qed.

(* The same with the conditions on the later calls in plain terms: the later
   requests are plain calls of Start carrying the old cookie k whose peer and
   agent the session accepted before the first call (acc_req: a condition on
   each request by itself, so the K - 1 of them may come in any order:
   C04C_any_order; and the first may be any request for which rc passes
   Start's checks), and they start at offsets D1 <= D2 <= ... from the first
   call with D < grace, D + the codec's resolution < SessionExpiry and < the
   backstop age (delays_ok). *)
Theorem C04C_serialised_plain :
  forall k rc w r1 l,
  LI (w_st w) -> plain_req r1 -> presents w r1 = CKey k ->
  L (w_st w) k = Some rc -> r_ref rc = None ->
  RotateLaws3.valid_for (conf (w_st w)) rc (now (w_st w)) (req_of w r1) = true ->
  (c_idexpiry (conf (w_st w)) <= since (r_created rc) (now (w_st w)))%Z ->
  (0 < c_grace (conf (w_st w)))%Z ->
  let n := supply (w_st w) in
  let t := now (w_st w) in
  let c := conf (w_st w) in
  let o1 := snd (step w (HReq r1)) in
  let w1 := fst (step w (HReq r1)) in
  Forall (acc_req k rc c) (map snd l) -> delays_ok c 0 (map fst l) ->
  rotated (KGen n) rc t (req_of w r1) n o1 /\ dlist (ob_evs o1) = [n] /\
  Forall (fun o => joined (KGen n) rc n o /\ dlist (ob_evs o) = []) (later_obs w1 l) /\
  supply (w_st (later_end w1 l)) = (n + 1)%N.
Proof. exact serialised_simple. Qed.

Theorem C04C_acc_req_meaning :
  forall k rc c r,
  acc_req k rc c r <->
  plain_req r /\ rq_present r = PForge (CKey k) /\
  ip_ok (c_acceptip c) (r_ip rc) (rq_addr r) = true /\
  ua_ok (c_acceptua c) (r_ua rc) (rq_ua r) = true.
Proof. exact acc_req_meaning. Qed.

Theorem C04C_delays_ok_meaning :
  forall c D,
  (delays_ok c D [] <-> True) /\
  forall d ds,
    delays_ok c D (d :: ds) <->
    (0 <= d)%Z /\ (D + d < c_grace c)%Z /\
    (D + d + StartLaws4.slack c < c_expiry c)%Z /\
    (D + d + StartLaws4.slack c < sat_add (c_idexpiry c) (c_grace c))%Z /\
    delays_ok c (D + d) ds.
Proof. exact delays_ok_meaning. Qed.

Theorem C04C_slack_meaning :
  forall c, StartLaws4.slack c = if c_json c then (second - 1)%Z else 0%Z.
Proof. exact slack_meaning. Qed.

Theorem C04C_any_order :
  forall k rc c rs rs',
  Permutation.Permutation rs rs' -> Forall (acc_req k rc c) rs -> Forall (acc_req k rc c) rs'.
Proof. exact acc_any_order. Qed.

(* the vocabulary of the statement, unfolded *)
Theorem C04C_plain_req_meaning :
  forall r, plain_req r <-> rq_script r = [] /\ rq_plan r = [] /\ rq_crash r = None.
Proof. exact plain_req_meaning. Qed.

Theorem C04C_rotated_meaning :
  forall j rc t q n o,
  rotated j rc t q n o <->
  ob_res o = RSess /\ ob_cookies o = [CkLive j] /\
  ob_start o = Some (j, RotateLaws3.seen_rec (RotateLaws2.rot_rec rc t) t q) /\
  ob_drawn o = (n + 1)%N.
Proof. exact rotated_meaning. Qed.

Theorem C04C_rotated_content :
  forall rc t q,
  C01Spec.content_of (RotateLaws3.seen_rec (RotateLaws2.rot_rec rc t) t q) = C01Spec.content_of rc /\
  r_ref (RotateLaws3.seen_rec (RotateLaws2.rot_rec rc t) t q) = r_ref rc.
Proof. exact rotated_content. Qed.

Theorem C04C_joined_meaning :
  forall j rc n o,
  joined j rc n o <->
  ob_res o = RSess /\ ob_cookies o = [CkLive j] /\
  (exists ri, ob_start o = Some (j, ri) /\ r_ref ri = None /\
              C01Spec.content_of ri = C01Spec.content_of rc) /\
  ob_drawn o = (n + 1)%N.
Proof. exact joined_meaning. Qed.

Theorem C04C_content_meaning :
  forall r,
  C01Spec.content_of r =
  (match r_data r with Some d => d | None => [] end,
   match r_user r with Some (u, _) => Some u | None => None end).
Proof. exact content_meaning. Qed.

Theorem C04C_later_ok_meaning :
  forall k rc t n c w,
  (later_ok k rc t n c w [] <-> True) /\
  forall d r l,
    later_ok k rc t n c w ((d, r) :: l) <->
    let w1 := fst (step w (HWait d)) in
    (0 <= d)%Z /\ (now (w_st w) + d < t + c_grace c)%Z /\
    plain_req r /\ presents w1 r = CKey k /\
    checks_ok c rc t (KGen n) (now (w_st w) + d) (req_of w1 r) /\
    later_ok k rc t n c (fst (step w1 (HReq r))) l.
Proof. exact later_ok_meaning. Qed.

Theorem C04C_later_obs_meaning :
  forall w,
  later_obs w [] = [] /\
  forall d r l,
    later_obs w ((d, r) :: l) =
    let w1 := fst (step w (HWait d)) in
    snd (step w1 (HReq r)) :: later_obs (fst (step w1 (HReq r))) l.
Proof. exact later_obs_meaning. Qed.

Theorem C04C_checks_ok_meaning :
  forall c rc t j T q,
  checks_ok c rc t j T q <->
  forall rk, rk = RotateLaws2.ref_rec rc t j \/ rk = codec c (RotateLaws2.ref_rec rc t j) ->
    RotateLaws3.valid_for c rk T q = true /\
    (since (r_created rk) T < sat_add (c_idexpiry c) (c_grace c))%Z.
Proof. exact checks_ok_meaning. Qed.

(* the later calls and the waits between them are a history of Hist.run_from:
   their observations are every second observation of its run *)
Theorem C04C_as_history :
  forall l w,
  later_obs w l = seconds (run_from w (later_hops l)) /\ later_end w l = after w (later_hops l).
Proof. exact later_run. Qed.

(* Start's checks on the replaced-ID record from plain bounds, for both
   codecs: the call comes T - t after the first one, with T - t plus the
   codec's resolution (JSON: one second minus 1 ns; gob: 0) below SessionExpiry
   (D10: C05_short_expiry_refuted shows that this bound is needed) and below
   the backstop age SessionIDExpiry (+) grace; its peer and agent are
   acceptable relative to those the session recorded BEFORE the first call
   (the replaced-ID record keeps them) — the same condition for all K. *)
Theorem C04C_checks_from_bounds :
  forall c rc t j T q,
  (0 <= T - t)%Z ->
  (T - t + StartLaws4.slack c < c_expiry c)%Z ->
  (T - t + StartLaws4.slack c < sat_add (c_idexpiry c) (c_grace c))%Z ->
  ip_ok (c_acceptip c) (r_ip rc) (q_addr q) = true ->
  ua_ok (c_acceptua c) (r_ua rc) (q_ua q) = true ->
  checks_ok c rc t j T q.
Proof. exact checks_ok_bounds. Qed.

(* under gob the backstop bound follows from T - t < grace *)
Theorem C04C_checks_gob :
  forall c rc t j T q,
  c_json c = false -> (0 <= c_idexpiry c)%Z -> (c_grace c <= max64)%Z ->
  (0 <= T - t)%Z -> (T - t < c_grace c)%Z -> (T - t < c_expiry c)%Z ->
  ip_ok (c_acceptip c) (r_ip rc) (q_addr q) = true ->
  ua_ok (c_acceptua c) (r_ua rc) (q_ua q) = true ->
  checks_ok c rc t j T q.
Proof. exact checks_ok_gob. Qed.

(* --- 2. grace period 0 ------------------------------------------------------

   With SessionIDGracePeriod = 0 the first call rotates as above, but the
   clean-up of the old ID is due at once and runs before the call's step ends:
   afterwards j holds the session and k resolves to nothing. k stays dead in
   every fault-free continuation (never cached, stored, returned, saved under
   or sent as a live cookie again), and a later plain call presenting k that
   does not ask for a new session, after any fault-free, crash-free history,
   is answered with no session and a deletion cookie, drawing nothing. (One
   that asks for a new session gets a fresh, empty one under a newly drawn ID:
   Start's creation path.) So with grace period 0 the K requests do NOT all end
   on the new ID: only the first does, the others lose the session — the model
   and the code agree on this; whether the property's clause is meant to cover
   grace period 0 is a question about the property. *)
Theorem C04C_grace0 :
  forall k rc w r1,
  LI (w_st w) -> plain_req r1 -> presents w r1 = CKey k ->
  L (w_st w) k = Some rc -> r_ref rc = None ->
  RotateLaws3.valid_for (conf (w_st w)) rc (now (w_st w)) (req_of w r1) = true ->
  (c_idexpiry (conf (w_st w)) <= since (r_created rc) (now (w_st w)))%Z ->
  c_grace (conf (w_st w)) = 0%Z ->
  let n := supply (w_st w) in
  let t := now (w_st w) in
  let o1 := snd (step w (HReq r1)) in
  let w1 := fst (step w (HReq r1)) in
  rotated (KGen n) rc t (req_of w r1) n o1 /\ dlist (ob_evs o1) = [n] /\
  (exists rj, L (w_st w1) (KGen n) = Some rj /\ r_ref rj = None /\
              C01Spec.content_of rj = C01Spec.content_of rc) /\
  L (w_st w1) k = None /\
  (forall hs, Forall ff_hop hs ->
     L (w_st (after w1 hs)) k = None /\ Forall (dead_obs k) (run_from w1 hs)) /\
  (forall hs r, Forall ff_hop hs -> Forall crash_free hs ->
     plain_req r -> presents (after w1 hs) r = CKey k -> rq_create r = false ->
     let o := snd (step (after w1 hs) (HReq r)) in
     ob_res o = RNone /\ ob_start o = None /\ ob_cookies o = [CkDelete] /\ dlist (ob_evs o) = []).
Proof. exact grace0. Qed.

Print Assumptions C04C_serialised.
Print Assumptions C04C_serialised_plain.
Print Assumptions C04C_acc_req_meaning.
Print Assumptions C04C_delays_ok_meaning.
Print Assumptions C04C_slack_meaning.
Print Assumptions C04C_any_order.
Print Assumptions C04C_plain_req_meaning.
Print Assumptions C04C_rotated_meaning.
Print Assumptions C04C_rotated_content.
Print Assumptions C04C_joined_meaning.
Print Assumptions C04C_content_meaning.
Print Assumptions C04C_later_ok_meaning.
Print Assumptions C04C_later_obs_meaning.
Print Assumptions C04C_checks_ok_meaning.
Print Assumptions C04C_as_history.
Print Assumptions C04C_checks_from_bounds.
Print Assumptions C04C_checks_gob.
Print Assumptions C04C_grace0.
(* non-vacuity (Proofs/C04ConcEx.v): a reachable world with a due ID, three
   calls presenting it under the JSON codec; the same with grace period 0 *)
Print Assumptions serialised_ex.
Print Assumptions serialised_simple_ex.
Print Assumptions serialised_run_ex.
Print Assumptions grace0_ex.
Print Assumptions grace0_run_ex.
(* the calls return one heap object when the cache has room for two entries,
   different objects for the same session at cache sizes 0 and 1 *)
Print Assumptions same_object_ex.
