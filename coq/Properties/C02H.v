(* C02 at the history level — unknown or forged cookie values never grant,
   hijack or fix a session, in every state a history reaches.
   Statements only; proofs are in Proofs/LiveHist8.v (built on PC's
   StartLaws*.v and PF's HistInv*.v / DeadLaws.v).

     reach c hs     the world after the history hs from the initial state
     ff_hop         no persistence fault is planned in the hop
     crash_free     the hop is not a request that crashes
     pres w r       the cookie value the request step r presents in world w
                    (the client's jar, or the forged value)
     req_s1 w r     the state the request's Start runs on: the world's state
                    with an empty event log and the step's tie-break list
     req_q w r      the request handed to Start
     no_session, Lc, ok, under, creation_ev   as in Properties/C02.v *)
From Sessions Require Import Model.Base Model.Sess Model.Hist Proofs.SessDefs
  Proofs.HistInv Proofs.HistInv2 Proofs.HistInv3 Proofs.LiveHist4 Proofs.LiveHist8.
From Sessions Require Proofs.StartLaws Proofs.StartLaws2 Proofs.StartLaws3.

(* The invariants that C02_unknown / C02_nolookup / C03_dead / C06_destroy
   assume hold in every state reached by a fault-free, crash-free history *)
Theorem C02H_hypotheses_hold :
  forall c hs, Forall ff_hop hs -> Forall crash_free hs ->
    let s := w_st (reach c hs) in plan s = [] /\ cache_ok s /\ nodup_ok s /\ fresh_ok s.
Proof. exact reach_sess_inv. Qed.

(* ... so C02_unknown's conclusion holds for every request, in every such
   state, that presents a 24-character value resolving to nothing: the deletion
   cookie, nothing or a fresh session, every other ID keeps its content, and
   (createIfNew unset) the state changes by one logged look-up only *)
Theorem C02H_unknown :
  forall c hs r k,
    Forall ff_hop hs -> Forall crash_free hs ->
    pres (reach c hs) r = CKey k -> L (w_st (reach c hs)) k = None ->
    let w := reach c hs in
    let s1 := req_s1 w r in
    let q := req_q w r in
    exists s' res nck new,
      start s1 q = (s', res, CkDelete :: nck) /\
      StartLaws3.no_session s1 q s' res nck /\
      (forall k', k' <> KGen (supply (w_st w)) -> StartLaws.Lc s' k' = StartLaws.Lc (w_st w) k') /\
      (rq_create r = false -> s' = log s1 (EvLoad k true)) /\
      StartLaws2.ok s' /\ conf s' = conf (w_st w) /\
      evs s' = new /\
      (key_drawn (w_st w) k ->
         KGen (supply (w_st w)) <> k /\ L s' k = None /\ filter (StartLaws3.under k) new = [EvLoad k true]).
Proof. exact unknown_hist. Qed.

(* what the step reports *)
Theorem C02H_unknown_obs :
  forall c hs r k,
    Forall ff_hop hs -> Forall crash_free hs -> rq_plan r = [] -> rq_crash r = None ->
    pres (reach c hs) r = CKey k -> L (w_st (reach c hs)) k = None ->
    let w := reach c hs in
    let o := snd (step w (HReq r)) in
    if rq_create r then
      ob_res o = RSess /\
      ob_start o = Some (KGen (supply (w_st w)),
                         mkRec (now (w_st w)) (now (w_st w)) (rq_addr r) (rq_ua r) None None (Some [])) /\
      exists rest, ob_cookies o = CkDelete :: CkLive (KGen (supply (w_st w))) :: rest
    else
      ob_res o = RNone /\ ob_start o = None /\ ob_final o = None /\ ob_script o = [] /\
      ob_cookies o = [CkDelete] /\
      (rq_present r = PJar -> ob_jar o = CNone).
Proof. exact unknown_obs. Qed.

(* any other cookie value *)
Theorem C02H_nolookup :
  forall c hs r,
    Forall ff_hop hs -> Forall crash_free hs ->
    (forall k, pres (reach c hs) r <> CKey k) ->
    let w := reach c hs in
    let s1 := req_s1 w r in
    let q := req_q w r in
    exists s' res nck new,
      start s1 q = (s', res, nck) /\
      StartLaws3.no_session s1 q s' res nck /\
      (forall k', k' <> KGen (supply (w_st w)) -> StartLaws.Lc s' k' = StartLaws.Lc (w_st w) k') /\
      (rq_create r = false -> s' = s1) /\
      StartLaws2.ok s' /\ conf s' = conf (w_st w) /\
      evs s' = new /\ Forall (StartLaws2.creation_ev s1) new.
Proof. exact nolookup_hist. Qed.

(* Which values resolve to nothing — in every state of every fault-free
   history, crashes, cache loss and restarts included: *)

(* a value the server never generates *)
Theorem C02H_junk_unknown :
  forall c hs n, Forall ff_hop hs -> L (w_st (reach c hs)) (KJunk n) = None.
Proof. exact junk_unknown. Qed.

(* an ID not issued so far *)
Theorem C02H_undrawn_unknown :
  forall c hs n, Forall ff_hop hs -> (supply (w_st (reach c hs)) <= n)%N -> L (w_st (reach c hs)) (KGen n) = None.
Proof. exact undrawn_unknown. Qed.

(* an ID that was issued and is gone — destroyed, invalidated, cleaned up:
   it stays unknown in every fault-free continuation *)
Theorem C02H_gone_unknown :
  forall c hs1 hs2 k,
    Forall ff_hop hs1 -> Forall ff_hop hs2 ->
    key_drawn (w_st (reach c hs1)) k -> L (w_st (reach c hs1)) k = None ->
    L (w_st (after (reach c hs1) hs2)) k = None.
Proof. exact gone_unknown. Qed.

Theorem C02H_pres_meaning :
  forall w r, pres w r = match rq_present r with PJar => jar_of (w_jars w) (rq_client r) | PForge c => c end.
Proof. reflexivity. Qed.

Theorem C02H_req_s1_meaning :
  forall w r, req_s1 w r = set_tb (set_plan (set_evs (w_st w) []) []) (rq_tb r).
Proof. reflexivity. Qed.

Theorem C02H_req_q_meaning :
  forall w r, req_q w r = mkReq (pres w r) (rq_create r) (rq_addr r) (rq_ua r).
Proof. reflexivity. Qed.

Print Assumptions C02H_hypotheses_hold.
Print Assumptions C02H_unknown.
Print Assumptions C02H_unknown_obs.
Print Assumptions C02H_nolookup.
Print Assumptions C02H_junk_unknown.
Print Assumptions C02H_undrawn_unknown.
Print Assumptions C02H_gone_unknown.
(* non-vacuity (Proofs/LiveHist8.v, Module Ex8) *)
Print Assumptions Ex8.unknown_junk.
Print Assumptions Ex8.unknown_next.
