(* C05 — replaced IDs reach the live session during grace and nothing
   afterwards (per call). Statements only; proofs are in Proofs/RotateLaws*.v.
   chain_rec s r [i_1; ...; i_n] says: r refers to i_1, which resolves (L) to a
   record referring to i_2, ..., and i_n resolves to a record that is not a
   reference. ref_wf s: every reference names a drawn generated ID with a larger
   ordinal than the ID it is stored under. *)
From Sessions Require Import Model.Base Model.Sess Model.Hist Proofs.SessDefs
  Proofs.RotateLaws Proofs.RotateLaws2 Proofs.RotateLaws3 Proofs.RotateLaws4 Proofs.RotateLaws5
  Proofs.RotateLaws7 Proofs.RotateEx.
From Coq Require Import Lia.

(* follow on the head of an intact chain, with at least as much fuel as hops:
   it returns the object of the last ID, which is not a reference and is what L
   maps that ID to (equal to the record L had before, up to the codec). The key
   it returns (Go's currentID, the value of the redirect cookie) is the last
   key followed, last rest lk; started with lk = o_id ob that is the ID field
   of the object reached (o_id ob' = last rest (o_id ob), by cache_ok). *)
Theorem C05_chain_follow :
  forall rest fuel s o ob lk,
    length rest <= fuel ->
    plan s = [] -> cache_ok s -> NoDup (map fst (cache s)) ->
    (forall k, In k rest -> k <> KGen (supply s)) ->
    hget s o = Some ob -> chain_rec s (o_rec ob) rest ->
    exists s' o' ob',
      follow fuel s o lk = (s', Ok (o', last rest lk)) /\ quiet s s' /\
      hget s' o' = Some ob' /\ r_ref (o_rec ob') = None /\ o_id ob' = last rest (o_id ob) /\
      (rest = [] -> o' = o /\ s' = s) /\
      (rest <> [] -> L s' (o_id ob') = Some (o_rec ob') /\
                     exists rn, L s (o_id ob') = Some rn /\
                                (o_rec ob' = rn \/ o_rec ob' = codec (conf s) rn)).
Proof. exact follow_chain. Qed.

(* Start presenting the head of an intact chain (valid, not past the backstop):
   it returns the session at the end of the chain, never a reference record,
   and the only cookie is Live of the last ID *)
Theorem C05_chain :
  forall s q k r rest,
    plan s = [] -> cache_ok s -> nodup_ok s -> fresh_ok s -> ref_wf s ->
    q_cookie q = CKey k -> L s k = Some r -> chain_rec s r rest -> rest <> [] ->
    valid_for (conf s) r (now s) q = true ->
    (since (r_created r) (now s) < sat_add (c_idexpiry (conf s)) (c_grace (conf s)))%Z ->
    let kn := last rest k in
    exists s' o' rn r',
      start s q = (s', Ok (Some o'), [CkLive kn]) /\
      L s kn = Some rn /\ r_ref rn = None /\ (r' = rn \/ r' = codec (conf s) rn) /\
      hget s' o' = Some (mkObj kn (seen_rec r' (now s) q)) /\
      draws (evs s') = draws (evs s) /\ supply s' = supply s /\
      (exists rk, L s' kn = Some rk /\ r_ref rk = None).
Proof. exact start_chain. Qed.

(* whatever is presented, fault-free Start never returns a reference record as
   the session (the presented value is assumed not to be the next ID to be
   generated) *)
Theorem C05_never_placeholder :
  forall s q s' o cks,
    plan s = [] -> cache_ok s -> nodup_ok s -> fresh_ok s ->
    q_cookie q <> CKey (KGen (supply s)) ->
    start s q = (s', Ok (Some o), cks) ->
    exists ob, hget s' o = Some ob /\ r_ref (o_rec ob) = None.
Proof. exact start_never_placeholder. Qed.

(* the fuel Start gives, S supply, is never used up: ERefLoop is unreachable *)
Theorem C05_fuel :
  forall s o ob lk,
    plan s = [] -> cache_ok s -> nodup_ok s -> ref_wf s -> hget s o = Some ob ->
    L s (o_id ob) = Some (o_rec ob) ->
    snd (follow (S (N.to_nat (supply s))) s o lk) <> Err ERefLoop.
Proof. exact follow_fuel_suffices. Qed.

(* ref_wf holds initially, survives loads and flushes, and RegenerateID of a
   session (not a reference record) keeps it; the replaced ID then heads an
   intact chain of length 1 *)
Theorem C05_ref_wf_init : forall c, ref_wf (init_st c).
Proof. exact ref_wf_init. Qed.

Theorem C05_ref_wf_regenerate :
  forall s o ob s' res cks,
    plan s = [] -> cache_ok s -> nodup_ok s -> fresh_ok s -> ref_wf s ->
    hget s o = Some ob -> r_ref (o_rec ob) = None ->
    regenerate s o = (s', res, cks) -> ref_wf s'.
Proof. exact regenerate_ref_wf. Qed.

Theorem C05_chain_after_regenerate :
  forall s o ob s' res cks,
    plan s = [] -> cache_ok s -> nodup_ok s -> fresh_ok s ->
    hget s o = Some ob -> r_ref (o_rec ob) = None ->
    regenerate s o = (s', res, cks) -> chain_from s' (o_id ob) [KGen (supply s)].
Proof. exact regenerate_chain. Qed.

(* One ID change end to end: after RegenerateID of a session, at any instant
   d < grace later (clean-ups due by then have run) at which the placeholder
   passes Start's own checks — written either as it is in memory or as the
   codec returns it —, presenting the replaced ID returns the live session
   (same data and user: C04_same_session) and the only cookie is Live of the
   new ID. The replaced ID is assumed not to be queued for clean-up already. *)
Theorem C05_grace_live :
  forall s o ob d q,
    plan s = [] -> cache_ok s -> nodup_ok s -> fresh_ok s -> ref_wf s ->
    hget s o = Some ob -> r_ref (o_rec ob) = None ->
    (forall d' k', In (d', k') (pending s) -> k' <> o_id ob) ->
    (0 <= d < c_grace (conf s))%Z ->
    let j := KGen (supply s) in
    let t := now s in
    let r0 := ref_rec (o_rec ob) t j in
    q_cookie q = CKey (o_id ob) ->
    (forall r', r' = r0 \/ r' = codec (conf s) r0 ->
       valid_for (conf s) r' (t + d) q = true /\
       (since (r_created r') (t + d) < sat_add (c_idexpiry (conf s)) (c_grace (conf s)))%Z) ->
    let s1 := fst (fst (regenerate s o)) in
    let s2 := fire_due (set_now s1 (t + d)) in
    exists s' o' r',
      start s2 q = (s', Ok (Some o'), [CkLive j]) /\
      (r' = rot_rec (o_rec ob) t \/ r' = codec (conf s) (rot_rec (o_rec ob) t)) /\
      hget s' o' = Some (mkObj j (seen_rec r' (t + d) q)).
Proof. exact grace_live. Qed.

(* under gob the check hypothesis follows from d < SessionExpiry, d < grace and
   an acceptable peer (the second bound is D10: see C05_short_expiry_refuted) *)
Theorem C05_grace_live_checks_gob :
  forall c r t d q j,
    c_json c = false -> (0 <= d)%Z -> (d < c_expiry c)%Z -> (d < c_grace c)%Z ->
    (0 <= c_idexpiry c)%Z -> (c_grace c <= max64)%Z ->
    ip_ok (c_acceptip c) (r_ip r) (q_addr q) = true -> ua_ok (c_acceptua c) (r_ua r) (q_ua q) = true ->
    forall r', r' = ref_rec r t j \/ r' = codec c (ref_rec r t j) ->
      valid_for c r' (t + d) q = true /\
      (since (r_created r') (t + d) < sat_add (c_idexpiry c) (c_grace c))%Z.
Proof. exact grace_live_checks_gob. Qed.

(* the invariants survive RegenerateID and the clean-up pass *)
Theorem C05_regenerate_inv :
  forall s o ob s' res cks,
    plan s = [] -> cache_ok s -> nodup_ok s -> fresh_ok s -> hget s o = Some ob ->
    regenerate s o = (s', res, cks) ->
    plan s' = [] /\ cache_ok s' /\ nodup_ok s' /\ fresh_ok s'.
Proof. exact regenerate_inv. Qed.

(* the clean-up is queued for now + grace ... *)
Theorem C05_pending :
  forall s o ob s' res cks,
    plan s = [] -> cache_ok s -> nodup_ok s -> fresh_ok s -> hget s o = Some ob ->
    regenerate s o = (s', res, cks) ->
    res = Ok tt /\ pending s' = pending s ++ [((now s + c_grace (conf s))%Z, o_id ob)].
Proof. exact regenerate_pending. Qed.

(* ... when it is due it removes the ID from cache and store, whatever else is
   due at the same time; before that it stays queued *)
Theorem C05_grace_dead :
  forall s d k,
    plan s = [] -> In (d, k) (pending s) -> (d <= now s)%Z ->
    let s' := fire_due s in
    lookup (cache s') k = None /\ lookup (store s') k = None /\ L s' k = None /\
    pending s' = filter (fun e => negb (fst e <=? now s)%Z) (pending s).
Proof. exact fire_due_dead. Qed.

Theorem C05_grace_keeps :
  forall s d k,
    plan s = [] -> In (d, k) (pending s) -> (now s < d)%Z -> In (d, k) (pending (fire_due s)).
Proof. exact fire_due_keeps. Qed.

(* a reference record as old as SessionIDExpiry (+) grace is refused and removed *)
Theorem C05_backstop :
  forall s q k r tgt,
    plan s = [] -> cache_ok s -> nodup_ok s -> fresh_ok s ->
    q_cookie q = CKey k -> L s k = Some r -> r_ref r = Some tgt ->
    valid_for (conf s) r (now s) q = true ->
    (sat_add (c_idexpiry (conf s)) (c_grace (conf s)) <= since (r_created r) (now s))%Z ->
    exists s',
      start s q = (s', Err EExpiredID, []) /\
      lookup (cache s') k = None /\ lookup (store s') k = None /\ L s' k = None /\
      draws (evs s') = draws (evs s).
Proof. exact start_backstop. Qed.

(* Expired() on a reference record: exactly what it computes, and, for the
   record as RegenerateID writes it (created = lastAccess, also after either
   codec: C04_placeholder), true exactly from the end of the grace period *)
Theorem C05_expired_ref_exact :
  forall c r t j, r_ref r = Some j ->
    (expired c r t = true <->
     (c_grace c <= since (r_access r) t)%Z \/
     ((c_expiry c <= since (r_access r) t)%Z /\
      (sat_add (c_idexpiry c) (c_grace c) <= since (r_created r) t)%Z)).
Proof. exact expired_ref_exact. Qed.

Theorem C05_expired_ref :
  forall c r t j,
    r_ref r = Some j -> r_created r = r_access r ->
    (0 <= c_idexpiry c)%Z -> (c_grace c <= max64)%Z ->
    (expired c r t = true <-> (c_grace c <= since (r_access r) t)%Z).
Proof. exact expired_ref_grace. Qed.

(* D10: SessionExpiry < grace: a replaced ID is refused and destroyed inside
   its grace period although the session is alive and was just used *)
Theorem C05_short_expiry_refuted :
  exists s q k r tgt d rt,
    (plan s = [] /\ cache_ok s /\ nodup_ok s /\ fresh_ok s) /\
    q_cookie q = CKey k /\ L s k = Some r /\ r_ref r = Some tgt /\
    In (d, k) (pending s) /\ (now s < d)%Z /\
    L s tgt = Some rt /\ r_ref rt = None /\
    valid_for (conf s) rt (now s) (mkReq (CKey tgt) false (q_addr q) (q_ua q)) = true /\
    exists s', start s q = (s', Ok None, [CkDelete]) /\ L s' k = None.
Proof. exact short_expiry_refuted. Qed.

Print Assumptions C05_chain_follow.
Print Assumptions C05_chain.
Print Assumptions C05_never_placeholder.
Print Assumptions C05_fuel.
Print Assumptions C05_ref_wf_init.
Print Assumptions C05_ref_wf_regenerate.
Print Assumptions C05_chain_after_regenerate.
Print Assumptions C05_grace_live.
Print Assumptions C05_grace_live_checks_gob.
Print Assumptions C05_regenerate_inv.
Print Assumptions C05_pending.
Print Assumptions C05_grace_dead.
Print Assumptions C05_grace_keeps.
Print Assumptions C05_backstop.
Print Assumptions C05_expired_ref_exact.
Print Assumptions C05_expired_ref.
Print Assumptions C05_short_expiry_refuted.
(* non-vacuity (Proofs/RotateEx.v) *)
Print Assumptions start_chain_ex.
Print Assumptions fire_due_ex.
Print Assumptions start_backstop_ex.
Print Assumptions expired_ref_ex.
Print Assumptions short_expiry_witness.
Print Assumptions grace_live_ex.
