(* C14, timed (audit task A7) - no deadlock, no lost wake-up, bounded runs, for
   timed runs of Model/MutexTimed.v whose holds are short: the time proviso
   `tadm_run` (see Properties/C13T.v) in place of `adm_run`. Statements only;
   each is the C14 theorem applied to the erased run, which C13T_admissible
   shows to be an admissible run of the untimed protocol. *)
From Sessions Require Import Model.Base Model.Mutex Model.MutexTimed
  Proofs.MutexBasics Proofs.MutexSafety Proofs.MutexProgress Proofs.MutexTheorems
  Proofs.MutexTimed Proofs.MutexTimedThms.

(* No deadlock: while some script is unfinished a step of the protocol is
   enabled that keeps the untimed provisos. *)
Theorem C14T_no_deadlock :
  forall stale scripts purges t0 evs ts,
    trun stale (tinit scripts purges t0) evs = Some ts ->
    tadm_run stale (tinit scripts purges t0) evs ->
    finished (ust ts) = false -> exists l st', step (ust ts) l = Some st' /\ adm (ust ts) l.
Proof. exact c14t_no_deadlock. Qed.

(* The same in timed terms: unless some hold is already older than `stale`, a
   timed event at the current instant is enabled and within the time proviso
   (for the purge loop: visiting the whole table). *)
Theorem C14T_timed_progress :
  forall stale scripts purges t0 evs ts,
    trun stale (tinit scripts purges t0) evs = Some ts ->
    tadm_run stale (tinit scripts purges t0) evs ->
    finished (ust ts) = false -> hold_within stale ts (now ts) ->
    exists ev ts', fst ev = now ts /\ tstep stale ts ev = Some ts' /\ tadm stale ts ev.
Proof. exact c14t_timed_progress. Qed.

(* Timed runs are bounded by the initial measure; a state from which no
   admissible step is enabled has finished every script (no waiter forgotten by
   a release or by a purge); and an admissible completion exists. *)
Theorem C14T_terminates :
  forall stale scripts purges t0 evs ts,
    trun stale (tinit scripts purges t0) evs = Some ts ->
    tadm_run stale (tinit scripts purges t0) evs ->
    length evs <= measure (init scripts purges) /\
    ((forall l st', step (ust ts) l = Some st' -> ~ adm (ust ts) l) -> finished (ust ts) = true) /\
    (exists ls' st', run (ust ts) ls' = Some st' /\ adm_run (ust ts) ls' /\ finished st' = true).
Proof.
  exact (fun stale scripts purges t0 evs ts Hr Ha =>
           conj (c14t_bounded stale scripts purges t0 evs ts Hr Ha)
             (conj (c14t_maximal_finished stale scripts purges t0 evs ts Hr Ha)
                   (c14t_completes stale scripts purges t0 evs ts Hr Ha))).
Qed.

(* Exactly one waiter per release, from any state a timed run within the
   proviso reaches. *)
Theorem C14T_one_per_release :
  forall stale scripts purges t0 evs ts,
    trun stale (tinit scripts purges t0) evs = Some ts ->
    tadm_run stale (tinit scripts purges t0) evs ->
    (forall tr st' k, atrace (ust ts) tr st' ->
       cnt (is_grant k) tr <= cnt (is_release k) tr + 1 /\
       (cnt (is_release k) tr = 0 -> cnt (is_grant k) tr <= 1)) /\
    (forall k ov st1, mgr (ust ts) = MRel k -> 0 < cA (ust ts) k -> step (ust ts) (LMgrGet ov) = Some st1 ->
       exists c, mgr st1 = MRelSend c k).
Proof.
  exact (fun stale scripts purges t0 evs ts Hr Ha =>
           conj (c14t_one_per_release stale scripts purges t0 evs ts Hr Ha)
                (c14t_hands_over stale scripts purges t0 evs ts Hr Ha)).
Qed.

Print Assumptions C14T_no_deadlock.
Print Assumptions C14T_timed_progress.
Print Assumptions C14T_terminates.
Print Assumptions C14T_one_per_release.
