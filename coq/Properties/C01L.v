(* C01, the liveness half along histories — a cookie-following client gets its
   own session back. Statements only; proofs are in Proofs/C01Live3.v …
   C01Live6.v (the induction; bridges between the jar invariant of the safety
   half, Properties/C01H.v, and C03H's "owns", Properties/C03H.v) and
   Proofs/C01Peer.v … C01Peer5.v (the frame for the recorded peer address and
   agent, built like the content frame of the safety half).

   The ghost (l_step2, Proofs/C01Live5.v): the current configuration and, per
   client, when, from which peer and with which agent its last accepted request
   came — recorded at every request step that reports a session and leaves an
   ID in the client's jar, when the cache is enabled and the script contains no
   Destroy; forgotten otherwise. The promise is due (live_cond) when an entry
   exists, the cache is enabled, SessionExpiry and the grace period are not
   negative, SessionIDExpiry <= max64, the request comes less than SessionExpiry
   minus the codec's resolution (JSON: one second minus 1 ns; gob: 0) after the
   recorded instant, from the same peer address with the same agent hash. It is
   kept (served) when Start, on the state the step prepares, returns a session
   without first deleting the presented cookie: the presented ID's own session,
   under the same or a rotated ID.

   Admissible histories (live_hop): any number of clients, all cookie-following,
   no planned faults, no crashes, any handler scripts; every cache size (with size 0
   nothing is promised), every duration, every tie-break list; waits (clean-ups
   fire) not negative, purges, user-wide logouts and refreshes, other clients'
   requests with any script, configuration changes that keep the codec and the
   peer/agent rules (AcceptRemoteIP, AcceptChangingUserAgent); NO cache loss
   (HDropCache, HRestart: C09 — it costs the access times).

   Differences to C01_liveness_statement of Properties/C01H.v (Proofs/C01Live.v),
   which stays a tested Definition: (1) histories with cache loss are not
   covered (there the ghost is reset at a cache loss); (2) no entry is recorded
   when the script contains a Destroy — a Destroy that runs empties the jar
   anyway; one that a panic of an earlier operation keeps from running would
   leave an entry there, and "no handler operation panics" is not proved.

   The peer/agent caveat at small cache sizes, precisely: what is proved about
   the recorded peer and agent after a client's accepted request is
   C01L_peer_after_own — the record the jar's ID resolves to ACCEPTS the
   request's peer and agent under the rules; it need not RECORD them: when a
   rotation pushes the session's object out of the cache inside RegenerateID
   (cache size 1) Start's note of peer and agent reaches neither cache nor store
   (C01L_peer_not_moved_size1). Hence "same peer, same agent" in the promise
   of C01_liveness_hist; the variant promising service to every peer and agent
   the rules accept relative to the last accepted request's is false
   (C01_liveness_rules_refuted, Properties/C01H.v) — and not only at cache size
   1: C01L_rules_refuted_every_size_class.

   Under the package's own acceptance rules (audit task A4; Proofs/C01Rules.v,
   Proofs/C01RulesEx.v): since the record ACCEPTS the last accepted request's
   peer a0 and agent u0, the promise extends to exactly the requests (a, u)
   that every record accepting (a0, u0) accepts (C01L_accept_iff_all_records):
   ip_ok n a0 a, ua_ok b u0 u, and not (the octet rule compares something, a0
   is an address Start's pattern did not match, a is one it matches) — at EVERY
   cache size (C01L_liveness_acc, C01L_served_acc). So a client whose source
   port changes at every request is covered (C01L_live_cond_acc_port), with
   AcceptRemoteIP <= 1 and AcceptChangingUserAgent any peer and agent is
   (C01L_live_cond_acc_any), and the plain rule-based variant holds along every
   admissible history in which the octet rule compares nothing or no request
   comes from an unmatched address (C01L_liveness_rules). The boundary of the
   plain variant is the address shape, not the cache size: it fails at sizes 1,
   2, 3 (sizes >= 2: all cached sessions equally old and an unlucky map order)
   and with an unbounded cache when SessionCacheExpiry is negative.

   What the failing cases have in common is a rotation of the ID by Start at
   the last accepted request. Precisely (Proofs/C01Peer6.v,
   C01L_peer_after_own_exact): after a client's own request that is given a
   session, the record its jar's ID resolves to holds THAT request's peer and
   agent, unless Start returned the session under another ID than the
   presented one (or the cache is disabled), in which case it may hold what the
   presented ID resolved to before — nothing else. Hence the third form
   (Proofs/C01Rules2.v; ghost l_step3): per client the peers and agents of its
   accepted requests since the last one at which Start did not rotate the ID;
   the promise is due when every one of them accepts the request's peer and
   agent (C01L_liveness_set, C01L_served_set; every cache size). After a request
   without a rotation by Start there is one candidate and the condition IS the
   plain rule-based one (C01L_live_cond_set_single); with rotations it covers a
   client alternating between matched and unmatched addresses (IPv4/IPv6),
   which the second form leaves out. *)
From Sessions Require Import Model.Base Model.Sess Model.Hist Model.Corr Proofs.SessDefs
  Proofs.WriteThrough Proofs.WriteThrough4 Proofs.WriteThrough5
  Proofs.C01Spec Proofs.C01Hist Proofs.C01Hist4 Proofs.C01Hist7 Proofs.C01Hist11
  Proofs.C01Live Proofs.C01Live3 Proofs.C01Live4 Proofs.C01Live5 Proofs.C01Peer5 Proofs.C01Live6
  Proofs.C01Peer6 Proofs.C01Rules Proofs.C01RulesEx Proofs.C01Rules2 Proofs.C01RulesEx2.
From Sessions Require Proofs.HistInv Proofs.HistInv3 Proofs.StartLaws4 Proofs.LiveHist4 Proofs.LiveHist5 Proofs.LiveHist6.

(* ------------------------------------------------------------ the theorem *)

Theorem C01_liveness_hist :
  forall c hs,
  forallb (live_hop (c_acceptip c) (c_acceptua c) (c_json c)) hs = true ->
  l_run2 live_cond (c, []) (mkWorld (init_st c) []) hs = true.
Proof. exact c01_liveness. Qed.

(* The same for one request after any admissible history, together with the
   safety half: the promise is due => Start returns the presented ID's own
   session, the step reports a session, and its data and user ID are what the
   ghost specification of the safety half has for that client. *)
Theorem C01_served_spec :
  forall c hs r t0 a0 u0,
  forallb (live_hop (c_acceptip c) (c_acceptua c) (c_json c)) (hs ++ [HReq r]) = true ->
  let w := HistInv3.after (mkWorld (init_st c) []) hs in
  let g := g_after [] hs (run c hs) in
  let cl := l_after2 (c, []) (mkWorld (init_st c) []) hs in
  l_get (snd cl) (rq_client r) = Some (t0, a0, u0) ->
  live_cond (fst cl) (now (w_st w)) (t0, a0, u0) (rq_addr r) (rq_ua r) = true ->
  served w r = true /\
  ob_res (snd (step w (HReq r))) = RSess /\
  exists id rc, ob_start (snd (step w (HReq r))) = Some (id, rc) /\
                g_get g (rq_client r) = Some (content_of rc).
Proof. exact c01_served_spec. Qed.

(* ---------------------------------------------------------- the invariant *)

(* LI j n b w g cf lg: the jar invariant of the safety half, C03H's W, the ghost
   configuration is the state's, its rules are n, b, and for every ghost entry
   (t0, a0, u0) of a client: the client owns the ID in its jar with access time
   (through the codec) >= t0 (C03H's owns: the ID is in the jar, resolves to a
   session, awaits no clean-up), and the record there accepts a0, u0. *)
Theorem C01L_inv_meaning :
  forall j n b w g cf lg,
  LI j n b w g cf lg <->
  JI w g /\ W j w /\ conf (w_st w) = cf /\ c_acceptip cf = n /\ c_acceptua cf = b /\
  (forall c t0 a0 u0, l_get lg c = Some (t0, a0, u0) ->
     exists k, owns j c k (fl j t0) w /\ peer_ok n b a0 u0 (w_st w) k).
Proof. exact LI_meaning. Qed.

Theorem C01L_inv_init :
  forall c, LI (c_json c) (c_acceptip c) (c_acceptua c) (mkWorld (init_st c) []) [] c [].
Proof. exact LI_init. Qed.

(* every admissible step keeps the invariant, and the promise if due *)
Theorem C01L_inv_step :
  forall j n b w g cf lg h,
  LI j n b w g cf lg -> live_hop n b j h = true ->
  fst (l_step2 live_cond (cf, lg) w h (snd (step w h))) = true /\
  LI j n b (fst (step w h)) (snd (g_step g h (snd (step w h))))
     (fst (snd (l_step2 live_cond (cf, lg) w h (snd (step w h)))))
     (snd (snd (l_step2 live_cond (cf, lg) w h (snd (step w h))))).
Proof. exact LI_step_full. Qed.

(* ------------------------------------------------------------ the bridges *)

(* After ANY request of a cookie-following client that is given a session — its
   own under the same or a rotated ID (also when the rotated session leaves a
   one-slot cache at once), or a new one after an unknown, invalid or absent
   cookie —, cache enabled, no Destroy in the script: the client owns the ID in
   its jar with access time now (C03H's owns; C03H_access_now needs okreq, and
   C03H_access_now_created an empty jar). *)
Theorem C01L_owns_after_own :
  forall j w g r x,
  JI w g -> W j w -> wf_req r = true -> rq_present r = PJar ->
  existsb LiveHist5.is_destroy (rq_script r) = false -> c_maxcache (conf (w_st w)) <> 0%Z ->
  ob_start (snd (step w (HReq r))) = Some x ->
  exists k', ob_jar (snd (step w (HReq r))) = CKey k' /\
             owns j (rq_client r) k' (fl j (now (w_st w))) (fst (step w (HReq r))).
Proof. exact own_any. Qed.

(* a request of another cookie-following client respects the ID (C03H's
   hypothesis on other steps, discharged from the jar invariant) *)
Theorem C01L_respects_other :
  forall w g r k,
  JI w g -> rq_plan r = [] -> rq_present r = PJar ->
  jar_of (w_jars w) (rq_client r) <> CKey k -> key_drawn (w_st w) k ->
  LiveHist4.respects (LiveHist4.Kk true k) w (HReq r).
Proof. exact respects_other. Qed.

(* ------------------------------------------------ recorded peer and agent *)

Theorem C01L_peer_ok_meaning :
  forall n b a0 u0 s k,
  peer_ok n b a0 u0 s k <->
  (forall r, L s k = Some r -> ip_ok n (r_ip r) a0 = true /\ ua_ok b (r_ua r) u0 = true).
Proof. exact peer_ok_meaning. Qed.

(* kept by every admissible step that is not a request of the client holding the ID *)
Theorem C01L_peer_other_steps :
  forall j n b w g h c k a0 u0,
  JI w g -> W j w -> live_hop n b j h = true -> LiveHist6.is_own c h = false ->
  jar_of (w_jars w) c = CKey k -> L (w_st w) k <> None ->
  peer_ok n b a0 u0 (w_st w) k -> peer_ok n b a0 u0 (w_st (fst (step w h))) k.
Proof. exact peer_foreign. Qed.

(* after the client's own request that is given a session: what the ID in its
   jar resolves to accepts the request's peer and agent (every cache size) *)
Theorem C01L_peer_after_own :
  forall j n b w g r x k',
  JI w g -> W j w -> wf_req r = true -> rq_present r = PJar ->
  c_acceptip (conf (w_st w)) = n -> c_acceptua (conf (w_st w)) = b ->
  ob_start (snd (step w (HReq r))) = Some x -> ob_jar (snd (step w (HReq r))) = CKey k' ->
  peer_ok n b (rq_addr r) (rq_ua r) (w_st (fst (step w (HReq r)))) k'.
Proof. exact peer_own. Qed.

(* ... but need not record them: cache size 1, rotation on every request *)
Theorem C01L_peer_not_moved_size1 :
  let hs := [rq' 1 (V4 10 0 0 1 80) 7 true []; HWait 10] in
  let w := HistInv3.after (mkWorld (init_st (cfR 1)) []) hs in
  let st := step w (rq' 1 (AOther 5) 7 false []) in
  option_map (fun x => r_ip (snd x)) (ob_start (snd st)) = Some (AOther 5) /\
  ob_jar (snd st) = CKey (KGen 1) /\
  option_map r_ip (L (w_st (fst st)) (KGen 1)) = Some (V4 10 0 0 1 80) /\
  option_map r_ip (L (w_st (fst (step (HistInv3.after (mkWorld (init_st (cfR 2)) []) hs)
                                   (rq' 1 (AOther 5) 7 false [])))) (KGen 1)) = Some (AOther 5).
Proof. exact peer_not_moved_size1. Qed.

(* ---------------------------------- under the package's acceptance rules *)

(* Along every admissible history, EVERY cache size: a request less than
   SessionExpiry (minus the codec's resolution) after the client's last accepted
   request, from a peer and with an agent that Start's rules accept relative to
   that request's, and such that acceptance passes on (C01L_live_cond_acc_meaning),
   is served. *)
Theorem C01L_liveness_acc :
  forall c hs,
  forallb (live_hop (c_acceptip c) (c_acceptua c) (c_json c)) hs = true ->
  l_run2 live_cond_acc (c, []) (mkWorld (init_st c) []) hs = true.
Proof. exact c01_liveness_acc. Qed.

(* The plain rule-based promise (live_cond_rules: C01_liveness_rules_statement's
   condition, nothing added), every cache size, when the octet rule compares
   nothing (AcceptRemoteIP <= 1 or > 4) or every request of the history comes
   from an address Start's pattern matches. *)
Theorem C01L_liveness_rules :
  forall c hs,
  forallb (live_hop (c_acceptip c) (c_acceptua c) (c_json c)) hs = true ->
  ((c_acceptip c <=? 1)%Z || (4 <? c_acceptip c)%Z = true \/
   forallb (fun h => match h with HReq r => is_v4 (rq_addr r) | _ => true end) hs = true) ->
  l_run2 live_cond_rules (c, []) (mkWorld (init_st c) []) hs = true.
Proof. exact c01_liveness_rules. Qed.

(* one request after any admissible history, with the safety half *)
Theorem C01L_served_acc :
  forall c hs r t0 a0 u0,
  forallb (live_hop (c_acceptip c) (c_acceptua c) (c_json c)) (hs ++ [HReq r]) = true ->
  let w := HistInv3.after (mkWorld (init_st c) []) hs in
  let g := g_after [] hs (run c hs) in
  let cl := l_after2 (c, []) (mkWorld (init_st c) []) hs in
  l_get (snd cl) (rq_client r) = Some (t0, a0, u0) ->
  live_cond_acc (fst cl) (now (w_st w)) (t0, a0, u0) (rq_addr r) (rq_ua r) = true ->
  served w r = true /\
  ob_res (snd (step w (HReq r))) = RSess /\
  exists id rc, ob_start (snd (step w (HReq r))) = Some (id, rc) /\
                g_get g (rq_client r) = Some (content_of rc).
Proof. exact c01_served_acc. Qed.

(* every admissible step keeps the invariant (the same LI), and this promise if due *)
Theorem C01L_inv_step_acc :
  forall j n b w g cf lg h,
  LI j n b w g cf lg -> live_hop n b j h = true ->
  fst (l_step2 live_cond_acc (cf, lg) w h (snd (step w h))) = true /\
  LI j n b (fst (step w h)) (snd (g_step g h (snd (step w h))))
     (fst (snd (l_step2 live_cond_acc (cf, lg) w h (snd (step w h)))))
     (snd (snd (l_step2 live_cond_acc (cf, lg) w h (snd (step w h))))).
Proof. exact LI_step_acc. Qed.

(* the identical-peer promise is a special case *)
Theorem C01L_acc_extends_same :
  forall cf t x a u, live_cond cf t x a u = true -> live_cond_acc cf t x a u = true.
Proof. exact live_cond_acc_same. Qed.

Theorem C01L_live_cond_acc_meaning :
  forall cf t t0 a0 u0 a u,
  live_cond_acc cf t (t0, a0, u0) a u =
  negb (c_maxcache cf =? 0)%Z && (0 <=? c_expiry cf)%Z && (0 <=? c_grace cf)%Z && (c_idexpiry cf <=? max64)%Z &&
  (t - t0 + StartLaws4.slack cf <? c_expiry cf)%Z &&
  ip_ok (c_acceptip cf) a0 a && ua_ok (c_acceptua cf) u0 u &&
  ((c_acceptip cf <=? 1)%Z || (4 <? c_acceptip cf)%Z || is_v4 a0 || negb (is_v4 a)).
Proof. exact live_cond_acc_meaning. Qed.

Theorem C01L_live_cond_rules_meaning :
  forall cf t t0 a0 u0 a u,
  live_cond_rules cf t (t0, a0, u0) a u =
  negb (c_maxcache cf =? 0)%Z && (0 <=? c_expiry cf)%Z && (0 <=? c_grace cf)%Z && (c_idexpiry cf <=? max64)%Z &&
  (t - t0 + StartLaws4.slack cf <? c_expiry cf)%Z &&
  ip_ok (c_acceptip cf) a0 a && ua_ok (c_acceptua cf) u0 u.
Proof. exact live_cond_rules_meaning. Qed.

(* the three peer/agent conjuncts say exactly: every record that accepts the
   last accepted request's peer and agent accepts this request's (so nothing
   more can follow from C01L_peer_after_own) *)
Theorem C01L_accept_iff_all_records :
  forall n b a0 u0 a u,
  ip_ok n a0 a && ua_ok b u0 u && ((n <=? 1)%Z || (4 <? n)%Z || is_v4 a0 || negb (is_v4 a)) = true <->
  (forall x v, ip_ok n x a0 = true -> ua_ok b v u0 = true -> ip_ok n x a = true /\ ua_ok b v u = true).
Proof. exact accept_iff_all_records. Qed.

(* only the port and the last octet differ, same agent: promised at every setting *)
Theorem C01L_live_cond_acc_port :
  forall cf t t0 p q r s s' pt pt' u,
  live_cond_acc cf t (t0, V4 p q r s pt, u) (V4 p q r s' pt') u =
  negb (c_maxcache cf =? 0)%Z && (0 <=? c_expiry cf)%Z && (0 <=? c_grace cf)%Z && (c_idexpiry cf <=? max64)%Z &&
  (t - t0 + StartLaws4.slack cf <? c_expiry cf)%Z.
Proof. exact live_cond_acc_port. Qed.

(* AcceptRemoteIP <= 1 and AcceptChangingUserAgent: any peer, any agent *)
Theorem C01L_live_cond_acc_any :
  forall cf t t0 a0 u0 a u,
  (c_acceptip cf <= 1)%Z -> c_acceptua cf = true ->
  live_cond_acc cf t (t0, a0, u0) a u =
  negb (c_maxcache cf =? 0)%Z && (0 <=? c_expiry cf)%Z && (0 <=? c_grace cf)%Z && (c_idexpiry cf <=? max64)%Z &&
  (t - t0 + StartLaws4.slack cf <? c_expiry cf)%Z.
Proof. exact live_cond_acc_any. Qed.

(* the plain variant fails beyond cache size 1: admissible histories (no
   faults, cookie-following clients) with a broken promise at sizes 1, 2, 3
   with SessionCacheExpiry >= 0, and with an unbounded cache *)
Theorem C01L_rules_refuted_every_size_class :
  (forall mx, In mx [1; 2; 3]%Z ->
     exists c hs, c_maxcache c = mx /\ (0 <= c_cacheexpiry c)%Z /\
       forallb (live_hop (c_acceptip c) (c_acceptua c) (c_json c)) hs = true /\
       l_run2 live_cond_rules (c, []) (mkWorld (init_st c) []) hs = false) /\
  (exists c hs, (c_maxcache c < 0)%Z /\
       forallb (live_hop (c_acceptip c) (c_acceptua c) (c_json c)) hs = true /\
       l_run2 live_cond_rules (c, []) (mkWorld (init_st c) []) hs = false).
Proof. exact rules_refuted_every_size_class. Qed.

(* ------------------- which peer and agent are recorded; the candidate ghost *)

(* after the client's own request that is given a session (Start returned it
   under ID id): the record its jar's ID resolves to holds this request's peer
   and agent, or — only if the cache is disabled or id is not the ID the jar
   held (Start rotated) — the peer and agent of what that ID resolved to *)
Theorem C01L_peer_after_own_exact :
  forall j w g r id rc0 k',
  JI w g -> W j w -> wf_req r = true -> rq_present r = PJar ->
  ob_start (snd (step w (HReq r))) = Some (id, rc0) -> ob_jar (snd (step w (HReq r))) = CKey k' ->
  forall r1, L (w_st (fst (step w (HReq r)))) k' = Some r1 ->
  (r_ip r1 = rq_addr r /\ r_ua r1 = rq_ua r) \/
  ((c_maxcache (conf (w_st w)) = 0%Z \/ jar_of (w_jars w) (rq_client r) <> CKey id) /\
   exists k0 r0, jar_of (w_jars w) (rq_client r) = CKey k0 /\ L (w_st w) k0 = Some r0 /\
                 r_ip r1 = r_ip r0 /\ r_ua r1 = r_ua r0).
Proof. exact peer_own_exact_L. Qed.

(* Along every admissible history, every cache size: a request less than
   SessionExpiry (minus the codec's resolution) after the client's last accepted
   request, whose peer and agent are accepted by the peers and agents of all
   the client's accepted requests since the last one without a rotation by
   Start (C01L_ghost3_step_meaning, C01L_live_cond_set_meaning), is served. *)
Theorem C01L_liveness_set :
  forall c hs,
  forallb (live_hop (c_acceptip c) (c_acceptua c) (c_json c)) hs = true ->
  l_run3 live_cond_set (c, []) (mkWorld (init_st c) []) hs = true.
Proof. exact c01_liveness_set. Qed.

Theorem C01L_served_set :
  forall c hs r t0 cs op,
  forallb (live_hop (c_acceptip c) (c_acceptua c) (c_json c)) (hs ++ [HReq r]) = true ->
  let w := HistInv3.after (mkWorld (init_st c) []) hs in
  let g := g_after [] hs (run c hs) in
  let cl := l_after3 (c, []) (mkWorld (init_st c) []) hs in
  a_get (snd cl) (rq_client r) = Some (t0, cs, op) ->
  live_cond_set (fst cl) (now (w_st w)) (t0, cs, op) (rq_addr r) (rq_ua r) = true ->
  served w r = true /\
  ob_res (snd (step w (HReq r))) = RSess /\
  exists id rc, ob_start (snd (step w (HReq r))) = Some (id, rc) /\
                g_get g (rq_client r) = Some (content_of rc).
Proof. exact c01_served_set. Qed.

(* the invariant: as LI, and for every entry (t0, cs, op) the record the jar's
   ID resolves to holds one of the candidates cs, or (op = Some p0, the oldest
   candidate) one that accepts p0 *)
Theorem C01L_inv3_meaning :
  forall j n b w g cf lg,
  LI3 j n b w g cf lg <->
  JI w g /\ W j w /\ conf (w_st w) = cf /\ c_acceptip cf = n /\ c_acceptua cf = b /\
  (forall c t0 cs op, a_get lg c = Some (t0, cs, op) ->
     (forall p0, op = Some p0 -> In p0 cs) /\
     exists k, owns j c k (fl j t0) w /\
       forall r, L (w_st w) k = Some r ->
         In (r_ip r, r_ua r) cs \/
         exists p0, op = Some p0 /\ ip_ok n (r_ip r) (fst p0) = true /\ ua_ok b (r_ua r) (snd p0) = true).
Proof. exact LI3_meaning. Qed.

Theorem C01L_inv3_init :
  forall c, LI3 (c_json c) (c_acceptip c) (c_acceptua c) (mkWorld (init_st c) []) [] c [].
Proof. exact LI3_init. Qed.

Theorem C01L_inv3_step :
  forall j n b w g cf lg h,
  LI3 j n b w g cf lg -> live_hop n b j h = true ->
  fst (l_step3 live_cond_set (cf, lg) w h (snd (step w h))) = true /\
  LI3 j n b (fst (step w h)) (snd (g_step g h (snd (step w h))))
      (fst (snd (l_step3 live_cond_set (cf, lg) w h (snd (step w h)))))
      (snd (snd (l_step3 live_cond_set (cf, lg) w h (snd (step w h))))).
Proof. exact LI3_step. Qed.

Theorem C01L_live_cond_set_meaning :
  forall cf t t0 cs op a u,
  live_cond_set cf t (t0, cs, op) a u =
  negb (c_maxcache cf =? 0)%Z && (0 <=? c_expiry cf)%Z && (0 <=? c_grace cf)%Z && (c_idexpiry cf <=? max64)%Z &&
  (t - t0 + StartLaws4.slack cf <? c_expiry cf)%Z &&
  forallb (fun p => ip_ok (c_acceptip cf) (fst p) a && ua_ok (c_acceptua cf) (snd p) u) cs &&
  match op with
  | Some p0 => (c_acceptip cf <=? 1)%Z || (4 <? c_acceptip cf)%Z || is_v4 (fst p0) || negb (is_v4 a)
  | None => true
  end.
Proof. exact live_cond_set_meaning. Qed.

(* one candidate, not open (the entry after a request at which Start did not
   rotate, or created the session): the plain rule-based condition *)
Theorem C01L_live_cond_set_single :
  forall cf t t0 a0 u0 a u,
  live_cond_set cf t (t0, [(a0, u0)], None) a u = live_cond_rules cf t (t0, a0, u0) a u.
Proof. exact live_cond_set_single. Qed.

(* the ghost: an entry is written under the conditions of l_step2; it is reset
   to the request's peer and agent when Start returned the session under the ID
   the jar held, else it grows (or begins, open if the jar held an ID) *)
Theorem C01L_ghost3_step_meaning :
  forall cond cf lg w r o,
  l_step3 cond (cf, lg) w (HReq r) o =
  (match a_get lg (rq_client r) with
   | Some x => if cond cf (now (w_st w)) x (rq_addr r) (rq_ua r) then served w r else true
   | None => true
   end,
   (cf, match ob_start o, ob_jar o with
        | Some (id, _), CKey _ =>
          if (c_maxcache cf =? 0)%Z || existsb is_destroy (rq_script r) then a_del lg (rq_client r)
          else a_set lg (rq_client r)
                 (if match jar_of (w_jars w) (rq_client r) with CKey k => key_eqb k id | _ => false end
                  then (now (w_st w), [(rq_addr r, rq_ua r)], None)
                  else match a_get lg (rq_client r) with
                       | Some (_, cs, op) => (now (w_st w), (rq_addr r, rq_ua r) :: cs, op)
                       | None => (now (w_st w), [(rq_addr r, rq_ua r)],
                                  match jar_of (w_jars w) (rq_client r) with
                                  | CKey _ => Some (rq_addr r, rq_ua r)
                                  | _ => None
                                  end)
                       end)
        | _, _ => a_del lg (rq_client r)
        end)).
Proof. exact l_step3_req_meaning. Qed.

(* ----------------------------------------------------------- vocabulary *)

Theorem C01L_live_hop_meaning :
  forall n b j h,
  live_hop n b j h =
  match h with
  | HReq _ => c01_hop h
  | HWait d => (0 <=? d)%Z
  | HPurge _ pl | HLogoutUser _ _ pl | HRefreshUser _ _ pl => nil_plan pl
  | HDropCache | HRestart => false
  | HSetCfg c' => Bool.eqb (c_json c') j && (c_acceptip c' =? n)%Z && Bool.eqb (c_acceptua c') b
  end.
Proof. exact live_hop_meaning. Qed.

Theorem C01L_live_cond_meaning :
  forall cf t t0 a0 u0 a u,
  live_cond cf t (t0, a0, u0) a u =
  negb (c_maxcache cf =? 0)%Z && (0 <=? c_expiry cf)%Z && (0 <=? c_grace cf)%Z && (c_idexpiry cf <=? max64)%Z &&
  (t - t0 + StartLaws4.slack cf <? c_expiry cf)%Z && addr_eqb a0 a && N.eqb u0 u.
Proof. exact live_cond_meaning. Qed.

Theorem C01L_served_meaning :
  forall w r,
  served w r =
  match start (set_tb (set_plan (set_evs (w_st w) []) (rq_plan r)) (rq_tb r))
              (mkReq (jar_of (w_jars w) (rq_client r)) (rq_create r) (rq_addr r) (rq_ua r)) with
  | (_, Ok (Some _), CkDelete :: _) => false
  | (_, Ok (Some _), _) => true
  | _ => false
  end.
Proof. exact served_meaning. Qed.

Theorem C01L_ghost_step_meaning :
  forall cond cf lg w r o,
  l_step2 cond (cf, lg) w (HReq r) o =
  (match l_get lg (rq_client r) with
   | Some x => if cond cf (now (w_st w)) x (rq_addr r) (rq_ua r) then served w r else true
   | None => true
   end,
   (cf, match ob_start o, ob_jar o with
        | Some _, CKey _ =>
          if (c_maxcache cf =? 0)%Z || existsb is_destroy (rq_script r) then l_del lg (rq_client r)
          else l_set lg (rq_client r) (now (w_st w), rq_addr r, rq_ua r)
        | _, _ => l_del lg (rq_client r)
        end)).
Proof. exact l_step2_req_meaning. Qed.

Print Assumptions C01_liveness_hist.
Print Assumptions C01_served_spec.
Print Assumptions C01L_inv_meaning.
Print Assumptions C01L_inv_init.
Print Assumptions C01L_inv_step.
Print Assumptions C01L_owns_after_own.
Print Assumptions C01L_respects_other.
Print Assumptions C01L_peer_other_steps.
Print Assumptions C01L_peer_after_own.
Print Assumptions C01L_peer_not_moved_size1.
Print Assumptions C01L_liveness_acc.
Print Assumptions C01L_liveness_rules.
Print Assumptions C01L_served_acc.
Print Assumptions C01L_inv_step_acc.
Print Assumptions C01L_accept_iff_all_records.
Print Assumptions C01L_rules_refuted_every_size_class.
Print Assumptions C01L_peer_after_own_exact.
Print Assumptions C01L_liveness_set.
Print Assumptions C01L_served_set.
Print Assumptions C01L_inv3_meaning.
Print Assumptions C01L_inv3_init.
Print Assumptions C01L_inv3_step.
(* non-vacuity (Proofs/C01RulesEx2.v): a client alternating between a matched
   and an unmatched address, with a rotation by Start at every request
   (candidates accumulate; due at 5 of 8 requests, where the second form is due
   at 3 and the identical-peer form at 1) and with none (one candidate) *)
Print Assumptions hist_dual_due.
Print Assumptions hist_dual_live.
Print Assumptions hist_dual_norotation.
Print Assumptions hist_dual_served.
Print Assumptions hist_others_due3.
(* non-vacuity (Proofs/C01RulesEx.v): a client with a new source port at every
   request, rotation on every request, one-slot cache, the strictest octet rule:
   the promise under the rules is due at 5 of 7 requests (the identical-peer
   promise at 1), the theorems applied at cache sizes 1, 2, unbounded; rules
   switched off: address and agent change at every request; the witnesses of
   the refutation *)
Print Assumptions hist_port_due.
Print Assumptions hist_port_live.
Print Assumptions hist_port_served_last.
Print Assumptions hist_any_due.
Print Assumptions hist_any_live.
Print Assumptions rules_witness_shape.
(* non-vacuity (Proofs/C01Live6.v): an admissible history (two clients evicting
   each other from a one-slot cache, rotations, purge, exclusive logins,
   user-wide operations, waits below and above the expiry) on which the promise
   is due at 5 of 13 requests; the theorem applied to it *)
Print Assumptions hist_live2_admissible.
Print Assumptions hist_live2_live.
