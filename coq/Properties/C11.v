(* C11 — store failures are reported, never turned into silent loss or logout.
   Statements only; proofs are in Proofs/CrashFault7..11.v and, for
   GetAndDelete, Proofs/CrashFault15.v.

   Every theorem quantifies over ALL fault plans: `plan s` (which of the coming
   persistence calls fail) is arbitrary, so single faults, double faults and
   any other placement are instances. `ext s s' l`: the call led from s to s'
   and appended exactly the events l (oldest first). `Lc s k`: the record ID k
   resolves to (cache over store) after the codec's normalisation. `written s
   o`: the store holds, under the ID of object o, the codec image of o's
   current fields. `stable s s'`: every heap object stays in place and keeps
   its reference field and its data map. `cv s`: cached indices are valid. `J
   Kd s`: cv s, and every cached or stored non-reference record has a data map. *)
From Sessions Require Import Model.Base Model.Sess Model.Hist Proofs.SessDefs
  Proofs.CrashFault Proofs.CrashFault2 Proofs.CrashFault7 Proofs.CrashFault8 Proofs.CrashFault9
  Proofs.CrashFault10 Proofs.CrashFault11 Proofs.CrashFault13 Proofs.CrashFault14 Proofs.CrashFault15.

(* ---- C11_load ---- *)

Theorem C11_load :
  forall s q s' res cks l,
    cv s -> NoDup (map fst (cache s)) -> start s q = (s', res, cks) -> ext s s' l ->
    (exists e, In e l /\ is_failed_load e = true) ->
    (res = Err EGet \/ res = Err EGetRef) /\ cks = [] /\ Forall calm l /\ (forall k, Lc s' k = Lc s k).
Proof. exact load_fail_start. Qed.

Theorem C11_load_presented :
  forall s q k s1,
    q_cookie q = CKey k -> cache_get s k = (s1, None) ->
    start s q = (s1, Err EGet, []) /\ heap s1 = heap s /\ cache s1 = cache s /\ store s1 = store s /\
    graves s1 = graves s /\ pending s1 = pending s /\ supply s1 = supply s /\ (forall k', L s1 k' = L s k') /\
    exists l, ext s s1 l /\ Forall (fun e => is_read e = true) l /\ exists e, In e l /\ is_failed_load e = true.
Proof. exact load_fail_presented. Qed.

(* ---- C11_flush ---- *)

Theorem C11_flush :
  forall s req,
    NoDup (map fst (cache s)) ->
    exists l, evs (compact s req) = rev l ++ evs s /\
      (forall k r, In (EvSave k r false) l ->
         exists l', l = l' ++ [EvSave k r false] /\ Forall saved_ok l' /\
                    lookup (cache (compact s req)) k = lookup (cache s) k /\ lookup (cache s) k <> None) /\
      (forall k o, lookup (cache s) k = Some o ->
         lookup (cache (compact s req)) k = Some o \/
         exists ob, hget s o = Some ob /\ In (EvSave k (codec (conf s) (o_rec ob)) true) l) /\
      (forall k, Lc (compact s req) k = Lc s k).
Proof. exact flush_failed_stays. Qed.

(* ---- C11_ack ---- *)

Theorem C11_ack_set :
  forall s o hc k v s' cks,
    do_sop s o hc (SSet k v) = (s', SOk, cks) ->
    written s' o /\ exists d, data_of s o = Some d /\ data_of s' o = Some (kv_set d k v).
Proof. exact ack_set. Qed.

Theorem C11_ack_del :
  forall s o hc k s' cks,
    do_sop s o hc (SDel k) = (s', SOk, cks) ->
    written s' o /\ data_of s' o = option_map (fun d => kv_del d k) (data_of s o).
Proof. exact ack_del. Qed.

Theorem C11_ack_logout :
  forall s o hc s' cks,
    do_sop s o hc SLogOut = (s', SOk, cks) ->
    (exists ob, hget s' o = Some ob /\ r_user (o_rec ob) = None) /\ (s' = s \/ written s' o).
Proof. exact ack_logout. Qed.

Theorem C11_ack_regen :
  forall s o hc ob s' cks,
    cache_ok s -> nodup_ok s -> fresh_ok s -> hget s o = Some ob ->
    do_sop s o hc SRegen = (s', SOk, cks) ->
    let nid := KGen (supply s) in
    written s' o /\ (exists ob', hget s' o = Some ob' /\ o_id ob' = nid) /\ cks = [CkLive nid] /\
    exists rr, lookup (store s') (o_id ob) = Some rr /\ r_ref rr = Some nid.
Proof. exact ack_regen. Qed.

(* LogIn ignores the error of the preliminary LogOut's save in the
   non-exclusive mode; this does not break the acknowledgement: *)
Theorem C11_ack_login :
  forall s o hc ob u ex s' cks,
    cache_ok s -> nodup_ok s -> fresh_ok s -> hget s o = Some ob ->
    do_sop s o hc (SLogIn u ex) = (s', SOk, cks) ->
    let nid := KGen (supply s) in
    written s' o /\ (exists ob', hget s' o = Some ob' /\ o_id ob' = nid /\ r_user (o_rec ob') = Some u) /\
    cks = [CkLive nid].
Proof. exact ack_login. Qed.

Theorem C11_ack_create :
  forall s q s' o cks,
    create_session s q = (s', Ok (Some o), cks) ->
    written s' o /\ (exists ob, hget s' o = Some ob /\ o_id ob = KGen (supply s)) /\ cks = [CkLive (KGen (supply s))].
Proof. exact ack_create. Qed.

Theorem C11_ack_start :
  forall s q s' o cks,
    cache_ok s -> nodup_ok s -> fresh_ok s ->
    start s q = (s', Ok (Some o), cks) -> supply s' <> supply s ->
    exists ob r, hget s' o = Some ob /\ lookup (store s') (o_id ob) = Some r /\
                 durable r = durable (codec (conf s') (o_rec ob)).
Proof. exact ack_start. Qed.

(* ---- GetAndDelete: the failure of its save is NOT reported (finding D6b) ----

   Since the repair of D6, Session.GetAndDelete makes one direct save when it
   finds the key; it has no error result and returns the value whether or not
   that save succeeded. The acknowledgement property in the form of C11_ack_set
   / C11_ack_del is therefore false for it under fault plans. *)

Definition C11_ack_getdel_statement : Prop :=
  forall s o hc k v s' cks,
    do_sop s o hc (SGetDel k) = (s', SVal (Some v), cks) -> written s' o.

(* A reachable state (a session with key 1 := 2, written through) and the fault
   plan that fails the next persistence call: GetAndDelete returns the value,
   its save failed, the key is gone in memory and still in the stored record. *)
Theorem C11_getdel_unreported_refuted :
  exists s o hc k v s' ob r d,
    written s o /\ plan s = [true] /\
    do_sop s o hc (SGetDel k) = (s', SVal (Some v), []) /\
    hd_error (evs s') = Some (EvSave (o_id ob) (codec (conf s) (o_rec ob)) false) /\
    hget s' o = Some ob /\ r_data (o_rec ob) = Some [] /\
    lookup (store s') (o_id ob) = Some r /\ r_data r = Some d /\ kv_get d k = Some v /\
    ~ written s' o.
Proof. exact getdel_unreported. Qed.

Theorem C11_ack_getdel_refuted : ~ C11_ack_getdel_statement.
Proof. exact ack_getdel_refuted. Qed.

(* what a client sees: Set 1:=2; GetAndDelete 1 with its save failing (value
   returned, no error in the step); cache loss; Get 1: the value is back *)
Theorem C11_getdel_fault_value_returns :
  map ob_script (run cfgF histF) = [[SOk]; [SVal (Some 2%N)]; []; [SVal (Some 2%N)]] /\
  map ob_res (run cfgF histF) = [RSess; RSess; RVoid; RSess] /\
  map (fun o => filter (fun e => match e with EvSave _ _ false => true | _ => false end) (ob_evs o)) (run cfgF histF)
  = [[]; [EvSave (KGen 0) (mkRec 0 0 (V4 10 0 0 1 80) 7 None None (Some [])) false]; []; []].
Proof. exact getdel_fault_value_returns. Qed.

(* What does hold for every fault plan: the key is deleted in memory, and the
   session is written through unless that one save failed (then the store is
   unchanged and the failed save is the call's only event). *)
Theorem C11_ack_getdel_partial :
  forall s o hc k v s' cks,
    do_sop s o hc (SGetDel k) = (s', SVal (Some v), cks) ->
    (exists d, data_of s o = Some d /\ kv_get d k = Some v /\ data_of s' o = Some (kv_del d k)) /\
    (written s' o \/
     exists ob r, hget s o = Some ob /\ evs s' = EvSave (o_id ob) r false :: evs s /\ store s' = store s).
Proof. exact ack_getdel_partial. Qed.

(* ---- C11_nopanic ---- *)

Theorem C11_nopanic_start :
  forall s q s' res cks,
    cv s -> start s q = (s', res, cks) ->
    (forall e, res <> Panic e) /\ stable s s' /\
    (forall o, res = Ok (Some o) -> exists ob, hget s' o = Some ob /\ r_ref (o_rec ob) = None).
Proof. exact start_nopanic. Qed.

Theorem C11_nopanic_sop :
  forall s o hc op s' r cks,
    handle_ok s o -> do_sop s o hc op = (s', r, cks) -> (forall e, r <> SPanic e) /\ handle_ok s' o.
Proof. exact do_sop_nopanic. Qed.

Theorem C11_nopanic_request :
  forall s q s1 res cks,
    J Kd s -> start s q = (s1, res, cks) ->
    (forall e, res <> Panic e) /\
    (forall o hc ops s2 rs c2, res = Ok (Some o) -> run_script (fire_due s1) o hc ops = (s2, rs, c2) ->
       Forall (fun r => forall e, r <> SPanic e) rs).
Proof. exact request_nopanic. Qed.

Theorem C11_nopanic_logout_user :
  forall s u s' r, logout_user s u = (s', r) -> stable s s' /\ forall e, r <> Panic e.
Proof. exact logout_user_nopanic. Qed.

Theorem C11_nopanic_refresh_user :
  forall s u s' r, refresh_user s u = (s', r) -> stable s s' /\ forall e, r <> Panic e.
Proof. exact refresh_user_nopanic. Qed.

(* History level. NP s: cached indices are valid, every heap object that is not
   a reference record has a data map, every stored record has one. obs_nopanic:
   the step's result class is not RPanic and no handler call returned SPanic.
   Every hop (requests with arbitrary scripts, fault plans, crash points and
   tie-breaks; waits; purges; cache loss; restarts; user-wide logout/refresh
   with fault plans; configuration changes) preserves NP and does not panic;
   hence no history ever panics. *)
Theorem C11_nopanic_step :
  forall w h w' ob, NP (w_st w) -> step w h = (w', ob) -> NP (w_st w') /\ obs_nopanic ob.
Proof. exact step_nopanic. Qed.

Theorem C11_nopanic_history : forall c h, Forall obs_nopanic (run c h).
Proof. exact run_nopanic. Qed.

Print Assumptions C11_load.
Print Assumptions C11_load_presented.
Print Assumptions C11_flush.
Print Assumptions C11_ack_set.
Print Assumptions C11_ack_del.
Print Assumptions C11_ack_logout.
Print Assumptions C11_ack_regen.
Print Assumptions C11_ack_login.
Print Assumptions C11_ack_create.
Print Assumptions C11_ack_start.
Print Assumptions C11_getdel_unreported_refuted.
Print Assumptions C11_ack_getdel_refuted.
Print Assumptions C11_getdel_fault_value_returns.
Print Assumptions C11_ack_getdel_partial.
Print Assumptions C11_nopanic_start.
Print Assumptions C11_nopanic_sop.
Print Assumptions C11_nopanic_request.
Print Assumptions C11_nopanic_logout_user.
Print Assumptions C11_nopanic_refresh_user.
Print Assumptions C11_nopanic_step.
Print Assumptions C11_nopanic_history.
