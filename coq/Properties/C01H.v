(* C01 along histories — a cookie-following client gets back its own session,
   and only its own. Statements only; proofs are in Proofs/C01Hist.v …
   C01Hist11.v (safety), Proofs/C01Live.v, C01Live2.v (liveness),
   Proofs/C01HistEx.v (non-vacuity).

   The ghost specification is the one of Proofs/C01Spec.v: g : client -> (data,
   user ID), what each client's own acknowledged handler operations last wrote
   (g_script: Set, Delete, GetAndDelete — the key is removed —, LogIn, LogOut;
   Destroy forgets the client), with the
   user-wide operations tracked the way they act: LogOut(userID) and another
   session's exclusive LogIn take that user away from every client (g_drop_user);
   RefreshUser changes no user ID. g_run g hs os checks every request step: a
   returned session has exactly the client's ghost content, or is empty, without
   user, under an ID drawn in that very step.

   Admissible histories c01_hop: any number of clients, all presenting
   their cookie jars (no forged cookies), no planned faults, no crashes, any
   handler scripts (GetAndDelete included: it writes through since the repair
   of defect D6); every
   configuration, every tie-break list, waits (clean-ups), purges, cache loss,
   restarts, user-wide logouts and refreshes, configuration changes.
   Restriction of what is proved: configuration changes keep the codec
   (c_json) — write-through (C09), on which the proof rests, is stated relative
   to the codec. The unrestricted C01_statement of Properties/C01.v is therefore
   still not proved for histories that switch between gob and JSON. *)
From Sessions Require Import Model.Base Model.Sess Model.Hist Model.Corr Proofs.SessDefs
  Proofs.WriteThrough Proofs.WriteThrough5 Proofs.RotateLaws3
  Proofs.C01Spec Proofs.C01Hist Proofs.C01Hist7 Proofs.C01Hist10 Proofs.C01Hist11
  Proofs.C01Live Proofs.C01Live2 Proofs.C01HistEx.
From Sessions Require Proofs.HistInv Proofs.HistInv3 Proofs.StartLaws5.

(* ------------------------------------------------------------ safety *)

(* The safety half of C01 for every admissible history whose configuration
   changes keep the codec of the initial configuration. *)
Theorem C01_safety_hist :
  forall c hs, forallb c01_hop hs = true -> codec_fixed c hs = true ->
  g_run [] hs (run c hs) = true.
Proof. exact c01_safety_codec_fixed. Qed.

(* the same with the well-formedness predicate of C09 (wf_hist) *)
Theorem C01_safety_wf :
  forall c hs, wf_hist c hs = true -> forallb c01_hop hs = true -> g_run [] hs (run c hs) = true.
Proof. exact c01_safety. Qed.

(* in particular for histories without configuration changes *)
Theorem C01_safety_fixed_cfg :
  forall c hs, forallb c01_hop hs = true -> no_setcfg hs = true -> g_run [] hs (run c hs) = true.
Proof.
  exact (fun c hs H1 H2 => c01_safety_codec_fixed c hs H1 (no_setcfg_fixed c hs H2)).
Qed.

(* The same, spelled out for one request step after any admissible history:
   the session Start returned (ID and fields at return) holds the data and user
   ID the ghost has for that client after the history so far, or it is empty,
   without user, and its ID was drawn in this step. *)
Theorem C01_step_spec :
  forall c hs r,
  forallb c01_hop (hs ++ [HReq r]) = true -> codec_fixed c (hs ++ [HReq r]) = true ->
  let w := HistInv3.after (mkWorld (init_st c) []) hs in
  let g := g_after [] hs (run c hs) in
  let o := snd (step w (HReq r)) in
  forall id rc, ob_start o = Some (id, rc) ->
    g_get g (rq_client r) = Some (content_of rc) \/
    (content_of rc = ([], None) /\ exists n, id = KGen n /\ In (EvDraw n) (ob_evs o)).
Proof. exact c01_step_spec. Qed.

(* The invariant behind it ("jar invariant"), between steps:
     JI w g = write-through invariant (C09) /\ deleted IDs resolve to nothing,
              queued clean-ups name drawn IDs, stored IDs unique /\ PF's event-log
              invariant /\ for every client c: jar_ok /\ different clients hold
              different IDs
     jar_ok s jar x: no ghost entry: the jar is empty; ghost entry d: the jar
              holds a drawn ID for which no clean-up is queued and which resolves
              (through L, cache over store) to nothing, or to a record that is
              not a replaced-ID record and has exactly the data and user ID d
     view s k = (r_ref, (data, user ID)) of L s k. *)
Theorem C01_jar_inv_meaning :
  forall w g, JI w g <->
  Inv noex (w_st w) /\ GR (w_st w) /\ HistInv3.winv 0 HistInv.ND (w_st w) /\
  (forall c, jar_ok (w_st w) (jar_of (w_jars w) c) (g_get g c)) /\
  (forall c c' k, c <> c' -> jar_of (w_jars w) c = CKey k -> jar_of (w_jars w) c' <> CKey k).
Proof. exact JI_meaning. Qed.

Theorem C01_jar_ok_meaning :
  forall s jar x, jar_ok s jar x <->
  match x with
  | None => jar = CNone
  | Some d => exists k, jar = CKey k /\ key_drawn s k /\ (forall dd, ~ In (dd, k) (pending s)) /\
                        (view s k = None \/ view s k = Some (None, d))
  end.
Proof. exact jar_ok_meaning. Qed.

Theorem C01_view_meaning :
  forall s k, view s k = option_map (fun r => (r_ref r, content_of r)) (L s k).
Proof. exact view_meaning. Qed.

Theorem C01_jar_inv_init : forall c, JI (mkWorld (init_st c) []) [].
Proof. exact JI_init. Qed.

(* Every admissible step — a request of any client, a wait, purge, cache loss,
   restart, user-wide logout or refresh, configuration change keeping the codec
   — preserves the jar invariant (with the ghost advanced by g_step) and is
   admissible for the ghost. *)
Theorem C01_jar_inv_step :
  forall w g h j,
  JI w g -> c_json (conf (w_st w)) = j -> wf_hop j h = true -> c01_hop h = true ->
  JI (fst (step w h)) (snd (g_step g h (snd (step w h)))) /\
  fst (g_step g h (snd (step w h))) = true /\
  c_json (conf (w_st (fst (step w h)))) = j.
Proof. exact step_JI. Qed.

(* hence it holds after every admissible history *)
Theorem C01_jar_inv_hist :
  forall j hs w g,
  JI w g -> c_json (conf (w_st w)) = j ->
  forallb (wf_hop j) hs = true -> forallb c01_hop hs = true ->
  JI (HistInv3.after w hs) (g_after g hs (run_from w hs)) /\ c_json (conf (w_st (HistInv3.after w hs))) = j.
Proof. exact JI_after. Qed.

(* ----------------------------------------------------------- liveness *)

(* The liveness half as a statement about histories, with its ghost (when, from
   which peer and with which agent each client's last accepted request came;
   l_step, live_cond, served in Proofs/C01Live.v): whenever the promise is due —
   sane durations, cache in use, the gap plus the codec's resolution below
   SessionExpiry, same peer and same agent as the last accepted request, no cache
   loss since — Start returns the presented ID's own session (no deletion cookie
   first). The clock does not run backwards (mono_time); configuration changes
   keep the codec and the peer/agent rules (rules_kept). NOT PROVED along
   histories; tested on model runs (C01_liveness_tests). *)
Definition C01_liveness_statement : Prop := C01Live.C01_liveness_statement.

(* The variant that promises service to every peer and agent that Start's rules
   accept relative to the last accepted request's is false of the model: with
   MaxSessionCacheSize = 1 a rotation evicts the session's object while
   RegenerateID caches the replaced-ID record, so the peer and agent that Start
   notes after the rotation reach neither cache nor store, and the next request
   is judged against the peer before (witness: 10.0.0.1, then an address the
   pattern does not match, then 20.0.0.1, first octet must agree; served with
   cache size 10, refused with cache size 1). *)
Definition C01_liveness_rules_statement : Prop := C01Live.C01_liveness_rules_statement.

Theorem C01_liveness_rules_refuted : ~ C01_liveness_rules_statement.
Proof. exact liveness_rules_refuted. Qed.

(* Proved, per step: if the jar ID of a cookie-following client resolves, in
   the state before its request step, to a session record that passes Start's
   validity check (valid_for: not idle for SessionExpiry, peer and agent rules),
   the step is served, returns a session, and that session holds the data and
   user ID of that record, which is what the ghost has for the client. Every
   cache size, both codecs, rotation due or not; grace period not negative. *)
Theorem C01_live_step_partial :
  forall w g r k r0,
  JI w g -> wf_req r = true -> rq_present r = PJar ->
  jar_of (w_jars w) (rq_client r) = CKey k ->
  L (w_st w) k = Some r0 -> r_ref r0 = None ->
  valid_for (conf (w_st w)) r0 (now (w_st w)) (mkReq (CKey k) (rq_create r) (rq_addr r) (rq_ua r)) = true ->
  cfg_ok (conf (w_st w)) ->
  served w r = true /\
  ob_res (snd (step w (HReq r))) = RSess /\
  exists id rc, ob_start (snd (step w (HReq r))) = Some (id, rc) /\ content_of rc = content_of r0 /\
                g_get g (rq_client r) = Some (content_of rc).
Proof. exact live_step. Qed.

(* Proved, for one client between steps that leave its ID's content alone
   (C03_live_run at a state satisfying the jar invariant): requests spaced closer
   than SessionExpiry (minus the codec's resolution), acceptable peers and
   agents, no rotation due, cache in use — each is served under the same ID with
   the same durable content, however often the session is evicted and reloaded
   in between; and that content is the ghost's. *)
Theorem C01_live_run_partial :
  forall w g c k rl l,
  JI w g -> jar_of (w_jars w) c = CKey k -> L (w_st w) k = Some rl -> r_ref rl = None ->
  c_maxcache (conf (w_st w)) <> 0%Z ->
  (0 <= c_expiry (conf (w_st w)))%Z -> (0 <= c_grace (conf (w_st w)))%Z -> (c_idexpiry (conf (w_st w)) <= max64)%Z ->
  StartLaws5.spaced (conf (w_st w)) (r_created (codec (conf (w_st w)) rl)) (r_access rl) (r_ip rl) (r_ua rl) l ->
  StartLaws5.always_served k (durable (codec (conf (w_st w)) rl)) l (w_st w) /\
  g_get g c = Some (content_of rl).
Proof. exact live_run_client. Qed.

Print Assumptions C01_safety_hist.
Print Assumptions C01_safety_wf.
Print Assumptions C01_safety_fixed_cfg.
Print Assumptions C01_step_spec.
Print Assumptions C01_jar_inv_meaning.
Print Assumptions C01_jar_inv_init.
Print Assumptions C01_jar_inv_step.
Print Assumptions C01_jar_inv_hist.
Print Assumptions C01_liveness_rules_refuted.
Print Assumptions C01_live_step_partial.
Print Assumptions C01_live_run_partial.
(* non-vacuity and tests (Proofs/C01HistEx.v, Proofs/C01Live.v) *)
Print Assumptions hist_mix_safe.
Print Assumptions hist_cfg_safe.
Print Assumptions hist_gd_safe.
Print Assumptions step_spec_instance.
Print Assumptions JI_instance.
Print Assumptions live_step_instance.
Print Assumptions C01_liveness_tests.
Print Assumptions liveness_rules_cache10.
