(* Granularity of the cache operations (used by the session properties C01,
   C02, C07, C09, C12, whose model takes cache.Get/Set/Delete, compact and
   PurgeSessions as atomic steps). Obligations over the table regenerated from
   the Go source on every run (Gen/Access.v, translator/access.go): every call
   of the persistence layer and of a cache method made from a function that
   works on a cache happens with the cache mutex held exclusively, inside a
   function whose whole body is one critical section of that mutex — or inside
   a "caller holds the lock" helper (compact), whose call sites are rows of
   the same table and must satisfy the same condition. *)
From Coq Require Import List NArith String.
From Sessions Require Import Model.Base Model.Lockset Gen.Access.
Import ListNotations.

Theorem cache_ops_atomic : forallb cache_call_ok Gen.Access.cache_calls = true.
Proof. vm_compute. reflexivity. Qed.

(* ... and the table is about the five cache operations *)
Theorem cache_ops_covered : cache_calls_cover Gen.Access.cache_calls = true.
Proof. vm_compute. reflexivity. Qed.

Print Assumptions cache_ops_atomic.
Print Assumptions cache_ops_covered.
