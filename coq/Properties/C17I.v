(* C17, instantiated (audit task A8): the library hypotheses of
   Properties/C17.v have an instance, and the theorems hold down to the byte
   string with no library hypothesis left.

   Properties/C17.v quantifies over `fmt_time`/`parse_time` (time.Format /
   time.Parse) and `jstr` (a string through encoding/json) subject to
   `json_lib_ok`, and takes "a Go value through json.Marshal and
   json.Unmarshal into interface{}" to be the tree function `reparse`.
   Here both are discharged by a concrete library written in Coq:
   - Model/Rfc3339.v: RFC 3339 text of an instant by proleptic-Gregorian
     calendar arithmetic, and its parser (Proofs/Rfc3339Ok.v: ASCII for every
     instant; Parse (Format t) = t floored to the second, same offset, for
     every t of RFC 3339's domain; the calendar round trip is proved for all
     days, one 400-year era exhaustively by computation);
   - Model/JsonLib.v: json.Marshal as a printer of `dval` trees to bytes
     (strings coerced to UTF-8 and escaped, Go ints in decimal, a float64 as
     the exact decimal value of its bits) and json.Unmarshal as a fuelled
     parser with correctly rounded numbers (Proofs/JsonLibOk*.v:
     parse (print d) = reparse u8_coerce d for every tree whose numbers are
     Go values - num_wf: every float64 a 64-bit pattern, every int a 64-bit
     int - and Marshal fails exactly when reparse does; whatever the parser
     accepts is a tree of the wire domain is_wire).
   This shows the hypotheses consistent and the theorems non-vacuous. It is
   an instance, not a model of Go's bytes: members are written in table
   order (Go sorts keys), floats not in Go's shortest form, no white space
   is accepted. What ties the hypotheses to the real libraries is the
   correspondence check (harness families codeclib, jsonrt, codeclaws).

   json_roundtrip_bytes load fmt parse enc dec s :=
     MarshalJSON s to bytes (json_tree, then jmarshal), then jparse and the
     validation cascade json_unmarshal (Model/JsonLib.v, end). *)
From Sessions Require Import Model.Base Model.Codec Model.JsonLib Model.Rfc3339 Gen.Layout
  Proofs.CodecText Proofs.CodecDefs Proofs.CodecLaws2 Proofs.CodecLaws4 Proofs.Rfc3339Ok Proofs.JsonLibOk Proofs.JsonLibOk2
  Proofs.JsonLibOk3 Proofs.JsonLibOk4.
Local Open Scope N_scope.

(* The hypothesis of C17_roundtrip, C17_roundtrip_nonnil and
   C17_roundtrip_refuted, unfolded, holds of the concrete library. *)
Theorem C17I_lib_instance :
  (forall s, all_ascii s = true -> u8_coerce s = s) /\
  (forall t, all_ascii (lib_fmt_time lay_rfc3339 t) = true) /\
  (forall t, rfc_dom t = true -> lib_parse_time lay_rfc3339 (lib_fmt_time lay_rfc3339 t) = Some (floor_sec t)).
Proof. exact json_lib_ok_instance. Qed.

(* time.Parse(RFC3339, t.Format(RFC3339)) for the concrete formatter and
   parser themselves *)
Theorem C17I_rfc3339_roundtrip :
  forall t, rfc_dom t = true -> rfc3339_parse (rfc3339_format t) = Some (floor_sec t).
Proof. exact rfc3339_roundtrip. Qed.

(* json.Unmarshal (json.Marshal d) on bytes is `reparse`, for every tree whose
   numbers are Go values (float64: a 64-bit pattern; int: a 64-bit int);
   Marshal fails iff reparse does. sess_num_wf s below says the same of the
   session's data and user ID. *)
Theorem C17I_json_lib_reparse :
  forall d : dval, num_wf d = true ->
    match jmarshal d with Some b => jparse b | None => None end = reparse u8_coerce d.
Proof. exact jparse_jmarshal. Qed.

(* C17_roundtrip without library hypotheses, through the byte string. *)
Theorem C17I_roundtrip :
  json_da_null_ok = true ->
  forall load s, json_dom s = true -> sess_num_wf s = true ->
    json_roundtrip_bytes load lib_fmt_time lib_parse_time json_enc json_dec s = jnorm load u8_coerce s.
Proof. exact json_roundtrip_bytes_thm. Qed.

Theorem C17I_roundtrip_nonnil :
  forall load s, cs_data s <> None -> json_dom s = true -> sess_num_wf s = true ->
    json_roundtrip_bytes load lib_fmt_time lib_parse_time json_enc json_dec s = jnorm load u8_coerce s.
Proof. exact json_roundtrip_bytes_nonnil_thm. Qed.

(* D3 at the byte level: if the table refuses null under "da", the bytes
   MarshalJSON writes for a replaced-ID record are refused. *)
Theorem C17I_roundtrip_refuted :
  json_da_null_ok = false ->
  forall load,
  exists s, json_dom s = true /\ sess_num_wf s = true /\ cs_data s = None /\ cs_ref s <> [] /\ cs_user s = None /\
            json_roundtrip_bytes load lib_fmt_time lib_parse_time json_enc json_dec s = Err /\
            jnorm load u8_coerce s =
              Ok (mkSess (floor_sec (cs_created s)) (floor_sec (cs_access s)) (u8_coerce (cs_ip s))
                         (cs_ua s) (u8_coerce (cs_ref s)) None (Some [])).
Proof. exact json_roundtrip_bytes_refuted_thm. Qed.

(* "bad input errors": whatever the bytes - not JSON, or JSON of any shape -
   UnmarshalJSON returns an error or a session, it does not panic. *)
Theorem C17I_total :
  forall load parse_time (b : bytes), json_unmarshal_bytes load parse_time json_dec b <> Panic.
Proof. exact json_unmarshal_bytes_total. Qed.

(* ... and what it accepts, MarshalJSON writes again (C17_reencodes from the
   byte string on; the premise on LoadUser is the one of C17_reencodes). *)
Theorem C17I_reencodes :
  forall load,
    (forall id u, load id = Some (Some u) -> reparse u8_coerce (u_id u) <> None) ->
  forall (b : bytes) (s : csess),
    json_unmarshal_bytes load lib_parse_time json_dec b = Ok s ->
    exists w, json_marshal_bytes lib_fmt_time json_enc s = Ok w.
Proof. exact json_reencodes_bytes. Qed.

(* json.Unmarshal yields only trees without Go ints and with finite floats:
   the premise is_wire of C17_reencodes holds of every parsed document. *)
Theorem C17I_parsed_is_wire :
  forall (b : bytes) (j : dval), jparse b = Some j -> is_wire j = true.
Proof. exact jparse_wire. Qed.

Print Assumptions C17I_lib_instance.
Print Assumptions C17I_rfc3339_roundtrip.
Print Assumptions C17I_json_lib_reparse.
Print Assumptions C17I_roundtrip.
Print Assumptions C17I_roundtrip_nonnil.
Print Assumptions C17I_roundtrip_refuted.
Print Assumptions C17I_total.
Print Assumptions C17I_reencodes.
Print Assumptions C17I_parsed_is_wire.
