(* C06 (and C01, C02) — the remaining decision code of Start, TRANSLATED from
   the Go source on every run (Gen/PureFnIP.v; translator/purefn.go, generator
   PureFnIP: a delimited subset of Go, anything outside it is a translator
   error): the remote-address block - the guard `valid && AcceptRemoteIP > 1`,
   the inner guard `len(previousIP) == 5 && len(currentIP) == 5 &&
   AcceptRemoteIP <= 4` and the loop `for i := 1; i < AcceptRemoteIP; i++ { if
   previousIP[i] != currentIP[i] { valid = false; break } }` - and the look-up
   guard `len(id) == 24`. Statements only; proofs in Proofs/PureFnEquiv2.v.
   The guard texts pinned by C06A's addr_pattern_pinned are hereby backed by a
   theorem about what they mean.

   The two FindStringSubmatch calls are not translated: they are
   AddrRe.submatch (Properties/C06A.v; compared with the real regexp on every
   run), and gen_ip_ok takes their results as Go's []string (`caps`).
   gen_ip_ok returns an option: None = Go panics (index out of range) or the
   translation's loop bound is exceeded; the theorems say: never None.

   Trusted: the translator's reading of the subset (as for C03P; in addition
   int as 64-bit, len, x[i] with its range check, the counted loop with
   break). *)
From Sessions Require Import Model.Base Model.Codec Model.Sess Model.AddrRe Model.Ids
  Gen.PureFn Gen.PureFnIP Proofs.PureFnEquiv Proofs.PureFnEquiv2.
Local Open Scope Z_scope.

(* FindStringSubmatch's result as a []string: nil, or the whole match and the four groups *)
Theorem C06P_caps : forall s,
  caps s = match submatch s with None => [] | Some (g1, g2, g3, g4) => [s; g1; g2; g3; g4] end.
Proof. intro s. reflexivity. Qed.

(* the translated block computes valid && the string-level decision of
   Model/AddrRe.v, for every configuration and all strings, without panic *)
Theorem C06P_ip_block : forall c valid p q,
  gen_ip_ok c valid (caps p) (caps q) = Some (valid && ip_ok_str (c_acceptip c) p q).
Proof. exact gen_ip_ok_eq. Qed.

(* ... hence, on printed addresses, valid && Sess.ip_ok *)
Theorem C06P_ip_block_model : forall c valid a b,
  gen_ip_ok c valid (caps (render a)) (caps (render b)) = Some (valid && ip_ok (c_acceptip c) a b).
Proof. exact gen_ip_ok_render. Qed.

(* the look-up guard is the guard of Model/Ids.v (C02, C19: only 24-character values are looked up) *)
Theorem C06P_lookup_guard : forall id, gen_lookup_guard id = start_guard id.
Proof. exact gen_lookup_guard_eq. Qed.

(* Sess.start is the function that takes all five decisions - staleness, remote
   address, user agent, rotation, backstop - with the translated conditions
   (start_gen2: the text of Sess.start with gen_stale, gen_ip_ok, gen_ua_ok,
   gen_rotate, gen_backstop in the place of its own expressions -
   Proofs/PureFnEquiv2.v) *)
Theorem C06P_start_uses_translated : forall s q, dur_cfg (conf s) -> start s q = start_gen2 s q.
Proof. exact start_uses_gen2. Qed.

Print Assumptions C06P_caps.
Print Assumptions C06P_ip_block.
Print Assumptions C06P_ip_block_model.
Print Assumptions C06P_lookup_guard.
Print Assumptions C06P_start_uses_translated.
