(* C02 — unknown or forged cookie values never grant, hijack or fix a session.
   Per-call statements about Start on fault-free states satisfying the
   invariants of Proofs/SessDefs.v. Statements only; proofs are in
   Proofs/StartLaws.v … StartLaws3.v.

   Vocabulary (Proofs/StartLaws*.v):
     L s k          the record k resolves to (cached object, else stored record)
     Lc s k         the same after the codec's normalisation
     fresh_rec s q  {created = access = now; this request's peer and agent;
                     no reference, no user, empty data}
     no_session     "nothing, or a session created in this call" (unfolded in
                    C02_no_session_meaning below)
     under k e      the persistence call e is about ID k
     creation_ev    the draw, flush saves of present IDs, the save of the new ID
     ok s           plan s = [] /\ cache_ok s /\ NoDup (map fst (cache s)) *)
From Sessions Require Import Model.Base Model.Sess Model.Hist
  Proofs.SessDefs Proofs.StartLaws Proofs.StartLaws2 Proofs.StartLaws3.

Theorem C02_no_session_meaning :
  forall s q s' res nck,
    no_session s q s' res nck <->
    if q_create q then
      exists o, res = Ok (Some o) /\ nck = [CkLive (KGen (supply s))] /\ hget s o = None /\
                hget s' o = Some (mkObj (KGen (supply s))
                                        (mkRec (now s) (now s) (q_addr q) (q_ua q) None None (Some []))) /\
                L s (KGen (supply s)) = None /\
                lookup (store s') (KGen (supply s)) =
                  Some (codec (conf s) (mkRec (now s) (now s) (q_addr q) (q_ua q) None None (Some [])))
    else res = Ok None /\ nck = [].
Proof. exact no_session_meaning. Qed.

Theorem C02_ok_meaning :
  forall s, ok s <-> plan s = [] /\ cache_ok s /\ NoDup (map fst (cache s)).
Proof. exact ok_meaning. Qed.

(* A 24-character value that is neither cached nor stored. *)
Theorem C02_unknown :
  forall s q k,
    plan s = [] -> cache_ok s -> nodup_ok s -> fresh_ok s ->
    q_cookie q = CKey k -> L s k = None ->
    exists s' res nck new,
      start s q = (s', res, CkDelete :: nck) /\
      no_session s q s' res nck /\
      (forall k', k' <> KGen (supply s) -> Lc s' k' = Lc s k') /\
      (q_create q = false -> s' = log s (EvLoad k true)) /\
      ok s' /\ conf s' = conf s /\
      evs s' = new ++ evs s /\
      (key_drawn s k ->
         KGen (supply s) <> k /\ L s' k = None /\ filter (under k) new = [EvLoad k true]).
Proof. exact unknown_cookie. Qed.

(* Any other cookie value (none, another length, the deletion marker). *)
Theorem C02_nolookup :
  forall s q,
    plan s = [] -> cache_ok s -> nodup_ok s -> fresh_ok s ->
    (forall k, q_cookie q <> CKey k) ->
    exists s' res nck new,
      start s q = (s', res, nck) /\
      no_session s q s' res nck /\
      (forall k', k' <> KGen (supply s) -> Lc s' k' = Lc s k') /\
      (q_create q = false -> s' = s) /\
      ok s' /\ conf s' = conf s /\
      evs s' = new ++ evs s /\ Forall (creation_ev s) new.
Proof. exact no_lookup. Qed.

(* ... whose persistence calls are draws and successful saves only *)
Theorem C02_nolookup_events :
  forall s e, creation_ev s e -> (exists n, e = EvDraw n) \/ (exists k r, e = EvSave k r true).
Proof. exact creation_ev_kind. Qed.

Print Assumptions C02_no_session_meaning.
Print Assumptions C02_ok_meaning.
Print Assumptions C02_unknown.
Print Assumptions C02_nolookup.
Print Assumptions C02_nolookup_events.
