(* C05 at the level of histories, continued (C05L): the backstop. A replaced-ID
   record is removed by its delayed clean-up — unless the process restarts
   first: the clean-ups are lost (Hist.restart), the record stays in the store.
   From then on only Start's age test bounds its life: it is honoured strictly
   before the age SessionIDExpiry + grace, and refused — and removed — from that
   age on: never honoured later than SessionIDExpiry + grace after its
   replacement. (The record's created field is the instant of the replacement:
   C04_seq_regenerate / C04_seq_login — floored to the second by the JSON codec,
   which only makes the refusal earlier.) Statements only; proofs are in
   Proofs/BackstopHist.v (examples in Proofs/LEx.v), built on PD's C05_backstop
   and C05_chain, PC's C03_dead / C06_destroy, and the history invariant LI of
   C05H.v, from which the state hypotheses of those per-call theorems are
   discharged.

   LI s            the invariant of C05H.v (C05H_inv_init, C05H_inv_step)
   Lref s k x      (C05H.v) k resolves to a record with reference field x
   schain s k rest (C05H.v) the store holds a chain of replaced-ID records from
                   k through rest, ending at a session's record
   presents / req_of   what request step r presents / the request Start sees
   valid_for c r t q   r is not idle for SessionExpiry at t and q's peer and agent
                   are acceptable w.r.t. r *)
From Sessions Require Import Model.Base Model.Sess Model.Hist Proofs.SessDefs
  Proofs.HistInv Proofs.HistInv2 Proofs.HistInv3 Proofs.HistLift Proofs.HistLift2 Proofs.HistLift3
  Proofs.HistLift4 Proofs.HistLift5 Proofs.HistLift6 Proofs.HistLift7 Proofs.HistLift9
  Proofs.StepShape Proofs.BackstopHist Proofs.LEx.
From Sessions Require Proofs.RotateLaws3.
Local Open Scope Z_scope.

(* --- the restart loses the clean-up, the record stays --------------------- *)

Theorem C05L_restart_keeps : forall w k j, LI (w_st w) -> Lref (w_st w) k (Some j) ->
  let s' := w_st (fst (step w HRestart)) in
  LI s' /\ Lref s' k (Some j) /\ pending s' = [] /\ cache s' = [] /\
  store s' = store (w_st w) /\ now s' = now (w_st w) /\ conf s' = conf (w_st w).
Proof. exact restart_keeps. Qed.

(* ... through any wait after it: nothing is left to fire *)
Theorem C05L_restart_wait_keeps : forall w k j d, LI (w_st w) -> Lref (w_st w) k (Some j) ->
  let s' := w_st (fst (step (fst (step w HRestart)) (HWait d))) in
  LI s' /\ Lref s' k (Some j) /\ pending s' = [] /\ cache s' = [] /\
  store s' = store (w_st w) /\ now s' = now (w_st w) + d /\ conf s' = conf (w_st w).
Proof. exact restart_wait_keeps. Qed.

(* --- at the backstop age and beyond: refused and removed ------------------ *)

(* C05_backstop in every state reached by a fault-free, crash-free history
   (restarts, cache losses, purges, reconfigurations included): a replaced-ID
   record presented at age SessionIDExpiry + grace or more, by an acceptable
   peer and not idle for SessionExpiry, is refused with EExpiredID; the response
   sets no cookie; afterwards the ID is neither cached nor stored. No hypothesis
   on the state. *)
Theorem C05L_backstop_hist : forall c hs r k rk tgt,
  Forall ff_hop hs -> Forall crash_free hs -> rq_plan r = [] -> rq_crash r = None ->
  let w := reach c hs in
  presents w r = CKey k -> L (w_st w) k = Some rk -> r_ref rk = Some tgt ->
  RotateLaws3.valid_for (conf (w_st w)) rk (now (w_st w)) (req_of w r) = true ->
  sat_add (c_idexpiry (conf (w_st w))) (c_grace (conf (w_st w))) <= since (r_created rk) (now (w_st w)) ->
  let o := snd (step w (HReq r)) in let s' := w_st (fst (step w (HReq r))) in
  ob_res o = RErr EExpiredID /\ ob_cookies o = [] /\ ob_start o = None /\ ob_final o = None /\
  LI s' /\ lookup (cache s') k = None /\ lookup (store s') k = None /\ L s' k = None.
Proof. exact backstop_reach. Qed.

(* the same from any state satisfying LI; the ID supply does not go back *)
Theorem C05L_backstop_step : forall w r k rk tgt,
  LI (w_st w) -> rq_plan r = [] -> rq_crash r = None ->
  presents w r = CKey k -> L (w_st w) k = Some rk -> r_ref rk = Some tgt ->
  RotateLaws3.valid_for (conf (w_st w)) rk (now (w_st w)) (req_of w r) = true ->
  sat_add (c_idexpiry (conf (w_st w))) (c_grace (conf (w_st w))) <= since (r_created rk) (now (w_st w)) ->
  let o := snd (step w (HReq r)) in let s' := w_st (fst (step w (HReq r))) in
  ob_res o = RErr EExpiredID /\ ob_cookies o = [] /\ ob_start o = None /\ ob_final o = None /\
  LI s' /\ lookup (cache s') k = None /\ lookup (store s') k = None /\ L s' k = None /\
  (supply (w_st w) <= supply s')%N.
Proof. exact backstop_step. Qed.

(* and it stays dead in every fault-free continuation, crashes included: never
   cached, stored, saved under, returned or sent as a live cookie again *)
Theorem C05L_backstop_dead_forever : forall c hs r k rk tgt hs2,
  Forall ff_hop hs -> Forall crash_free hs -> rq_plan r = [] -> rq_crash r = None ->
  let w := reach c hs in
  presents w r = CKey k -> L (w_st w) k = Some rk -> r_ref rk = Some tgt ->
  RotateLaws3.valid_for (conf (w_st w)) rk (now (w_st w)) (req_of w r) = true ->
  sat_add (c_idexpiry (conf (w_st w))) (c_grace (conf (w_st w))) <= since (r_created rk) (now (w_st w)) ->
  Forall ff_hop hs2 ->
  let w' := fst (step w (HReq r)) in
  lookup (cache (w_st (after w' hs2))) k = None /\ lookup (store (w_st (after w' hs2))) k = None /\
  Forall (dead_obs k) (run_from w' hs2).
Proof. exact backstop_dead_forever. Qed.

(* the scenario of the property: a restart, a wait of d, then the replaced ID —
   the record as the store holds it — at the backstop age or beyond *)
Theorem C05L_after_restart_dead : forall w k rk tgt d r,
  LI (w_st w) -> lookup (store (w_st w)) k = Some rk -> r_ref rk = Some tgt ->
  let w2 := fst (step (fst (step w HRestart)) (HWait d)) in
  rq_plan r = [] -> rq_crash r = None -> presents w2 r = CKey k ->
  RotateLaws3.valid_for (conf (w_st w)) rk (now (w_st w) + d) (req_of w2 r) = true ->
  sat_add (c_idexpiry (conf (w_st w))) (c_grace (conf (w_st w))) <= since (r_created rk) (now (w_st w) + d) ->
  let o := snd (step w2 (HReq r)) in let s' := w_st (fst (step w2 (HReq r))) in
  pending (w_st w2) = [] /\
  ob_res o = RErr EExpiredID /\ ob_cookies o = [] /\ ob_start o = None /\
  LI s' /\ lookup (cache s') k = None /\ lookup (store s') k = None /\ L s' k = None.
Proof. exact backstop_after_restart. Qed.

(* Whatever the peer and the idle time (call level): Start presented with a
   replaced-ID record of the backstop age or more never returns the session
   behind it. The record is removed; the call returns EExpiredID, or — the
   record being unacceptable: C03_dead, C06_destroy — sets a deletion cookie and
   returns no session or a brand-new one. *)
Theorem C05L_never_late : forall s q k rk tgt,
  LI s -> q_cookie q = CKey k -> L s k = Some rk -> r_ref rk = Some tgt ->
  sat_add (c_idexpiry (conf s)) (c_grace (conf s)) <= since (r_created rk) (now s) ->
  exists s' res cks, start s q = (s', res, cks) /\
    lookup (cache s') k = None /\ lookup (store s') k = None /\
    ((res = Err EExpiredID /\ cks = []) \/
     (In CkDelete cks /\
      (res = Ok None \/
       exists o, res = Ok (Some o) /\ hget s o = None /\
                 exists ob, hget s' o = Some ob /\ o_id ob = KGen (supply s) /\ r_user (o_rec ob) = None /\
                            r_data (o_rec ob) = Some []))).
Proof. exact start_never_late. Qed.

(* --- before the backstop age: still honoured ------------------------------ *)

(* C05_chain at every request step from a state satisfying LI: the head of an
   intact chain, below the backstop age, acceptable peer, not idle: the session
   at the end of the chain is returned and the first cookie is Live of its ID *)
Theorem C05L_chain_live_step : forall w r k rest rk,
  LI (w_st w) -> rq_plan r = [] -> rq_crash r = None -> presents w r = CKey k ->
  schain (w_st w) k rest -> rest <> [] -> L (w_st w) k = Some rk ->
  RotateLaws3.valid_for (conf (w_st w)) rk (now (w_st w)) (req_of w r) = true ->
  since (r_created rk) (now (w_st w)) < sat_add (c_idexpiry (conf (w_st w))) (c_grace (conf (w_st w))) ->
  let o := snd (step w (HReq r)) in
  ob_res o = RSess /\ (exists rc, ob_start o = Some (last rest k, rc) /\ r_ref rc = None) /\
  exists cks', ob_cookies o = CkLive (last rest k) :: cks'.
Proof. exact chain_live_step. Qed.

(* after a restart and a wait of d — however long after the grace period: no
   clean-up is left — the chain is as the store held it and the replaced ID
   still resolves to the live session, as long as its age is below the backstop *)
Theorem C05L_after_restart_live : forall w k rest rk d r,
  LI (w_st w) -> schain (w_st w) k rest -> rest <> [] -> lookup (store (w_st w)) k = Some rk ->
  let w2 := fst (step (fst (step w HRestart)) (HWait d)) in
  rq_plan r = [] -> rq_crash r = None -> presents w2 r = CKey k ->
  RotateLaws3.valid_for (conf (w_st w)) rk (now (w_st w) + d) (req_of w2 r) = true ->
  since (r_created rk) (now (w_st w) + d) < sat_add (c_idexpiry (conf (w_st w))) (c_grace (conf (w_st w))) ->
  let o := snd (step w2 (HReq r)) in
  pending (w_st w2) = [] /\ schain (w_st w2) k rest /\
  ob_res o = RSess /\ (exists rc, ob_start o = Some (last rest k, rc) /\ r_ref rc = None) /\
  exists cks', ob_cookies o = CkLive (last rest k) :: cks'.
Proof. exact live_after_restart. Qed.

(* --- non-vacuity ---------------------------------------------------------- *)

(* SessionExpiry 1 h, SessionIDExpiry 30 s, grace 5 s; ID 0 replaced by ID 1 at
   instant 0, then a restart: the hypotheses of the two theorems above hold at
   d = 34 s resp. 35 s ... *)
Theorem C05L_ex_invariant : LI (w_st wB).
Proof. exact wB_LI. Qed.

Theorem C05L_ex_hyps :
  pending (w_st wB) = [(5000000000%Z, KGen 0)] /\
  lookup (store (w_st wB)) (KGen 0) = Some rkB /\ schain (w_st wB) (KGen 0) [KGen 1] /\
  (let w2 := fst (step (fst (step wB HRestart)) (HWait 34000000000)) in
   presents w2 probeB = CKey (KGen 0) /\
   RotateLaws3.valid_for (conf (w_st wB)) rkB (now (w_st wB) + 34000000000) (req_of w2 probeB) = true /\
   (since (r_created rkB) (now (w_st wB) + 34000000000) < sat_add (c_idexpiry (conf (w_st wB))) (c_grace (conf (w_st wB))))%Z) /\
  (let w3 := fst (step (fst (step wB HRestart)) (HWait 35000000000)) in
   presents w3 probeB = CKey (KGen 0) /\
   RotateLaws3.valid_for (conf (w_st wB)) rkB (now (w_st wB) + 35000000000) (req_of w3 probeB) = true /\
   (sat_add (c_idexpiry (conf (w_st wB))) (c_grace (conf (w_st wB))) <= since (r_created rkB) (now (w_st wB) + 35000000000))%Z).
Proof. exact backstop_hyps_ex. Qed.

(* ... and the outcomes are as stated: honoured at 34 s (29 s after the end of the
   grace period), refused and removed at 35 s *)
Theorem C05L_ex_outcomes :
  let w2 := fst (step (fst (step wB HRestart)) (HWait 34000000000)) in
  let w3 := fst (step (fst (step wB HRestart)) (HWait 35000000000)) in
  ob_res (snd (step w2 (HReq probeB))) = RSess /\
  ob_cookies (snd (step w2 (HReq probeB))) = [CkLive (KGen 1)] /\
  option_map fst (ob_start (snd (step w2 (HReq probeB)))) = Some (KGen 1) /\
  ob_res (snd (step w3 (HReq probeB))) = RErr EExpiredID /\
  ob_cookies (snd (step w3 (HReq probeB))) = [] /\
  lookup (store (w_st (fst (step w3 (HReq probeB))))) (KGen 0) = None.
Proof. exact backstop_outcomes_ex. Qed.

Print Assumptions C05L_restart_keeps.
Print Assumptions C05L_restart_wait_keeps.
Print Assumptions C05L_backstop_hist.
Print Assumptions C05L_backstop_step.
Print Assumptions C05L_backstop_dead_forever.
Print Assumptions C05L_after_restart_dead.
Print Assumptions C05L_never_late.
Print Assumptions C05L_chain_live_step.
Print Assumptions C05L_after_restart_live.
Print Assumptions C05L_ex_invariant.
Print Assumptions C05L_ex_hyps.
Print Assumptions C05L_ex_outcomes.
