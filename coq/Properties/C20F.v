(* C20, ReasonablePassword TRANSLATED, not transcribed: Gen/PwFn.v is produced on
   every run from the Go AST of the body of ReasonablePassword by
   translator/pw_fn.go (a delimited subset: the ordered `if c { return K }`
   cascade; range loops over word lists that return on the first hit, as folds
   with an optional result; the loop over the runes of the password with its
   `first` sentinel and its break, as a fold over (first, stopped); len,
   strings.ToLower, strings.Contains, == on strings; the Password* constants
   as constructors in block order; anything else is a hard error). The library
   operations are parameters: the two word lists, tolower, and range_string,
   the (byte index, rune) pairs of Go's range over a string.

   This file states WHAT THE TRANSLATION COMPUTES: the cascade spec_reasonable
   (unfolded in C20F_spec_meaning), for all word lists, every tolower, all
   names and every byte string - UNDER THE HYPOTHESIS well_indexed
   (range_string pw): the decoder handed in for Go's range over a string
   yields index 0 first and never again. That hypothesis is not discharged
   here; Properties/C20G.v discharges it for the decoder built from the model's
   decode1 (C20G_range_string). For a range_string that is not well_indexed the
   theorem says nothing. The file depends on the translation and Model/Base.v
   only, so a rewrite of the Go code with the same meaning (8 > len(password);
   the operands of == swapped) keeps it compiling, and a change of meaning
   (< 8 -> <= 8; dictionary before the compromised list; `first != 0` dropped;
   a sequence row changed) breaks it. Properties/C20G.v: Model/Password.v is
   that cascade, hence translation = model. Proofs in Proofs/PwFnEquiv.v.

   The translator (translator/pw_fn.go) is trusted code: it rejects shadowing
   declarations and assignments to the range variables, requires exactly one
   const block (the Password* iota block), []string word lists and the standard
   `strings` import; generated names contain an apostrophe, which no Go
   identifier can. tolower, contains and bytes_eqb stand for strings.ToLower,
   strings.Contains and == on strings: that they are is C20's differential
   check, not a theorem. *)
From Sessions Require Import Model.Base Gen.PwFn Proofs.PwFnEquiv.

Theorem C20F_spec_meaning :
  (forall common dict tolower rs names pw,
     spec_reasonable common dict tolower rs names pw =
     if (N.of_nat (length pw) <? 8)%N then C_PasswordTooShort
     else if existsb (fun w => bytes_eqb (tolower pw) (tolower w)) names then C_PasswordIsAName
     else if existsb (bytes_eqb pw) common then C_PasswordWasCompromised
     else if existsb (bytes_eqb pw) dict then C_PasswordFoundInDictionary
     else if spec_repetitive rs then C_PasswordRepetitive
     else if existsb (fun s => contains s (tolower pw)) spec_sequences then C_PasswordSequential
     else C_PasswordOK) /\
  spec_repetitive [] = false /\
  (forall r t, spec_repetitive (r :: t) = forallb (N.eqb r) t && negb (r =? 0)%N) /\
  spec_sequences =
    [[113;119;101;114;116;121;117;105;111;112];
     [113;119;101;114;116;122;117;105;111;112;195;188];
     [97;122;101;114;116;121;117;105;111;112];
     [97;115;100;102;103;104;106;107;108;195;182;195;164];
     [113;115;100;102;103;104;106;107;108;109];
     [48;49;50;51;52;53;54;55;56;57;48];
     [97;98;99;100;101;102;103;104;105;106;107;108;109;110;111;112;113;114;115;116;117;118;119;120;121;122]]%N /\
  (well_indexed [] <-> True) /\
  (forall ic t, well_indexed (ic :: t) <-> fst ic = 0%Z /\ Forall (fun jc => fst jc <> 0%Z) t) /\
  (forall c, pw_const_code c =
     match c with
     | C_PasswordOK => 0 | C_PasswordTooShort => 1 | C_PasswordIsAName => 2 | C_PasswordWasCompromised => 3
     | C_PasswordFoundInDictionary => 4 | C_PasswordRepetitive => 5 | C_PasswordSequential => 6
     end%N).
Proof. exact spec_meaning. Qed.

Theorem C20F_translation_is_spec :
  forall (common dict : list bytes) (tolower : bytes -> bytes) (range_string : bytes -> list (Z * N))
         (names : list bytes) (pw : bytes),
    well_indexed (range_string pw) ->
    gen_reasonable common dict tolower range_string pw names =
    spec_reasonable common dict tolower (map snd (range_string pw)) names pw.
Proof. exact gen_reasonable_spec. Qed.

Print Assumptions C20F_spec_meaning.
Print Assumptions C20F_translation_is_spec.
