(* C19: the hand-written model Model/Ids.v computes the specifications that
   Properties/C19F.v proves of the functions translated from ids.go; hence
   translation = model, piece by piece and as a whole, on the whole domain, and
   every theorem of Properties/C19.v / C19K.v about cuid_step / cuid_run is a
   theorem about the translation. This file - unlike C19F.v - depends on
   Model/Ids.v, whose integer literals are those of Gen/Consts.v: it stops
   compiling together with C19_source_constants when the text of ids.go
   changes, also harmlessly. Statements only; proofs in Proofs/IdsFnModel.v,
   examples in Proofs/IdsFnEx.v. *)
From Sessions Require Import Model.Base Model.Ids Gen.Consts Gen.IdsFn
  Proofs.IdsLaws2 Proofs.IdsFnEquiv Proofs.IdsFnModel Proofs.IdsFnEx.
Local Open Scope N_scope.

(* the model computes the specifications *)
Theorem C19G_model_is_spec :
  (forall sec nsec, cuid_timestamp sec nsec = spec_timestamp sec nsec) /\
  (forall mac, mac_hash mac = spec_machash mac) /\
  (forall mac ts lc, ts < 1099511627776 -> cuid_bits mac ts lc = spec_bits ts lc (spec_machash mac)) /\
  (forall bits, cuid_string bits = spec_base62 bits).
Proof. exact (conj cuid_timestamp_is_spec (conj mac_hash_is_spec (conj cuid_bits_is_spec cuid_string_is_spec))). Qed.

(* translation = model, piece by piece *)
Theorem C19G_gen_timestamp :
  forall (sec : Z) (nsec : N), gen_timestamp sec (Z.of_N nsec) = cuid_timestamp sec nsec.
Proof. exact gen_timestamp_eq. Qed.

Theorem C19G_gen_counter_step :
  forall (st : cuid_state) (ts : N),
  gen_counter_step (cs_last_time st) (cs_last_counter st) ts =
  (ts, if ts =? cs_last_time st then u64 (cs_last_counter st + 1) else lit 5).
Proof. exact gen_counter_step_eq. Qed.

Theorem C19G_gen_machash :
  forall mac : bytes, gen_machash mac = mac_hash mac.
Proof. exact gen_machash_eq. Qed.

Theorem C19G_gen_bits :
  forall (mac : bytes) (ts lc : N),
  ts < 1099511627776 -> gen_bits ts lc (gen_machash mac) = cuid_bits mac ts lc.
Proof. exact gen_bits_eq. Qed.

Theorem C19G_gen_base62 :
  forall bits : N, gen_base62 bits = cuid_string bits.
Proof. exact gen_base62_eq. Qed.

Theorem C19G_gen_random_index :
  forall b : N,
    gen_random_chars = ids_rid_chars /\
    gen_random_index b = Z.of_N (b mod ids_rid_modulus) /\
    nth (Z.to_nat (gen_random_index b)) gen_random_chars 0 = rid_symbol b.
Proof. exact gen_random_index_eq. Qed.

(* composed: the translated whole body of CUID is cuid_step; so are the pieces
   put together by hand along Model/CuidConc.v's cut (gen_cuid_step) *)
Theorem C19G_gen_cuid_body :
  forall (mac : bytes) (st : cuid_state) (sec : Z) (nsec : N),
  gen_cuid_body sec (Z.of_N nsec) (cs_last_time st) (cs_last_counter st) mac =
  let r := cuid_step mac st sec nsec in (cs_last_time (fst r), cs_last_counter (fst r), snd r).
Proof. exact gen_cuid_body_eq. Qed.

Theorem C19G_gen_cuid_step :
  forall (mac : bytes) (st : cuid_state) (sec : Z) (nsec : N),
  (gen_cuid_step mac st sec nsec =
   let ts := gen_timestamp sec (Z.of_N nsec) in
   let '(lt, lc) := gen_counter_step (cs_last_time st) (cs_last_counter st) ts in
   ({| cs_last_time := lt; cs_last_counter := lc |}, gen_base62 (gen_bits ts lc (gen_machash mac)))) /\
  gen_cuid_step mac st sec nsec = cuid_step mac st sec nsec.
Proof. exact (fun mac st sec nsec => conj eq_refl (gen_cuid_step_eq mac st sec nsec)). Qed.

(* a sequence of calls of the translated step is the model's run: C19_cuid_unique*,
   C19_cuid_ordered*, C19K_* speak about the translation *)
Theorem C19G_gen_run :
  forall (mac : bytes) (st : cuid_state) (times : list (Z * N)),
  gen_run mac st times = cuid_run mac st times.
Proof. exact gen_run_eq. Qed.

Print Assumptions C19G_model_is_spec.
Print Assumptions C19G_gen_timestamp.
Print Assumptions C19G_gen_counter_step.
Print Assumptions C19G_gen_machash.
Print Assumptions C19G_gen_bits.
Print Assumptions C19G_gen_base62.
Print Assumptions C19G_gen_random_index.
Print Assumptions C19G_gen_cuid_body.
Print Assumptions C19G_gen_cuid_step.
Print Assumptions C19G_gen_run.
(* non-vacuity (Proofs/IdsFnEx.v): the translated body evaluated at a concrete
   instant next to the model; with a spill; before 1970 (the uint64 subtraction
   wraps); the counter wrapping at 2^64; RandomID's index at 0, 61, 62, 255; a
   run of three calls *)
Print Assumptions gen_body_ex.
Print Assumptions gen_body_spill_ex.
Print Assumptions gen_timestamp_wrap_ex.
Print Assumptions gen_counter_wrap_ex.
Print Assumptions gen_random_index_ex.
Print Assumptions gen_run_unique_ex.
