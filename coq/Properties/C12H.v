(* C12 at the level of the public API — cache size, N = 0, flush at purge, along
   the histories of Model/Hist.v. Statements only; proofs are in
   Proofs/CacheHist.v (every API call is a sequence of primitive cache and
   object changes), CacheHist2.v (PA's assumptions and the bounds through the
   primitives; the generic step lemma), CacheHist3.v (history theorems),
   CacheHistEx.v (examples), built on PA's per-operation theorems
   (Properties/C12.v) and PF's closed form of Hist.step (Proofs/HistInv3.v).

   Histories are fault-free (ff_hop: rq_plan / pl = []); crashes (rq_crash) are
   allowed everywhere: a crash empties the cache.

   reach c hs     the world after history hs from init_st c
   cinv s         PA's standing assumptions: plan s = [], every cached index is
                  an object of the heap, cache keys unique
   within s       0 <= N -> |cache s| <= N          (N = c_maxcache (conf s))
   fits w hs      no HSetCfg of hs lowers N below the occupancy at its moment
   keeps_size N h h is not a configuration change, or one that sets N again
   Lc s k         option_map (codec (conf s)) (L s k)
   api_step h     h is a fault-free, crash-free request, a wait, or a fault-free
                  user-wide logout / refresh (the hops that run API calls and do
                  not empty the cache by definition)
   keeps_neg h    h is not a configuration change, or one to a negative N
   left_ok e t l k  the log l has a successful delete of k, or a successful save
                  under k of a record whose access time is more than e before t
   papi s s'      s' is reached from s by primitive changes: cache.Get, cache.Set,
                  cache.Delete, a direct save, UserSessions, an object mutation,
                  a change of the clean-up queue, creation, RegenerateID *)
From Sessions Require Import Model.Base Model.Sess Model.Hist Proofs.SessDefs
  Proofs.CacheInv Proofs.CacheInv2 Proofs.CacheInv3 Proofs.CacheInv4
  Proofs.CacheHist Proofs.CacheHist2 Proofs.CacheHist3 Proofs.CacheHist4 Proofs.CacheHistEx.
From Sessions Require Import Proofs.HistInv3.
Local Open Scope Z_scope.

(* ------------------------------------------------ reachable states, the API *)

(* PA's assumptions hold in every state a fault-free history reaches *)
Theorem C12H_cinv_reach : forall c hs, Forall ff_hop hs -> cinv (w_st (reach c hs)).
Proof. exact reach_cinv. Qed.

(* what a request step's API calls are made of (any state, any fault plan) *)
Theorem C12H_start_prims : forall s q, papi s (fst (fst (start s q))).
Proof. exact start_papi. Qed.
Theorem C12H_script_prims : forall hc ops s o, papi s (fst (fst (run_script s o hc ops))).
Proof. exact run_script_papi. Qed.
Theorem C12H_logout_user_prims : forall s u, papi s (fst (logout_user s u)).
Proof. exact logout_user_papi. Qed.
Theorem C12H_refresh_user_prims : forall s u, papi s (fst (refresh_user s u)).
Proof. exact refresh_user_papi. Qed.
Theorem C12H_cleanup_prims : forall s, papi s (fire_due s).
Proof. exact fire_due_papi. Qed.

(* --------------------------------------------------------- (a) C12H_bound *)

(* one step: within N is kept by every hop; a configuration change keeps it
   when the cache fits the new size *)
Theorem C12H_bound_step : forall w h,
  cinv (w_st w) -> within (w_st w) -> ff_hop h ->
  (forall c, h = HSetCfg c -> within (set_conf (w_st w) c)) ->
  cinv (w_st (fst (step w h))) /\ within (w_st (fst (step w h))).
Proof. exact bound_step. Qed.

(* after every step (every prefix) of a history whose configuration changes fit *)
Theorem C12H_bound : forall c hs,
  Forall ff_hop hs -> fits (mkWorld (init_st c) []) hs ->
  forall pre post, hs = pre ++ post ->
  let s := w_st (reach c pre) in
  0 <= c_maxcache (conf s) -> Z.of_nat (length (cache s)) <= c_maxcache (conf s).
Proof. exact bound_hist. Qed.

(* in particular when N is never changed (other settings may change) *)
Theorem C12H_bound_fixed : forall c hs,
  Forall ff_hop hs -> Forall (keeps_size (c_maxcache c)) hs ->
  let s := w_st (reach c hs) in
  c_maxcache (conf s) = c_maxcache c /\
  (0 <= c_maxcache c -> Z.of_nat (length (cache s)) <= c_maxcache c).
Proof. exact bound_fixed. Qed.

(* whatever the history (N lowered at will): a request step in which an ID was
   drawn — creation, rotation, RegenerateID, LogIn — ends within N + 1 *)
Theorem C12H_bound_weak : forall c hs r,
  Forall ff_hop hs -> rq_plan r = [] ->
  let w := reach c hs in
  ob_drawn (snd (step w (HReq r))) <> supply (w_st w) ->
  let s' := w_st (fst (step w (HReq r))) in
  0 <= c_maxcache (conf s') -> Z.of_nat (length (cache s')) <= c_maxcache (conf s') + 1.
Proof. exact bound_weak_hist. Qed.

(* N + 1 is reached by a fault-free, crash-free history that lowers N: the
   unconditional bound N is false of the model at history level *)
Theorem C12H_bound_lowered_refuted :
  exists c hs, Forall ff_hop hs /\ Forall crash_free hs /\
    let s := w_st (reach c hs) in
    0 < c_maxcache (conf s) /\ Z.of_nat (length (cache s)) = c_maxcache (conf s) + 1.
Proof. exact bound_tie_hist_refuted. Qed.

(* ---------------------------------------------------------- (b) C12H_zero *)

Theorem C12H_zero : forall c hs,
  c_maxcache c = 0 -> Forall ff_hop hs -> Forall (keeps_size 0) hs -> cache (w_st (reach c hs)) = [].
Proof. exact zero_hist. Qed.

(* after a change to N = 0 with entries cached: the cache never grows, ... *)
Theorem C12H_zero_nogrow : forall w h,
  cinv (w_st w) -> c_maxcache (conf (w_st w)) = 0 -> ff_hop h -> keeps_size 0 h ->
  (length (cache (w_st (fst (step w h)))) <= length (cache (w_st w)))%nat.
Proof. exact zero_nogrow. Qed.

(* ... the first request step that draws an ID empties it, ... *)
Theorem C12H_zero_write : forall w r,
  cinv (w_st w) -> rq_plan r = [] -> c_maxcache (conf (w_st w)) = 0 ->
  supply (w_st (fst (step w (HReq r)))) <> supply (w_st w) ->
  cache (w_st (fst (step w (HReq r)))) = [].
Proof. exact zero_drew. Qed.

(* ... and it stays empty *)
Theorem C12H_zero_stays : forall w h,
  cinv (w_st w) -> c_maxcache (conf (w_st w)) = 0 -> cache (w_st w) = [] -> ff_hop h -> keeps_size 0 h ->
  c_maxcache (conf (w_st (fst (step w h)))) = 0 /\ cache (w_st (fst (step w h))) = [].
Proof. exact zero_stays. Qed.

(* ---------------------------------------------------- (c) C12H_unbounded *)

(* With N < 0, in every step that runs API calls (request, wait, user-wide
   logout / refresh): an entry cached when the step began is still cached under
   its ID at the end, or the step deleted that ID (EvDelete), or the step saved
   it under that ID while it was idle — the save carries an access time older
   than SessionCacheExpiry at the step's clock. No entry leaves for size.
   (Purge, cache loss and restart empty the cache by definition.) *)
Theorem C12H_unbounded_step : forall w h,
  cinv (w_st w) -> c_maxcache (conf (w_st w)) < 0 -> api_step h ->
  let s' := w_st (fst (step w h)) in let ob := snd (step w h) in
  forall k, lookup (cache (w_st w)) k <> None ->
    lookup (cache s') k <> None \/
    In (EvDelete k true) (ob_evs ob) \/
    exists r, In (EvSave k r true) (ob_evs ob) /\ c_cacheexpiry (conf (w_st w)) < since (r_access r) (ob_now ob).
Proof. exact unbounded_step. Qed.

Theorem C12H_unbounded : forall c hs h,
  c_maxcache c < 0 -> Forall ff_hop hs -> Forall keeps_neg hs -> api_step h ->
  let w := reach c hs in let s' := w_st (fst (step w h)) in let ob := snd (step w h) in
  forall k, lookup (cache (w_st w)) k <> None ->
    lookup (cache s') k <> None \/
    In (EvDelete k true) (ob_evs ob) \/
    exists r, In (EvSave k r true) (ob_evs ob) /\ c_cacheexpiry (conf (w_st w)) < since (r_access r) (ob_now ob).
Proof. exact unbounded_hist. Qed.

(* at the level of compact, in any state with PA's assumptions and N < 0 *)
Theorem C12H_unbounded_compact : forall s r, cinv s -> c_maxcache (conf s) < 0 ->
  (exists l, evs (compact s r) = l ++ evs s) /\
  forall k, lookup (cache s) k <> None ->
    lookup (cache (compact s r)) k = lookup (cache s) k \/
    left_ok (c_cacheexpiry (conf s)) (now s) (evs (compact s r)) k.
Proof. exact compact_neg. Qed.

Theorem C12H_ex_unbounded :
  let w := reach cNeg h_neg in let ob := snd (step w (mkr 3 [])) in
  map fst (cache (w_st w)) = [KGen 0; KGen 1] /\
  map fst (cache (w_st (fst (step w (mkr 3 []))))) = [KGen 2] /\
  (exists r, In (EvSave (KGen 0) r true) (ob_evs ob) /\ r_access r = 0) /\
  (exists r, In (EvSave (KGen 1) r true) (ob_evs ob) /\ r_access r = 5) /\
  ob_now ob = 65.
Proof. exact ex_unbounded_hist. Qed.

(* ---------------------------------------------------- (d) C12H_flush_hist *)

(* PurgeSessions does not change what any ID resolves to, read through the codec *)
Theorem C12H_purge_Lc : forall c hs tbl k,
  Forall ff_hop hs ->
  Lc (w_st (fst (step (reach c hs) (HPurge tbl [])))) k = Lc (w_st (reach c hs)) k.
Proof. exact purge_hist_Lc. Qed.

(* after HPurge: the cache is empty; every object that was cached is stored
   under its cache key as the codec returns it — all fields, the access time
   included — and is what the ID now resolves to; uncached IDs keep their
   stored record *)
Theorem C12H_flush_hist : forall c hs tbl,
  Forall ff_hop hs ->
  let s := w_st (reach c hs) in let s' := w_st (fst (step (reach c hs) (HPurge tbl []))) in
  cache s' = [] /\ conf s' = conf s /\ heap s' = heap s /\
  (forall k o ob, lookup (cache s) k = Some o -> hget s o = Some ob ->
     lookup (store s') k = Some (codec (conf s) (o_rec ob)) /\
     L s' k = Some (codec (conf s) (o_rec ob))) /\
  (forall k, lookup (cache s) k = None -> lookup (store s') k = lookup (store s) k).
Proof. exact purge_hist_flush. Qed.

(* the access time the store receives *)
Theorem C12H_flush_access : forall c r,
  r_access (codec c r) = if c_json c then r_access r - r_access r mod second else r_access r.
Proof. exact CacheInv5.codec_access. Qed.

(* compaction, in any state an API call of a fault-free history passes through
   (s reached by primitives from a reachable state), leaves Lc of every ID
   alone; so does every cache.Get, loading or not *)
Theorem C12H_compact_Lc : forall c hs s r k,
  Forall ff_hop hs -> papi (purge_s1 (w_st (reach c hs)) (tb s)) s ->
  Lc (compact s r) k = Lc s k.
Proof. exact compact_Lc_mid. Qed.

Theorem C12H_get_Lc : forall s k k', cinv s -> Lc (fst (cache_get s k)) k' = Lc s k'.
Proof. exact get_Lc_all. Qed.

Theorem C12H_papi_cinv : forall s s', papi s s' -> cinv s -> cinv s'.
Proof. exact (micro_papi cinv micro_cinv). Qed.

(* ----------------------------------------------------------- non-vacuity *)

Theorem C12H_ex_bound :
  Forall ff_hop h_three /\ Forall (keeps_size 2) h_three /\ fits (mkWorld (init_st (cN 2 false)) []) h_three /\
  map fst (cache (w_st (reach (cN 2 false) h_three))) = [KGen 2; KGen 0].
Proof. exact ex_bound. Qed.

Theorem C12H_ex_zero_later :
  length (cache (w_st (reach (cN 2 false) h_to_zero))) = 2%nat /\
  length (cache (w_st (reach (cN 2 false) (h_to_zero ++ [mkr 1 [SSet 1 1]])))) = 2%nat /\
  cache (w_st (reach (cN 2 false) (h_to_zero ++ [mkr 1 [SSet 1 1]; mkr 3 []]))) = [].
Proof. exact ex_zero_later. Qed.

Theorem C12H_ex_purge_json :
  let w := reach cJ h_json in let w' := fst (step w (HPurge [] [])) in
  option_map r_access (L (w_st w) (KGen 0)) = Some 1500000000 /\
  option_map r_access (lookup (store (w_st w)) (KGen 0)) = Some 0 /\
  cache (w_st w') = [] /\
  option_map r_access (lookup (store (w_st w')) (KGen 0)) = Some 1000000000 /\
  Lc (w_st w') (KGen 0) = Lc (w_st w) (KGen 0) /\ Lc (w_st w) (KGen 0) <> None.
Proof. exact ex_purge_json. Qed.

Print Assumptions C12H_cinv_reach.
Print Assumptions C12H_start_prims.
Print Assumptions C12H_script_prims.
Print Assumptions C12H_logout_user_prims.
Print Assumptions C12H_refresh_user_prims.
Print Assumptions C12H_cleanup_prims.
Print Assumptions C12H_bound_step.
Print Assumptions C12H_bound.
Print Assumptions C12H_bound_fixed.
Print Assumptions C12H_bound_weak.
Print Assumptions C12H_bound_lowered_refuted.
Print Assumptions C12H_zero.
Print Assumptions C12H_zero_nogrow.
Print Assumptions C12H_zero_write.
Print Assumptions C12H_zero_stays.
Print Assumptions C12H_unbounded_step.
Print Assumptions C12H_unbounded.
Print Assumptions C12H_unbounded_compact.
Print Assumptions C12H_ex_unbounded.
Print Assumptions C12H_purge_Lc.
Print Assumptions C12H_flush_hist.
Print Assumptions C12H_flush_access.
Print Assumptions C12H_compact_Lc.
Print Assumptions C12H_get_Lc.
Print Assumptions C12H_papi_cinv.
Print Assumptions C12H_ex_bound.
Print Assumptions C12H_ex_zero_later.
Print Assumptions C12H_ex_purge_json.
