(* C10 for requests that presented a REPLACED ID, through a chain of any length,
   and orphan copies (C10C; audit finding 11). Statements only; proofs are in
   Proofs/CrashChain.v (store level), CrashChain2.v (Start on a chain),
   CrashChain3.v (scenario; the request after the restart), CrashChain4.v
   (RegenerateID), CrashChain5.v (orphans, supply), CrashChain6.v (LogIn),
   CrashChain7.v (where cookie values come from), CrashChain8-11.v (nobody is ever
   led to the orphan), CrashChain12.v (the chain-length hypothesis in reachable
   states), CrashChain13.v (a wait after the crash), CrashChain14.v (orphans when the
   CURRENT ID was presented), examples in CrashChainEx.v. Built on the safe-save discipline of
   Proofs/CrashFault2-5.v and the theorems of Properties/C10.v, C10H.v, C10L.v,
   whose restart-level statements require the presented ID to be the session's
   CURRENT one and whose resolves_to follows at most one reference.

   Reading guide.
   resolves_chain F stor k   following replaced-ID records inside the store stor
                     from k, through a chain of ANY length (fuel: the number of
                     stored records), ends at a session record satisfying F
   spath F stor k [k1;..;kn] the explicit chain: k is stored as a reference to k1,
                     .., k(n-1) as a reference to kn, kn as a session record
                     satisfying F (C10C_resolves_chain_meaning relates the two)
   chain_mem s k0 rest       the store of s holds the replaced-ID records
                     k0 -> .. (rest), and a cached copy of any of them names the
                     same target (write-through gives the latter)
   frozen s l n, appended, nodangling_rel, full D U, holds, presented: as in C10.v
   pres, probe_ok, probe_q, req_end: as in C10H.v
   Xmiss s t         t was missing from the store of s and is not the next ID

   Scenario (chain_crash w r n k0 rest D U script): in world w - satisfying the
   invariants of SessDefs.v, which hold after every fault-free, crash-free
   history - request step r, fault-free, presents k0 (jar or forged), the head
   of a chain k0 -> k1 -> .. -> kn (rest = [k1;..;kn], n >= 1) of replaced-ID
   records in the store whose end kn is a session with data D and user U in the
   store and, if cached, in the cache; the chain is no longer than the number of
   IDs drawn so far (no restriction in reachable states: C10C_fuel_of_LI); the record for k0 makes
   the request acceptable (probe_ok); Start follows the chain - loading records
   and flushing other cache entries to make room, whatever the cache size - and
   returns the session; the handler runs script; the process stops after n
   persistence calls of the step - inside Start's loads and flushes or inside
   the ID change; the grace period is positive, no clean-up of w is due. *)
From Sessions Require Import Model.Base Model.Sess Model.Hist Proofs.SessDefs
  Proofs.HistInv Proofs.HistInv2 Proofs.HistInv3.
From Sessions Require Import Proofs.CrashFault Proofs.CrashFault2 Proofs.CrashFault3 Proofs.CrashFault5 Proofs.CrashFault6 Proofs.LiveHist4.
From Sessions Require Import Proofs.CrashRestart Proofs.CrashRestart2 Proofs.CrashRestart3 Proofs.CrashRestart4.
From Sessions Require Import Proofs.CrashChain Proofs.CrashChain2 Proofs.CrashChain3 Proofs.CrashChain4
  Proofs.CrashChain5 Proofs.CrashChain6 Proofs.CrashChain7 Proofs.CrashChain8 Proofs.CrashChain9 Proofs.CrashChain10 Proofs.CrashChain11 Proofs.CrashChain12 Proofs.CrashChain13 Proofs.CrashChain14
  Proofs.HistLift4 Proofs.CrashChainEx.
Local Open Scope Z_scope.

(* ------------------------------------------------------------ the notions *)

Theorem C10C_resolves_chain_def : forall F stor k,
  resolves_chain F stor k <-> exists k' r, resolve (length stor) stor k = Some (k', r) /\ r_ref r = None /\ F r.
Proof. exact resolves_chain_def. Qed.

Theorem C10C_spath_def : forall F stor k,
  (spath F stor k [] <-> exists r, lookup stor k = Some r /\ r_ref r = None /\ F r) /\
  (forall k' t, spath F stor k (k' :: t) <-> (exists r, lookup stor k = Some r /\ r_ref r = Some k') /\ spath F stor k' t).
Proof. exact spath_def. Qed.

Theorem C10C_resolves_chain_meaning : forall (F : rec -> Prop) stor k,
  resolves_chain F stor k <-> exists rest, spath F stor k rest.
Proof. exact resolves_chain_meaning. Qed.

(* a chain is made of distinct stored IDs, so the fuel never runs out *)
Theorem C10C_spath_length : forall (F : rec -> Prop) stor rest k,
  spath F stor k rest -> NoDup (k :: rest) /\ (length rest < length stor)%nat.
Proof. exact spath_distinct_short. Qed.

(* the one-hop notion of C10.v is the special case *)
Theorem C10C_resolves_to_chain : forall (F : rec -> Prop) stor k, resolves_to F stor k -> resolves_chain F stor k.
Proof. exact resolves_to_chain. Qed.

Theorem C10C_chain_mem_def : forall s k0 rest,
  chain_mem s k0 rest <->
  (forall k t, In (k, t) (path_edges k0 rest) -> exists r, lookup (store s) k = Some r /\ r_ref r = Some t) /\
  (forall k t o ob, In (k, t) (path_edges k0 rest) -> lookup (cache s) k = Some o -> hget s o = Some ob ->
     r_ref (o_rec ob) = Some t).
Proof. exact chain_mem_def. Qed.

Theorem C10C_path_edges_def : forall k,
  path_edges k [] = [] /\ forall k' t, path_edges k (k' :: t) = (k, k') :: path_edges k' t.
Proof. exact path_edges_def. Qed.

Theorem C10C_chain_mem_of_wt : forall s k0 rest,
  wt_ok s -> (forall k t, In (k, t) (path_edges k0 rest) -> exists r, lookup (store s) k = Some r /\ r_ref r = Some t) ->
  chain_mem s k0 rest.
Proof. exact chain_mem_of_wt. Qed.

(* ------------------------- store level: every fault plan, cache size, tie-break *)

(* RegenerateID on the session o at the end of the chain k0 -> .. -> kn: at EVERY
   persistence-call boundary of the call the head k0 resolves, through the
   chain, to a record with the session's data and user; when the call returned
   without error the chain is k0 -> .. -> kn -> k(n+1) and the new ID resolves *)
Theorem C10C_resolves_regenerate :
  forall s o ob k0 rest s' res cks,
    cache_ok s -> nodup_ok s -> fresh_ok s -> holds s o ob ->
    chain_mem s k0 rest -> last rest k0 = o_id ob ->
    regenerate s o = (s', res, cks) ->
    let D := dat (o_rec ob) in let U := uid (o_rec ob) in let nid := KGen (supply s) in
    exists l, appended s s' l /\
      (forall n, resolves_chain (full D U) (frozen s l n) k0) /\
      (res = Ok tt -> frozen s l (length l) = store s' /\
                      spath (full D U) (store s') k0 (rest ++ [nid]) /\
                      resolves_chain (full D U) (store s') nid).
Proof. exact chain_resolves_regenerate. Qed.

(* LogIn (exclusive or not): the data at every boundary; the new user from the
   save that precedes the rotation on; data and new user under the new ID *)
Theorem C10C_resolves_login :
  forall s o ob k0 rest u ex s' res cks,
    cache_ok s -> nodup_ok s -> fresh_ok s -> holds s o ob ->
    chain_mem s k0 rest -> last rest k0 = o_id ob ->
    login s o u ex = (s', res, cks) ->
    let D := dat (o_rec ob) in let nid := KGen (supply s) in
    exists l, appended s s' l /\
      (forall n, resolves_chain (fun r => dat r = D) (frozen s l n) k0) /\
      (res = Ok tt -> frozen s l (length l) = store s' /\
                      spath (fun r => dat r = D /\ uid r = Some (fst u)) (store s') k0 (rest ++ [nid]) /\
                      resolves_chain (fun r => dat r = D /\ uid r = Some (fst u)) (store s') nid) /\
      ((exists e, res = Err e) \/
       exists l0' r0 lR, l = (l0' ++ [EvSave (o_id ob) r0 true]) ++ lR /\ uid r0 = Some (fst u) /\ dat r0 = D /\ r_ref r0 = None /\
         forall m, resolves_chain (fun r => dat r = D /\ uid r = Some (fst u))
                     (fst (fold_left apply_ev ((l0' ++ [EvSave (o_id ob) r0 true]) ++ firstn m lR) (store s, graves s))) k0).
Proof. exact chain_resolves_login. Qed.

(* ------------------------------------------------------------ history level *)

Theorem C10C_scenario : forall w r n k0 rest D U script,
  chain_crash w r n k0 rest D U script <->
  sess_inv (w_st w) /\ rq_plan r = [] /\ rq_crash r = Some n /\ rq_script r = script /\
  pres w r = CKey k0 /\ rest <> [] /\ chain_mem (w_st w) k0 rest /\ presented (w_st w) (last rest k0) D U /\
  (length rest <= N.to_nat (supply (w_st w)))%nat /\
  (forall rk, L (w_st w) k0 = Some rk -> probe_ok (conf (w_st w)) (now (w_st w)) (req_q w r) rk) /\
  0 < c_grace (conf (w_st w)) /\
  (forall d k', In (d, k') (pending (w_st w)) -> now (w_st w) < d).
Proof. exact chain_crash_meaning. Qed.

Theorem C10C_Xmiss_def : forall s t, Xmiss s t <-> lookup (store s) t = None /\ t <> KGen (supply s).
Proof. exact Xmiss_def. Qed.

(* the scenario's bound on the length of the chain is no restriction in reachable
   states: it follows from the history invariant LI (HistLift4.v; every state
   reached by a fault-free, crash-free history satisfies it, C05H) *)
Theorem C10C_fuel_of_LI : forall s k0 rest,
  LI s -> chain_mem s k0 rest -> (length rest <= N.to_nat (supply s))%nat.
Proof. exact chain_fuel_LI. Qed.

(* The world after the crash, script [RegenerateID]. l: the events of the step,
   oldest first (Start's loads and flushes, the draw, the flushes and the two
   saves of the ID change); the store is the frozen store after n persistence
   calls of them; memory and pending work are lost, clock and configuration are
   as before, the supply of IDs has not decreased.
   - the presented ID k0 resolves through the chain (possibly one hop longer: tl)
     to a record with the session's data and user - at EVERY n;
   - when n covers all calls the chain is k0 -> .. -> kn -> k(n+1), and the new
     ID holds the session record;
   - every reference of the store to a missing ID points at an ID that was
     missing before the step already (and never at the new ID);
   - whatever the store holds under the new ID is a full copy of the session
     (the orphan stage, when kn is not yet redirected), and then the supply is
     past the new ID;
   - only kn can hold a reference to the new ID. *)
Theorem C10C_crash_world : forall w r n k0 rest D U,
  chain_crash w r n k0 rest D U [SRegen] ->
  let s' := w_st (fst (step w (HReq r))) in let nid := KGen (supply (w_st w)) in
  exists l,
    l = rev (evs (req_end w r)) /\
    cache s' = [] /\ plan s' = [] /\ pending s' = [] /\ now s' = now (w_st w) /\ conf s' = conf (w_st w) /\
    (supply (w_st w) <= supply s')%N /\
    store s' = frozen (w_st w) l n /\
    (exists tl, (length tl <= 1)%nat /\ spath (full D U) (store s') k0 (rest ++ tl)) /\
    resolves_chain (full D U) (store s') k0 /\
    ((length l <= n)%nat -> spath (full D U) (store s') k0 (rest ++ [nid]) /\ spath (full D U) (store s') nid []) /\
    nodangling_rel (Xmiss (w_st w)) (store s') /\
    (forall x, lookup (store s') nid = Some x -> r_ref x = None /\ full D U x) /\
    (lookup (store s') nid <> None -> (supply (w_st w) < supply s')%N) /\
    (forall k x, lookup (store s') k = Some x -> r_ref x = Some nid -> k = last rest k0).
Proof. exact crash_store_chain. Qed.

(* C10_restart for the presented (replaced) ID: after a crash at ANY
   persistence-call boundary the next request (any script, any client or a
   forged cookie) presenting k0 is served - Start follows the whole chain and
   returns a session, not a replaced-ID record, with the data and user *)
Theorem C10C_restart_old : forall w r n k0 rest D U r2,
  chain_crash w r n k0 rest D U [SRegen] ->
  let w' := fst (step w (HReq r)) in
  rq_plan r2 = [] -> rq_crash r2 = None -> pres w' r2 = CKey k0 ->
  (forall rk, lookup (store (w_st w')) k0 = Some rk ->
     probe_ok (conf (w_st w)) (now (w_st w)) (probe_q k0 r2) rk) ->
  ob_res (snd (step w' (HReq r2))) = RSess /\
  exists id rc, ob_start (snd (step w' (HReq r2))) = Some (id, rc) /\ r_ref rc = None /\ full D U rc.
Proof. exact chain_restart_old. Qed.

(* the same after a wait of d (probe_ok at the later instant: within
   SessionExpiry and below the backstop age) *)
Theorem C10C_restart_old_later : forall w r n k0 rest D U d r2,
  chain_crash w r n k0 rest D U [SRegen] ->
  let w' := fst (step w (HReq r)) in let w2 := fst (step w' (HWait d)) in
  rq_plan r2 = [] -> rq_crash r2 = None -> pres w2 r2 = CKey k0 ->
  (forall rk, lookup (store (w_st w')) k0 = Some rk ->
     probe_ok (conf (w_st w)) (now (w_st w) + d) (probe_q k0 r2) rk) ->
  ob_res (snd (step w2 (HReq r2))) = RSess /\
  exists id rc, ob_start (snd (step w2 (HReq r2))) = Some (id, rc) /\ r_ref rc = None /\ full D U rc.
Proof. exact chain_restart_old_later. Qed.

(* ... and for the new ID k(n+1) when the process stopped after the last call *)
Theorem C10C_restart_new : forall w r n k0 rest D U r2,
  chain_crash w r n k0 rest D U [SRegen] ->
  let w' := fst (step w (HReq r)) in let nid := KGen (supply (w_st w)) in
  (length (evs (req_end w r)) <= n)%nat ->
  rq_plan r2 = [] -> rq_crash r2 = None -> pres w' r2 = CKey nid ->
  (forall rk, lookup (store (w_st w')) nid = Some rk ->
     probe_ok (conf (w_st w)) (now (w_st w)) (probe_q nid r2) rk) ->
  ob_res (snd (step w' (HReq r2))) = RSess /\
  exists id rc, ob_start (snd (step w' (HReq r2))) = Some (id, rc) /\ r_ref rc = None /\ full D U rc.
Proof. exact chain_restart_new. Qed.

Theorem C10C_restart_old_via_new : forall w r n k0 rest D U,
  chain_crash w r n k0 rest D U [SRegen] ->
  let w' := fst (step w (HReq r)) in let nid := KGen (supply (w_st w)) in
  (length (evs (req_end w r)) <= n)%nat ->
  spath (full D U) (store (w_st w')) k0 (rest ++ [nid]) /\
  (exists rr, lookup (store (w_st w')) (last rest k0) = Some rr /\ r_ref rr = Some nid).
Proof. exact chain_restart_old_via_new. Qed.

(* script [LogIn u ex]: the data at every crash point, data and user U before
   the first call, data and the new user under the new ID after the last *)
Theorem C10C_crash_world_login : forall w r n k0 rest D U u ex,
  chain_crash w r n k0 rest D U [SLogIn u ex] ->
  let s' := w_st (fst (step w (HReq r))) in let nid := KGen (supply (w_st w)) in
  exists l,
    l = rev (evs (req_end w r)) /\
    cache s' = [] /\ plan s' = [] /\ pending s' = [] /\ now s' = now (w_st w) /\ conf s' = conf (w_st w) /\
    (supply (w_st w) <= supply s')%N /\
    store s' = frozen (w_st w) l n /\
    (exists tl, (length tl <= 1)%nat /\ spath (has_dat D) (store s') k0 (rest ++ tl)) /\
    resolves_chain (has_dat D) (store s') k0 /\
    (n = 0%nat -> spath (full D U) (store s') k0 rest) /\
    ((length l <= n)%nat -> spath (has_dat_user D (fst u)) (store s') k0 (rest ++ [nid]) /\
                            spath (has_dat_user D (fst u)) (store s') nid []) /\
    nodangling_rel (Xmiss (w_st w)) (store s').
Proof. exact crash_store_chain_login. Qed.

Theorem C10C_has_dat_def : forall D u x,
  (has_dat D x <-> dat x = D) /\ (has_dat_user D u x <-> dat x = D /\ uid x = Some u).
Proof. exact has_dat_def. Qed.

Theorem C10C_restart_old_login : forall w r n k0 rest D U u ex r2,
  chain_crash w r n k0 rest D U [SLogIn u ex] ->
  let w' := fst (step w (HReq r)) in
  rq_plan r2 = [] -> rq_crash r2 = None -> pres w' r2 = CKey k0 ->
  (forall rk, lookup (store (w_st w')) k0 = Some rk ->
     probe_ok (conf (w_st w)) (now (w_st w)) (probe_q k0 r2) rk) ->
  ob_res (snd (step w' (HReq r2))) = RSess /\
  exists id rc, ob_start (snd (step w' (HReq r2))) = Some (id, rc) /\ r_ref rc = None /\ dat rc = D /\
                (n = 0%nat -> uid rc = U).
Proof. exact chain_restart_old_login. Qed.

Theorem C10C_restart_new_login : forall w r n k0 rest D U u ex r2,
  chain_crash w r n k0 rest D U [SLogIn u ex] ->
  let w' := fst (step w (HReq r)) in let nid := KGen (supply (w_st w)) in
  (length (evs (req_end w r)) <= n)%nat ->
  rq_plan r2 = [] -> rq_crash r2 = None -> pres w' r2 = CKey nid ->
  (forall rk, lookup (store (w_st w')) nid = Some rk ->
     probe_ok (conf (w_st w)) (now (w_st w)) (probe_q nid r2) rk) ->
  ob_res (snd (step w' (HReq r2))) = RSess /\
  exists id rc, ob_start (snd (step w' (HReq r2))) = Some (id, rc) /\ r_ref rc = None /\
                dat rc = D /\ uid rc = Some (fst u).
Proof. exact chain_restart_new_login. Qed.

(* The general tool: a request presenting k to a world with an empty cache (what
   a crash or restart leaves) in whose store a chain of ANY length leads from k
   to a session record satisfying F (C10H_probe allowed at most one hop). *)
Theorem C10C_probe : forall (F : rec -> Prop) w r k rest,
  (forall cf x, F x -> F (codec cf x)) ->
  (forall x t, F x -> F (set_access x t)) -> (forall x t, F x -> F (set_created x t)) ->
  (forall x a, F x -> F (set_ip x a)) -> (forall x a, F x -> F (set_ua x a)) ->
  plan (w_st w) = [] -> cache (w_st w) = [] ->
  rq_plan r = [] -> rq_crash r = None -> pres w r = CKey k ->
  spath F (store (w_st w)) k rest -> (length rest <= S (N.to_nat (supply (w_st w))))%nat ->
  (forall rk, lookup (store (w_st w)) k = Some rk ->
     probe_ok (conf (w_st w)) (now (w_st w)) (mkReq (CKey k) (rq_create r) (rq_addr r) (rq_ua r)) rk) ->
  ob_res (snd (step w (HReq r))) = RSess /\
  exists id rc, ob_start (snd (step w (HReq r))) = Some (id, rc) /\ r_ref rc = None /\ F rc.
Proof. exact probe_chain_step. Qed.

(* ------------------------------------------------------------ orphan copies *)

(* a crashing request step sends no response: no result, no cookie; every cookie
   jar is as before (any world, any request, any fault plan) *)
Theorem C10C_crash_no_response : forall w r n, rq_crash r = Some n ->
  let ob := snd (step w (HReq r)) in
  ob_res ob = RCrashed /\ ob_cookies ob = [] /\ ob_start ob = None /\ ob_final ob = None /\
  w_jars (fst (step w (HReq r))) = w_jars w.
Proof. exact crash_obs. Qed.

(* The orphan stage of the scenario: a record under the new ID while kn is still
   a session record. Both are full copies; nobody was told the new ID; the
   presented ID still resolves to the session; the orphan's ID is never
   generated again in ANY continuation (any hops, fault plans, crash points);
   no stored record refers to it, so no chain from another ID passes through
   it. *)
Theorem C10C_orphan_stage : forall w r n k0 rest D U,
  chain_crash w r n k0 rest D U [SRegen] ->
  let w' := fst (step w (HReq r)) in let nid := KGen (supply (w_st w)) in
  forall x y, lookup (store (w_st w')) nid = Some x -> lookup (store (w_st w')) (last rest k0) = Some y -> r_ref y = None ->
    (r_ref x = None /\ full D U x /\ full D U y) /\
    (ob_res (snd (step w (HReq r))) = RCrashed /\ ob_cookies (snd (step w (HReq r))) = [] /\ w_jars w' = w_jars w) /\
    resolves_chain (full D U) (store (w_st w')) k0 /\
    (forall hs, snd (gen_id (w_st (after w' hs))) <> nid) /\
    (forall k z, lookup (store (w_st w')) k = Some z -> r_ref z <> Some nid) /\
    (forall (F : rec -> Prop) k rest', spath F (store (w_st w')) k rest' -> ~ In nid rest').
Proof. exact orphan_stage. Qed.

(* the supply of IDs never decreases: every step of every history *)
Theorem C10C_supply_mono_step : forall w h, (supply (w_st w) <= supply (w_st (fst (step w h))))%N.
Proof. exact step_supply_mono. Qed.

Theorem C10C_supply_mono : forall hs w, (supply (w_st w) <= supply (w_st (after w hs)))%N.
Proof. exact after_supply_mono. Qed.

Theorem C10C_never_generated_again : forall w m hs,
  (m < supply (w_st w))%N -> snd (gen_id (w_st (after w hs))) <> KGen m.
Proof. exact never_generated_again. Qed.

(* "A later Destroy of the session removes the orphan copy" is FALSE: *)
Theorem C10C_destroy_removes_orphan_def :
  destroy_removes_orphan_statement <->
  forall w r n k0 rest D U rd,
    chain_crash w r n k0 rest D U [SRegen] ->
    let w' := fst (step w (HReq r)) in
    rq_plan rd = [] -> rq_crash rd = None -> pres w' rd = CKey k0 -> rq_script rd = [SDestroy] ->
    ob_res (snd (step w' (HReq rd))) = RSess ->
    lookup (store (w_st (fst (step w' (HReq rd))))) (KGen (supply (w_st w))) = None.
Proof. exact destroy_removes_orphan_def. Qed.

Theorem C10C_destroy_removes_orphan_refuted : ~ destroy_removes_orphan_statement.
Proof. exact orphan_survives_destroy. Qed.

(* ---- "nobody who follows cookies ever presents the orphan's ID" ----

   Where the IDs in Set-Cookie headers come from, for EVERY state and fault plan:
   a handler operation only announces IDs drawn during the operation ... *)
Theorem C10C_handler_cookies_fresh : forall s o hc op s' r cks,
  do_sop s o hc op = (s', r, cks) -> forall k, In (CkLive k) cks -> exists j, k = KGen j /\ (supply s <= j)%N.
Proof. exact do_sop_cookies_fresh. Qed.

(* ... and Start - whose other live cookies announce IDs it drew - redirects only
   to the target of a replaced-ID record it read: in a state whose cached
   objects and stored records hold no reference to v, an ID below the supply,
   a request that does not present v is not answered with a cookie for v *)
Theorem C10C_start_never_names : forall v s q s' res cks m,
  v = KGen m -> (m < supply s)%N -> J (fun _ x => r_ref x <> Some v) s -> q_cookie q <> CKey v ->
  start s q = (s', res, cks) -> ~ In (CkLive v) cks.
Proof. exact start_never_names. Qed.

Theorem C10C_no_forge_def : forall v h,
  no_forge v h <-> match h with HReq r => rq_present r <> PForge (CKey v) | _ => True end.
Proof. exact no_forge_def. Qed.

Theorem C10C_untouched_def : forall v w h,
  untouched v w h <->
  (forall r, h = HReq r -> pres w r <> CKey v) /\ ~ In (CkLive v) (ob_cookies (snd (step w h))).
Proof. exact untouched_def. Qed.

(* The invariant: the ID KGen m is below the supply, no cached object and no
   stored record refers to it, no cookie jar holds it. *)
Theorem C10C_OI_def : forall m w,
  OI m w <->
  (m < supply (w_st w))%N /\
  ((forall k o, In (k, o) (cache (w_st w)) -> (o < length (heap (w_st w)))%nat) /\
   (forall k o ob, In (k, o) (cache (w_st w)) -> hget (w_st w) o = Some ob -> r_ref (o_rec ob) <> Some (KGen m)) /\
   (forall k r, lookup (store (w_st w)) k = Some r -> r_ref r <> Some (KGen m))) /\
  forall c, jar_of (w_jars w) c <> CKey (KGen m).
Proof. exact OI_def. Qed.

(* EVERY step of every history - any hop, fault plan, crash point, handler
   script - that does not forge the value keeps the invariant, and in it the ID
   is neither presented nor announced *)
Theorem C10C_OI_step : forall m w h,
  OI m w -> no_forge (KGen m) h -> OI m (fst (step w h)) /\ untouched (KGen m) w h.
Proof. exact OI_step. Qed.

Theorem C10C_OI_history : forall m hs w, OI m w -> Forall (no_forge (KGen m)) hs ->
  OI m (after w hs) /\ forall hs1 h hs2, hs = hs1 ++ h :: hs2 -> untouched (KGen m) (after w hs1) h.
Proof. exact OI_history. Qed.

(* The claim: at the orphan stage of the scenario (a record under the new ID, kn
   not yet redirected), no jar holding the not yet drawn ID beforehand: in
   every continuation whose requests do not forge the orphan's ID - any hops,
   fault plans, crash points, scripts - no request ever presents the orphan's ID
   and no response ever carries it. *)
Theorem C10C_orphan_never_presented :
  forall w r n k0 rest D U hs,
    chain_crash w r n k0 rest D U [SRegen] ->
    let w' := fst (step w (HReq r)) in let nid := KGen (supply (w_st w)) in
    (forall c, jar_of (w_jars w) c <> CKey nid) ->
    lookup (store (w_st w')) nid <> None ->
    (exists y, lookup (store (w_st w')) (last rest k0) = Some y /\ r_ref y = None) ->
    Forall (no_forge nid) hs ->
    forall hs1 h hs2, hs = hs1 ++ h :: hs2 -> untouched nid (after w' hs1) h.
Proof. exact orphan_never_presented. Qed.

(* ---- the same when the client presented the session's CURRENT ID ----
   Scenario regen_crash of C10H.v (a cached, acceptable session, not due; script
   [RegenerateID]). The world after the crash with the orphan facts ... *)
Theorem C10C_crash_world_current : forall w r n k o ob,
  regen_crash w r n k o ob ->
  let D := dat (o_rec ob) in let U := uid (o_rec ob) in
  let s' := w_st (fst (step w (HReq r))) in let nid := KGen (supply (w_st w)) in
  exists l,
    l = rev (evs (req_end w r)) /\
    cache s' = [] /\ plan s' = [] /\ pending s' = [] /\ now s' = now (w_st w) /\ conf s' = conf (w_st w) /\
    (supply (w_st w) <= supply s')%N /\
    store s' = frozen (w_st w) l n /\
    resolves_chain (full D U) (store s') k /\
    ((length l <= n)%nat -> spath (full D U) (store s') k [nid] /\ spath (full D U) (store s') nid []) /\
    nodangling_rel (Xmiss (w_st w)) (store s') /\
    (forall x, lookup (store s') nid = Some x -> r_ref x = None /\ full D U x) /\
    (lookup (store s') nid <> None -> (supply (w_st w) < supply s')%N) /\
    (forall k' x, lookup (store s') k' = Some x -> r_ref x = Some nid -> k' = k).
Proof. exact crash_store_current. Qed.

(* ... and at its orphan stage: two full copies, nothing delivered, the orphan's
   ID never generated again, and in every continuation that does not forge it
   nobody presents it and no response carries it *)
Theorem C10C_orphan_never_presented_current : forall w r n k o ob hs,
  regen_crash w r n k o ob ->
  let w' := fst (step w (HReq r)) in let nid := KGen (supply (w_st w)) in
  (forall c, jar_of (w_jars w) c <> CKey nid) ->
  lookup (store (w_st w')) nid <> None ->
  (exists y, lookup (store (w_st w')) k = Some y /\ r_ref y = None) ->
  Forall (no_forge nid) hs ->
  (exists x y, lookup (store (w_st w')) nid = Some x /\ lookup (store (w_st w')) k = Some y /\
               r_ref x = None /\ r_ref y = None /\ dat x = dat (o_rec ob) /\ uid x = uid (o_rec ob)) /\
  ob_cookies (snd (step w (HReq r))) = [] /\ w_jars w' = w_jars w /\
  (forall hs', snd (gen_id (w_st (after w' hs'))) <> nid) /\
  forall hs1 h hs2, hs = hs1 ++ h :: hs2 -> untouched nid (after w' hs1) h.
Proof. exact orphan_never_presented_current. Qed.

(* ------------------------------------------------------------- non-vacuity *)

(* chain 0 -> 1 -> 2 (n = 2), cache size 2, the oldest ID presented; any script,
   any crash point *)
Theorem C10C_ex_scenario : forall sc n,
  chain_crash wC (r1C sc n) n (KGen 0) [KGen 1; KGen 2] [(1%N, 2%N)] (Some 5%N) sc.
Proof. exact chain_crash_ex. Qed.

Theorem C10C_ex_calls :
  length (evs (req_end wC (r1C [SRegen] 0))) = 8%nat /\ supply (w_st wC) = 3%N.
Proof. exact chain_calls_ex. Qed.

Theorem C10C_ex_probe_ok :
  Forall (fun n => forall rk, lookup (store (w_st (fst (step wC (HReq (r1C [SRegen] n)))))) (KGen 0) = Some rk ->
                   probe_ok (conf (w_st wC)) (now (w_st wC)) (probe_q (KGen 0) (probeC (KGen 0))) rk)
         [0; 1; 2; 3; 4; 5; 6; 7; 8]%nat.
Proof. exact chain_probe_ok_ex. Qed.

Theorem C10C_ex_new :
  let w' := fst (step wC (HReq (r1C [SRegen] 8))) in
  ob_res (snd (step w' (HReq (probeC (KGen 3))))) = RSess /\
  option_map (fun x => (fst x, dat (snd x), uid (snd x))) (ob_start (snd (step w' (HReq (probeC (KGen 3)))))) =
    Some (KGen 3, [(1%N, 2%N)], Some 5%N).
Proof. exact chain_new_ex. Qed.

(* the orphan stage is reached (n = 6) ... *)
Theorem C10C_ex_orphan :
  exists x y, lookup (store (w_st wO)) (KGen 3) = Some x /\ lookup (store (w_st wO)) (KGen 2) = Some y /\ r_ref y = None /\
              r_ref x = None /\ dat x = [(1%N, 2%N)] /\ uid x = Some 5%N /\ dat y = [(1%N, 2%N)] /\ uid y = Some 5%N /\
              supply (w_st wO) = 4%N /\ w_jars wO = w_jars wC.
Proof. exact orphan_hyps_ex. Qed.

(* ... and after the Destroy the copy under ID 3 is still there and is served to
   whoever presents ID 3 (which no response ever carried) *)
Theorem C10C_ex_orphan_after_destroy :
  let w2 := fst (step wO (HReq rdC)) in
  ob_res (snd (step wO (HReq rdC))) = RSess /\ ob_script (snd (step wO (HReq rdC))) = [SOk] /\
  map (fun kr => (fst kr, r_ref (snd kr))) (store (w_st w2)) =
    [(KGen 0, Some (KGen 1)); (KGen 1, Some (KGen 2)); (KGen 3, None)] /\
  ob_res (snd (step w2 (HReq (probeC (KGen 0))))) = RErr ERefMissing /\
  ob_res (snd (step w2 (HReq (probeC (KGen 3))))) = RSess /\
  option_map (fun x => (fst x, dat (snd x), uid (snd x))) (ob_start (snd (step w2 (HReq (probeC (KGen 3)))))) =
    Some (KGen 3, [(1%N, 2%N)], Some 5%N).
Proof. exact orphan_after_destroy_ex. Qed.

Theorem C10C_ex_orphan_claim_hyps :
  (forall c, jar_of (w_jars wC) c <> CKey (KGen (supply (w_st wC)))) /\
  lookup (store (w_st (fst (step wC (HReq (r1C [SRegen] 6)))))) (KGen (supply (w_st wC))) <> None /\
  (exists y, lookup (store (w_st (fst (step wC (HReq (r1C [SRegen] 6)))))) (last [KGen 1; KGen 2] (KGen 0)) = Some y /\ r_ref y = None).
Proof. exact orphan_claim_hyps_ex. Qed.

Theorem C10C_ex_orphan_current_hyps :
  regen_crash wG (r1G 2) 2 (KGen 1) 0 obG /\
  (forall c, jar_of (w_jars wG) c <> CKey (KGen (supply (w_st wG)))) /\
  lookup (store (w_st (fst (step wG (HReq (r1G 2)))))) (KGen (supply (w_st wG))) <> None /\
  (exists y, lookup (store (w_st (fst (step wG (HReq (r1G 2)))))) (KGen 1) = Some y /\ r_ref y = None).
Proof. exact orphan_current_hyps_ex. Qed.

(* the hypotheses of the store-level theorems hold in a reachable state *)
Theorem C10C_ex_store_hyps :
  cache_ok (w_st wS) /\ nodup_ok (w_st wS) /\ fresh_ok (w_st wS) /\ holds (w_st wS) 0 obS /\
  chain_mem (w_st wS) (KGen 0) [KGen 1; KGen 2] /\ last [KGen 1; KGen 2] (KGen 0) = o_id obS /\
  dat (o_rec obS) = [(1%N, 2%N)] /\ uid (o_rec obS) = Some 5%N.
Proof. exact chain_store_hyps_ex. Qed.

Theorem C10C_ex_login_calls : length (evs (req_end wC (r1C [SLogIn (6%N, 1%N) false] 0))) = 10%nat.
Proof. exact chain_login_calls_ex. Qed.

Theorem C10C_ex_login_new :
  let w' := fst (step wC (HReq (r1C [SLogIn (6%N, 1%N) false] 9))) in
  ob_res (snd (step w' (HReq (probeC (KGen 3))))) = RSess /\
  option_map (fun x => (fst x, dat (snd x), uid (snd x))) (ob_start (snd (step w' (HReq (probeC (KGen 3)))))) =
    Some (KGen 3, [(1%N, 2%N)], Some 6%N).
Proof. exact chain_login_new_ex. Qed.

Print Assumptions C10C_resolves_chain_def.
Print Assumptions C10C_spath_def.
Print Assumptions C10C_resolves_chain_meaning.
Print Assumptions C10C_spath_length.
Print Assumptions C10C_resolves_to_chain.
Print Assumptions C10C_chain_mem_def.
Print Assumptions C10C_path_edges_def.
Print Assumptions C10C_chain_mem_of_wt.
Print Assumptions C10C_resolves_regenerate.
Print Assumptions C10C_resolves_login.
Print Assumptions C10C_scenario.
Print Assumptions C10C_Xmiss_def.
Print Assumptions C10C_fuel_of_LI.
Print Assumptions C10C_crash_world.
Print Assumptions C10C_restart_old.
Print Assumptions C10C_restart_old_later.
Print Assumptions C10C_restart_new.
Print Assumptions C10C_restart_old_via_new.
Print Assumptions C10C_crash_world_login.
Print Assumptions C10C_has_dat_def.
Print Assumptions C10C_restart_old_login.
Print Assumptions C10C_restart_new_login.
Print Assumptions C10C_probe.
Print Assumptions C10C_crash_no_response.
Print Assumptions C10C_orphan_stage.
Print Assumptions C10C_supply_mono_step.
Print Assumptions C10C_supply_mono.
Print Assumptions C10C_never_generated_again.
Print Assumptions C10C_destroy_removes_orphan_def.
Print Assumptions C10C_destroy_removes_orphan_refuted.
Print Assumptions C10C_handler_cookies_fresh.
Print Assumptions C10C_start_never_names.
Print Assumptions C10C_no_forge_def.
Print Assumptions C10C_untouched_def.
Print Assumptions C10C_OI_def.
Print Assumptions C10C_OI_step.
Print Assumptions C10C_OI_history.
Print Assumptions C10C_orphan_never_presented.
Print Assumptions C10C_crash_world_current.
Print Assumptions C10C_orphan_never_presented_current.
Print Assumptions C10C_ex_scenario.
Print Assumptions C10C_ex_calls.
Print Assumptions C10C_ex_probe_ok.
Print Assumptions C10C_ex_new.
Print Assumptions C10C_ex_orphan.
Print Assumptions C10C_ex_orphan_after_destroy.
Print Assumptions C10C_ex_orphan_claim_hyps.
Print Assumptions C10C_ex_orphan_current_hyps.
Print Assumptions C10C_ex_store_hyps.
Print Assumptions C10C_ex_login_calls.
Print Assumptions C10C_ex_login_new.
