(* C06 (and C01) — the remote address as a *string*: the pattern
     ^(\d+).(\d+).(\d+).(\d+):\d+$
   of Start inside the model (Model/AddrRe.v: submatch = Go's
   FindStringSubmatch for this pattern, ip_ok_str = the decision Start takes
   from the captured strings). Statements only; proofs in Proofs/AddrRe.v,
   AddrRe2.v, AddrRe3.v, examples in Proofs/AddrReEx.v. *)
From Coq Require Import String.
From Sessions Require Import Model.Base Model.Codec Model.Sess Model.Hist Model.AddrRe
  Gen.AddrRe Proofs.AddrRePinned
  Proofs.SessDefs Proofs.StartLaws Proofs.StartLaws2 Proofs.StartLaws3 Proofs.AddrRe Proofs.AddrRe2 Proofs.AddrRe3 Proofs.AddrRe4 Proofs.AddrReEx.
Local Open Scope N_scope.

(* ---- tie to the source ---- *)

(* The pattern literal of the package's only regexp.MustCompile, the three
   guards around its use (`valid && AcceptRemoteIP > 1`, `len(previousIP) == 5
   && len(currentIP) == 5 && AcceptRemoteIP <= 4`, the loop `for i := 1; i <
   AcceptRemoteIP; i++ {...}`) and every statement touching the compiled
   pattern, regenerated from session.go on every run, are the ones
   Model/AddrRe.v was written against. The pattern literal and the statements
   touching it are pinned as text; the two guards and the loop are listed as
   "<translated: gen_ip_ok / gen_ip_loop (Gen/PureFnIP.v)>" when the translator
   translated these very AST nodes: what they mean is then proved on every run
   (Properties/C06P.v: C06P_ip_block), and only their presence and place are
   pinned here. If the translation fails their source text is listed and this
   pin fails. *)
Theorem addr_pattern_pinned :
  addr_pattern = addr_pattern_v1 /\ addr_guards = addr_guards_v1 /\ addr_uses = addr_uses_v1.
Proof. repeat split; reflexivity. Qed.

(* ---- vocabulary, unfolded ---- *)

(* digs g: a non-empty string of ASCII digits *)
Theorem C06A_digs : forall g, digs g <-> g <> [] /\ forallb is_digit g = true.
Proof. intro g. reflexivity. Qed.

(* sep x rest: x is what an unescaped dot consumes in front of rest — one
   UTF-8 rune (1..4 bytes; a byte that begins no well-formed encoding counts as
   a rune of its own) that is not the newline *)
Theorem C06A_sep : forall x rest,
  sep x rest <-> x <> [] /\ hd 0 x <> 10 /\ length x = rune_width (x ++ rest).
Proof. intros x rest. reflexivity. Qed.

(* in front of an ASCII byte (in particular a digit), and for an ASCII byte,
   that is exactly one byte *)
Theorem C06A_sep_single : forall c t,
  c <> 10 -> (c < 128 \/ match t with d :: _ => d < 128 | [] => True end) -> dot (c :: t) = Some t.
Proof. exact dot_single. Qed.

Theorem C06A_shape : forall s g1 x1 g2 x2 g3 x3 g4 ds,
  shape s g1 x1 g2 x2 g3 x3 g4 ds <->
  s = g1 ++ x1 ++ g2 ++ x2 ++ g3 ++ x3 ++ g4 ++ 58 :: ds /\
  (digs g1 /\ digs g2 /\ digs g3 /\ digs g4 /\ digs ds) /\
  sep x1 (g2 ++ x2 ++ g3 ++ x3 ++ g4 ++ 58 :: ds) /\
  sep x2 (g3 ++ x3 ++ g4 ++ 58 :: ds) /\
  sep x3 (g4 ++ 58 :: ds).
Proof. intros. reflexivity. Qed.

(* the leftmost-greedy choice: every decomposition of s has group lengths that
   come no earlier in the order a backtracking matcher tries them (first group
   as long as possible, then the second, ...) *)
Theorem C06A_greedy_choice : forall s g1 g2 g3 g4,
  greedy_choice s g1 g2 g3 g4 <->
  forall g1' x1' g2' x2' g3' x3' g4' ds',
    shape s g1' x1' g2' x2' g3' x3' g4' ds' ->
    let l := (length g1, length g2, length g3, length g4) in
    let l' := (length g1', length g2', length g3', length g4') in
    (length g1' < length g1)%nat \/ length g1' = length g1 /\
    ((length g2' < length g2)%nat \/ length g2' = length g2 /\
     ((length g3' < length g3)%nat \/ length g3' = length g3 /\
      ((length g4' < length g4)%nat \/ length g4' = length g4 /\ True))).
Proof. intros. reflexivity. Qed.

(* ---- (1) characterisation of FindStringSubmatch for this pattern ---- *)

Theorem C06A_submatch_some : forall s g1 g2 g3 g4,
  submatch s = Some (g1, g2, g3, g4) <->
  (exists x1 x2 x3 ds, shape s g1 x1 g2 x2 g3 x3 g4 ds) /\ greedy_choice s g1 g2 g3 g4.
Proof. exact submatch_some. Qed.

Theorem C06A_submatch_none : forall s,
  submatch s = None <-> forall g1 x1 g2 x2 g3 x3 g4 ds, ~ shape s g1 x1 g2 x2 g3 x3 g4 ds.
Proof. exact submatch_none. Qed.

(* anchors: a matching string begins with a digit and ends with one *)
Theorem C06A_anchored : forall s m,
  submatch s = Some m ->
  (exists d t, s = d :: t /\ is_digit d = true) /\ (exists s0 d, s = s0 ++ [d] /\ is_digit d = true).
Proof. exact submatch_anchored. Qed.

(* digits c1 digits c2 digits c3 digits ":" digits with single non-digit,
   non-newline bytes c (the net/http shape has c = "."): the groups are the four
   digit strings as written — no backtracking, whatever the separators are *)
Theorem C06A_plain_match : forall g1 g2 g3 g4 ds c1 c2 c3,
  digs g1 -> digs g2 -> digs g3 -> digs g4 -> digs ds ->
  is_digit c1 = false -> is_digit c2 = false -> is_digit c3 = false ->
  c1 <> 10 -> c2 <> 10 -> c3 <> 10 ->
  submatch (g1 ++ c1 :: g2 ++ c2 :: g3 ++ c3 :: g4 ++ 58 :: ds) = Some (g1, g2, g3, g4).
Proof. exact submatch_plain. Qed.

(* ... and that is the only decomposition of such a string along the pattern:
   the separators are those bytes *)
Theorem C06A_plain_unique : forall g1 g2 g3 g4 ds c1 c2 c3,
  digs g1 -> digs g2 -> digs g3 -> digs g4 -> digs ds ->
  is_digit c1 = false -> is_digit c2 = false -> is_digit c3 = false ->
  forall g1' x1' g2' x2' g3' x3' g4' ds',
    shape (g1 ++ c1 :: g2 ++ c2 :: g3 ++ c3 :: g4 ++ 58 :: ds) g1' x1' g2' x2' g3' x3' g4' ds' ->
    g1' = g1 /\ x1' = [c1] /\ g2' = g2 /\ x2' = [c2] /\ g3' = g3 /\ x3' = [c3] /\ g4' = g4 /\ ds' = ds.
Proof. exact plain_unique. Qed.

(* ---- (2) refinement: Sess.ip_ok is the string-level decision on printed addresses ---- *)

Theorem C06A_render_v4 : forall a b c d p,
  render (V4 a b c d p) = dec a ++ 46 :: dec b ++ 46 :: dec c ++ 46 :: dec d ++ 58 :: dec p /\
  submatch (render (V4 a b c d p)) = Some (dec a, dec b, dec c, dec d).
Proof. intros. split; [reflexivity | apply submatch_render_v4]. Qed.

Theorem C06A_render_other : forall n, submatch (render (AOther n)) = None.
Proof. exact submatch_render_other. Qed.

(* decimal without leading zeros: non-empty, digits only, injective *)
Theorem C06A_dec : forall a b, digs (dec a) /\ (dec a = dec b -> a = b).
Proof. intros a b. split; [apply digs_dec | apply dec_inj]. Qed.

Theorem C06A_render_inj : forall x y, render x = render y -> x = y.
Proof. exact render_inj. Qed.

Theorem C06A_refines : forall n a b, ip_ok_str n (render a) (render b) = ip_ok n a b.
Proof. exact ip_ok_str_render. Qed.

(* the same for any way of writing the non-IPv4 addresses that the pattern does
   not match (the harness writes AOther 0 as "" and AOther n as "[2001:db8::n]:port") *)
Theorem C06A_refines_any : forall rd : addr -> bytes,
  (forall a b c d p, rd (V4 a b c d p) = render (V4 a b c d p)) ->
  (forall x, submatch (rd (AOther x)) = None) ->
  forall n a b, ip_ok_str n (rd a) (rd b) = ip_ok n a b.
Proof. exact ip_ok_str_any_render. Qed.

(* hence e.g. C06_destroy with the decision taken on the strings *)
Theorem C06A_destroy_str :
  forall s q k r,
    plan s = [] -> cache_ok s -> nodup_ok s -> fresh_ok s ->
    q_cookie q = CKey k -> L s k = Some r ->
    ip_ok_str (c_acceptip (conf s)) (render (r_ip r)) (render (q_addr q)) = false ->
    exists s' res nck,
      start s q = (s', res, CkDelete :: nck) /\
      no_session s q s' res nck /\
      lookup (cache s') k = None /\ lookup (store s') k = None /\
      (forall k', k' <> k -> k' <> KGen (supply s) -> Lc s' k' = Lc s k') /\
      (store_norm s -> store_norm s') /\
      ok s' /\ conf s' = conf s.
Proof. exact anomaly_destroys_str. Qed.

(* ---- (3) C06's clause on strings ---- *)

(* n in 2..4, both strings match: kept iff the first n-1 captured *strings* agree *)
Theorem C06A_ip_str : forall n s s' g1 g2 g3 g4 h1 h2 h3 h4,
  (2 <= n <= 4)%Z ->
  submatch s = Some (g1, g2, g3, g4) -> submatch s' = Some (h1, h2, h3, h4) ->
  (ip_ok_str n s s' = true <->
   firstn (Z.to_nat (n - 1)) [g1; g2; g3; g4] = firstn (Z.to_nat (n - 1)) [h1; h2; h3; h4]).
Proof. exact ip_ok_str_firstn. Qed.

Theorem C06A_ip_str_octets : forall n s s' g1 g2 g3 g4 h1 h2 h3 h4,
  (2 <= n <= 4)%Z ->
  submatch s = Some (g1, g2, g3, g4) -> submatch s' = Some (h1, h2, h3, h4) ->
  (ip_ok_str n s s' = true <->
   (2 <= n -> g1 = h1)%Z /\ (3 <= n -> g2 = h2)%Z /\ (4 <= n -> g3 = h3)%Z).
Proof. exact ip_ok_str_groups. Qed.

(* two dotted-quad:port strings *)
Theorem C06A_plain : forall s g1 g2 g3 g4,
  plain s g1 g2 g3 g4 <->
  exists c1 c2 c3 ds,
    s = g1 ++ c1 :: g2 ++ c2 :: g3 ++ c3 :: g4 ++ 58 :: ds /\
    (digs g1 /\ digs g2 /\ digs g3 /\ digs g4 /\ digs ds) /\
    (is_digit c1 = false /\ is_digit c2 = false /\ is_digit c3 = false) /\
    (c1 <> 10 /\ c2 <> 10 /\ c3 <> 10).
Proof. intros. reflexivity. Qed.

Theorem C06A_ip_plain : forall n s s' g1 g2 g3 g4 h1 h2 h3 h4,
  (2 <= n <= 4)%Z -> plain s g1 g2 g3 g4 -> plain s' h1 h2 h3 h4 ->
  (ip_ok_str n s s' = true <->
   firstn (Z.to_nat (n - 1)) [g1; g2; g3; g4] = firstn (Z.to_nat (n - 1)) [h1; h2; h3; h4]).
Proof. exact ip_ok_str_plain. Qed.

(* the last octet and the port are never compared *)
Theorem C06A_ip_last_free : forall n s s' g1 g2 g3 g4 h4,
  plain s g1 g2 g3 g4 -> plain s' g1 g2 g3 h4 -> ip_ok_str n s s' = true.
Proof. exact ip_ok_str_last_free. Qed.

(* n = 1 (or less), n > 4, either string not matching: kept *)
Theorem C06A_ip_off : forall n s s', (n <= 1)%Z -> ip_ok_str n s s' = true.
Proof. exact ip_ok_str_off. Qed.

Theorem C06A_ip_ge5 : forall n s s', (5 <= n)%Z -> ip_ok_str n s s' = true.
Proof. exact ip_ok_str_ge5. Qed.

Theorem C06A_ip_nomatch_l : forall n s s', submatch s = None -> ip_ok_str n s s' = true.
Proof. exact ip_ok_str_nomatch_l. Qed.

Theorem C06A_ip_nomatch_r : forall n s s', submatch s' = None -> ip_ok_str n s s' = true.
Proof. exact ip_ok_str_nomatch_r. Qed.

(* a string that is empty or does not begin with a digit ("[::1]:80"), or does
   not end with one, does not match *)
Theorem C06A_nodigit_head : forall s,
  match s with [] => True | c :: _ => is_digit c = false end -> submatch s = None.
Proof. exact submatch_nodigit_head. Qed.

Theorem C06A_nodigit_last : forall s0 c, is_digit c = false -> submatch (s0 ++ [c]) = None.
Proof. exact submatch_nodigit_last. Qed.

(* ---- (4) the oddities, as witnesses (b "..." is the ASCII string as bytes) ---- *)

(* leading zeros: the captured strings are compared, not the numbers *)
Theorem C06A_leading_zero :
  submatch (b "010.0.0.1:1") = Some (b "010", b "0", b "0", b "1") /\
  ip_ok_str 2 (b "10.0.0.1:1") (b "010.0.0.1:1") = false /\
  ip_ok_str 2 (b "10.0.0.1:1") (b "10.0.0.1:1") = true.
Proof. exact ex_leading_zero. Qed.

(* the dots are not escaped *)
Theorem C06A_unescaped_dot :
  submatch (b "1x2y3z4:5") = Some (b "1", b "2", b "3", b "4").
Proof. exact ex_unescaped_dot. Qed.

(* greedy groups give digits back when the separators are digits *)
Theorem C06A_backtracking :
  submatch (b "1234567:8") = Some (b "1", b "3", b "5", b "7") /\
  submatch (b "12345678:9") = Some (b "12", b "4", b "6", b "8").
Proof. exact (conj ex_backtrack_7 ex_backtrack_8). Qed.

(* a dot is one rune (here C3 A9), and an invalid byte is one; not the newline *)
Theorem C06A_runes :
  submatch ([49; 195; 169] ++ b "2.3.4:5") = Some (b "1", b "2", b "3", b "4") /\
  submatch ([49; 255] ++ b "2.3.4:5") = Some (b "1", b "2", b "3", b "4") /\
  submatch ([49; 10] ++ b "2.3.4:5") = None /\
  submatch (b "1.2.3.4:5" ++ [10]) = None.
Proof. exact (conj ex_rune (conj ex_invalid_byte (conj ex_newline_sep ex_newline_end))). Qed.

(* anchors: an IPv4-mapped IPv6 peer does not match - "an IPv6 peer keeps it" *)
Theorem C06A_mapped_v6 :
  submatch (b "[::ffff:1.2.3.4]:80") = None /\
  forall n s, ip_ok_str n s (b "[::ffff:1.2.3.4]:80") = true /\
              ip_ok_str n (b "[::1]:80") s = true /\ ip_ok_str n [] s = true.
Proof. exact (conj ex_mapped_v6 ex_v6_keeps). Qed.

Print Assumptions addr_pattern_pinned.
Print Assumptions C06A_digs.
Print Assumptions C06A_sep.
Print Assumptions C06A_sep_single.
Print Assumptions C06A_shape.
Print Assumptions C06A_greedy_choice.
Print Assumptions C06A_submatch_some.
Print Assumptions C06A_submatch_none.
Print Assumptions C06A_anchored.
Print Assumptions C06A_plain_match.
Print Assumptions C06A_plain_unique.
Print Assumptions C06A_render_v4.
Print Assumptions C06A_render_other.
Print Assumptions C06A_dec.
Print Assumptions C06A_render_inj.
Print Assumptions C06A_refines.
Print Assumptions C06A_refines_any.
Print Assumptions C06A_destroy_str.
Print Assumptions C06A_ip_str.
Print Assumptions C06A_ip_str_octets.
Print Assumptions C06A_plain.
Print Assumptions C06A_ip_plain.
Print Assumptions C06A_ip_last_free.
Print Assumptions C06A_ip_off.
Print Assumptions C06A_ip_ge5.
Print Assumptions C06A_ip_nomatch_l.
Print Assumptions C06A_ip_nomatch_r.
Print Assumptions C06A_nodigit_head.
Print Assumptions C06A_nodigit_last.
Print Assumptions C06A_leading_zero.
Print Assumptions C06A_unescaped_dot.
Print Assumptions C06A_backtracking.
Print Assumptions C06A_runes.
Print Assumptions C06A_mapped_v6.
