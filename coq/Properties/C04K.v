(* C04, the concurrency clause for K GOROUTINES (not K serial calls): the step
   that Properties/C04C.v leaves to prose - "the lock positions of
   Properties/Shape.v plus mutual exclusion of Properties/C13.v make the K
   critical sections take place one after the other in some order" - as
   theorems about a composed system. Statements only; the model is
   Model/StartConc.v, the proofs are in Proofs/StartConc.v .. StartConc5.v and
   Proofs/StartConcEx.v.

   THE COMPOSED SYSTEM (Model/StartConc.v). State: the lock table, manager and
   goroutine control of Model/Mutex.v (c_lock) + the session state and cookie
   jars of Model/Hist.v (c_st, c_jars) + per goroutine a session-side phase
   (c_ph) + a ghost log of completed world actions (c_acts, newest first).
   K = length reqs goroutines; goroutine g runs the lock script [OLock kk] and
   carries the request step reqs[g]. Labels:
     CL l      a step of the lock protocol (Mutex.step); LLeave g - the
               deferred Unlock - only once g's Start has returned (PDone)
     CLook g   Start's look-up (its first access to the session table), on the
               shared state; in the locked system only once g's own Lock of
               the presented cookie's key has returned (g in GHold of
               lock_key of that cookie); the result is kept in g's phase
     CRest g   the rest of Start and of the request step, computed from g's
               LOCAL look-up result on the shared state AS IT IS THEN
     CTick d   the clock advances by d; only while no goroutine is between
               look-up and rest (a request reads the clock once, as Hist.step)
   So Start is NOT atomic in this system: "goroutines 0 and 1 both between
   look-up and rest" is a state, and CLook 0; CLook 1; CRest 0; CRest 1 is a
   schedule - which the unlocked system runs, drawing two IDs
   (C04K_unlocked_refuted), and which the locked system runs too if C13's
   proviso is dropped (C04K_inadmissible_refuted). Nothing in `cstep` compares
   two goroutines; what excludes the overlap is C13's invariant.

   `serial reqs w acts` is the reference: Hist.step folded over the logged
   world actions in the order in which they were completed - a request step
   HReq reqs[g] per AReq g, a wait HWait d per ATick d - returning the world
   and each request's observation (C04K_serial_meaning).

   SCOPE: PLAIN CALLS OF START ON ONE ID. Two things are placed inside the
   critical section in this model that are not inside it in Go: `req_finish`
   (Hist.step's epilogue) fires the due clean-ups and runs the HANDLER SCRIPT
   within CRest g, and LLeave g waits for it - while in Go the deferred Unlock
   fires when Start returns, before the handler runs (session.go:82-83), and
   the clean-up goroutine is not under this lock. For a request with a
   non-empty handler script the system would claim a serialisation the code
   does not give. Therefore every initial state (CI0, through its part PC)
   requires `Forall (plain_on kk) reqs`: every request has an EMPTY handler
   script and carries one and the same ID k as a forged cookie, and the lock key
   kk IS the code of that ID (kk = key_code k: C04K_plain_on_meaning,
   C04K_initial_requests, C04K_initial_key_tied). In Go the lock key is the
   cookie value and a value that is not an ID takes no lock; here CLook g is
   guarded by g holding `lock_key` of the cookie ITS request presents (None: no
   lock needed; C04K_lock_key_meaning) - the key is not a free parameter of
   `cstep`. C04K_serial_order, C04K_invariant, C04K_progress and the two
   C04K_one_new_id theorems are thus claims about K plain calls of Start on one
   ID, nothing else; handlers run after the lock is released and are not
   serialised by it (C08's subject).

   THE CACHE AND THE SINGLE CUT. The unlocked refutation has the cache switched
   off. With the cache on, both look-ups return the same heap object, and
   Start's age test - part of the rest - already sees the rotated creation time:
   one ID is drawn and the second goroutine gets the session WITHOUT a
   redirecting cookie (unlocked_cache_reports_ex). The double mint with the
   cache on needs a cut between the age test and RegenerateID; the single cut at
   the look-up is too coarse to show it. The locked theorems do not depend on
   the cache size; locked_cache_ex is an instance with a cache of 10.

   What is assumed, not proved: that Start's accesses to the session table lie
   between Lock and the deferred Unlock (pinned per run by Properties/Shape.v:
   start_lock_precedes_get, lock_events_pinned), that the lock manager is the
   one of Model/Mutex.v (C13_source_pinned), C13/C14's provisos (cadm_run),
   and that a request reads the clock once. The K requests all present the
   same ID; requests presenting other IDs are not serialised by this lock. *)
From Sessions Require Import Model.Base Model.Sess Model.Hist Model.Mutex Model.StartConc
  Proofs.MutexBasics Proofs.SessDefs Proofs.HistLift3 Proofs.HistLift4 Proofs.HistLift8
  Proofs.C04Conc2 Proofs.C04Conc3
  Proofs.StartConc Proofs.StartConc2 Proofs.StartConc3 Proofs.StartConc4 Proofs.StartConc5 Proofs.StartConc6 Proofs.StartConcEx.
From Sessions Require Proofs.RotateLaws3 Proofs.StartLaws4.
From Coq Require Permutation.

(* --- 0. the cut is faithful: the two halves of Start are Sess.start, and
   look-up; rest with nothing in between is the request step of Hist.step --- *)
Theorem C04K_cut_is_start :
  forall s q,
  start s q =
  let '(s1, found, cks, failed) := start_lookup s q in start_rest (conf s) s1 q found cks failed.
Proof. exact start_split. Qed.

Theorem C04K_cut_is_step :
  forall w r,
  Hist.step w (HReq r) =
  let s0 := set_evs (w_st w) [] in
  let jar := jar_of (w_jars w) (rq_client r) in
  let q := rq_request jar r in
  req_finish s0 jar (w_jars w) r q (start (rq_prepare s0 r) q).
Proof. exact step_split. Qed.

(* --- initial states: C13's invariant on the lock side (Proofs/MutexBasics.v:
   Inv), every goroutine somewhere in Lock(kk) - not begun, blocked, waiting or
   holding -, no Start begun, nothing logged. cinit is one of them. --- *)
Theorem C04K_initial_meaning :
  forall kk reqs w cs,
  CI0 kk reqs w cs <->
  Inv (c_lock cs) /\
  (length (c_ph cs) = length (gs (c_lock cs)) /\ length reqs = length (gs (c_lock cs)) /\
   (forall g x p, nth_error (gs (c_lock cs)) g = Some x -> nth_error (c_ph cs) g = Some p -> gp_ok kk x p = true) /\
   Forall (plain_on kk) reqs) /\
  Forall (fun p => p = PIdle) (c_ph cs) /\ c_acts cs = [] /\ mkWorld (c_st cs) (c_jars cs) = w.
Proof. exact CI0_meaning. Qed.

(* the requests of an initial state: plain calls of Start (empty handler
   script) carrying one ID k as a forged cookie, the lock key being k's code *)
Theorem C04K_plain_on_meaning :
  forall k r, plain_on (key_code k) r <-> rq_script r = [] /\ rq_present r = PForge (CKey k).
Proof. exact plain_on_meaning. Qed.

Theorem C04K_initial_requests :
  forall k reqs w cs, CI0 (key_code k) reqs w cs ->
  Forall (fun r => rq_script r = [] /\ rq_present r = PForge (CKey k)) reqs.
Proof. exact initial_requests. Qed.

Theorem C04K_initial_key_tied :
  forall kk reqs w cs r k, CI0 kk reqs w cs -> In r reqs -> rq_present r = PForge (CKey k) -> kk = key_code k.
Proof. exact initial_key_tied. Qed.

(* the lock key is the presented ID (injectively); no ID, no lock *)
Theorem C04K_lock_key_meaning :
  (forall k, lock_key (CKey k) = Some (key_code k)) /\
  (forall c, (forall k, c <> CKey k) -> lock_key c = None) /\
  (forall k1 k2, key_code k1 = key_code k2 -> k1 = k2).
Proof. exact lock_key_meaning. Qed.

Theorem C04K_idle_goroutine_meaning :
  forall kk x,
  gp_ok kk x PIdle = true <->
  (gc x = GIdle /\ gscript x = [OLock kk]) \/
  (gscript x = [] /\ (gc x = GSendAcq kk \/ gc x = GGetItem kk \/ (exists c, gc x = GWait c kk) \/ gc x = GHold kk)).
Proof. exact gp_ok_idle_meaning. Qed.

Theorem C04K_cinit_initial :
  forall kk reqs w purges, Forall (plain_on kk) reqs -> CI0 kk reqs w (cinit kk reqs w purges).
Proof. exact cinit_ci0. Qed.

(* --- (a) every admissible run of the locked system is a serial execution ---

   (Of K PLAIN calls of Start on ONE ID: CI0 requires Forall (plain_on kk) reqs,
   see SCOPE in the header.)

   In every state of every admissible run from an initial state:
   - at most one goroutine is inside the critical section of kk, and a
     goroutine between look-up and rest is inside it (C13 transported);
   - the ghost log is the run's world actions (CRest g |-> AReq g, CTick d |->
     ATick d), newest first;
   with (W, res) = serial reqs w (log):
   - when no goroutine is between look-up and rest the shared session state and
     jars ARE the world W of the serial execution;
   - a goroutine between look-up and rest has looked up in exactly W;
   - goroutine g's Start has returned with observation o iff (g, o) is in res:
     it observes what Hist.step gives at its position in the serial order;
   - no goroutine is served twice, and once all K have returned the order of
     service is a permutation of the K goroutines. *)
Theorem C04K_serial_order :
  forall kk reqs w cs0 ls cs,
  CI0 kk reqs w cs0 -> crun true reqs cs0 ls = Some cs -> cadm_run true reqs cs0 ls ->
  (forall g1 g2, holds_key (c_lock cs) g1 kk = true -> holds_key (c_lock cs) g2 kk = true -> g1 = g2) /\
  (forall g, is_looked (nth g (c_ph cs) PIdle) = true -> holds_key (c_lock cs) g kk = true) /\
  c_acts cs = rev (acts_of ls) /\
  let W := fst (serial reqs w (c_acts cs)) in
  let res := snd (serial reqs w (c_acts cs)) in
  (existsb is_looked (c_ph cs) = false -> mkWorld (c_st cs) (c_jars cs) = W) /\
  (forall g s0 jar f c b r,
     nth_error (c_ph cs) g = Some (PLooked s0 jar f c b) -> nth_error reqs g = Some r ->
     s0 = set_evs (w_st W) [] /\ jar = jar_of (w_jars W) (rq_client r) /\ c_jars cs = w_jars W /\
     start_lookup (rq_prepare s0 r) (rq_request jar r) = (c_st cs, f, c, b)) /\
  (forall g o, nth_error (c_ph cs) g = Some (PDone o) <-> In (g, o) res) /\
  NoDup (map fst res) /\
  (forallb is_done (c_ph cs) = true -> Permutation.Permutation (map fst res) (seq 0 (length reqs))).
Proof. exact serial_order. Qed.

Theorem C04K_serial_meaning :
  forall reqs w0,
  serial reqs w0 [] = (w0, []) /\
  (forall d t, serial reqs w0 (ATick d :: t) =
     (fst (Hist.step (fst (serial reqs w0 t)) (HWait d)), snd (serial reqs w0 t))) /\
  (forall g r t, nth_error reqs g = Some r ->
     serial reqs w0 (AReq g :: t) =
     (fst (Hist.step (fst (serial reqs w0 t)) (HReq r)),
      (g, snd (Hist.step (fst (serial reqs w0 t)) (HReq r))) :: snd (serial reqs w0 t))).
Proof. exact serial_meaning. Qed.

Theorem C04K_log_meaning :
  (forall l, act_of (CL l) = []) /\ (forall g, act_of (CLook g) = []) /\
  (forall g, act_of (CRest g) = [AReq g]) /\ (forall d, act_of (CTick d) = [ATick d]) /\
  (forall ls, acts_of ls = flat_map act_of ls) /\
  ticks [] = 0%Z /\ (forall d t, ticks (ATick d :: t) = (d + ticks t)%Z) /\ (forall g t, ticks (AReq g :: t) = ticks t) /\
  (forall d, tick_nonneg (ATick d) <-> (0 <= d)%Z) /\ (forall g, tick_nonneg (AReq g) <-> True) /\
  (forall acts, request_first acts <-> (acts = [] \/ exists g t, acts = t ++ [AReq g])).
Proof. exact log_meaning. Qed.

(* the invariant behind (a) is inductive: kept by every enabled admissible step *)
Theorem C04K_invariant :
  forall kk reqs w,
  (forall cs, CI0 kk reqs w cs -> CI kk reqs w cs) /\
  (forall cs lab cs', CI kk reqs w cs -> cstep true reqs cs lab = Some cs' -> cadm cs lab -> CI kk reqs w cs').
Proof. exact (fun kk reqs w => conj (ci0_ci kk reqs w) (ci_step kk reqs w)). Qed.

(* --- (b) K goroutines on one due ID: one new ID, everybody on it ---

   C04C's hypotheses on the state and the due ID k (record rc: a session's
   record, due, not idle; positive grace period), every request a plain call
   of Start carrying k that rc's session accepts (acc_req: C04C_acc_req_meaning;
   so any of them may be served first - C04C_any_order). For EVERY admissible
   run of the locked system in which the clock does not advance before the
   first world action (request_first: apply the theorem at the state in which
   the first look-up takes place - every state reached without a world action
   is an initial state again) and advances by amounts d >= 0 between the
   critical sections whose total stays below the grace period and, with the
   codec's resolution, below SessionExpiry and the backstop age (the bounds of
   C04C's delays_ok; ticks = 0: the clock frozen), with n IDs drawn before:
   - every goroutine whose Start has returned reports the session under the
     ONE new ID KGen n - cookie Live (KGen n), a session's record with rc's
     data and user, n + 1 IDs drawn so far (joined: C04C_joined_meaning) - and
     drew either exactly the ID n or nothing;
   - if anybody has been served: exactly one drew, the one served first
     (rotated: C04C_rotated_meaning), every other one drew nothing, and when
     no goroutine is between look-up and rest n + 1 IDs have been drawn;
   - if nobody has been served yet, n IDs. *)
Theorem C04K_one_new_id :
  forall reqs k rc w,
  LI (w_st w) -> L (w_st w) k = Some rc -> r_ref rc = None ->
  (c_idexpiry (conf (w_st w)) <= since (r_created rc) (now (w_st w)))%Z ->
  (0 < c_grace (conf (w_st w)))%Z ->
  (since (r_access rc) (now (w_st w)) < c_expiry (conf (w_st w)))%Z ->
  Forall (acc_req k rc (conf (w_st w))) reqs ->
  forall kk cs0 ls cs,
  CI0 kk reqs w cs0 -> crun true reqs cs0 ls = Some cs -> cadm_run true reqs cs0 ls ->
  let acts := c_acts cs in
  let c := conf (w_st w) in
  let n := supply (w_st w) in
  request_first acts -> Forall tick_nonneg acts ->
  (ticks acts < c_grace c)%Z ->
  (ticks acts + StartLaws4.slack c < c_expiry c)%Z ->
  (ticks acts + StartLaws4.slack c < sat_add (c_idexpiry c) (c_grace c))%Z ->
  (forall g o, nth_error (c_ph cs) g = Some (PDone o) ->
     joined (KGen n) rc n o /\ (dlist (ob_evs o) = [n] \/ dlist (ob_evs o) = [])) /\
  (goroutines acts <> [] ->
     exists g1 r1 o1 rest,
       nth_error reqs g1 = Some r1 /\ nth_error (c_ph cs) g1 = Some (PDone o1) /\
       snd (serial reqs w acts) = rest ++ [(g1, o1)] /\
       rotated (KGen n) rc (now (w_st w)) (req_of w r1) n o1 /\ dlist (ob_evs o1) = [n] /\
       Forall (fun go => dlist (ob_evs (snd go)) = []) rest /\
       (existsb is_looked (c_ph cs) = false -> supply (c_st cs) = (n + 1)%N)) /\
  (goroutines acts = [] -> existsb is_looked (c_ph cs) = false -> supply (c_st cs) = n).
Proof. exact one_new_id. Qed.

(* The same for EVERY schedule, the clock free to advance before the first
   look-up too: a run from an initial state splits at its first look-up into a
   part made of lock steps and clock ticks and the rest (C04K_every_run_splits;
   in the rest the first logged world action is a request, because the clock
   stands still while a goroutine is between look-up and rest); state C04C's
   hypotheses for the world w in which that first look-up takes place, and the
   bounds for the clock advance of the rest. *)
Theorem C04K_one_new_id_every_schedule :
  forall reqs k rc kk w0 cs0 pre post cs1 cs,
  CI0 kk reqs w0 cs0 ->
  crun true reqs cs0 pre = Some cs1 -> crun true reqs cs1 post = Some cs ->
  cadm_run true reqs cs0 (pre ++ post) ->
  Forall pre_label pre -> (post = [] \/ exists g post', post = CLook g :: post') ->
  let w := mkWorld (c_st cs1) (c_jars cs1) in
  let c := conf (w_st w) in
  let n := supply (w_st w) in
  LI (w_st w) -> L (w_st w) k = Some rc -> r_ref rc = None ->
  (c_idexpiry c <= since (r_created rc) (now (w_st w)))%Z ->
  (0 < c_grace c)%Z ->
  (since (r_access rc) (now (w_st w)) < c_expiry c)%Z ->
  Forall (acc_req k rc c) reqs ->
  let acts := rev (acts_of post) in
  Forall tick_nonneg acts ->
  (ticks acts < c_grace c)%Z ->
  (ticks acts + StartLaws4.slack c < c_expiry c)%Z ->
  (ticks acts + StartLaws4.slack c < sat_add (c_idexpiry c) (c_grace c))%Z ->
  (forall g o, nth_error (c_ph cs) g = Some (PDone o) ->
     joined (KGen n) rc n o /\ (dlist (ob_evs o) = [n] \/ dlist (ob_evs o) = [])) /\
  (goroutines acts <> [] ->
     exists g1 r1 o1 rest,
       nth_error reqs g1 = Some r1 /\ nth_error (c_ph cs) g1 = Some (PDone o1) /\
       snd (serial reqs w acts) = rest ++ [(g1, o1)] /\
       rotated (KGen n) rc (now (w_st w)) (req_of w r1) n o1 /\ dlist (ob_evs o1) = [n] /\
       Forall (fun go => dlist (ob_evs (snd go)) = []) rest /\
       (existsb is_looked (c_ph cs) = false -> supply (c_st cs) = (n + 1)%N)) /\
  (goroutines acts = [] -> existsb is_looked (c_ph cs) = false -> supply (c_st cs) = n).
Proof. exact one_new_id_any_start. Qed.

Theorem C04K_every_run_splits :
  forall kk reqs w0 cs0 ls cs,
  CI0 kk reqs w0 cs0 -> crun true reqs cs0 ls = Some cs ->
  exists pre post, ls = pre ++ post /\ Forall pre_label pre /\
    (post = [] \/ exists g post', post = CLook g :: post').
Proof. exact every_run_splits. Qed.

Theorem C04K_pre_label_meaning :
  forall lab, pre_label lab <-> (exists l, lab = CL l) \/ (exists d, lab = CTick d).
Proof. exact pre_label_meaning. Qed.

(* --- (c) progress: with C14's no_deadlock and measure ---

   (Again for K plain calls of Start on one ID: CI0.)

   Every step other than a clock tick decreases cmeasure (so a run has at most
   cmeasure of its start many of them); in every state of an admissible run
   from an initial state: while somebody has not finished, a step other than a
   tick is enabled and admissible; a run that only ticks can extend has let
   everybody finish; a tick-free admissible extension that lets everybody
   finish exists; and then every goroutine's Start has returned. *)
Theorem C04K_progress :
  forall kk reqs w,
  (forall cs lab cs', cstep true reqs cs lab = Some cs' ->
     match lab with CTick _ => cmeasure cs' = cmeasure cs | _ => cmeasure cs' < cmeasure cs end) /\
  (forall ls cs cs', crun true reqs cs ls = Some cs' ->
     length (filter (fun lab => match lab with CTick _ => false | _ => true end) ls) + cmeasure cs' <= cmeasure cs) /\
  forall cs0 ls cs,
    CI0 kk reqs w cs0 -> crun true reqs cs0 ls = Some cs -> cadm_run true reqs cs0 ls ->
    (all_done cs = false ->
       exists lab cs', no_tick lab /\ cstep true reqs cs lab = Some cs' /\ cadm cs lab) /\
    ((forall lab cs', no_tick lab -> cstep true reqs cs lab = Some cs' -> ~ cadm cs lab) -> all_done cs = true) /\
    (exists ls' cs', crun true reqs cs ls' = Some cs' /\ cadm_run true reqs cs ls' /\
                     Forall no_tick ls' /\ all_done cs' = true) /\
    (all_done cs = true -> forall g, g < length reqs -> exists o, nth_error (c_ph cs) g = Some (PDone o)).
Proof. exact progress. Qed.

(* --- (d) the theorem depends on the lock ---

   Without the lock (CLook needs no GHold; the seeded change C04-r2-3): a
   state, a due ID and two requests satisfying every hypothesis of
   C04K_one_new_id, a run with the clock frozen in which both goroutines are
   between look-up and rest at once, TWO IDs are drawn, and the two goroutines
   report different sessions. (The witness has the cache switched off: see
   Proofs/StartConcEx.v for why.) *)
Theorem C04K_unlocked_refuted :
  exists reqs k rc w ls cs mid,
    LI (w_st w) /\ L (w_st w) k = Some rc /\ r_ref rc = None /\
    (c_idexpiry (conf (w_st w)) <= since (r_created rc) (now (w_st w)))%Z /\
    (0 < c_grace (conf (w_st w)))%Z /\
    (since (r_access rc) (now (w_st w)) < c_expiry (conf (w_st w)))%Z /\
    Forall (acc_req k rc (conf (w_st w))) reqs /\
    crun false reqs (cinit (key_code k) reqs w 0) ls = Some cs /\
    request_first (c_acts cs) /\ ticks (c_acts cs) = 0%Z /\
    crun false reqs (cinit (key_code k) reqs w 0) (firstn 2 ls) = Some mid /\
    is_looked (nth 0 (c_ph mid) PIdle) = true /\ is_looked (nth 1 (c_ph mid) PIdle) = true /\
    let n := supply (w_st w) in
    exists o0 o1,
      nth_error (c_ph cs) 0 = Some (PDone o0) /\ nth_error (c_ph cs) 1 = Some (PDone o1) /\
      ob_res o0 = RSess /\ ob_res o1 = RSess /\
      ob_cookies o0 = [CkLive (KGen n)] /\ ob_cookies o1 = [CkLive (KGen (n + 1))] /\
      option_map fst (ob_start o0) = Some (KGen n) /\ option_map fst (ob_start o1) = Some (KGen (n + 1)) /\
      supply (c_st cs) = (n + 2)%N.
Proof. exact unlocked_refuted. Qed.

(* With the lock, along a run that breaks C13's proviso (a purge drops a held
   entry as stale; C13_needs_hold_bound_refuted's run): two goroutines hold the
   key, both rotate. *)
Theorem C04K_inadmissible_refuted :
  crun true reqsK (cinit kkE reqsK wK 1) runI = Some csI /\
  cadmb_run true reqsK (cinit kkE reqsK wK 1) runI = false /\
  exists o0 o2,
    nth_error (c_ph csI) 0 = Some (PDone o0) /\ nth_error (c_ph csI) 2 = Some (PDone o2) /\
    ob_cookies o0 = [CkLive (KGen 2)] /\ ob_cookies o2 = [CkLive (KGen 3)] /\
    supply (c_st csI) = 4%N.
Proof. exact inadmissible_refuted. Qed.

Print Assumptions C04K_cut_is_start.
Print Assumptions C04K_cut_is_step.
Print Assumptions C04K_initial_meaning.
Print Assumptions C04K_idle_goroutine_meaning.
Print Assumptions C04K_plain_on_meaning.
Print Assumptions C04K_initial_requests.
Print Assumptions C04K_initial_key_tied.
Print Assumptions C04K_lock_key_meaning.
Print Assumptions C04K_cinit_initial.
Print Assumptions C04K_serial_order.
Print Assumptions C04K_serial_meaning.
Print Assumptions C04K_log_meaning.
Print Assumptions C04K_invariant.
Print Assumptions C04K_one_new_id.
Print Assumptions C04K_one_new_id_every_schedule.
Print Assumptions C04K_every_run_splits.
Print Assumptions C04K_pre_label_meaning.
Print Assumptions C04K_progress.
Print Assumptions C04K_unlocked_refuted.
Print Assumptions C04K_inadmissible_refuted.
(* non-vacuity (Proofs/StartConcEx.v): a reachable world with a due ID, three
   goroutines; an admissible run of the locked system serving them in the
   order 1, 2, 0 with the clock advancing in between; what they report; a
   state with one goroutine between look-up and rest and two waiting; progress
   from there *)
Print Assumptions state_hyps_ex.
Print Assumptions locked_ex.
Print Assumptions locked_reports_ex.
Print Assumptions locked_mid_ex.
Print Assumptions unlocked_reports_ex.
Print Assumptions completes_ex.
Print Assumptions any_start_ex.
(* the same with the local cache on: locked, one draw; unlocked, one draw but
   no redirecting cookie for the second goroutine *)
Print Assumptions state_hyps_cache_ex.
Print Assumptions locked_cache_ex.
Print Assumptions locked_cache_reports_ex.
Print Assumptions unlocked_cache_reports_ex.
