(* C05, last clause (Expired() of a replaced-ID record) along histories WITH
   user-wide calls - the statement Properties/C05R.v (audit task A3) left open,
   PROVED. Statements only; proofs in Proofs/C05RUser.v (ReplRec.v redone for a
   stronger record predicate), C05RUser2.v (the user-wide loop), C05RUser3.v (the
   stale user index), C05RUser4.v (the three invariants along histories),
   C05RUserEx.v (non-vacuity).

   R s     every replaced-ID record, stored or any heap object, has
           created = lastAccess AND carries no user (C05R's R has only the first
           clause; the second makes "a stored record that carries a user is a
           session's" part of the invariant)
   GA s    every ID in the store's index of deleted IDs (graves; a stale user
           index lists them first: Model/Sess.v p_usersessions) was drawn and is
           not stored
   LI s    the invariant of C05H (PF's invariant; cached objects agree with the
           store on the reference field; IDs awaiting clean-up are not stored as
           sessions)
   nph s k ID k is not stored as a replaced-ID record

   Why it holds: the loop of LogOut(userID)/RefreshUser/exclusive LogIn touches
   (sets lastAccess of) exactly the objects cache.Get returns for the listed
   IDs. A listed ID whose stored record carries the user is a session's (R); its
   cached object, if any, agrees with the store on the reference field (LI). A
   listed ID that was deleted is not stored (GA: an ID that was drawn and is
   absent from store and cache is never saved under again - PF's invariant with
   all such IDs in the dead set, the handler's session being stored - and an ID
   enters graves when it leaves the store), nor cached (LI): the loop skips it.
   So no replaced-ID record is ever touched.

   THE INSTANT. C05U_expired_ref measures the grace period from the record's
   lastAccess. C05U_replaced_instant ties that to the replacement: a replaced-ID
   record names the ID RegenerateID drew; if that ID was drawn by request step r
   (clock T, frozen during a request), the record's lastAccess is T or - once it
   has passed through the JSON codec, which keeps instants to the second - T
   floored to the second, wherever it is found stored later (Proofs/C05RUser5.v,
   C05RUser7.v). SLACK: hence Expired() of that record is true from grace after
   the replacement on, and is never true earlier than ONE SECOND before that
   (C05U_expired_ref_instant); exactly at grace when lastAccess = T (nothing
   floored: gob, or T a whole second). "Not before its grace period has ended"
   holds up to < 1 s behind a JSON store.

   C05R_needs_fault_free shows the
   statement false after a fault. No refutation: the suspected defect of
   Expired() on replaced-ID records does not exist in fault-free runs. *)
From Sessions Require Import Model.Base Model.Sess Model.Hist Proofs.SessDefs Proofs.HistInv Proofs.HistInv3
  Proofs.HistLift Proofs.HistLift4 Proofs.ReplRecStmt Proofs.C05RUser Proofs.C05RUser2 Proofs.C05RUser3
  Proofs.C05RUser4 Proofs.C05RUser6 Proofs.C05RUser7 Proofs.C05RUserEx.
Local Open Scope Z_scope.

(* ---- the vocabulary ---- *)

Theorem C05U_R_meaning :
  forall s, R s <->
    (forall o ob, hget s o = Some ob -> r_ref (o_rec ob) <> None ->
       r_created (o_rec ob) = r_access (o_rec ob) /\ r_user (o_rec ob) = None) /\
    (forall k r, In (k, r) (store s) -> r_ref r <> None -> r_created r = r_access r /\ r_user r = None).
Proof. exact (fun s => iff_refl _). Qed.

Theorem C05U_GA_meaning :
  forall s, GA s <-> forall k g, In (k, g) (graves s) -> kd (supply s) k /\ sref s k = None.
Proof. exact (fun s => iff_refl _). Qed.

Theorem C05U_TW_meaning : forall s, TW s <-> LI s /\ R s /\ GA s.
Proof. exact (fun s => iff_refl _). Qed.

(* ---- the step of the induction: every fault-free, crash-free step of every
   kind - requests by anybody with any script (exclusive LogIn included), waits,
   purges, cache loss, restarts, LogOut(userID), RefreshUser, reconfiguration ---- *)

Theorem C05U_step : forall w h, ff_hop h -> crash_free h ->
  LI (w_st w) /\ R (w_st w) /\ GA (w_st w) ->
  LI (w_st (fst (step w h))) /\ R (w_st (fst (step w h))) /\ GA (w_st (fst (step w h))).
Proof. exact TW_step. Qed.

(* ---- C05R_statement's "created = lastAccess, no user" clauses, proved ---- *)

Theorem C05U_statement : forall c hs, Forall ff_hop hs -> Forall crash_free hs -> R (w_st (reach c hs)).
Proof. exact (fun c hs Hff Hcf => proj1 (proj2 (TW_reach c hs Hff Hcf))). Qed.

Theorem C05U_replaced_records :
  forall c hs, Forall ff_hop hs -> Forall crash_free hs ->
    let s := w_st (reach c hs) in
    (forall k r, L s k = Some r -> r_ref r <> None -> r_created r = r_access r /\ r_user r = None) /\
    (forall k r, lookup (store s) k = Some r -> r_ref r <> None -> r_created r = r_access r /\ r_user r = None) /\
    (forall o ob, hget s o = Some ob -> r_ref (o_rec ob) <> None ->
       r_created (o_rec ob) = r_access (o_rec ob) /\ r_user (o_rec ob) = None).
Proof. exact replrec_full. Qed.

(* C05's last clause, in every fault-free, crash-free history: Expired() of a
   stored replaced-ID record turns true when, and not before, the grace period
   measured from its instant (created = lastAccess = the replacement) is over *)
Theorem C05U_expired_ref :
  forall c hs k r j cf t,
    Forall ff_hop hs -> Forall crash_free hs ->
    lookup (store (w_st (reach c hs))) k = Some r -> r_ref r = Some j ->
    (0 <= c_idexpiry cf)%Z -> (c_grace cf <= max64)%Z ->
    (expired cf r t = true <-> (c_grace cf <= since (r_access r) t)%Z).
Proof. exact expired_ref_full. Qed.

(* the instant Expired() measures from is the instant of the replacement (the
   clock of the request step that drew the ID the record names), up to the JSON
   codec's flooring to the second *)
Theorem C05U_flo_meaning : forall t, flo t = t - t mod second /\ flo t <= t < flo t + second.
Proof. exact (fun t => conj eq_refl (flo_bounds t)). Qed.

Theorem C05U_replaced_instant : forall w r hs2,
  LI (w_st w) /\ R (w_st w) /\ GA (w_st w) ->
  rq_plan r = [] -> rq_crash r = None -> Forall ff_hop hs2 -> Forall crash_free hs2 ->
  let w1 := fst (step w (HReq r)) in
  forall k rc n, lookup (store (w_st (after w1 hs2))) k = Some rc -> r_ref rc = Some (KGen n) ->
    (supply (w_st w) <= n < supply (w_st w1))%N ->
    r_created rc = r_access rc /\ (r_access rc = now (w_st w) \/ r_access rc = flo (now (w_st w))).
Proof. exact replaced_instant. Qed.

(* in particular from every world a fault-free, crash-free history reaches *)
Theorem C05U_reach_invariants : forall c hs, Forall ff_hop hs -> Forall crash_free hs ->
  LI (w_st (reach c hs)) /\ R (w_st (reach c hs)) /\ GA (w_st (reach c hs)).
Proof. exact TW_reach. Qed.

(* C05's last clause measured from the replacement, the slack explicit *)
Theorem C05U_expired_ref_instant : forall w r hs2 cf t,
  LI (w_st w) /\ R (w_st w) /\ GA (w_st w) ->
  rq_plan r = [] -> rq_crash r = None -> Forall ff_hop hs2 -> Forall crash_free hs2 ->
  (0 <= c_idexpiry cf)%Z -> (c_grace cf <= max64)%Z ->
  let w1 := fst (step w (HReq r)) in let T := now (w_st w) in
  forall k rc n, lookup (store (w_st (after w1 hs2))) k = Some rc -> r_ref rc = Some (KGen n) ->
    (supply (w_st w) <= n < supply (w_st w1))%N ->
    ((c_grace cf <= since T t)%Z -> expired cf rc t = true) /\
    (expired cf rc t = true -> (c_grace cf - second < since T t)%Z) /\
    (r_access rc = T -> (expired cf rc t = true <-> (c_grace cf <= since T t)%Z)).
Proof. exact expired_ref_instant. Qed.

(* non-vacuity: behind a JSON store a rotation at 10.7 s; after a wait,
   LogOut(userID), a purge and cache loss the record under the old ID names
   KGen 2 (drawn by that step) and carries 10 s = 10.7 s floored *)
Theorem C05U_ex_instant :
  let w := reach cfU hist_I1 in let w1 := fst (step w (HReq req_I)) in
  now (w_st w) = 10 * sec + 700000000 /\ supply (w_st w) = 2%N /\ supply (w_st w1) = 3%N /\
  option_map (fun rc => (r_ref rc, r_created rc, r_access rc)) (lookup (store (w_st (after w1 hist_I2))) (KGen 1)) =
    Some (Some (KGen 2), 10 * sec, 10 * sec) /\
  flo (10 * sec + 700000000) = 10 * sec.
Proof. exact instant_run. Qed.

Theorem C05U_ex_instant_applies :
  let w := reach cfU hist_I1 in let w1 := fst (step w (HReq req_I)) in
  forall rc, lookup (store (w_st (after w1 hist_I2))) (KGen 1) = Some rc -> r_ref rc = Some (KGen 2) ->
    r_created rc = r_access rc /\ (r_access rc = now (w_st w) \/ r_access rc = flo (now (w_st w))).
Proof. exact instant_applies. Qed.

(* the stale user index: a deleted ID is never stored again *)
Theorem C05U_stale_index_dead : forall c hs, Forall ff_hop hs -> Forall crash_free hs ->
  forall k g, In (k, g) (graves (w_st (reach c hs))) ->
    key_drawn (w_st (reach c hs)) k /\ lookup (store (w_st (reach c hs))) k = None.
Proof. exact stale_index_dead. Qed.

(* ---- the building blocks ---- *)

(* the stronger R along C05R's hops (arbitrary fault plans, no user-wide call) *)
Theorem C05U_step_nuw : forall w h, nuw h -> R (w_st w) -> R (w_st (fst (step w h))).
Proof. exact R_step. Qed.

(* the loop keeps R when the IDs it is given are not stored as replaced-ID records *)
Theorem C05U_loop : forall b base D u ids s,
  inv b base NX D s -> Kcs s -> R s -> (forall k, In k ids -> forall t, sref s k <> Some (Some t)) ->
  R (fst (each_user_session s ids u)).
Proof. exact R_eus. Qed.

(* with R and GA, what the index lists for a user is not a replaced-ID record's ID *)
Theorem C05U_listed : forall s u,
  NoDup (map fst (store s)) -> R s -> GA s -> forall k, In k (listed s u) -> forall t, sref s k <> Some (Some t).
Proof. exact (fun s u Hn HR HA => listed_nph s u Hn HR (GA_GR s HA)). Qed.

(* an exclusive LogIn on a session's handle, per call *)
Theorem C05U_login_exclusive : forall b base D s o u s' res cks,
  login s o u true = (s', res, cks) ->
  inv b base NX D s -> Kcs s -> R s -> GA s -> (exists ob, hget s o = Some ob /\ r_ref (o_rec ob) = None) -> R s'.
Proof. exact (fun b base D s o u s' res cks E I K HR HA Hn => R_login_ex b base D s o u s' res cks E I K HR (GA_GR s HA) Hn). Qed.

(* every operation keeps GA: e.g. a handler operation on a stored session, Start *)
Theorem C05U_GA_do_sop : forall base s o hc op,
  inv 0 base NX ND s -> Kcs s -> hg s o -> GA s -> GA (fst (fst (do_sop s o hc op))).
Proof. exact GA_do_sop. Qed.

Theorem C05U_GA_start : forall base s q,
  inv 0 base NX ND s -> Kcs s -> PRs s -> GA s -> GA (fst (fst (start s q))).
Proof. exact GA_start. Qed.

(* ---- non-vacuity: RegenerateID, then LogOut(userID) and RefreshUser inside the
   grace period; exclusive LogIns inside scripts; a destroyed session of the user
   that the stale index still lists when later user-wide calls run ---- *)

Theorem C05U_ex_history :
  hist_V =
  [ rq 1 true [SLogIn (5, 1)%N false]; HWait (10 * sec); rq 1 false [SRegen]; HWait (5 * sec);
    HLogoutUser 5 [] []; HWait (3 * sec); rq 2 true [SLogIn (5, 2)%N true; SRegen];
    HRefreshUser (5, 9)%N [] []; HWait (2 * sec); rq 3 true [SLogIn (5, 3)%N false; SDestroy];
    rq 1 false [SSet 1 1; SLogIn (5, 4)%N true]; HLogoutUser 5 [] []; forge 4 (KGen 1); HDropCache;
    HRefreshUser (5, 4)%N [] []; HWait (60 * sec); rq 2 false [SLogIn (5, 6)%N true] ] /\
  cfU = cfT max64 3 true.
Proof. exact (conj eq_refl eq_refl). Qed.

Theorem C05U_ex_hypotheses : Forall ff_hop hist_V /\ Forall crash_free hist_V.
Proof. exact hist_V_hops. Qed.

Theorem C05U_ex_applies :
  forall k r, lookup (store (w_st (reach cfU hist_V))) k = Some r -> r_ref r <> None ->
              r_created r = r_access r /\ r_user r = None.
Proof. exact hist_V_applies. Qed.

Theorem C05U_ex_run :
  map (fun kr => (fst kr, r_ref (snd kr), r_created (snd kr), r_access (snd kr)))
      (filter (fun kr => match r_ref (snd kr) with Some _ => true | None => false end)
              (store (w_st (reach cfU hist_V)))) <> [] /\
  forallb (fun o => match ob_res o with RSess | RVoid => true | _ => false end) (run cfU hist_V) = true /\
  existsb (fun kg => match snd kg with Some 5%N => true | _ => false end) (graves (w_st (reach cfU hist_V))) = true /\
  repl_ok_st (w_st (reach cfU hist_V)) = true.
Proof. exact hist_V_run. Qed.

Print Assumptions C05U_R_meaning.
Print Assumptions C05U_GA_meaning.
Print Assumptions C05U_TW_meaning.
Print Assumptions C05U_step.
Print Assumptions C05U_statement.
Print Assumptions C05U_replaced_records.
Print Assumptions C05U_expired_ref.
Print Assumptions C05U_stale_index_dead.
Print Assumptions C05U_flo_meaning.
Print Assumptions C05U_replaced_instant.
Print Assumptions C05U_reach_invariants.
Print Assumptions C05U_expired_ref_instant.
Print Assumptions C05U_ex_instant.
Print Assumptions C05U_ex_instant_applies.
Print Assumptions C05U_step_nuw.
Print Assumptions C05U_loop.
Print Assumptions C05U_listed.
Print Assumptions C05U_login_exclusive.
Print Assumptions C05U_GA_do_sop.
Print Assumptions C05U_GA_start.
Print Assumptions C05U_ex_history.
Print Assumptions C05U_ex_hypotheses.
Print Assumptions C05U_ex_applies.
Print Assumptions C05U_ex_run.
