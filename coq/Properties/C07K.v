(* C07 for every former ID, with the process stopping inside steps of the
   history (round 4, task R4a, and its follow-up). Statements only; proofs are in
   Proofs/LineageK.v .. LineageK4.v, LineageE.v, LineageE2.v, HistLiftB.v,
   LineageB.v, LineageF.v; non-vacuity and tests in Proofs/LineageKEx.v. They
   extend Properties/C07H.v (read its header for lineage, L, absent, presents,
   dead_answer, lin_obs, all_steps, LI, LN, rchain).

   C07H covers fault-free, CRASH-FREE histories (cache loss HDropCache and restarts
   HRestart included); C07_stays_dead covers crashes but only the ended ID itself.

   PROVED HERE, IN FULL (C07K_destroyed, C07K_invalidated, C07K_stays): the
   lineage theorems for EVERY fault-free history: rq_crash r = Some n for ANY n in
   any request step before and after the ending request (the ending request itself
   runs to completion), with cache loss and restarts anywhere. Every step of the
   continuation satisfies lin_claim_k: nobody is returned or left with a session
   under an ID of the lineage, no such ID is drawn again, a request presenting one
   gets a dead_answer if it completes (a request that crashes shows nothing in the
   model by construction - crashed_obs holds of every crashed step; the content is
   the dead answer of the completed request: C07K_dead_answer_completed); and at
   every later point every ID of the lineage resolves to nothing or to a
   replaced-ID record naming an ID of the lineage.

   IDs written by a step that stopped between RegenerateID's two saves and never
   sent to a client are outside the lineage (C10C, audit task A9): C07K says nothing
   about them. C07K_orphan_outside_lineage is the example: such an ID, forged after
   a restart, does yield the ended session's user and data.

   How (the two pieces that the first round left open):
   (1) The events of a step. Every persistence call of a fault-free request step
       from a state satisfying the lineage invariant writes, under an ID of the
       lineage D, only a replaced-ID record naming an ID of D, and every
       replaced-ID record it writes names a generated ID with a larger ordinal
       than its own key (C07K_events_step; operation by operation:
       C07K_events_start, _regenerate, _login, _logout, _handler_op, _create,
       _logout_user, _fire_due, _script). Hence the store that a crash after ANY
       number of calls leaves (Hist.step: the pre-state store with that prefix of
       the events replayed) still satisfies the store-side of the invariant
       (C07K_mid_crash_store).
   (2) The heap mark. LI / LN contain PF's winv with heap mark 0, false after such
       a crash (C07_fresh_heap_clause_crash_refuted). HistLiftB.v and LineageB.v
       redo the lifting of HistLift3.v and the lineage step theorems for an
       arbitrary heap mark b (LIb b, LNb b D); a crash moves the mark to the end of
       the heap (C07K_crash_inv). LIx / LNx D = "for some heap mark" are kept by
       every fault-free step of every hop kind (C07K_LIx_step, C07K_inv_step) and
       hold in every reachable state (C07K_LIx_reach).

   The theorems of the first round for LATE crashes (the _late_partial ones: the
   crash cuts off nothing but reads) are kept below; they are special cases. The
   computed tests at every crash point of 10 kinds of steps (Proofs/LineageKEx.v)
   are now instances of the theorems. *)
From Sessions Require Import Model.Base Model.Sess Model.Hist Model.Corr Proofs.SessDefs
  Proofs.HistInv Proofs.HistInv2 Proofs.HistInv3 Proofs.HistLift Proofs.HistLift3 Proofs.HistLift4
  Proofs.IsoLaws Proofs.DeadLaws Proofs.C01Spec
  Proofs.Lineage Proofs.Lineage2 Proofs.Lineage3 Proofs.Lineage4 Proofs.Lineage5 Proofs.Lineage6
  Proofs.HistLiftB Proofs.LineageB
  Proofs.LineageK Proofs.LineageK2 Proofs.LineageK3 Proofs.LineageK4 Proofs.LineageE Proofs.LineageE2 Proofs.LineageF Proofs.LineageEx Proofs.LineageKEx.

(* ------------------------------------------------------- the notions, unfolded *)

(* a persistence call: every logged event except the drawing of an ID *)
Theorem C07K_is_call_meaning : forall e, is_call e = match e with EvDraw _ => false | _ => true end.
Proof. reflexivity. Qed.

(* nocrash r is r run to completion *)
Theorem C07K_nocrash_meaning :
  forall r, nocrash r =
  mkReqStep (rq_client r) (rq_present r) (rq_create r) (rq_addr r) (rq_ua r) (rq_script r) (rq_tb r) (rq_plan r) None.
Proof. reflexivity. Qed.

Theorem C07K_is_read_meaning :
  forall e, is_read e = match e with EvLoad _ _ | EvLoadUser _ _ | EvUserSessions _ _ => true | _ => false end.
Proof. reflexivity. Qed.

(* dropped l n: the events of the log l (oldest first) that a stop after n
   persistence calls cuts off; ev_prefix l n (Model/Hist.v) is what is replayed *)
Theorem C07K_dropped_meaning : forall l n, l = ev_prefix l n ++ dropped l n.
Proof. exact dropped_meaning. Qed.

Theorem C07K_dropped_beyond : forall l n, length (filter is_call l) < n -> dropped l n = [].
Proof. exact dropped_beyond. Qed.

(* a hop's crash, if it has one, is late in world w: everything it cuts off from
   the events of the same request run to completion is a read *)
Theorem C07K_late_crash_meaning :
  forall w h, late_crash w h <->
  forall r n, h = HReq r -> rq_crash r = Some n ->
    forallb is_read (dropped (ob_evs (snd (step w (HReq (nocrash r))))) n) = true.
Proof. exact late_crash_meaning. Qed.

Theorem C07K_late_crash_beyond :
  forall w r n, rq_crash r = Some n ->
  length (filter is_call (ob_evs (snd (step w (HReq (nocrash r)))))) < n -> late_crash w (HReq r).
Proof. exact late_crash_beyond. Qed.

Theorem C07K_late_crash_reads :
  forall w r, forallb is_read (ob_evs (snd (step w (HReq (nocrash r))))) = true -> late_crash w (HReq r).
Proof. exact late_crash_reads. Qed.

Theorem C07K_late_hist_meaning :
  forall hs w, late_hist w hs <-> forall hs1 h hs2, hs = hs1 ++ h :: hs2 -> late_crash (after w hs1) h.
Proof. exact late_hist_meaning. Qed.

Theorem C07K_crash_free_is_late : forall hs w, Forall crash_free hs -> late_hist w hs.
Proof. exact crash_free_late_hist. Qed.

(* what a step shows in which the process stopped *)
Theorem C07K_crashed_obs_meaning :
  forall o, crashed_obs o <->
  ob_res o = RCrashed /\ ob_start o = None /\ ob_final o = None /\ ob_cookies o = [] /\ ob_script o = [].
Proof. exact crashed_obs_meaning. Qed.

(* lin_claim of C07H with the crash case *)
Theorem C07K_lin_claim_k_meaning :
  forall D w h o, lin_claim_k D w h o <->
  lin_obs D o /\
  forall r k, h = HReq r -> presents w r = CKey k -> D k ->
    match rq_crash r with None => dead_answer o | Some _ => crashed_obs o end.
Proof. exact lin_claim_k_meaning. Qed.

Theorem C07K_lin_claim_k_crash_free :
  forall D w h o, crash_free h -> (lin_claim_k D w h o <-> lin_claim D w h o).
Proof. exact lin_claim_k_free. Qed.

(* What a late crash leaves (the model's crash branch, computed): the state of
   the completed step with cache and pending clean-ups dropped (restart) and some
   event log es (which nothing reads: every step starts by emptying it), the same
   store and ID supply, the jars of before the step, an empty observation. *)
Theorem C07K_late_step :
  forall w r n, rq_crash r = Some n -> late_crash w (HReq r) ->
  (exists es, w_st (fst (step w (HReq r))) = set_evs (restart (w_st (fst (step w (HReq (nocrash r)))))) es) /\
  w_jars (fst (step w (HReq r))) = w_jars w /\
  crashed_obs (snd (step w (HReq r))) /\
  ob_store (snd (step w (HReq r))) = ob_store (snd (step w (HReq (nocrash r)))) /\
  ob_cache (snd (step w (HReq r))) = [] /\
  ob_drawn (snd (step w (HReq r))) = ob_drawn (snd (step w (HReq (nocrash r)))).
Proof. exact late_step_meaning. Qed.

(* ------------------------------------------------------- the full statements (proved below: C07K_destroyed, C07K_invalidated, C07K_stays) *)

Definition C07K_destroyed_statement : Prop :=
  forall c hs1 r hs2,
  Forall ff_hop hs1 -> rq_plan r = [] -> rq_crash r = None -> Forall ff_hop hs2 ->
  ob_script (snd (step (reach c hs1) (HReq r))) <> [] ->
  nth_error (rq_script r) (length (ob_script (snd (step (reach c hs1) (HReq r)))) - 1) = Some SDestroy ->
  exists kn rc, ob_final (snd (step (reach c hs1) (HReq r))) = Some (kn, rc) /\
    key_drawn (w_st (fst (step (reach c hs1) (HReq r)))) kn /\
    absent (w_st (fst (step (reach c hs1) (HReq r)))) kn /\
    all_steps (lin_claim_k (lineage (w_st (fst (step (reach c hs1) (HReq r)))) kn))
              (fst (step (reach c hs1) (HReq r))) hs2.

Definition C07K_invalidated_statement : Prop :=
  forall c hs1 r hs2 k r0,
  Forall ff_hop hs1 -> rq_plan r = [] -> rq_crash r = None -> Forall ff_hop hs2 ->
  presented (reach c hs1) r = CKey k -> L (w_st (reach c hs1)) k = Some r0 ->
  rec_valid (conf (w_st (reach c hs1))) (now (w_st (reach c hs1)))
            (mkReq (presented (reach c hs1) r) (rq_create r) (rq_addr r) (rq_ua r)) r0 = false ->
  key_drawn (w_st (fst (step (reach c hs1) (HReq r)))) k /\
  absent (w_st (fst (step (reach c hs1) (HReq r)))) k /\
  all_steps (lin_claim_k (lineage (w_st (fst (step (reach c hs1) (HReq r)))) k))
            (fst (step (reach c hs1) (HReq r))) hs2.

Definition C07K_stays_statement : Prop :=
  forall c hs1 kn hs2 k,
  Forall ff_hop hs1 -> key_drawn (w_st (reach c hs1)) kn -> absent (w_st (reach c hs1)) kn -> Forall ff_hop hs2 ->
  lineage (w_st (reach c hs1)) kn k ->
  L (w_st (after (reach c hs1) hs2)) k = None \/
  exists r t, L (w_st (after (reach c hs1) hs2)) k = Some r /\ r_ref r = Some t /\ lineage (w_st (reach c hs1)) kn t.

(* ------------------------------------------------------- the theorems: late crashes *)

(* The invariants of C05H (LI) and C07H (LN D, any set D of IDs) are kept by every
   fault-free step whose crash, if any, is late. *)
Theorem C07K_LI_step_late_partial :
  forall w h, LI (w_st w) -> ff_hop h -> late_crash w h -> LI (w_st (fst (step w h))).
Proof. exact LI_step_late. Qed.

Theorem C07K_inv_step_late_partial :
  forall D w h, LN D (w_st w) -> ff_hop h -> late_crash w h -> LN D (w_st (fst (step w h))).
Proof. exact LN_step_late. Qed.

(* ... and every such step satisfies lin_claim_k *)
Theorem C07K_step_late_partial :
  forall D w h, LN D (w_st w) -> ff_hop h -> late_crash w h -> lin_claim_k D w h (snd (step w h)).
Proof. exact step_lin_late. Qed.

(* C07H_lineage_dead with late crashes in the continuation *)
Theorem C07K_lineage_dead_late_partial :
  forall w kn hs,
  LI (w_st w) -> key_drawn (w_st w) kn -> absent (w_st w) kn -> Forall ff_hop hs -> late_hist w hs ->
  all_steps (lin_claim_k (lineage (w_st w) kn)) w hs.
Proof. exact lineage_dead_late. Qed.

(* C07H_former_id_presented: a request that runs to completion, at any point of
   such a continuation, presenting any ID of the lineage *)
Theorem C07K_former_id_presented_late_partial :
  forall w kn hs r k,
  LI (w_st w) -> key_drawn (w_st w) kn -> absent (w_st w) kn -> Forall ff_hop hs -> late_hist w hs ->
  rq_plan r = [] -> rq_crash r = None ->
  lineage (w_st w) kn k -> presents (after w hs) r = CKey k ->
  dead_answer (snd (step (after w hs) (HReq r))).
Proof. exact lineage_probe_late. Qed.

(* C07H_lineage_stays *)
Theorem C07K_lineage_stays_late_partial :
  forall w kn hs k,
  LI (w_st w) -> key_drawn (w_st w) kn -> absent (w_st w) kn -> Forall ff_hop hs -> late_hist w hs ->
  lineage (w_st w) kn k ->
  L (w_st (after w hs)) k = None \/
  exists r t, L (w_st (after w hs)) k = Some r /\ r_ref r = Some t /\ lineage (w_st w) kn t.
Proof. exact lineage_stays_late. Qed.

(* C07H_destroyed_former_ids: late crashes before and after the ending request.
   This is C07K_destroyed_statement with the two late_hist hypotheses added. *)
Theorem C07K_destroyed_former_ids_late_partial :
  forall c hs1 r hs2,
  Forall ff_hop hs1 -> late_hist (mkWorld (init_st c) []) hs1 -> rq_plan r = [] -> rq_crash r = None ->
  Forall ff_hop hs2 -> late_hist (fst (step (reach c hs1) (HReq r))) hs2 ->
  ob_script (snd (step (reach c hs1) (HReq r))) <> [] ->
  nth_error (rq_script r) (length (ob_script (snd (step (reach c hs1) (HReq r)))) - 1) = Some SDestroy ->
  exists kn rc, ob_final (snd (step (reach c hs1) (HReq r))) = Some (kn, rc) /\
    key_drawn (w_st (fst (step (reach c hs1) (HReq r)))) kn /\
    absent (w_st (fst (step (reach c hs1) (HReq r)))) kn /\
    all_steps (lin_claim_k (lineage (w_st (fst (step (reach c hs1) (HReq r)))) kn))
              (fst (step (reach c hs1) (HReq r))) hs2.
Proof. exact destroyed_lineage_late. Qed.

(* C07H_invalidated_former_ids likewise *)
Theorem C07K_invalidated_former_ids_late_partial :
  forall c hs1 r hs2 k r0,
  Forall ff_hop hs1 -> late_hist (mkWorld (init_st c) []) hs1 -> rq_plan r = [] -> rq_crash r = None ->
  Forall ff_hop hs2 -> late_hist (fst (step (reach c hs1) (HReq r))) hs2 ->
  presented (reach c hs1) r = CKey k -> L (w_st (reach c hs1)) k = Some r0 ->
  rec_valid (conf (w_st (reach c hs1))) (now (w_st (reach c hs1)))
            (mkReq (presented (reach c hs1) r) (rq_create r) (rq_addr r) (rq_ua r)) r0 = false ->
  key_drawn (w_st (fst (step (reach c hs1) (HReq r)))) k /\
  absent (w_st (fst (step (reach c hs1) (HReq r)))) k /\
  all_steps (lin_claim_k (lineage (w_st (fst (step (reach c hs1) (HReq r)))) k))
            (fst (step (reach c hs1) (HReq r))) hs2.
Proof. exact invalidated_lineage_late. Qed.

(* C07H_ref_fate and C07H_chain_into_lineage: replaced-ID records stay immutable,
   so the lineage taken at the end absorbs every chain that existed earlier *)
Theorem C07K_ref_fate_late_partial :
  forall w hs k j r,
  LI (w_st w) -> L (w_st w) k = Some r -> r_ref r = Some j -> Forall ff_hop hs -> late_hist w hs ->
  LI (w_st (after w hs)) /\ key_drawn (w_st (after w hs)) k /\
  (L (w_st (after w hs)) k = None \/ exists r', L (w_st (after w hs)) k = Some r' /\ r_ref r' = Some j).
Proof. exact ref_fate_late. Qed.

Theorem C07K_chain_into_lineage_late_partial :
  forall w hs kn k m,
  LI (w_st w) -> Forall ff_hop hs -> late_hist w hs ->
  rchain (w_st w) k m -> lineage (w_st (after w hs)) kn m -> lineage (w_st (after w hs)) kn k.
Proof. exact chain_into_lineage_late. Qed.

(* ------------------------------------------------------- a crash anywhere in a step: first conditionally (round 4), then unconditionally *)

Theorem C07K_ev_lin_meaning :
  forall D e, ev_lin D e <->
  match e with EvSave k r true => D k -> exists t, r_ref r = Some t /\ D t | _ => True end.
Proof. exact (fun D e => iff_refl _). Qed.

Definition C07K_events_statement : Prop :=
  forall D w r, LN D (w_st w) -> rq_plan r = [] ->
  Forall (ev_lin D) (ob_evs (snd (step w (HReq (nocrash r))))).

Theorem C07K_events_statement_is : C07K_events_statement <-> events_statement.
Proof. exact (iff_refl _). Qed.

(* the store a crash after n persistence calls leaves: the pre-state store with
   the first n calls of the completed step replayed; cache and clean-ups gone *)
Theorem C07K_crash_store :
  forall w r n, rq_crash r = Some n ->
  cache (w_st (fst (step w (HReq r)))) = [] /\ pending (w_st (fst (step w (HReq r)))) = [] /\
  (supply (w_st w) <= supply (w_st (fst (step w (HReq r)))))%N /\
  store (w_st (fst (step w (HReq r)))) =
    fst (fold_left apply_ev (ev_prefix (ob_evs (snd (step w (HReq (nocrash r))))) n)
                   (store (w_st w), graves (w_st w))).
Proof. exact crash_store. Qed.

Theorem C07K_mid_crash_store_conditional :
  forall D w r n,
  LN D (w_st w) -> rq_crash r = Some n ->
  Forall (ev_lin D) (ob_evs (snd (step w (HReq (nocrash r))))) ->
  pending (w_st (fst (step w (HReq r)))) = [] /\
  forall k, D k ->
    key_drawn (w_st (fst (step w (HReq r)))) k /\
    (L (w_st (fst (step w (HReq r)))) k = None \/
     exists rk t, L (w_st (fst (step w (HReq r)))) k = Some rk /\ r_ref rk = Some t /\ D t).
Proof. exact mid_crash_store. Qed.

Theorem C07K_ev_linb_sound :
  forall ids e, ev_linb ids e = true -> ev_lin (fun k => exists n, k = KGen n /\ In n ids) e.
Proof. exact ev_linb_sound. Qed.

(* ------------------------------------------------------- the events of a step (PROVED)

   K D k r: what may be written under ID k - if k is in D only a replaced-ID
   record naming an ID of D, and any replaced-ID record names a generated ID with
   a larger ordinal than k. EL D e: every save e (successful or not) writes such
   a record under its key. evs_ok D s s': the call from s to s' appended events
   all satisfying EL D (and store/graves of s' are those of s with them replayed). *)
Theorem C07K_K_meaning :
  forall D k r, K D k r <->
  (D k -> exists t, r_ref r = Some t /\ D t) /\
  (forall x, r_ref r = Some x -> exists m, x = KGen m /\ forall j, k = KGen j -> (j < m)%N).
Proof. exact (fun D k r => iff_refl _). Qed.

Theorem C07K_EL_meaning : forall D e, EL D e <-> match e with EvSave k r _ => K D k r | _ => True end.
Proof. exact (fun D e => iff_refl _). Qed.

Theorem C07K_evs_ok_meaning :
  forall D s s', evs_ok D s s' <-> exists l, CrashFault.ext s s' l /\ Forall (EL D) l.
Proof. exact (fun D s s' => iff_refl _). Qed.

(* operation by operation, from a state satisfying the invariant between
   operations at heap mark b (Gb b (Q1 D): PF's inv b, Kcs, PRs, RWs, Kp, QD - what
   LNb b D gives inside a step; b = 0: G (Q1 D), what LN D gives): Start,
   RegenerateID, LogIn (exclusive or not), LogOut, Destroy and the data operations
   (handler_op), creation, the clean-up pass, LogOut(userID), scripts *)
Theorem C07K_Gb_meaning :
  forall b Q base s, Gb b Q base s <-> inv b base NX ND s /\ Kcs s /\ PRs s /\ Q s.
Proof. exact (fun b Q base s => iff_refl _). Qed.

Theorem C07K_events_start :
  forall b D base s q, Gb b (Q1 D) base s -> evs_ok D s (fst (fst (start s q))).
Proof. exact E_start. Qed.

Theorem C07K_events_regenerate :
  forall b D base s o s' res cks, Gb b (Q1 D) base s -> hg s o -> regenerate s o = (s', res, cks) -> evs_ok D s s'.
Proof. exact E_regenerate. Qed.

Theorem C07K_events_login :
  forall b D base s o u ex, Gb b (Q1 D) base s -> b <= o -> hg s o -> evs_ok D s (fst (fst (login s o u ex))).
Proof. exact E_login. Qed.

Theorem C07K_events_logout :
  forall b D base s o, Gb b (Q1 D) base s -> hg s o -> evs_ok D s (fst (logout s o)).
Proof. exact E_logout. Qed.

Theorem C07K_events_handler_op :
  forall b D base s o hc op, Gb b (Q1 D) base s -> b <= o -> hg s o -> evs_ok D s (fst (fst (do_sop s o hc op))).
Proof. exact E_do_sop. Qed.

Theorem C07K_events_create :
  forall b D base s q s' res cks, Gb b (Q1 D) base s -> create_session s q = (s', res, cks) -> evs_ok D s s'.
Proof. exact E_create. Qed.

Theorem C07K_events_logout_user :
  forall b D base s u s' r, Gb b (Q1 D) base s -> logout_user s u = (s', r) -> evs_ok D s s'.
Proof. exact E_logout_user. Qed.

Theorem C07K_events_refresh_user :
  forall b D base s u s' r, Gb b (Q1 D) base s -> refresh_user s u = (s', r) -> evs_ok D s s'.
Proof. exact E_refresh_user. Qed.

Theorem C07K_events_fire_due : forall D s, evs_ok D s (fire_due s).
Proof. exact E_fire_due. Qed.

Theorem C07K_events_script :
  forall b D base hc ops s o, Gb b (Q1 D) base s -> b <= o -> hg s o -> evs_ok D s (fst (fst (run_script s o hc ops))).
Proof. exact E_run_script. Qed.

(* whole request steps, from the invariant between steps at any heap mark *)
Theorem C07K_events_step :
  forall b D w r, LNb b D (w_st w) -> rq_plan r = [] -> Forall (EL D) (ob_evs (snd (step w (HReq (nocrash r))))).
Proof. exact step_events. Qed.

Theorem C07K_events : C07K_events_statement.
Proof. exact events_proved. Qed.

(* hence C07K_mid_crash_store_conditional without its condition: a crash after ANY
   number of persistence calls of a fault-free request step *)
Theorem C07K_mid_crash_store :
  forall D w r n,
  LN D (w_st w) -> rq_plan r = [] -> rq_crash r = Some n ->
  pending (w_st (fst (step w (HReq r)))) = [] /\
  forall k, D k ->
    key_drawn (w_st (fst (step w (HReq r)))) k /\
    (L (w_st (fst (step w (HReq r)))) k = None \/
     exists rk t, L (w_st (fst (step w (HReq r)))) k = Some rk /\ r_ref rk = Some t /\ D t).
Proof. exact mid_crash_store_any. Qed.

(* ------------------------------------------------------- every fault-free history (PROVED)

   LIb b / LNb b D: LI / LN D with PF's winv at heap mark b; LIx / LNx D: for some b. *)
Theorem C07K_LNb_meaning :
  forall b D s, LNb b D s <->
  winv b ND s /\ Kcs s /\ PRs s /\ (RWs s /\ Kp s) /\
  forall k, D k -> kd (supply s) k /\ (sref s k = None \/ exists t, sref s k = Some (Some t) /\ D t).
Proof. exact (fun b D s => iff_refl _). Qed.

Theorem C07K_LIb_meaning : forall b s, LIb b s <-> winv b ND s /\ Kcs s /\ PRs s /\ RWs s /\ Kp s.
Proof. exact (fun b s => iff_refl _). Qed.

Theorem C07K_LN_is_LNb0 : forall D s, LN D s <-> LNb 0 D s.
Proof. exact (fun D s => iff_refl _). Qed.

Theorem C07K_LNx_meaning : forall D s, LNx D s <-> exists b, LNb b D s.
Proof. exact (fun D s => iff_refl _). Qed.

Theorem C07K_LIx_meaning : forall s, LIx s <-> exists b, LIb b s.
Proof. exact (fun s => iff_refl _). Qed.

(* a process stop after ANY number n of persistence calls of a fault-free request
   step keeps the lineage invariant, with a new heap mark *)
Theorem C07K_crash_inv :
  forall D b w r n, LNb b D (w_st w) -> rq_plan r = [] -> rq_crash r = Some n ->
  exists b', LNb b' D (w_st (fst (step w (HReq r)))).
Proof. exact crash_LNb. Qed.

(* ... and shows nothing *)
Theorem C07K_crash_obs :
  forall w r n, rq_crash r = Some n ->
  crashed_obs (snd (step w (HReq r))) /\
  ob_start (snd (step w (HReq r))) = None /\ ob_final (snd (step w (HReq r))) = None.
Proof. exact crash_obs. Qed.

(* every fault-free step of every hop kind, crashing anywhere or not *)
Theorem C07K_inv_step : forall D w h, LNx D (w_st w) -> ff_hop h -> LNx D (w_st (fst (step w h))).
Proof. exact LNx_step. Qed.

Theorem C07K_LIx_step : forall w h, LIx (w_st w) -> ff_hop h -> LIx (w_st (fst (step w h))).
Proof. exact LIx_step. Qed.

Theorem C07K_LIx_reach : forall c hs, Forall ff_hop hs -> LIx (w_st (reach c hs)).
Proof. exact LIx_reach. Qed.

Theorem C07K_step : forall D w h, LNx D (w_st w) -> ff_hop h -> lin_claim_k D w h (snd (step w h)).
Proof. exact step_lin_any. Qed.

(* the content of lin_claim_k's crash clause: the request run to completion
   (nocrash r), presenting an ID of D, gets a dead answer *)
Theorem C07K_dead_answer_completed :
  forall D w r k, LNx D (w_st w) -> rq_plan r = [] -> presents w r = CKey k -> D k ->
  dead_answer (snd (step w (HReq (nocrash r)))).
Proof. exact dead_answer_completed. Qed.

(* C07H_lineage_dead, C07H_former_id_presented, C07H_lineage_stays without crash_free *)
Theorem C07K_lineage_dead :
  forall w kn hs,
  LIx (w_st w) -> key_drawn (w_st w) kn -> absent (w_st w) kn -> Forall ff_hop hs ->
  all_steps (lin_claim_k (lineage (w_st w) kn)) w hs.
Proof. exact lineage_dead_any. Qed.

Theorem C07K_former_id_presented :
  forall w kn hs r k,
  LIx (w_st w) -> key_drawn (w_st w) kn -> absent (w_st w) kn -> Forall ff_hop hs ->
  rq_plan r = [] -> rq_crash r = None ->
  lineage (w_st w) kn k -> presents (after w hs) r = CKey k ->
  dead_answer (snd (step (after w hs) (HReq r))).
Proof. exact lineage_probe_any. Qed.

Theorem C07K_lineage_stays :
  forall w kn hs k,
  LIx (w_st w) -> key_drawn (w_st w) kn -> absent (w_st w) kn -> Forall ff_hop hs ->
  lineage (w_st w) kn k ->
  L (w_st (after w hs)) k = None \/
  exists r t, L (w_st (after w hs)) k = Some r /\ r_ref r = Some t /\ lineage (w_st w) kn t.
Proof. exact lineage_stays_any. Qed.

(* the full statements *)
Theorem C07K_destroyed : C07K_destroyed_statement.
Proof. exact destroyed_lineage_any. Qed.

Theorem C07K_invalidated : C07K_invalidated_statement.
Proof. exact invalidated_lineage_any. Qed.

Theorem C07K_stays : C07K_stays_statement.
Proof. exact stays_any. Qed.

(* What C07K does NOT cover: the orphan copy. In the history lo_h1 (LineageKEx.v)
   the process stops between the two saves of Start's RegenerateID (ID 2 saved as a
   full copy, the replaced-ID record under ID 1 not written, response not sent);
   the client carries on with ID 1, its next request moves the session to ID 3 and
   destroys it. After a restart a request forging ID 2 obtains a session with the
   user and the data, and ID 2 is not in the lineage of the ended ID 3. *)
Theorem C07K_orphan_outside_lineage :
  (exists rc, ob_res (snd (step (after lo_w1 [HRestart]) (lx_forge 2 false))) = RSess /\
              ob_start (snd (step (after lo_w1 [HRestart]) (lx_forge 2 false))) = Some (KGen 2, rc) /\
              r_ref rc = None /\ r_user rc = Some (5, 0)%N /\ r_data rc = Some [(1, 2)%N]) /\
  ~ lineage (w_st lo_w1) (KGen 3) (KGen 2) /\
  ~ lineage (w_st (after lo_w1 [HRestart])) (KGen 3) (KGen 2).
Proof. exact lk_orphan_outside_lineage. Qed.

(* the executable form of dead_answer used by the tests is sound *)
Theorem C07K_dead_answerb_sound : forall o, dead_answerb o = true -> dead_answer o.
Proof. exact dead_answerb_sound. Qed.

Print Assumptions C07K_is_call_meaning.
Print Assumptions C07K_nocrash_meaning.
Print Assumptions C07K_is_read_meaning.
Print Assumptions C07K_dropped_meaning.
Print Assumptions C07K_dropped_beyond.
Print Assumptions C07K_late_crash_meaning.
Print Assumptions C07K_late_crash_beyond.
Print Assumptions C07K_late_crash_reads.
Print Assumptions C07K_late_hist_meaning.
Print Assumptions C07K_crash_free_is_late.
Print Assumptions C07K_crashed_obs_meaning.
Print Assumptions C07K_lin_claim_k_meaning.
Print Assumptions C07K_lin_claim_k_crash_free.
Print Assumptions C07K_late_step.
Print Assumptions C07K_LI_step_late_partial.
Print Assumptions C07K_inv_step_late_partial.
Print Assumptions C07K_step_late_partial.
Print Assumptions C07K_lineage_dead_late_partial.
Print Assumptions C07K_former_id_presented_late_partial.
Print Assumptions C07K_lineage_stays_late_partial.
Print Assumptions C07K_destroyed_former_ids_late_partial.
Print Assumptions C07K_invalidated_former_ids_late_partial.
Print Assumptions C07K_ref_fate_late_partial.
Print Assumptions C07K_chain_into_lineage_late_partial.
Print Assumptions C07K_ev_lin_meaning.
Print Assumptions C07K_events_statement_is.
Print Assumptions C07K_crash_store.
Print Assumptions C07K_mid_crash_store_conditional.
Print Assumptions C07K_ev_linb_sound.
Print Assumptions C07K_K_meaning.
Print Assumptions C07K_EL_meaning.
Print Assumptions C07K_evs_ok_meaning.
Print Assumptions C07K_Gb_meaning.
Print Assumptions C07K_events_start.
Print Assumptions C07K_events_regenerate.
Print Assumptions C07K_events_login.
Print Assumptions C07K_events_logout.
Print Assumptions C07K_events_handler_op.
Print Assumptions C07K_events_create.
Print Assumptions C07K_events_logout_user.
Print Assumptions C07K_events_refresh_user.
Print Assumptions C07K_events_fire_due.
Print Assumptions C07K_events_script.
Print Assumptions C07K_events_step.
Print Assumptions C07K_events.
Print Assumptions C07K_mid_crash_store.
Print Assumptions C07K_LNb_meaning.
Print Assumptions C07K_LIb_meaning.
Print Assumptions C07K_LN_is_LNb0.
Print Assumptions C07K_LNx_meaning.
Print Assumptions C07K_LIx_meaning.
Print Assumptions C07K_crash_inv.
Print Assumptions C07K_crash_obs.
Print Assumptions C07K_inv_step.
Print Assumptions C07K_LIx_step.
Print Assumptions C07K_LIx_reach.
Print Assumptions C07K_step.
Print Assumptions C07K_dead_answer_completed.
Print Assumptions C07K_orphan_outside_lineage.
Print Assumptions C07K_lineage_dead.
Print Assumptions C07K_former_id_presented.
Print Assumptions C07K_lineage_stays.
Print Assumptions C07K_destroyed.
Print Assumptions C07K_invalidated.
Print Assumptions C07K_stays.
Print Assumptions C07K_dead_answerb_sound.
(* non-vacuity (Proofs/LineageKEx.v): late crashes of a step with three ID changes
   (behind its last call) and of a step presenting a former ID (at its very
   beginning), cache loss, a wait beyond the grace period *)
Print Assumptions lk_calls.
Print Assumptions lk_reads.
Print Assumptions lk_late.
Print Assumptions lk_not_crash_free.
Print Assumptions lk_answers.
Print Assumptions lk_pending_lost.
Print Assumptions lk_theorem.
Print Assumptions lk_probe.
Print Assumptions lk_stays.
Print Assumptions lk_late3.
Print Assumptions lk_invalidated.
(* tests of the full statement at crash points inside steps (computed, no general claim) *)
Print Assumptions lk_mid_other.
Print Assumptions lk_mid_former.
Print Assumptions lk_mid_live.
Print Assumptions lk_mid_twice.
Print Assumptions lk_small_base.
Print Assumptions lk_mid_small_other.
Print Assumptions lk_mid_small_former.
Print Assumptions lk_mid_small_live.
Print Assumptions lk_mid_sizes.
Print Assumptions lk_mid_backstop.
Print Assumptions lk_mid_invalid.
Print Assumptions lk_mid_mix.
Print Assumptions lk_mid_small_mix.
Print Assumptions lk_mid_sizes2.
(* the conditional theorem applied: any crash point of a step with three ID changes *)
Print Assumptions lk_D_LN.
Print Assumptions lk_events_ok.
Print Assumptions lk_mid_theorem.
(* the full theorem applied: crashes that cut off saves (between the two saves of
   RegenerateID; after the first calls of a step that creates a session) *)
Print Assumptions lk_h4_not_late.
Print Assumptions lk_any_theorem.
Print Assumptions lk_any_answers.
(* a crash BEFORE the ending request, in the ended session itself (between the two
   saves of RegenerateID): C07K_destroyed with the crashing hop in hs1; the orphan *)
Print Assumptions lo_life.
Print Assumptions lo_ff1.
Print Assumptions lo_lineage.
Print Assumptions lo_theorem.
Print Assumptions lo_answers.
Print Assumptions lk_orphan_outside_lineage.
