(* C07 for every former ID, with the process stopping inside steps of the
   continuation (round 4, task R4a). Statements only; proofs are in
   Proofs/LineageK.v, LineageK2.v, LineageK3.v, non-vacuity and tests in
   Proofs/LineageKEx.v. They extend Properties/C07H.v (read its header for
   lineage, L, absent, presents, dead_answer, lin_obs, all_steps, LI, LN, rchain).

   C07H covers fault-free, CRASH-FREE histories (cache loss HDropCache and restarts
   HRestart included); C07_stays_dead covers crashes but only the ended ID itself.

   FULL STATEMENT (C07K_destroyed_statement, C07K_invalidated_statement,
   C07K_stays_statement below): the lineage theorems for every fault-free
   history, i.e. with rq_crash r = Some n for ANY n in any request step before
   and after the ending request. NOT PROVED. Tested by computation at every crash
   point of 10 kinds of steps, twice in a row, two cache sizes (Proofs/LineageKEx.v,
   the lk_mid examples): no counterexample.

   PROVED (the _late theorems): the same for histories whose crashes are LATE:
   the process stops inside a request step after the step's last WRITE: every
   event that the crash point rq_crash r = Some n cuts off is a read (a load of a
   record or of a user's list of sessions). In particular (C07K_late_crash_beyond)
   every n greater than the number of persistence calls the step makes, and
   (C07K_late_crash_reads) EVERY n in a step that only reads, such as a request
   that presents a former ID and is refused. Everything the step wrote is in the
   store; the response is not sent (the client's jar is unchanged, nothing is
   observed); the cache, the handler's objects and ALL PENDING CLEAN-UPS are lost
   - so replaced-ID records of the lineage may now outlive their grace period in
   the store; they still answer nothing but ERefMissing / EExpiredID / a fresh
   session. Crash-free histories are a special case (C07K_crash_free_is_late), so
   these theorems subsume the corresponding ones of C07H.

   WHAT IS MISSING for a crash that cuts off writes (or draws): Hist.step then
   leaves the pre-state store with the first n persistence calls of the step
   replayed and the ID supply rolled back to the draws among them. (1) The
   invariants LI / LN are proved (Proofs/HistLift3.v, Section Rider) for the
   states BETWEEN API operations; a theorem about the store between two
   persistence calls of one operation (e.g. between the two saves of
   RegenerateID) needs the lifting redone at the granularity of persistence
   calls: every save of a step writes, under an ID of the lineage, only a
   replaced-ID record naming an ID of the lineage. (2) LI / LN contain PF's winv
   with heap mark 0 (every heap object carries a drawn ID), which is false after
   a mid-step crash (C07_fresh_heap_clause_crash_refuted: objects of the lost
   process stay in the model's heap with IDs that were rolled back); the lifting
   of HistLift3.v would have to be redone for an arbitrary heap mark, as
   HistInv.v..HistInv3.v are. Neither clause of the statement is known or
   suspected to be false.

   Towards (1), PROVED CONDITIONALLY (C07K_mid_crash_store_conditional): for a
   crash after ANY number of persistence calls, IF every persistence call of the
   step respects the lineage (ev_lin D: a successful save under an ID of D writes
   a replaced-ID record naming an ID of D) THEN right after the crash every ID of
   D is drawn and resolves to nothing or to a replaced-ID record naming an ID of
   D. The hypothesis for every step from a state satisfying LN D is
   C07K_events_statement (not proved; it holds, by computation, of every step
   used in the tests: lk_events_ok). *)
From Sessions Require Import Model.Base Model.Sess Model.Hist Model.Corr Proofs.SessDefs
  Proofs.HistInv Proofs.HistInv2 Proofs.HistInv3 Proofs.HistLift Proofs.HistLift3 Proofs.HistLift4
  Proofs.IsoLaws Proofs.DeadLaws Proofs.C01Spec
  Proofs.Lineage Proofs.Lineage2 Proofs.Lineage3 Proofs.Lineage4 Proofs.Lineage5 Proofs.Lineage6
  Proofs.LineageK Proofs.LineageK2 Proofs.LineageK3 Proofs.LineageK4 Proofs.LineageKEx.

(* ------------------------------------------------------- the notions, unfolded *)

(* a persistence call: every logged event except the drawing of an ID *)
Theorem C07K_is_call_meaning : forall e, is_call e = match e with EvDraw _ => false | _ => true end.
Proof. reflexivity. Qed.

(* nocrash r is r run to completion *)
Theorem C07K_nocrash_meaning :
  forall r, nocrash r =
  mkReqStep (rq_client r) (rq_present r) (rq_create r) (rq_addr r) (rq_ua r) (rq_script r) (rq_tb r) (rq_plan r) None.
Proof. reflexivity. Qed.

Theorem C07K_is_read_meaning :
  forall e, is_read e = match e with EvLoad _ _ | EvLoadUser _ _ | EvUserSessions _ _ => true | _ => false end.
Proof. reflexivity. Qed.

(* dropped l n: the events of the log l (oldest first) that a stop after n
   persistence calls cuts off; ev_prefix l n (Model/Hist.v) is what is replayed *)
Theorem C07K_dropped_meaning : forall l n, l = ev_prefix l n ++ dropped l n.
Proof. exact dropped_meaning. Qed.

Theorem C07K_dropped_beyond : forall l n, length (filter is_call l) < n -> dropped l n = [].
Proof. exact dropped_beyond. Qed.

(* a hop's crash, if it has one, is late in world w: everything it cuts off from
   the events of the same request run to completion is a read *)
Theorem C07K_late_crash_meaning :
  forall w h, late_crash w h <->
  forall r n, h = HReq r -> rq_crash r = Some n ->
    forallb is_read (dropped (ob_evs (snd (step w (HReq (nocrash r))))) n) = true.
Proof. exact late_crash_meaning. Qed.

Theorem C07K_late_crash_beyond :
  forall w r n, rq_crash r = Some n ->
  length (filter is_call (ob_evs (snd (step w (HReq (nocrash r)))))) < n -> late_crash w (HReq r).
Proof. exact late_crash_beyond. Qed.

Theorem C07K_late_crash_reads :
  forall w r, forallb is_read (ob_evs (snd (step w (HReq (nocrash r))))) = true -> late_crash w (HReq r).
Proof. exact late_crash_reads. Qed.

Theorem C07K_late_hist_meaning :
  forall hs w, late_hist w hs <-> forall hs1 h hs2, hs = hs1 ++ h :: hs2 -> late_crash (after w hs1) h.
Proof. exact late_hist_meaning. Qed.

Theorem C07K_crash_free_is_late : forall hs w, Forall crash_free hs -> late_hist w hs.
Proof. exact crash_free_late_hist. Qed.

(* what a step shows in which the process stopped *)
Theorem C07K_crashed_obs_meaning :
  forall o, crashed_obs o <->
  ob_res o = RCrashed /\ ob_start o = None /\ ob_final o = None /\ ob_cookies o = [] /\ ob_script o = [].
Proof. exact crashed_obs_meaning. Qed.

(* lin_claim of C07H with the crash case *)
Theorem C07K_lin_claim_k_meaning :
  forall D w h o, lin_claim_k D w h o <->
  lin_obs D o /\
  forall r k, h = HReq r -> presents w r = CKey k -> D k ->
    match rq_crash r with None => dead_answer o | Some _ => crashed_obs o end.
Proof. exact lin_claim_k_meaning. Qed.

Theorem C07K_lin_claim_k_crash_free :
  forall D w h o, crash_free h -> (lin_claim_k D w h o <-> lin_claim D w h o).
Proof. exact lin_claim_k_free. Qed.

(* What a late crash leaves (the model's crash branch, computed): the state of
   the completed step with cache and pending clean-ups dropped (restart) and some
   event log es (which nothing reads: every step starts by emptying it), the same
   store and ID supply, the jars of before the step, an empty observation. *)
Theorem C07K_late_step :
  forall w r n, rq_crash r = Some n -> late_crash w (HReq r) ->
  (exists es, w_st (fst (step w (HReq r))) = set_evs (restart (w_st (fst (step w (HReq (nocrash r)))))) es) /\
  w_jars (fst (step w (HReq r))) = w_jars w /\
  crashed_obs (snd (step w (HReq r))) /\
  ob_store (snd (step w (HReq r))) = ob_store (snd (step w (HReq (nocrash r)))) /\
  ob_cache (snd (step w (HReq r))) = [] /\
  ob_drawn (snd (step w (HReq r))) = ob_drawn (snd (step w (HReq (nocrash r)))).
Proof. exact late_step_meaning. Qed.

(* ------------------------------------------------------- the full statements (not proved) *)

Definition C07K_destroyed_statement : Prop :=
  forall c hs1 r hs2,
  Forall ff_hop hs1 -> rq_plan r = [] -> rq_crash r = None -> Forall ff_hop hs2 ->
  ob_script (snd (step (reach c hs1) (HReq r))) <> [] ->
  nth_error (rq_script r) (length (ob_script (snd (step (reach c hs1) (HReq r)))) - 1) = Some SDestroy ->
  exists kn rc, ob_final (snd (step (reach c hs1) (HReq r))) = Some (kn, rc) /\
    key_drawn (w_st (fst (step (reach c hs1) (HReq r)))) kn /\
    absent (w_st (fst (step (reach c hs1) (HReq r)))) kn /\
    all_steps (lin_claim_k (lineage (w_st (fst (step (reach c hs1) (HReq r)))) kn))
              (fst (step (reach c hs1) (HReq r))) hs2.

Definition C07K_invalidated_statement : Prop :=
  forall c hs1 r hs2 k r0,
  Forall ff_hop hs1 -> rq_plan r = [] -> rq_crash r = None -> Forall ff_hop hs2 ->
  presented (reach c hs1) r = CKey k -> L (w_st (reach c hs1)) k = Some r0 ->
  rec_valid (conf (w_st (reach c hs1))) (now (w_st (reach c hs1)))
            (mkReq (presented (reach c hs1) r) (rq_create r) (rq_addr r) (rq_ua r)) r0 = false ->
  key_drawn (w_st (fst (step (reach c hs1) (HReq r)))) k /\
  absent (w_st (fst (step (reach c hs1) (HReq r)))) k /\
  all_steps (lin_claim_k (lineage (w_st (fst (step (reach c hs1) (HReq r)))) k))
            (fst (step (reach c hs1) (HReq r))) hs2.

Definition C07K_stays_statement : Prop :=
  forall c hs1 kn hs2 k,
  Forall ff_hop hs1 -> key_drawn (w_st (reach c hs1)) kn -> absent (w_st (reach c hs1)) kn -> Forall ff_hop hs2 ->
  lineage (w_st (reach c hs1)) kn k ->
  L (w_st (after (reach c hs1) hs2)) k = None \/
  exists r t, L (w_st (after (reach c hs1) hs2)) k = Some r /\ r_ref r = Some t /\ lineage (w_st (reach c hs1)) kn t.

(* ------------------------------------------------------- the theorems: late crashes *)

(* The invariants of C05H (LI) and C07H (LN D, any set D of IDs) are kept by every
   fault-free step whose crash, if any, is late. *)
Theorem C07K_LI_step_late_partial :
  forall w h, LI (w_st w) -> ff_hop h -> late_crash w h -> LI (w_st (fst (step w h))).
Proof. exact LI_step_late. Qed.

Theorem C07K_inv_step_late_partial :
  forall D w h, LN D (w_st w) -> ff_hop h -> late_crash w h -> LN D (w_st (fst (step w h))).
Proof. exact LN_step_late. Qed.

(* ... and every such step satisfies lin_claim_k *)
Theorem C07K_step_late_partial :
  forall D w h, LN D (w_st w) -> ff_hop h -> late_crash w h -> lin_claim_k D w h (snd (step w h)).
Proof. exact step_lin_late. Qed.

(* C07H_lineage_dead with late crashes in the continuation *)
Theorem C07K_lineage_dead_late_partial :
  forall w kn hs,
  LI (w_st w) -> key_drawn (w_st w) kn -> absent (w_st w) kn -> Forall ff_hop hs -> late_hist w hs ->
  all_steps (lin_claim_k (lineage (w_st w) kn)) w hs.
Proof. exact lineage_dead_late. Qed.

(* C07H_former_id_presented: a request that runs to completion, at any point of
   such a continuation, presenting any ID of the lineage *)
Theorem C07K_former_id_presented_late_partial :
  forall w kn hs r k,
  LI (w_st w) -> key_drawn (w_st w) kn -> absent (w_st w) kn -> Forall ff_hop hs -> late_hist w hs ->
  rq_plan r = [] -> rq_crash r = None ->
  lineage (w_st w) kn k -> presents (after w hs) r = CKey k ->
  dead_answer (snd (step (after w hs) (HReq r))).
Proof. exact lineage_probe_late. Qed.

(* C07H_lineage_stays *)
Theorem C07K_lineage_stays_late_partial :
  forall w kn hs k,
  LI (w_st w) -> key_drawn (w_st w) kn -> absent (w_st w) kn -> Forall ff_hop hs -> late_hist w hs ->
  lineage (w_st w) kn k ->
  L (w_st (after w hs)) k = None \/
  exists r t, L (w_st (after w hs)) k = Some r /\ r_ref r = Some t /\ lineage (w_st w) kn t.
Proof. exact lineage_stays_late. Qed.

(* C07H_destroyed_former_ids: late crashes before and after the ending request.
   This is C07K_destroyed_statement with the two late_hist hypotheses added. *)
Theorem C07K_destroyed_former_ids_late_partial :
  forall c hs1 r hs2,
  Forall ff_hop hs1 -> late_hist (mkWorld (init_st c) []) hs1 -> rq_plan r = [] -> rq_crash r = None ->
  Forall ff_hop hs2 -> late_hist (fst (step (reach c hs1) (HReq r))) hs2 ->
  ob_script (snd (step (reach c hs1) (HReq r))) <> [] ->
  nth_error (rq_script r) (length (ob_script (snd (step (reach c hs1) (HReq r)))) - 1) = Some SDestroy ->
  exists kn rc, ob_final (snd (step (reach c hs1) (HReq r))) = Some (kn, rc) /\
    key_drawn (w_st (fst (step (reach c hs1) (HReq r)))) kn /\
    absent (w_st (fst (step (reach c hs1) (HReq r)))) kn /\
    all_steps (lin_claim_k (lineage (w_st (fst (step (reach c hs1) (HReq r)))) kn))
              (fst (step (reach c hs1) (HReq r))) hs2.
Proof. exact destroyed_lineage_late. Qed.

(* C07H_invalidated_former_ids likewise *)
Theorem C07K_invalidated_former_ids_late_partial :
  forall c hs1 r hs2 k r0,
  Forall ff_hop hs1 -> late_hist (mkWorld (init_st c) []) hs1 -> rq_plan r = [] -> rq_crash r = None ->
  Forall ff_hop hs2 -> late_hist (fst (step (reach c hs1) (HReq r))) hs2 ->
  presented (reach c hs1) r = CKey k -> L (w_st (reach c hs1)) k = Some r0 ->
  rec_valid (conf (w_st (reach c hs1))) (now (w_st (reach c hs1)))
            (mkReq (presented (reach c hs1) r) (rq_create r) (rq_addr r) (rq_ua r)) r0 = false ->
  key_drawn (w_st (fst (step (reach c hs1) (HReq r)))) k /\
  absent (w_st (fst (step (reach c hs1) (HReq r)))) k /\
  all_steps (lin_claim_k (lineage (w_st (fst (step (reach c hs1) (HReq r)))) k))
            (fst (step (reach c hs1) (HReq r))) hs2.
Proof. exact invalidated_lineage_late. Qed.

(* C07H_ref_fate and C07H_chain_into_lineage: replaced-ID records stay immutable,
   so the lineage taken at the end absorbs every chain that existed earlier *)
Theorem C07K_ref_fate_late_partial :
  forall w hs k j r,
  LI (w_st w) -> L (w_st w) k = Some r -> r_ref r = Some j -> Forall ff_hop hs -> late_hist w hs ->
  LI (w_st (after w hs)) /\ key_drawn (w_st (after w hs)) k /\
  (L (w_st (after w hs)) k = None \/ exists r', L (w_st (after w hs)) k = Some r' /\ r_ref r' = Some j).
Proof. exact ref_fate_late. Qed.

Theorem C07K_chain_into_lineage_late_partial :
  forall w hs kn k m,
  LI (w_st w) -> Forall ff_hop hs -> late_hist w hs ->
  rchain (w_st w) k m -> lineage (w_st (after w hs)) kn m -> lineage (w_st (after w hs)) kn k.
Proof. exact chain_into_lineage_late. Qed.

(* ------------------------------------------------------- a crash anywhere in a step: conditional *)

Theorem C07K_ev_lin_meaning :
  forall D e, ev_lin D e <->
  match e with EvSave k r true => D k -> exists t, r_ref r = Some t /\ D t | _ => True end.
Proof. exact (fun D e => iff_refl _). Qed.

Definition C07K_events_statement : Prop :=
  forall D w r, LN D (w_st w) -> rq_plan r = [] ->
  Forall (ev_lin D) (ob_evs (snd (step w (HReq (nocrash r))))).

Theorem C07K_events_statement_is : C07K_events_statement <-> events_statement.
Proof. exact (iff_refl _). Qed.

(* the store a crash after n persistence calls leaves: the pre-state store with
   the first n calls of the completed step replayed; cache and clean-ups gone *)
Theorem C07K_crash_store :
  forall w r n, rq_crash r = Some n ->
  cache (w_st (fst (step w (HReq r)))) = [] /\ pending (w_st (fst (step w (HReq r)))) = [] /\
  (supply (w_st w) <= supply (w_st (fst (step w (HReq r)))))%N /\
  store (w_st (fst (step w (HReq r)))) =
    fst (fold_left apply_ev (ev_prefix (ob_evs (snd (step w (HReq (nocrash r))))) n)
                   (store (w_st w), graves (w_st w))).
Proof. exact crash_store. Qed.

Theorem C07K_mid_crash_store_conditional :
  forall D w r n,
  LN D (w_st w) -> rq_crash r = Some n ->
  Forall (ev_lin D) (ob_evs (snd (step w (HReq (nocrash r))))) ->
  pending (w_st (fst (step w (HReq r)))) = [] /\
  forall k, D k ->
    key_drawn (w_st (fst (step w (HReq r)))) k /\
    (L (w_st (fst (step w (HReq r)))) k = None \/
     exists rk t, L (w_st (fst (step w (HReq r)))) k = Some rk /\ r_ref rk = Some t /\ D t).
Proof. exact mid_crash_store. Qed.

Theorem C07K_ev_linb_sound :
  forall ids e, ev_linb ids e = true -> ev_lin (fun k => exists n, k = KGen n /\ In n ids) e.
Proof. exact ev_linb_sound. Qed.

(* the executable form of dead_answer used by the tests is sound *)
Theorem C07K_dead_answerb_sound : forall o, dead_answerb o = true -> dead_answer o.
Proof. exact dead_answerb_sound. Qed.

Print Assumptions C07K_is_call_meaning.
Print Assumptions C07K_nocrash_meaning.
Print Assumptions C07K_is_read_meaning.
Print Assumptions C07K_dropped_meaning.
Print Assumptions C07K_dropped_beyond.
Print Assumptions C07K_late_crash_meaning.
Print Assumptions C07K_late_crash_beyond.
Print Assumptions C07K_late_crash_reads.
Print Assumptions C07K_late_hist_meaning.
Print Assumptions C07K_crash_free_is_late.
Print Assumptions C07K_crashed_obs_meaning.
Print Assumptions C07K_lin_claim_k_meaning.
Print Assumptions C07K_lin_claim_k_crash_free.
Print Assumptions C07K_late_step.
Print Assumptions C07K_LI_step_late_partial.
Print Assumptions C07K_inv_step_late_partial.
Print Assumptions C07K_step_late_partial.
Print Assumptions C07K_lineage_dead_late_partial.
Print Assumptions C07K_former_id_presented_late_partial.
Print Assumptions C07K_lineage_stays_late_partial.
Print Assumptions C07K_destroyed_former_ids_late_partial.
Print Assumptions C07K_invalidated_former_ids_late_partial.
Print Assumptions C07K_ref_fate_late_partial.
Print Assumptions C07K_chain_into_lineage_late_partial.
Print Assumptions C07K_ev_lin_meaning.
Print Assumptions C07K_events_statement_is.
Print Assumptions C07K_crash_store.
Print Assumptions C07K_mid_crash_store_conditional.
Print Assumptions C07K_ev_linb_sound.
Print Assumptions C07K_dead_answerb_sound.
(* non-vacuity (Proofs/LineageKEx.v): late crashes of a step with three ID changes
   (behind its last call) and of a step presenting a former ID (at its very
   beginning), cache loss, a wait beyond the grace period *)
Print Assumptions lk_calls.
Print Assumptions lk_reads.
Print Assumptions lk_late.
Print Assumptions lk_not_crash_free.
Print Assumptions lk_answers.
Print Assumptions lk_pending_lost.
Print Assumptions lk_theorem.
Print Assumptions lk_probe.
Print Assumptions lk_stays.
Print Assumptions lk_late3.
Print Assumptions lk_invalidated.
(* tests of the full statement at crash points inside steps (computed, no general claim) *)
Print Assumptions lk_mid_other.
Print Assumptions lk_mid_former.
Print Assumptions lk_mid_live.
Print Assumptions lk_mid_twice.
Print Assumptions lk_small_base.
Print Assumptions lk_mid_small_other.
Print Assumptions lk_mid_small_former.
Print Assumptions lk_mid_small_live.
Print Assumptions lk_mid_sizes.
Print Assumptions lk_mid_backstop.
Print Assumptions lk_mid_invalid.
Print Assumptions lk_mid_mix.
Print Assumptions lk_mid_small_mix.
Print Assumptions lk_mid_sizes2.
(* the conditional theorem applied: any crash point of a step with three ID changes *)
Print Assumptions lk_D_LN.
Print Assumptions lk_events_ok.
Print Assumptions lk_mid_theorem.
