(* C09 — acknowledged changes are already stored; cache loss costs only the
   bookkeeping of the latest request. Statements only; proofs are in
   Proofs/WriteThrough.v … WriteThrough5.v. All theorems are about fault-free
   execution of the model of session.go + cache.go (Model/Sess.v, Model/Hist.v),
   for every configuration (every cache size including 0 and negative, both
   codecs), every tie-break list, every state satisfying the invariant.

   WT s     = cache_ok s /\ wt_ok s /\ store_norm s /\ NoDup (cache keys) /\ drawn_ok s
   Held s o = object o is the cached object for its ID, or its ID is not cached
              and the stored record agrees with it on `durable` (after `codec`)
   Stored s o = the stored record under o's ID agrees with o on `durable`. *)
From Sessions Require Import Model.Base Model.Sess Model.Hist Proofs.SessDefs
  Proofs.WriteThrough Proofs.WriteThrough2 Proofs.WriteThrough3 Proofs.WriteThrough4
  Proofs.WriteThrough5.

(* --- C09_ack: each acknowledged change re-establishes WT /\ Held, and the
   store has the change. acked op r = true: op is Set, Delete, LogIn, LogOut or
   RegenerateID and r = SOk, or op is GetAndDelete and r = SVal (Some v)
   (GetAndDelete has no error result: returning a value is its acknowledgement). *)

Theorem C09_ack_sop :
  forall s o hc op s' r cks,
    WT s -> plan s = [] -> Held s o -> acked op r = true ->
    do_sop s o hc op = (s', r, cks) ->
    WT s' /\ plan s' = [] /\ Held s' o /\ Stored s' o.
Proof. exact ack_sop. Qed.

(* the same for the calls with an error result, as it was stated before
   GetAndDelete wrote through *)
Theorem C09_ack_sop_ok :
  forall s o hc op s' cks,
    WT s -> plan s = [] -> Held s o -> changing op = true ->
    do_sop s o hc op = (s', SOk, cks) ->
    WT s' /\ plan s' = [] /\ Held s' o /\ Stored s' o.
Proof. exact ack_sop_ok. Qed.

Theorem C09_ack_start :
  forall s q s' o cks,
    WT s -> plan s = [] -> start s q = (s', Ok (Some o), cks) ->
    WT s' /\ plan s' = [] /\ Held s' o /\ Stored s' o.
Proof. exact ack_start. Qed.

Theorem C09_ack_create :
  forall s q, WT s -> plan s = [] ->
    exists s' o ob, create_session s q = (s', Ok (Some o), [CkLive (KGen (supply s))]) /\
      WT s' /\ plan s' = [] /\ Held s' o /\ Stored s' o /\
      hget s' o = Some ob /\ o_id ob = KGen (supply s) /\
      r_data (o_rec ob) = Some [] /\ r_user (o_rec ob) = None.
Proof. exact ack_create. Qed.

Theorem C09_ack_user_wide :
  forall s, WT s -> plan s = [] ->
    (forall u, exists s', logout_user s u = (s', Ok tt) /\ WT s' /\ plan s' = []) /\
    (forall u, exists s', refresh_user s u = (s', Ok tt) /\ WT s' /\ plan s' = []).
Proof. exact ack_user_wide. Qed.

Theorem C09_ack_set_value :
  forall s o hc k v s' cks,
    WT s -> plan s = [] -> Held s o -> do_sop s o hc (SSet k v) = (s', SOk, cks) ->
    exists ob r d, hget s' o = Some ob /\ lookup (store s') (o_id ob) = Some r /\
                   r_data r = Some d /\ r_data (o_rec ob) = Some d /\ kv_get d k = Some v.
Proof. exact ack_set_value. Qed.

(* --- C09_ack_getdel: a GetAndDelete that returned a value has removed the
   key from the object and from the stored record (d0: the data before). *)

Theorem C09_ack_getdel :
  forall s o hc k v s' cks,
    WT s -> plan s = [] -> Held s o ->
    do_sop s o hc (SGetDel k) = (s', SVal (Some v), cks) ->
    exists ob r d0, hget s' o = Some ob /\ lookup (store s') (o_id ob) = Some r /\
                    data_of s o = Some d0 /\ kv_get d0 k = Some v /\
                    r_data r = Some (kv_del d0 k) /\ r_data (o_rec ob) = Some (kv_del d0 k) /\
                    (NoDup (map fst d0) -> kv_get (kv_del d0 k) k = None).
Proof. exact ack_getdel. Qed.

(* Set 1:=2; GetAndDelete 1; cache loss; Get 1: the value stays gone. *)
Theorem C09_getdel_value_gone :
  map ob_script (run cfgA histA) = [[SOk]; [SVal (Some 2%N)]; []; [SVal None]].
Proof. exact getdel_value_gone. Qed.

(* the acknowledgement property with GetAndDelete among the changing calls:
   every mutating call that returns neither error nor panic leaves the session
   stored *)
Definition C09_ack_statement : Prop := ack_statement_full.

Theorem C09_ack_statement_holds : C09_ack_statement.
Proof. exact ack_full. Qed.

(* --- C09_wt: WT after every step of every fault-free, crash-free history
   without a change of codec (scripts are unrestricted: GetAndDelete included). *)

Theorem C09_wt_step :
  forall w h,
    WT (w_st w) -> plan (w_st w) = [] -> wf_hop (c_json (conf (w_st w))) h = true ->
    WT (w_st (fst (step w h))) /\ plan (w_st (fst (step w h))) = [] /\
    c_json (conf (w_st (fst (step w h)))) = c_json (conf (w_st w)).
Proof. exact wt_step. Qed.

Theorem C09_wt :
  forall c h, wf_hist c h = true ->
    Forall (fun s => WT s /\ plan s = []) (states_from (mkWorld (init_st c) []) h).
Proof. exact wt_history. Qed.

(* --- C09_loss: dropping the cache costs only access time, peer, agent. *)

Theorem C09_loss :
  forall s, WT s -> forall k,
    option_map durable (L (set_cache s []) k) =
    option_map (fun r => durable (codec (conf s) r)) (L s k).
Proof. exact cache_loss. Qed.

Theorem C09_loss_history :
  forall c h, wf_hist c h = true ->
    Forall (fun s => forall k,
              option_map durable (L (set_cache s []) k) =
              option_map (fun r => durable (codec (conf s) r)) (L s k))
           (states_from (mkWorld (init_st c) []) h).
Proof. exact loss_history. Qed.

Print Assumptions C09_ack_sop.
Print Assumptions C09_ack_sop_ok.
Print Assumptions C09_ack_start.
Print Assumptions C09_ack_create.
Print Assumptions C09_ack_user_wide.
Print Assumptions C09_ack_set_value.
Print Assumptions C09_ack_getdel.
Print Assumptions C09_getdel_value_gone.
Print Assumptions C09_ack_statement_holds.
Print Assumptions C09_wt_step.
Print Assumptions C09_wt.
Print Assumptions C09_loss.
Print Assumptions C09_loss_history.
