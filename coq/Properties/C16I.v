(* C16I — an instance discharging the library assumption of C16. Statements
   only; proofs are in Proofs/GobWireOk.v, the definitions in Model/GobWire.v.

   Properties/C16.v assumes, without proof, that "encoding/gob restores each
   value it is given": there the wire is the list of typed values handed to
   Encode. Here the wire is a flat stream of words (wire = list N) with an
   explicit tagged, length-prefixed encoding of every typed value (gob_ser)
   and a reader that checks tags, counts and the end of the stream
   (gob_deser). C16I_wire_faithful proves that the reader restores every list
   of typed values (any integers, bit patterns, strings, nested lists and
   maps), and the theorems of C16 are restated, and proved, with the flat
   stream between GobEncode and GobDecode. The last three theorems do the
   same with every word of the stream spelt out in bytes (values below 256).

   This is an instance showing that the assumption is consistent and that C16
   does not rest on the wire being structured. It is not a model of the real
   byte format of encoding/gob; that the real library is faithful remains an
   assumption about the library. *)
From Sessions Require Import Model.Base Model.Codec Model.GobWire Gen.Layout
  Proofs.CodecDefs Proofs.CodecLaws Proofs.GobWireOk.

(* Reading the flat stream restores every list of typed values. *)
Theorem C16I_wire_faithful : forall w : list wval, gob_deser (gob_ser w) = Some w.
Proof. exact gob_deser_ser. Qed.

(* C16_roundtrip with the flat stream in between. *)
Theorem C16I_roundtrip :
  forall (load : loader) (s : csess),
    gob_dom s = true ->
    gob_roundtrip_wire load gob_version gob_enc gob_dec s = gob_norm load s.
Proof. exact gob_roundtrip_wire_lemma. Qed.

(* C16_roundtrip_any_offset with the flat stream in between. *)
Theorem C16I_roundtrip_any_offset :
  forall (load : loader) (s : csess),
    gob_off_ok (t_off (cs_created s)) = true -> gob_off_ok (t_off (cs_access s)) = true ->
    gob_roundtrip_wire load gob_version gob_enc gob_dec s =
    gob_norm load (set_created (gob_time_back (cs_created s)) (set_access (gob_time_back (cs_access s)) s)).
Proof. exact gob_roundtrip_wire_any_offset. Qed.

(* The same once more with every word written out in bytes: the stream is
   made of values below 256 and is read back exactly. *)
Theorem C16I_bytes_faithful :
  forall w : list wval,
    all_bytes (gob_ser_bytes w) = true /\ gob_deser_bytes (gob_ser_bytes w) = Some w.
Proof. exact (fun w => conj (gob_ser_bytes_bytes w) (gob_deser_ser_bytes w)). Qed.

Theorem C16I_roundtrip_bytes :
  forall (load : loader) (s : csess),
    gob_dom s = true ->
    gob_roundtrip_bytes load gob_version gob_enc gob_dec s = gob_norm load s.
Proof. exact gob_roundtrip_bytes_lemma. Qed.

Theorem C16I_roundtrip_bytes_any_offset :
  forall (load : loader) (s : csess),
    gob_off_ok (t_off (cs_created s)) = true -> gob_off_ok (t_off (cs_access s)) = true ->
    gob_roundtrip_bytes load gob_version gob_enc gob_dec s =
    gob_norm load (set_created (gob_time_back (cs_created s)) (set_access (gob_time_back (cs_access s)) s)).
Proof. exact gob_roundtrip_bytes_any_offset. Qed.

Print Assumptions C16I_wire_faithful.
Print Assumptions C16I_roundtrip.
Print Assumptions C16I_roundtrip_any_offset.
Print Assumptions C16I_bytes_faithful.
Print Assumptions C16I_roundtrip_bytes.
Print Assumptions C16I_roundtrip_bytes_any_offset.
