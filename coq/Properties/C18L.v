(* C18 at the level of histories, continued (C18L): EVERY cookie of the response
   of a request step — not only the last live one (C18H_session). Statements
   only; proofs are in Proofs/CookieTrace.v (with Proofs/StepShape.v; the example
   in Proofs/LEx.v), built on the history invariant LI and the per-operation
   lemmas of Proofs/HistLift*.v (PD/PF).

   The response's cookies are those of Start followed by those of each executed
   operation of the handler script:
   - Start sets nothing (the presented ID is the returned session's ID and no
     rotation was due), or Live k0, or Delete; Live k0 — k0 the ID of the session
     Start returned; a request that returns no session sets nothing or a single
     Delete; Delete only for a presented 24-character value;
   - RegenerateID and LogIn set Live k', k' being the handle's ID right after the
     call — the next ordinal of the ID supply; Destroy sets Delete and ends the
     script; the other operations set nothing and leave the ID alone.
   So the live cookies are, in order, the IDs the session takes, ending at the ID
   of ob_final; Delete stands only first or last.

   LI s             the invariant of C05H.v (holds along fault-free, crash-free
                    histories: C05H_inv_init, C05H_inv_step)
   ids              the session's ID right after each executed operation
   trace_cks ops ids   the script's cookies, from the operations and those IDs
   trace_ok n k ops ids  the rules that ids obeys, n being the ID supply and k the
                    session's ID when the script starts
   changes_id op    op is RegenerateID or LogIn
   hid s o          the ID of the object at heap index o
   handler_at w r pre s o  (C08H.v) the operation at script position |pre| runs
                    on s with handle o *)
From Sessions Require Import Model.Base Model.Sess Model.Hist Proofs.SessDefs
  Proofs.HistInv Proofs.HistInv2 Proofs.HistInv3 Proofs.HistLift Proofs.HistLift2 Proofs.HistLift3
  Proofs.HistLift4 Proofs.HistLift5 Proofs.StepShape Proofs.UserHist Proofs.CookieTrace Proofs.LEx.

(* the vocabulary *)
Theorem C18L_opck_def : forall op k',
  opck op k' = match op with SRegen | SLogIn _ _ => [CkLive k'] | SDestroy => [CkDelete] | _ => [] end.
Proof. exact opck_def. Qed.

Theorem C18L_trace_cks_def :
  (forall op t k' ids', trace_cks (op :: t) (k' :: ids') = opck op k' ++ trace_cks t ids') /\
  (forall ops, trace_cks ops [] = []) /\ (forall ids, trace_cks [] ids = []).
Proof. exact trace_cks_def. Qed.

Theorem C18L_trace_ok_def :
  (forall n k ops, trace_ok n k ops [] <-> True) /\
  (forall n k k' ids', trace_ok n k [] (k' :: ids') <-> False) /\
  (forall n k op t k' ids', trace_ok n k (op :: t) (k' :: ids') <->
     (if changes_id op then k' = KGen n else k' = k) /\ (op = SDestroy -> ids' = []) /\
     trace_ok (if changes_id op then (n + 1)%N else n) k' t ids').
Proof. exact trace_ok_def. Qed.

(* The cookies of one call of Start — every state, every fault plan: nothing,
   Delete, Live v, or Delete; Live v; a live cookie only with a session; a
   deletion cookie only for a presented 24-character value. *)
Theorem C18L_start_shape : forall s q s' res cks, start s q = (s', res, cks) ->
  match res with
  | Ok (Some _) => cks = [] \/ (exists v, cks = [CkLive v]) \/ (exists v, cks = [CkDelete; CkLive v])
  | _ => cks = [] \/ cks = [CkDelete]
  end /\ (In CkDelete cks -> exists k, q_cookie q = CKey k).
Proof. exact start_shape. Qed.

(* C18L_all_cookies: a request step of a fault-free, crash-free history that
   returns a session. k0: the ID of the session Start returned; n0: the ID
   supply when the script starts; ids: the ID after each executed operation.
   The last clause says what ids means in the model: the ID of the handle right
   after the operation at that script position. *)
Theorem C18L_all_cookies : forall c hs r,
  Forall ff_hop hs -> Forall crash_free hs -> rq_plan r = [] -> rq_crash r = None ->
  let w := reach c hs in let o := snd (step w (HReq r)) in
  ob_res o = RSess ->
  exists k0 r0 n0 ids cks0 rf,
    ob_start o = Some (k0, r0) /\ r_ref r0 = None /\
    ob_final o = Some (last ids k0, rf) /\ r_ref rf = None /\
    length ids = length (ob_script o) /\
    ob_cookies o = cks0 ++ trace_cks (rq_script r) ids /\
    ((cks0 = [] /\ presents w r = CKey k0) \/ cks0 = [CkLive k0] \/
     (cks0 = [CkDelete; CkLive k0] /\ exists k, presents w r = CKey k)) /\
    (supply (w_st w) <= n0)%N /\ kd n0 k0 /\
    trace_ok n0 k0 (rq_script r) ids /\
    ob_drawn o = (n0 + N.of_nat (length (filter changes_id (firstn (length ids) (rq_script r)))))%N /\
    (forall pre op post s1 o1, rq_script r = pre ++ op :: post -> handler_at w r pre s1 o1 ->
       exists k2, nth_error ids (length pre) = Some k2 /\
                  hid (fst (fst (do_sop s1 o1 (had_cookie (req_of w r)) op))) o1 = Some k2).
Proof. exact all_cookies_reach. Qed.

(* the same from any state satisfying LI *)
Theorem C18L_all_cookies_step : forall w r, LI (w_st w) -> rq_plan r = [] -> rq_crash r = None ->
  let o := snd (step w (HReq r)) in
  ob_res o = RSess ->
  exists k0 r0 n0 ids cks0 rf,
    ob_start o = Some (k0, r0) /\ r_ref r0 = None /\
    ob_final o = Some (last ids k0, rf) /\ r_ref rf = None /\
    length ids = length (ob_script o) /\
    ob_cookies o = cks0 ++ trace_cks (rq_script r) ids /\
    ((cks0 = [] /\ presents w r = CKey k0) \/ cks0 = [CkLive k0] \/
     (cks0 = [CkDelete; CkLive k0] /\ exists k, presents w r = CKey k)) /\
    (supply (w_st w) <= n0)%N /\ kd n0 k0 /\
    trace_ok n0 k0 (rq_script r) ids /\
    ob_drawn o = (n0 + N.of_nat (length (filter changes_id (firstn (length ids) (rq_script r)))))%N /\
    (forall pre op post s1 o1, rq_script r = pre ++ op :: post -> handler_at w r pre s1 o1 ->
       exists k2, nth_error ids (length pre) = Some k2 /\
                  hid (fst (fst (do_sop s1 o1 (had_cookie (req_of w r)) op))) o1 = Some k2).
Proof. exact all_cookies_step. Qed.

(* A request step that is not crashed and returns no session — any state, any
   fault plan: no live cookie, at most one deletion cookie and only for a
   presented 24-character value; no script ran. (That the presented ID then
   resolves to nothing: C18H_no_session.) *)
Theorem C18L_no_session : forall w r, rq_crash r = None ->
  let o := snd (step w (HReq r)) in
  ob_res o <> RSess ->
  (ob_cookies o = [] \/ (ob_cookies o = [CkDelete] /\ exists k, presents w r = CKey k)) /\
  ob_script o = [] /\ ob_start o = None /\ ob_final o = None.
Proof. exact no_session_cookies. Qed.

(* The live cookies of the script are exactly the IDs after the executed
   ID-changing operations, in order. *)
Theorem C18L_script_lives : forall ops ids n k, trace_ok n k ops ids ->
  flat_map (fun ck => match ck with CkLive v => [v] | _ => [] end) (trace_cks ops ids) =
  map snd (filter (fun x => changes_id (fst x)) (combine ops ids)).
Proof. exact trace_cks_lives. Qed.

(* Where Delete can stand in a response that returns a session: first — for a
   presented 24-character value, followed by the live cookie of the session Start
   returned — or last, as the cookie of an executed Destroy; and an executed
   Destroy is the last executed operation. *)
Theorem C18L_delete_positions : forall w r, LI (w_st w) -> rq_plan r = [] -> rq_crash r = None ->
  let o := snd (step w (HReq r)) in
  ob_res o = RSess ->
  (forall a b, ob_cookies o = a ++ CkDelete :: b ->
     (a = [] /\ (exists k, presents w r = CKey k) /\
      exists k0 r0 b', ob_start o = Some (k0, r0) /\ b = CkLive k0 :: b') \/
     (b = [] /\ nth_error (rq_script r) (length (ob_script o) - 1) = Some SDestroy /\ ob_script o <> [])) /\
  (forall i, i < length (ob_script o) -> nth_error (rq_script r) i = Some SDestroy -> S i = length (ob_script o)).
Proof. exact delete_positions. Qed.

(* non-vacuity: a client's request with six operations, the fifth destroying the
   session (the sixth does not run): IDs 0, 1, 2, 2, 2 and cookies Live 1;
   Live 2; Delete. A forged unknown value with createIfNew and RegenerateID:
   Delete; Live 1; Live 2. *)
Theorem C18L_ex_invariant : LI (w_st wC).
Proof. exact wC_LI. Qed.

Theorem C18L_ex :
  supply (w_st wC) = 1%N /\
  ob_res (snd (step wC (HReq rC))) = RSess /\
  option_map fst (ob_start (snd (step wC (HReq rC)))) = Some (KGen 0) /\
  ob_script (snd (step wC (HReq rC))) = [SOk; SOk; SOk; SVal (Some 2%N); SOk] /\
  ob_cookies (snd (step wC (HReq rC))) =
    [] ++ trace_cks (rq_script rC) [KGen 0; KGen 1; KGen 2; KGen 2; KGen 2] /\
  trace_cks (rq_script rC) [KGen 0; KGen 1; KGen 2; KGen 2; KGen 2] = [CkLive (KGen 1); CkLive (KGen 2); CkDelete] /\
  trace_ok 1 (KGen 0) (rq_script rC) [KGen 0; KGen 1; KGen 2; KGen 2; KGen 2] /\
  option_map fst (ob_final (snd (step wC (HReq rC)))) = Some (KGen 2) /\
  ob_drawn (snd (step wC (HReq rC))) = 3%N /\
  ob_res (snd (step wC (HReq rC2))) = RSess /\
  ob_cookies (snd (step wC (HReq rC2))) = [CkDelete; CkLive (KGen 1)] ++ trace_cks (rq_script rC2) [KGen 2] /\
  trace_ok 2 (KGen 1) (rq_script rC2) [KGen 2] /\
  option_map fst (ob_final (snd (step wC (HReq rC2)))) = Some (KGen 2).
Proof. exact all_cookies_ex. Qed.

Print Assumptions C18L_opck_def.
Print Assumptions C18L_trace_cks_def.
Print Assumptions C18L_trace_ok_def.
Print Assumptions C18L_start_shape.
Print Assumptions C18L_all_cookies.
Print Assumptions C18L_all_cookies_step.
Print Assumptions C18L_no_session.
Print Assumptions C18L_script_lives.
Print Assumptions C18L_delete_positions.
Print Assumptions C18L_ex_invariant.
Print Assumptions C18L_ex.
