(* C08 — user-wide calls made from inside a handler (round 4 R1 = audit task B1,
   audit finding 2). In Model/Hist.v LogOut(userID) and RefreshUser are steps
   between requests; here they are called by a handler that still holds the
   *Session Start gave it. Model/HandlerUser.v composes, at state level and
   without touching Sess.v/Hist.v: Start; script prefix; the user-wide call;
   script suffix on the same handle; the after-request bookkeeping. Statements
   only; proofs in Proofs/HandlerUser.v, HandlerUser2.v, HandlerUser3.v,
   HandlerUserEx.v (on the invariant of Proofs/HistInv*.v and PF's per-call
   theorems, Properties/C08.v). Fault-free.

   hu_tail s o had c post   the handler at a script position, holding handle o:
                            the call c (ULogout u | URefresh u), clean-ups that
                            are due, then the operations post on o; yields the
                            state, the results (call first), the cookies, and
                            the handle (ID, fields) right after the call
   hu_body / hu_step        the same after a script prefix / as a whole request
                            step of a world (observation as Hist.step's)
   own_cached s o ob ids    the condition: o is the object the cache holds under
                            its own ID, it is not idle, and no entry can be
                            evicted while ids are visited (the cache is
                            unbounded, or has room for its entries plus the
                            listed IDs that are NOT cached, without repetition).
                            Sufficient, not necessary: when the cache is full
                            the victim may be another entry (C08U_ex_gap_size_2)
   hu_reach c l             the world after a history l mixing plain steps and
                            composite requests (HPlain h | HUser r c post)
   ff_hstep                 the step is fault-free (and crash-free)
   ev_sat P e               if e is a save, the user field of its record satisfies P
   handler_at w r pre s o   (C08H) Start of request r returned o and the
                            operations pre have run, reaching s
   listed s u               what UserSessions(u) answers in s
   nouser_at s k            no user under k, in the store and in memory
   data_op                  Set / Delete / Get / GetAndDelete
   nouser_ev e              ev_sat (no user): e is not a save of a record that carries a user *)
From Sessions Require Import Model.Base Model.Sess Model.Hist Model.HandlerUser Proofs.SessDefs
  Proofs.HistInv Proofs.HistInv2 Proofs.HistInv3 Proofs.UserLaws Proofs.UserHist Proofs.UserHist2 Proofs.UserHistEx
  Proofs.HandlerUser Proofs.HandlerUser2 Proofs.HandlerUser3 Proofs.HandlerUserEx.
From Sessions Require Import Proofs.LiveHist4.

(* ---- the vocabulary ---- *)

Theorem C08U_own_cached_meaning : forall s o ob ids,
  own_cached s o ob ids <->
  hget s o = Some ob /\ lookup (cache s) (o_id ob) = Some o /\
  (0 <= c_cacheexpiry (conf s))%Z /\ (since (r_access (o_rec ob)) (now s) <= c_cacheexpiry (conf s))%Z /\
  (c_maxcache (conf s) < 0 \/
   Z.of_nat (length (cache s)) + Z.of_nat (length (nodup_keys (filter (fun k => negb (has (cache s) k)) ids))) <= c_maxcache (conf s))%Z.
Proof. exact own_cached_meaning. Qed.

(* a prefix that ran to its end puts the handler at hu_tail *)
Theorem C08U_body_at : forall s0 o had pre c post s rs ck,
  run_script s0 o had pre = (s, rs, ck) -> ran pre rs = true ->
  hu_body s0 o had pre c post =
  let '(s2, rs2, ck2, mid) := hu_tail s o had c post in (s2, rs ++ rs2, ck ++ ck2, mid).
Proof. exact hu_body_at. Qed.

(* the composite request step runs hu_tail at the state the handler reached and
   reports what it yields *)
Theorem C08U_step_reports : forall w r c post s o,
  handler_at w r (rq_script r) s o -> rq_plan r = [] ->
  let out := snd (hu_step w r c post) in
  let t := hu_tail s o (had_cookie (req_q w r)) c post in
  ob_res (fst out) = RSess /\ snd out = snd t /\
  w_st (fst (hu_step w r c post)) = set_tb (set_plan (fst (fst (fst t))) []) [] /\
  exists rs, ob_script (fst out) = rs ++ snd (fst (fst t)) /\ length rs = length (rq_script r).
Proof. exact hu_step_reports. Qed.

(* ---- (1) LogOut(userID) called by a handler ---- *)

(* per call: the handle stays the cached object of its ID; if its ID is listed
   it carries no user afterwards; no listed ID carries a user *)
Theorem C08U_logout_user_handle : forall s o ob u,
  sess_inv s -> own_cached s o ob (listed s u) ->
  exists s', logout_user s u = (s', Ok tt) /\ sess_inv s' /\
    lookup (cache s') (o_id ob) = Some o /\
    (exists ob', hget s' o = Some ob' /\ o_id ob' = o_id ob /\ (In (o_id ob) (listed s u) -> r_user (o_rec ob') = None)) /\
    (forall k, In k (listed s u) -> nouser_at s' k).
Proof. exact logout_user_handle. Qed.

(* the handle's ID is listed when the stored record under it carries the user *)
Theorem C08U_listed_stored : forall s u k r,
  lookup (store s) k = Some r -> user_is u (r_user r) = true -> In k (listed s u).
Proof. exact listed_stored. Qed.

(* a key/value operation on a handle without user sets no cookie, keeps the
   handle without user, keeps every ID without user that way, and whatever it
   writes carries no user *)
Theorem C08U_data_op : forall s o ob had op,
  plan s = [] -> hget s o = Some ob -> r_user (o_rec ob) = None -> data_op op = true ->
  exists s' r, do_sop s o had op = (s', r, []) /\
    (exists ob', hget s' o = Some ob' /\ o_id ob' = o_id ob /\ r_user (o_rec ob') = None) /\
    (forall k, ufact is_none is_none s k -> ufact is_none is_none s' k) /\
    (exists new, evs s' = new ++ evs s /\ Forall nouser_ev new).
Proof. exact data_op_step. Qed.

(* the composite: the call answers nil, the handle the handler holds carries no
   user right after it, every later key/value operation on it writes records
   without user, and at the end no listed ID carries a user, in the store or in
   memory *)
Theorem C08U_logout_in_handler : forall s o ob had u post,
  sess_inv s -> own_cached s o ob (listed s u) -> In (o_id ob) (listed s u) -> forallb data_op post = true ->
  exists s1 s' rs mid new,
    logout_user s u = (s1, Ok tt) /\
    hu_tail s o had (ULogout u) post = (s', SOk :: rs, [], Some (o_id ob, mid)) /\
    r_user mid = None /\
    sess_inv s' /\
    (exists ob', hget s' o = Some ob' /\ o_id ob' = o_id ob /\ r_user (o_rec ob') = None) /\
    evs s' = new ++ evs (fire_due s1) /\ Forall nouser_ev new /\
    (forall k, In k (listed s u) -> nouser_at s' k).
Proof. exact hu_tail_logout. Qed.

(* at every handler position of a request from any world with the invariants *)
Theorem C08U_logout_at : forall w, sess_inv (w_st w) ->
  forall r pre s o ob u post,
  handler_at w r pre s o -> own_cached s o ob (listed s u) -> In (o_id ob) (listed s u) ->
  forallb data_op post = true ->
  exists s1 s' rs mid new,
    logout_user s u = (s1, Ok tt) /\
    hu_tail s o (had_cookie (req_q w r)) (ULogout u) post = (s', SOk :: rs, [], Some (o_id ob, mid)) /\
    r_user mid = None /\ sess_inv s' /\
    (exists ob', hget s' o = Some ob' /\ o_id ob' = o_id ob /\ r_user (o_rec ob') = None) /\
    evs s' = new ++ evs (fire_due s1) /\ Forall nouser_ev new /\
    (forall k, In k (listed s u) -> nouser_at s' k).
Proof. exact hu_logout_at. Qed.

(* the invariants hold along histories that mix plain steps and composite
   requests: a fault-free composite request preserves them ... *)
Theorem C08U_step_inv : forall w r c post, sess_inv (w_st w) -> rq_plan r = [] ->
  sess_inv (w_st (fst (hu_step w r c post))).
Proof. exact hu_step_sess_inv. Qed.

Theorem C08U_ff_hstep_meaning : forall x,
  ff_hstep x <-> match x with HPlain h => ff_hop h /\ crash_free h | HUser r _ _ => rq_plan r = [] end.
Proof. exact (fun x => iff_refl _). Qed.

(* ... so they hold in every world such a history reaches ... *)
Theorem C08U_reach_inv : forall c l, Forall ff_hstep l -> sess_inv (w_st (hu_reach c l)).
Proof. exact hu_reach_sess_inv. Qed.

(* ... the plain histories of Model/Hist.v being a special case *)
Theorem C08U_reach_plain : forall c hs, hu_reach c (map HPlain hs) = reach c hs.
Proof. exact hu_reach_plain. Qed.

(* at every handler position of every fault-free, crash-free history, earlier
   in-handler calls included *)
Theorem C08U_logout_hist : forall c l, Forall ff_hstep l ->
  forall r pre s o ob u post,
  handler_at (hu_reach c l) r pre s o -> own_cached s o ob (listed s u) -> In (o_id ob) (listed s u) ->
  forallb data_op post = true ->
  exists s1 s' rs mid new,
    logout_user s u = (s1, Ok tt) /\
    hu_tail s o (had_cookie (req_q (hu_reach c l) r)) (ULogout u) post = (s', SOk :: rs, [], Some (o_id ob, mid)) /\
    r_user mid = None /\ sess_inv s' /\
    (exists ob', hget s' o = Some ob' /\ o_id ob' = o_id ob /\ r_user (o_rec ob') = None) /\
    evs s' = new ++ evs (fire_due s1) /\ Forall nouser_ev new /\
    (forall k, In k (listed s u) -> nouser_at s' k).
Proof. exact hu_logout_hist. Qed.

(* ---- (3) RefreshUser called by a handler ---- *)

Theorem C08U_refresh_user_handle : forall s o ob u,
  sess_inv s -> own_cached s o ob (listed s (fst u)) ->
  exists s', refresh_user s u = (s', Ok tt) /\ sess_inv s' /\
    lookup (cache s') (o_id ob) = Some o /\
    (exists ob', hget s' o = Some ob' /\ o_id ob' = o_id ob /\ (In (o_id ob) (listed s (fst u)) -> r_user (o_rec ob') = Some u)) /\
    (forall k, In k (listed s (fst u)) ->
       (forall r, lookup (store s') k = Some r -> r_user r = Some (fst u, 0%N)) /\
       (forall o2 ob2, lookup (cache s') k = Some o2 -> hget s' o2 = Some ob2 -> r_user (o_rec ob2) = Some u)).
Proof. exact refresh_user_handle. Qed.

(* the composite: the call answers nil, the handle carries the new user object
   right after it and at the end, every record the key/value operations write
   carries the user's ID, and so does every listed ID at the end (the new object
   where cached) *)
Theorem C08U_refresh_in_handler : forall s o ob had u post,
  sess_inv s -> own_cached s o ob (listed s (fst u)) -> In (o_id ob) (listed s (fst u)) ->
  forallb data_op post = true ->
  exists s1 s' rs mid new,
    refresh_user s u = (s1, Ok tt) /\
    hu_tail s o had (URefresh u) post = (s', SOk :: rs, [], Some (o_id ob, mid)) /\
    r_user mid = Some u /\ sess_inv s' /\
    (exists ob', hget s' o = Some ob' /\ o_id ob' = o_id ob /\ r_user (o_rec ob') = Some u) /\
    evs s' = new ++ evs (fire_due s1) /\ Forall (ev_sat (fun x => x = Some (fst u, 0%N))) new /\
    (forall k, In k (listed s (fst u)) ->
       (forall r, lookup (store s') k = Some r -> r_user r = Some (fst u, 0%N)) /\
       (forall o2 ob2, lookup (cache s') k = Some o2 -> hget s' o2 = Some ob2 -> r_user (o_rec ob2) = Some u)).
Proof. exact hu_tail_refresh. Qed.

Theorem C08U_ev_sat_meaning : forall P e,
  ev_sat P e <-> match e with EvSave _ r _ => P (r_user r) | _ => True end.
Proof. exact (fun P e => iff_refl _). Qed.

Theorem C08U_refresh_at : forall w, sess_inv (w_st w) ->
  forall r pre s o ob u post,
  handler_at w r pre s o -> own_cached s o ob (listed s (fst u)) -> In (o_id ob) (listed s (fst u)) ->
  forallb data_op post = true ->
  exists s1 s' rs mid new,
    refresh_user s u = (s1, Ok tt) /\
    hu_tail s o (had_cookie (req_q w r)) (URefresh u) post = (s', SOk :: rs, [], Some (o_id ob, mid)) /\
    r_user mid = Some u /\ sess_inv s' /\
    (exists ob', hget s' o = Some ob' /\ o_id ob' = o_id ob /\ r_user (o_rec ob') = Some u) /\
    evs s' = new ++ evs (fire_due s1) /\ Forall (ev_sat (fun x => x = Some (fst u, 0%N))) new /\
    (forall k, In k (listed s (fst u)) ->
       (forall rr, lookup (store s') k = Some rr -> r_user rr = Some (fst u, 0%N)) /\
       (forall o2 ob2, lookup (cache s') k = Some o2 -> hget s' o2 = Some ob2 -> r_user (o_rec ob2) = Some u)).
Proof. exact hu_refresh_at. Qed.

Theorem C08U_refresh_hist : forall c l, Forall ff_hstep l ->
  forall r pre s o ob u post,
  handler_at (hu_reach c l) r pre s o -> own_cached s o ob (listed s (fst u)) -> In (o_id ob) (listed s (fst u)) ->
  forallb data_op post = true ->
  exists s1 s' rs mid new,
    refresh_user s u = (s1, Ok tt) /\
    hu_tail s o (had_cookie (req_q (hu_reach c l) r)) (URefresh u) post = (s', SOk :: rs, [], Some (o_id ob, mid)) /\
    r_user mid = Some u /\ sess_inv s' /\
    (exists ob', hget s' o = Some ob' /\ o_id ob' = o_id ob /\ r_user (o_rec ob') = Some u) /\
    evs s' = new ++ evs (fire_due s1) /\ Forall (ev_sat (fun x => x = Some (fst u, 0%N))) new /\
    (forall k, In k (listed s (fst u)) ->
       (forall rr, lookup (store s') k = Some rr -> r_user rr = Some (fst u, 0%N)) /\
       (forall o2 ob2, lookup (cache s') k = Some o2 -> hget s' o2 = Some ob2 -> r_user (o_rec ob2) = Some u)).
Proof. exact hu_refresh_hist. Qed.

(* ---- (2) cache sizes 0 and 1: refuted ---- *)

(* Without own_cached the claims fail. cH m is a configuration with
   MaxSessionCacheSize = m; the witness history: two browsers log in as user 5,
   the first one first; the second browser's request does Set, LogOut(5) /
   RefreshUser, Set, Get. With size 0 nothing is cached; with size 1 loading the
   first browser's session evicts the handler's own. The handler's *Session
   keeps the user, the Set that follows writes it back, the index lists the ID
   again. Confirmed behaviour of the Go code (harness family handleruser). *)
Theorem C08U_claim_meaning : forall m,
  hu_claim m <->
  forall hs r pre s o ob u post, Forall ff_hop hs -> Forall crash_free hs ->
    handler_at (reach (cH m) hs) r pre s o -> hget s o = Some ob -> In (o_id ob) (listed s u) ->
    forallb data_op post = true ->
    nouser_at (fst (fst (fst (hu_tail s o (had_cookie (req_q (reach (cH m) hs) r)) (ULogout u) post)))) (o_id ob).
Proof. exact (fun m => iff_refl _). Qed.

Theorem C08U_logout_refuted_0 : ~ hu_claim 0.
Proof. exact hu_logout_refuted_0. Qed.

Theorem C08U_logout_refuted_1 : ~ hu_claim 1.
Proof. exact hu_logout_refuted_1. Qed.

Theorem C08U_refresh_claim_meaning : forall m,
  hu_refresh_claim m <->
  forall hs r pre s o ob u, Forall ff_hop hs -> Forall crash_free hs ->
    handler_at (reach (cH m) hs) r pre s o -> hget s o = Some ob -> In (o_id ob) (listed s (fst u)) ->
    option_map (fun x => r_user (snd x)) (snd (hu_tail s o (had_cookie (req_q (reach (cH m) hs) r)) (URefresh u) [])) = Some (Some u).
Proof. exact (fun m => iff_refl _). Qed.

Theorem C08U_refresh_refuted_0 : ~ hu_refresh_claim 0.
Proof. exact hu_refresh_refuted_0. Qed.

Theorem C08U_refresh_refuted_1 : ~ hu_refresh_claim 1.
Proof. exact hu_refresh_refuted_1. Qed.

(* what the witnesses show, written out *)
Theorem C08U_ex_size_0 :
  let '(s', rs, cks, mid) := hu_tail s0 o0 true (ULogout 5) postH in
  rs = [SOk; SOk; SVal (Some 2%N)] /\ option_map (fun x => (fst x, r_user (snd x))) mid = Some (KGen 3, Some (5%N, 0%N)) /\
  map (fun kr => (fst kr, r_user (snd kr))) (store s') =
    [(KGen 0, None); (KGen 1, None); (KGen 2, None); (KGen 3, Some (5%N, 0%N))] /\
  listed s' 5 = [KGen 3] /\ c_maxcache (conf s0) = 0%Z.
Proof. exact hu_logout_0. Qed.

Theorem C08U_ex_size_1 :
  let '(s', rs, cks, mid) := hu_tail s1 o1 true (ULogout 5) postH in
  rs = [SOk; SOk; SVal (Some 2%N)] /\ option_map (fun x => (fst x, r_user (snd x))) mid = Some (KGen 3, Some (5%N, 0%N)) /\
  map (fun kr => (fst kr, r_user (snd kr))) (store s') =
    [(KGen 0, None); (KGen 1, None); (KGen 2, None); (KGen 3, Some (5%N, 0%N))] /\
  listed s' 5 = [KGen 3] /\ c_maxcache (conf s1) = 1%Z /\ lookup (cache s1) (KGen 3) = Some o1.
Proof. exact hu_logout_1. Qed.

(* ---- non-vacuity: the same history under cache size 10 / unbounded ---- *)

Theorem C08U_ex_handler : handler_at (reach (cH 10) hH) rH [SSet 1 1] s10 2.
Proof. exact handler_at_10. Qed.

Theorem C08U_ex_own_cached :
  own_cached s10 2 ob10 (listed s10 5) /\ In (o_id ob10) (listed s10 5) /\ r_user (o_rec ob10) = Some (5%N, 1%N) /\
  listed s10 5 = [KGen 1; KGen 3] /\ o_id ob10 = KGen 3.
Proof. exact own_cached_10. Qed.

Theorem C08U_ex_own_cached_unbounded :
  let s := fst (at_handler (-1)) in
  exists ob, own_cached s 2 ob (listed s 5) /\ In (o_id ob) (listed s 5) /\ r_user (o_rec ob) = Some (5%N, 1%N).
Proof. exact own_cached_unbounded. Qed.

Theorem C08U_ex_logout :
  let '(s', rs, cks, mid) := hu_tail s10 2 true (ULogout 5) postH in
  rs = [SOk; SOk; SVal (Some 2%N)] /\ option_map (fun x => r_user (snd x)) mid = Some None /\
  map (fun kr => (fst kr, r_user (snd kr))) (store s') = [(KGen 0, None); (KGen 1, None); (KGen 2, None); (KGen 3, None)] /\
  option_map (fun ob => (r_user (o_rec ob), r_data (o_rec ob))) (hget s' 2) = Some (None, Some [(1%N, 1%N); (2%N, 2%N)]).
Proof. exact hu_logout_10. Qed.

Theorem C08U_ex_refresh :
  let '(s', rs, cks, mid) := hu_tail s10 2 true (URefresh (5%N, 9%N)) [] in
  rs = [SOk] /\ option_map (fun x => r_user (snd x)) mid = Some (Some (5%N, 9%N)).
Proof. exact hu_refresh_10. Qed.

(* the whole histories (composite step, cache drop, both browsers come back):
   the user Start hands out, per step, for cache sizes 10, unbounded, 2, 1, 0 *)
Theorem C08U_ex_after_drop :
  users_seen 10 (ULogout 5) = [Some None; Some None; Some (Some (5, 1)%N); None; Some None; Some None] /\
  users_seen (-1) (ULogout 5) = [Some None; Some None; Some (Some (5, 1)%N); None; Some None; Some None] /\
  users_seen 2 (ULogout 5) = [Some None; Some None; Some (Some (5, 1)%N); None; Some None; Some None] /\
  users_seen 1 (ULogout 5) = [Some None; Some None; Some (Some (5, 0)%N); None; Some None; Some (Some (5, 0)%N)] /\
  users_seen 0 (ULogout 5) = [Some None; Some None; Some (Some (5, 0)%N); None; Some None; Some (Some (5, 0)%N)].
Proof. exact users_after_drop. Qed.

(* the size clause: holds at cache size 3 (both listed IDs cached, nothing to
   load); fails at size 2 (one listed ID must be loaded into a full cache) where
   the outcome is nevertheless that of (1): sufficient, not necessary *)
Theorem C08U_ex_own_cached_size_3 :
  let s := fst (at_handler 3) in
  exists ob, own_cached s 2 ob (listed s 5) /\ In (o_id ob) (listed s 5) /\
    length (cache s) = 3 /\ uncached s (listed s 5) = [] /\ c_maxcache (conf s) = 3%Z.
Proof. exact own_cached_3. Qed.

Theorem C08U_ex_gap_size_2 :
  let s := fst (at_handler 2) in
  snd (at_handler 2) = Some 2 /\ c_maxcache (conf s) = 2%Z /\ length (cache s) = 2 /\
  uncached s (listed s 5) = [KGen 1] /\
  ~ (c_maxcache (conf s) < 0 \/ Z.of_nat (length (cache s)) + Z.of_nat (length (uncached s (listed s 5))) <= c_maxcache (conf s))%Z /\
  let '(s', rs, cks, mid) := hu_tail s 2 true (ULogout 5) postH in
  option_map (fun x => r_user (snd x)) mid = Some None /\
  map (fun kr => (fst kr, r_user (snd kr))) (store s') = [(KGen 0, None); (KGen 1, None); (KGen 2, None); (KGen 3, None)].
Proof. exact own_cached_gap_2. Qed.

(* RefreshUser followed by key/value operations *)
Theorem C08U_ex_refresh_post :
  let '(s', rs, cks, mid) := hu_tail s10 2 true (URefresh (5%N, 9%N)) postH in
  rs = [SOk; SOk; SVal (Some 2%N)] /\ option_map (fun x => r_user (snd x)) mid = Some (Some (5%N, 9%N)) /\
  map (fun kr => (fst kr, r_user (snd kr))) (store s') =
    [(KGen 0, None); (KGen 1, Some (5%N, 0%N)); (KGen 2, None); (KGen 3, Some (5%N, 0%N))] /\
  option_map (fun ob => r_user (o_rec ob)) (hget s' 2) = Some (Some (5%N, 9%N)).
Proof. exact hu_refresh_post_10. Qed.

(* a history with an earlier in-handler call (RefreshUser by browser 1's
   handler), then browser 2's handler: the hypotheses of C08U_logout_hist hold *)
Theorem C08U_ex_mixed_history :
  Forall ff_hstep lMix /\ handler_at (hu_reach (cH 10) lMix) rH [SSet 1 1] sMix 2 /\
  exists ob, own_cached sMix 2 ob (listed sMix 5) /\ In (o_id ob) (listed sMix 5) /\ r_user (o_rec ob) = Some (5%N, 7%N).
Proof. exact (conj lMix_ok (conj handler_at_mix own_cached_mix)). Qed.

Print Assumptions C08U_own_cached_meaning.
Print Assumptions C08U_logout_at.
Print Assumptions C08U_step_inv.
Print Assumptions C08U_ff_hstep_meaning.
Print Assumptions C08U_reach_inv.
Print Assumptions C08U_reach_plain.
Print Assumptions C08U_ev_sat_meaning.
Print Assumptions C08U_refresh_at.
Print Assumptions C08U_ex_own_cached_size_3.
Print Assumptions C08U_ex_gap_size_2.
Print Assumptions C08U_ex_refresh_post.
Print Assumptions C08U_ex_mixed_history.
Print Assumptions C08U_body_at.
Print Assumptions C08U_step_reports.
Print Assumptions C08U_logout_user_handle.
Print Assumptions C08U_listed_stored.
Print Assumptions C08U_data_op.
Print Assumptions C08U_logout_in_handler.
Print Assumptions C08U_logout_hist.
Print Assumptions C08U_refresh_user_handle.
Print Assumptions C08U_refresh_in_handler.
Print Assumptions C08U_refresh_hist.
Print Assumptions C08U_claim_meaning.
Print Assumptions C08U_logout_refuted_0.
Print Assumptions C08U_logout_refuted_1.
Print Assumptions C08U_refresh_claim_meaning.
Print Assumptions C08U_refresh_refuted_0.
Print Assumptions C08U_refresh_refuted_1.
Print Assumptions C08U_ex_size_0.
Print Assumptions C08U_ex_size_1.
Print Assumptions C08U_ex_handler.
Print Assumptions C08U_ex_own_cached.
Print Assumptions C08U_ex_own_cached_unbounded.
Print Assumptions C08U_ex_logout.
Print Assumptions C08U_ex_refresh.
Print Assumptions C08U_ex_after_drop.
