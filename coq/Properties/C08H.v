(* C08 at the level of histories — the user calls along fault-free, crash-free
   histories, and what they stored after the cache is lost. Statements only;
   proofs are in Proofs/UserHist.v, UserHist2.v, UserHistEx.v, built on PF's
   per-call theorems (Properties/C08.v) and history invariant
   (Properties/C07.v: sess_inv after every fault-free, crash-free step), PD's
   C04_seq_login, PB's C09_loss and the empty-cache Start of
   Proofs/CrashRestart.v.

   reach c hs            the world after history hs from init_st c
   handler_at w r pre s o  in request step r from world w, Start returned object
                         o and the script operations pre have run, none ending
                         the script, reaching state s: the next operation of the
                         script runs on s with handle o
   listed s u            what UserSessions(u) answers in s (PF)
   nouser_at s k         no user under k: neither in the stored record nor in
                         what k resolves to (L)
   loses_cache h         h = HDropCache \/ h = HRestart *)
From Sessions Require Import Model.Base Model.Sess Model.Hist Proofs.SessDefs
  Proofs.HistInv Proofs.HistInv2 Proofs.HistInv3 Proofs.UserLaws
  Proofs.UserHist Proofs.UserHist2 Proofs.UserHistEx.
From Sessions Require Import Proofs.LiveHist4.
From Sessions Require Proofs.CrashFault3 Proofs.CrashRestart Proofs.WriteThrough.

(* the vocabulary *)
Theorem C08H_handler_at_meaning : forall w r pre s o,
  handler_at w r pre s o <->
  exists s2 cks rs cks',
    start (req_s1 w r) (req_q w r) = (s2, Ok (Some o), cks) /\
    run_script (fire_due s2) o (had_cookie (req_q w r)) pre = (s, rs, cks') /\ ran pre rs = true.
Proof. exact handler_at_meaning. Qed.

(* The state hypotheses of the C08 theorems hold wherever a handler operation
   runs: the invariants of SessDefs.v, and the handle is an object. *)
Theorem C08H_handler_inv : forall c hs, Forall ff_hop hs -> Forall crash_free hs ->
  forall r pre s o, handler_at (reach c hs) r pre s o ->
  sess_inv s /\ exists ob, hget s o = Some ob.
Proof. exact handler_inv_hist. Qed.

(* the operation at script position |pre| runs on s, and the step reports what
   it returns there *)
Theorem C08H_handler_reports : forall w r pre s o op post,
  handler_at w r pre s o -> rq_plan r = [] -> rq_crash r = None -> rq_script r = pre ++ op :: post ->
  ob_res (snd (step w (HReq r))) = RSess /\
  nth_error (ob_script (snd (step w (HReq r)))) (length pre) = Some (snd (fst (do_sop s o (had_cookie (req_q w r)) op))).
Proof. exact handler_at_reports. Qed.

(* ---- C08_login, C08_logout, C08_tolerant at every script position of every
   request of every fault-free, crash-free history ---- *)

Theorem C08H_login : forall c hs, Forall ff_hop hs -> Forall crash_free hs ->
  forall r pre s o u ex, handler_at (reach c hs) r pre s o ->
  exists ob s' n ob', hget s o = Some ob /\
    login s o u ex = (s', Ok tt, [CkLive (KGen n)]) /\ sess_inv s' /\
    hget s' o = Some ob' /\ o_id ob' = KGen n /\ KGen n <> o_id ob /\ r_user (o_rec ob') = Some u /\
    (exists rr, lookup (store s') (KGen n) = Some rr /\ r_user rr = Some (fst u, 0%N)) /\
    nouser_at s' (o_id ob) /\
    (ex = true -> forall k, In k (listed s (fst u)) -> k <> KGen n -> nouser_at s' k).
Proof. exact login_hist. Qed.

Theorem C08H_login_reported : forall c hs, Forall ff_hop hs -> Forall crash_free hs ->
  forall r pre s o u ex post, handler_at (reach c hs) r pre s o ->
  rq_plan r = [] -> rq_crash r = None -> rq_script r = pre ++ SLogIn u ex :: post ->
  nth_error (ob_script (snd (step (reach c hs) (HReq r)))) (length pre) = Some SOk.
Proof. exact login_reports_hist. Qed.

Theorem C08H_logout : forall c hs, Forall ff_hop hs -> Forall crash_free hs ->
  forall r pre s o, handler_at (reach c hs) r pre s o ->
  exists ob s' ob', hget s o = Some ob /\ logout s o = (s', Ok tt) /\ sess_inv s' /\ hget s' o = Some ob' /\
    o_id ob' = o_id ob /\ r_user (o_rec ob') = None /\
    (r_user (o_rec ob) = None -> s' = s) /\
    (r_user (o_rec ob) <> None ->
       lookup (store s') (o_id ob) = Some (codec (conf s) (set_user (o_rec ob) None))).
Proof. exact logout_hist. Qed.

Theorem C08H_logout_reported : forall c hs, Forall ff_hop hs -> Forall crash_free hs ->
  forall r pre s o post, handler_at (reach c hs) r pre s o ->
  rq_plan r = [] -> rq_crash r = None -> rq_script r = pre ++ SLogOut :: post ->
  nth_error (ob_script (snd (step (reach c hs) (HReq r)))) (length pre) = Some SOk.
Proof. exact logout_reports_hist. Qed.

Theorem C08H_tolerant : forall c hs, Forall ff_hop hs -> Forall crash_free hs ->
  forall r pre s o, handler_at (reach c hs) r pre s o ->
  (forall u ex, exists s' cks, login s o u ex = (s', Ok tt, cks)) /\
  (exists s', logout s o = (s', Ok tt)) /\
  (forall u, exists s', logout_user s u = (s', Ok tt)) /\
  (forall u, exists s', refresh_user s u = (s', Ok tt)).
Proof. exact tolerant_hist. Qed.

(* ---- C08_logout_user, C08_refresh as steps of a history ---- *)

Theorem C08H_logout_user : forall c hs, Forall ff_hop hs -> Forall crash_free hs ->
  forall u tbl,
  let w := reach c hs in let w' := fst (step w (HLogoutUser u tbl [])) in
  ob_res (snd (step w (HLogoutUser u tbl []))) = RVoid /\ sess_inv (w_st w') /\
  forall k, In k (listed (w_st w) u) -> nouser_at (w_st w') k.
Proof. exact logout_user_hist. Qed.

Theorem C08H_refresh : forall c hs, Forall ff_hop hs -> Forall crash_free hs ->
  forall u tbl,
  let w := reach c hs in let w' := fst (step w (HRefreshUser u tbl [])) in
  ob_res (snd (step w (HRefreshUser u tbl []))) = RVoid /\ sess_inv (w_st w') /\
  forall k, In k (listed (w_st w) (fst u)) ->
    (forall rr, lookup (store (w_st w')) k = Some rr -> r_user rr = Some (fst u, 0%N)) /\
    (forall o ob, lookup (cache (w_st w')) k = Some o -> hget (w_st w') o = Some ob -> r_user (o_rec ob) = Some u).
Proof. exact refresh_user_hist. Qed.

(* ---- C08H_survives ---- *)

(* losing the cache leaves the store alone; every ID then resolves to its stored
   record: a fact about the stored user field becomes a fact about L *)
Theorem C08H_survives_stored : forall w h k (P : option user -> Prop), loses_cache h ->
  (forall rr, lookup (store (w_st w)) k = Some rr -> P (r_user rr)) ->
  forall rr, L (w_st (fst (step w h))) k = Some rr -> P (r_user rr).
Proof. exact stored_user_survives. Qed.

Theorem C08H_survives_nouser : forall w h k, loses_cache h -> nouser_at (w_st w) k ->
  nouser_at (w_st (fst (step w h))) k.
Proof. exact nouser_survives. Qed.

(* after LogIn as the last operation of a request's script, then the loss of the
   cache: the new ID n (the next ordinal when LogIn ran) is stored with the
   user's ID and resolves to that record; the client's jar holds it; the
   replaced ID — and, for an exclusive LogIn, every other ID that was listed for
   the user — carries no user *)
Theorem C08H_survives_login : forall c hs, Forall ff_hop hs -> Forall crash_free hs ->
  forall r pre s o u ex h, handler_at (reach c hs) r pre s o ->
  rq_plan r = [] -> rq_crash r = None -> rq_script r = pre ++ [SLogIn u ex] -> loses_cache h ->
  let n := supply s in
  let w1 := fst (step (reach c hs) (HReq r)) in let w2 := fst (step w1 h) in
  (exists rr, lookup (store (w_st w1)) (KGen n) = Some rr /\ r_user rr = Some (fst u, 0%N) /\
              L (w_st w2) (KGen n) = Some rr) /\
  cache (w_st w2) = [] /\
  (rq_present r = PJar -> jar_of (w_jars w2) (rq_client r) = CKey (KGen n)) /\
  (forall ob, hget s o = Some ob -> nouser_at (w_st w2) (o_id ob)) /\
  (ex = true -> forall k, In k (listed s (fst u)) -> k <> KGen n -> nouser_at (w_st w2) k).
Proof. exact login_survives_hist. Qed.

(* after LogOut(userID) and the loss of the cache no listed ID carries a user *)
Theorem C08H_survives_logout_user : forall c hs, Forall ff_hop hs -> Forall crash_free hs ->
  forall u tbl h k, loses_cache h -> In k (listed (w_st (reach c hs)) u) ->
  nouser_at (w_st (fst (step (fst (step (reach c hs) (HLogoutUser u tbl []))) h))) k.
Proof. exact logout_user_survives_hist. Qed.

(* the later request: presenting the new ID after the loss, acceptable w.r.t. the
   stored record, it is handed a session carrying the user's ID. The stored
   record being a session record (not a replaced-ID record) is a hypothesis
   here: see the report. *)
Theorem C08H_survives_request_partial : forall w r pre s o u ex h r3,
  sess_inv (w_st w) -> handler_at w r pre s o ->
  rq_plan r = [] -> rq_crash r = None -> rq_script r = pre ++ [SLogIn u ex] -> loses_cache h ->
  let n := supply s in
  let w1 := fst (step w (HReq r)) in let w2 := fst (step w1 h) in
  rq_plan r3 = [] -> rq_crash r3 = None -> pres w2 r3 = CKey (KGen n) ->
  (forall rk, lookup (store (w_st w1)) (KGen n) = Some rk ->
     r_ref rk = None /\
     CrashRestart.probe_ok (conf (w_st w1)) (now (w_st w1)) (mkReq (CKey (KGen n)) (rq_create r3) (rq_addr r3) (rq_ua r3)) rk) ->
  ob_res (snd (step w2 (HReq r3))) = RSess /\
  exists id rc, ob_start (snd (step w2 (HReq r3))) = Some (id, rc) /\ r_ref rc = None /\
                CrashFault3.uid rc = Some (fst u).
Proof. exact login_then_request. Qed.

(* from write-through (C09_loss): whatever user ID and data an ID resolved to —
   even a session that was only cached — it resolves to after the loss *)
Theorem C08H_survives_wt : forall w h k rr, loses_cache h -> WriteThrough.WT (w_st w) ->
  L (w_st w) k = Some rr ->
  exists rr', L (w_st (fst (step w h))) k = Some rr' /\ CrashFault3.uid rr' = CrashFault3.uid rr /\
              CrashFault3.dat rr' = CrashFault3.dat rr.
Proof. exact user_id_survives_wt. Qed.

(* non-vacuity *)
Theorem C08H_ex_handler : handler_at wU rU [SSet 1 1] sU 2.
Proof. exact handler_at_ex. Qed.

Theorem C08H_ex_survives :
  let w1 := fst (step wU (HReq rU)) in let w2 := fst (step w1 HDropCache) in
  supply sU = 3%N /\ listed sU 5 = [KGen 1] /\
  ob_script (snd (step wU (HReq rU))) = [SOk; SOk] /\
  option_map r_user (L (w_st w2) (KGen 3)) = Some (Some (5%N, 0%N)) /\
  option_map r_user (L (w_st w2) (KGen 1)) = Some None /\
  jar_of (w_jars w2) 2 = CKey (KGen 3) /\
  option_map (fun x => r_user (snd x)) (ob_start (snd (step w2 (HReq (rqu 2 []))))) = Some (Some (5%N, 0%N)) /\
  option_map (fun x => r_user (snd x)) (ob_start (snd (step w2 (HReq (rqu 1 []))))) = Some None.
Proof. exact login_survives_ex. Qed.

Print Assumptions C08H_handler_at_meaning.
Print Assumptions C08H_handler_inv.
Print Assumptions C08H_handler_reports.
Print Assumptions C08H_login.
Print Assumptions C08H_login_reported.
Print Assumptions C08H_logout.
Print Assumptions C08H_logout_reported.
Print Assumptions C08H_tolerant.
Print Assumptions C08H_logout_user.
Print Assumptions C08H_refresh.
Print Assumptions C08H_survives_stored.
Print Assumptions C08H_survives_nouser.
Print Assumptions C08H_survives_login.
Print Assumptions C08H_survives_logout_user.
Print Assumptions C08H_survives_request_partial.
Print Assumptions C08H_survives_wt.
Print Assumptions C08H_ex_handler.
Print Assumptions C08H_ex_survives.
