(* C15 — the obligations over the access table regenerated from the Go source
   on every run (Gen/Access.v, written by translator/access.go). Reflexive
   proofs: they are re-checked against what the code says now. *)
From Coq Require Import List NArith String.
From Sessions Require Import Model.Base Model.Lockset Gen.Access.
Import ListNotations.

(* every access obeys the locking policy *)
Theorem C15_table : forallb access_ok Gen.Access.table = true.
Proof. vm_compute. reflexivity. Qed.

(* every call of a "caller holds the lock" helper holds it *)
Theorem C15_calls : forallb call_ok Gen.Access.calls = true.
Proof. vm_compute. reflexivity. Qed.

(* Set, Get, Delete, GetAndDelete: all accesses to `data` in one critical
   section of the receiver's lock, of the right mode *)
Theorem C15_single_section : single_section Gen.Access.table = true.
Proof. vm_compute. reflexivity. Qed.

(* the table is about the functions the model talks about *)
Theorem C15_table_covers : covers Gen.Access.functions = true.
Proof. vm_compute. reflexivity. Qed.

Print Assumptions C15_table.
Print Assumptions C15_calls.
Print Assumptions C15_single_section.
Print Assumptions C15_table_covers.
