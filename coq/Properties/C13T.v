(* C13, timed (audit task A7) - per-key locks are mutually exclusive in every
   timed run whose holds are short. Statements only; the timed model is
   Model/MutexTimed.v (clock, item.lastAccess as mutexes.go maintains it: written
   by every getItem - the manager's in the acquire and in the release case, the
   locker's own - and by nothing else; the purge's staleness test computed as
   `time.Since(item.lastAccess) > stale`), proofs are in Proofs/MutexTimed*.v.

   In place of `adm_run` (a stale entry has lock count 0) the hypothesis is
   `tadm_run`, which speaks about time and holds only:
     - at the instant of every purge loop, every goroutine that is between the
       return of Lock(k) and the manager's receipt of its Unlock(k) began that
       hold at most `stale` ago, counted from the latest getItem(k) at or before
       the grant (`hold_within`, `hstart`); nothing is asked of waiters;
     - (unchanged, not about time) an Unlock of a key the caller does not hold
       is taken by the manager only while nobody holds that key. *)
From Sessions Require Import Model.Base Model.Mutex Model.MutexTimed Gen.MutexTbl Gen.MutexTime
  Proofs.MutexBasics Proofs.MutexSafety Proofs.MutexTheorems
  Proofs.MutexTimed Proofs.MutexTimedThms Proofs.MutexTimedApp Proofs.MutexTimedEx.
From Coq Require Import String.

(* (1) Erasure. A timed step is the untimed step of Model/Mutex.v on the erased
   label - for a purge loop, LPurge with the stale bit of every visited entry
   computed from the clock and lastAccess - and the clock does not go back. *)
Theorem C13T_step_erases :
  forall stale ts ev ts',
    tstep stale ts ev = Some ts' ->
    step (ust ts) (erase stale ts ev) = Some (ust ts') /\ (now ts <= fst ev)%N /\ now ts' = fst ev.
Proof. exact tstep_erases. Qed.

Theorem C13T_run_erases :
  forall stale evs ts ts',
    trun stale ts evs = Some ts' -> run (ust ts) (erase_run stale ts evs) = Some (ust ts').
Proof. exact trun_erases. Qed.

(* (2) Admissibility is derived: the erasure of a timed run within the time
   proviso is a run of the untimed protocol satisfying `adm_run`, so every
   theorem of Properties/C13.v and C14.v applies to it. *)
Theorem C13T_admissible :
  forall stale scripts purges t0 evs ts,
    trun stale (tinit scripts purges t0) evs = Some ts ->
    tadm_run stale (tinit scripts purges t0) evs ->
    run (init scripts purges) (erase_run stale (tinit scripts purges t0) evs) = Some (ust ts) /\
    adm_run (init scripts purges) (erase_run stale (tinit scripts purges t0) evs).
Proof. exact c13t_transfer. Qed.

(* Mutual exclusion for timed runs, the time proviso in place of `adm`. *)
Theorem C13T_mutual_exclusion :
  forall (stale : N) (scripts : list (list op)) (purges : nat) (t0 : N) (evs : list tevent) (ts : tstate),
    trun stale (tinit scripts purges t0) evs = Some ts ->
    tadm_run stale (tinit scripts purges t0) evs ->
    forall k g1 g2, holds (ust ts) g1 k -> holds (ust ts) g2 k -> g1 = g2.
Proof. exact c13t_exclusion. Qed.

Theorem C13T_count :
  forall stale scripts purges t0 evs ts,
    trun stale (tinit scripts purges t0) evs = Some ts ->
    tadm_run stale (tinit scripts purges t0) evs ->
    forall k, cH (ust ts) k <= 1 /\
              (forall c, mgr (ust ts) = MAcqSend c k \/ mgr (ust ts) = MRelSend c k -> cH (ust ts) k = 0).
Proof. exact c13t_count. Qed.

(* The same under the plainer reading of the proviso: at every event (so in
   particular at the Unlock that ends it) every hold has lasted at most `stale`. *)
Theorem C13T_mutual_exclusion_short_holds :
  forall stale scripts purges t0 evs ts,
    trun stale (tinit scripts purges t0) evs = Some ts ->
    tshort_run stale (tinit scripts purges t0) evs ->
    forall k g1 g2, holds (ust ts) g1 k -> holds (ust ts) g2 k -> g1 = g2.
Proof. exact c13t_exclusion_short. Qed.

(* And in the application's terms, which sees the return of Lock and not the
   getItem before it: if every grant follows the latest getItem of its key
   within `lat` (`grant_prompt`), and at every purge loop every hold has lasted
   at most `hold` counted from the return of Lock (`held_since_grant`), and
   lat + hold <= stale, then exclusion holds. (The grant does not write
   lastAccess: with lat + hold > stale, Proofs/MutexTimedEx.v
   latency_needs_refresh_based_start has two holders.) *)
Theorem C13T_mutual_exclusion_app :
  forall stale lat hold scripts purges t0 evs ts,
    (lat + hold <= stale)%N ->
    trun stale (tinit scripts purges t0) evs = Some ts ->
    tapp_run stale lat hold (tinit scripts purges t0) evs ->
    forall k g1 g2, holds (ust ts) g1 k -> holds (ust ts) g2 k -> g1 = g2.
Proof. exact c13t_exclusion_app. Qed.

(* What the proviso buys, in terms of time: the lastAccess of a held key's
   entry is never older than the holder's hold; and a purge loop at an instant
   the proviso allows leaves every entry with a positive lock count - the held
   key's entry with all its waiters, however long queued - untouched. *)
Theorem C13T_lastaccess_covers_hold :
  forall stale scripts purges t0 evs ts,
    trun stale (tinit scripts purges t0) evs = Some ts ->
    tadm_run stale (tinit scripts purges t0) evs ->
    forall g k v, holds (ust ts) g k -> mget (la ts) k = Some v -> (hstart ts g <= v <= now ts)%N.
Proof. exact c13t_lastaccess_covers_hold. Qed.

Theorem C13T_purge_keeps_locked :
  forall stale scripts purges t0 evs ts,
    trun stale (tinit scripts purges t0) evs = Some ts ->
    tadm_run stale (tinit scripts purges t0) evs ->
    forall t vis ts',
      tstep stale ts (t, TPurge vis) = Some ts' -> hold_within stale ts t ->
      forall k, 0 < lk (ust ts) k ->
        tget (tbl (ust ts')) k = tget (tbl (ust ts)) k /\ mget (la ts') k = mget (la ts) k.
Proof. exact c13t_purge_keeps_locked. Qed.

(* (3) Without the bound: one hour staleness, the ticker's purge every ten
   minutes; goroutine 0 holds key 0 from second 0, goroutine 1 queues at second
   10; the purge at second 4200 finds time.Since(lastAccess) = 4190 > 3600 and
   drops the entry (lock count 2); goroutine 2 is let in at second 4201 while
   goroutine 0 still holds, and goroutine 1 stays blocked on the dropped item's
   channel. The schedule is within the proviso up to that purge. *)
Theorem C13T_long_hold_refuted :
  exists scripts purges evs ts,
    trun 3600 (tinit scripts purges 0) evs = Some ts /\
    holds (ust ts) 0 0 /\ holds (ust ts) 2 0 /\ 2 <= cH (ust ts) 0 /\
    nth_error (gs (ust ts)) 1 = Some (mkG (GWait 0 0) []) /\ tbl (ust ts) = [(0, mkE 1 1)] /\
    trun_okb tadmb 3600 (tinit scripts purges 0) (firstn 22 evs) = true /\
    nth_error evs 22 = Some (4200%N, TPurge [(0, false)]) /\
    (forall ts1, trun 3600 (tinit scripts purges 0) (firstn 22 evs) = Some ts1 ->
       hstart ts1 0 = 0%N /\ ~ hold_within 3600 ts1 4200).
Proof. exact long_hold_refuted. Qed.

(* (4) A waiter queued for longer than `stale` does not lose its entry while
   holds are short: goroutine 2 asks for key 0 at second 20 and is granted it
   at second 6500 (queued 6480 s > 3600 s) behind holds of 3000 s and 3500 s,
   with a purge every 600 s; the schedule satisfies `tshort_run` and every
   script finishes. (Each Unlock passes through getItem and refreshes
   lastAccess; the general statement is C13T_purge_keeps_locked.) *)
Theorem C13T_long_waiter_safe :
  exists ts, trun 3600 (tinit three_lockers 18 0) waiter_evs = Some ts /\
             tshort_run 3600 (tinit three_lockers 18 0) waiter_evs /\
             tadm_run 3600 (tinit three_lockers 18 0) waiter_evs /\
             queued_for 2 waiter_evs = Some 6480%N /\
             finished (ust ts) = true /\ tbl (ust ts) = [] /\ la ts = [] /\ now ts = 13800%N.
Proof. exact waiter_run_ok. Qed.

(* The source facts the timed layer adds to C13_source_pinned, read off the
   regenerated Gen/MutexTbl.v: getItem writes lastAccess unconditionally as its
   last statement before `return item`; the acquire case, the release case and
   Lock each begin with / contain a getItem call and none of them (nor Unlock)
   mentions lastAccess otherwise; the purge's first disjunct is the strict
   comparison on lastAccess and does not look at the lock count; mutexes.go
   declares no other function (`mutex_time_pinned_statement`, spelled out in
   Proofs/MutexTimedThms.v). *)
Theorem C13T_source_pinned : mutex_time_pinned_statement.
Proof. exact mutex_time_pinned. Qed.

(* Package-wide, from the regenerated Gen/MutexTime.v: the one write and the
   one read of a lock item's lastAccess, the three getItem calls, no mention of
   the item type, getItem, `.items` or the staleness tunable outside mutexes.go
   (`mutex_time_uses_pinned_statement`, spelled out in Proofs/MutexTimedThms.v). *)
Theorem C13T_time_uses_pinned : mutex_time_uses_pinned_statement.
Proof. exact mutex_time_uses_pinned. Qed.

Print Assumptions C13T_step_erases.
Print Assumptions C13T_run_erases.
Print Assumptions C13T_admissible.
Print Assumptions C13T_mutual_exclusion.
Print Assumptions C13T_count.
Print Assumptions C13T_mutual_exclusion_short_holds.
Print Assumptions C13T_mutual_exclusion_app.
Print Assumptions C13T_lastaccess_covers_hold.
Print Assumptions C13T_purge_keeps_locked.
Print Assumptions C13T_long_hold_refuted.
Print Assumptions C13T_long_waiter_safe.
Print Assumptions C13T_source_pinned.
Print Assumptions C13T_time_uses_pinned.
