"""The remote address as a string (C06, C01): correspondence between
Model/AddrRe.v (submatch, ip_ok_str) and the real code.

The harness family `addrre` (harness/addr_re_test.go) generates pairs of
strings (recorded address, request address) - well-formed v4, leading zeros,
other separators, bracketed IPv6, newlines, long digit runs, valid and invalid
UTF-8, NUL bytes, single-byte mutations - and records, against /repo's current
tree, what regexp.FindStringSubmatch returns for the pattern of Start on each
string and whether the real sessions.Start keeps or destroys a stored session
recorded at the first string for a request from the second, for
AcceptRemoteIP = 1..5. This stage evaluates `submatch` and `ip_ok_str` in Coq
on the same strings (Model/AddrRe.v: rcases_diff) and compares.

Independently of the Coq model, the real decisions are judged by clause (3) of
C06 on well-formed addresses: two canonical dotted quads with a port are kept
under AcceptRemoteIP = n (2..4) iff their first n-1 octets are equal, and kept
for n = 1 and n = 5; an empty or bracketed (IPv6) address on either side is
kept for every n. A real decision contradicting that is a concrete violation;
any other difference between model and code (or a changed pattern / guard /
use of the pattern: Properties/C06A.v addr_pattern_pinned) is reported as
"no longer checks".

stage(chk) -> True/False; called from checks/c06.py. replay(chk, path) re-runs
the pair of a replay file written here."""
import collections
import difflib
import json
import os
import re
import time

import vlib

SIZES = {"quick": 2000, "thorough": 20000}
SHARD = 250
NS = [1, 2, 3, 4, 5]
BUILTIN_PATTERN = r"^(\d+).(\d+).(\d+).(\d+):\d+$"

CANON = re.compile(rb"(0|[1-9]\d{0,2})\.(0|[1-9]\d{0,2})\.(0|[1-9]\d{0,2})\.(0|[1-9]\d{0,2}):(0|[1-9]\d{0,4})")


# ------------------------------------------------------------------ the tables

def source_pattern():
    """The pattern literal the translator extracted (Gen/AddrRe.v), or None."""
    try:
        gen = open(os.path.join(vlib.COQ, "Gen", "AddrRe.v")).read()
    except OSError:
        return None
    m = re.search(r'Definition addr_pattern : string := "((?:[^"]|"")*)"\.', gen)
    return m.group(1).replace('""', '"') if m else None


def pin_diff():
    """Lines of Gen/AddrRe.v that differ from the pinned copy."""
    try:
        gen = open(os.path.join(vlib.COQ, "Gen", "AddrRe.v")).read()
        pin = open(os.path.join(vlib.COQ, "Proofs", "AddrRePinned.v")).read()
    except OSError as e:
        return "cannot read the tables: %s" % e
    if "Definition addr_pattern" not in gen:
        return "Gen/AddrRe.v: " + gen[:1500]
    gen = gen[gen.find("Definition addr_pattern"):].split("\n")
    pin = pin[pin.find("Definition addr_pattern_v1"):].replace("_v1 :", " :").split("\n")
    return "\n".join(l for l in difflib.unified_diff(pin, gen, "pinned (Model/AddrRe.v was written against)", "current source", lineterm="", n=0)
                     if l[:1] in "+-")[:3000]


# ------------------------------------------------------------------- the model

def cases_text(recs):
    text = "From Coq Require Import String.\nFrom Sessions Require Import Model.Base Model.Codec Model.Sess Model.AddrRe.\n"
    text += "Local Open Scope N_scope.\n"
    text += "Definition cases : list rcase := [\n" + ";\n".join(r["coq"] for r in recs) + "].\n"
    text += "Definition M := Eval vm_compute in rcases_diff 0 cases.\nPrint M.\n"
    return text


def model_diffs(recs, shard=SHARD, prefix="addrre"):
    """[(record index, field)]: field 1 = submatch of the recorded address,
    2 = of the request address, 10 + n = the decision under AcceptRemoteIP = n"""
    usable = [(i, r) for i, r in enumerate(recs) if r.get("coq")]
    jobs, maps = [], []
    for j in range(0, len(usable), shard):
        part = usable[j:j + shard]
        jobs.append(("%s_%d_%d" % (prefix, os.getpid(), j), cases_text([r for _, r in part])))
        maps.append([i for i, _ in part])
    results = vlib.coq_run_many(jobs)
    diffs = []
    for (rc, out), idx in zip(results, maps):
        flat = vlib.parse_printed_list(out, "M") if rc == 0 else None
        if flat is None or len(flat) % 2:
            raise vlib.Machinery("address pattern model evaluation failed: %s" % out[-3000:])
        for k in range(0, len(flat), 2):
            diffs.append((idx[flat[k]], flat[k + 1]))
    return diffs


# ------------------------------------------------------------------ the oracle

def observed(rec, n):
    e = (rec.get("nerr") or [""] * 5)[n - 1]
    if e:
        return "failed (%s)" % e
    return "kept" if rec["keep"][n - 1] else "destroyed"


def oracle(rec):
    """Clause (3) of C06 on well-formed addresses, on the real observations.
    Returns (applies: None | "canonical" | "unparsed", [(n, observed, expected, why)])."""
    prev, cur = bytes.fromhex(rec["prev_hex"]), bytes.fromhex(rec["cur_hex"])
    bad = []
    def unparsed(b):
        return "empty" if b == b"" else ("an IPv6 literal" if b[:1] == b"[" else None)
    if unparsed(prev) or unparsed(cur):
        why = "the recorded address is %s, which is never compared" % unparsed(prev) if unparsed(prev) else "the request's address is %s, which is never compared" % unparsed(cur)
        for n in NS:
            if observed(rec, n) != "kept":
                bad.append((n, observed(rec, n), "kept", why))
        return "unparsed", bad
    mp, mc = CANON.fullmatch(prev), CANON.fullmatch(cur)
    if not (mp and mc):
        return None, bad
    for n in NS:
        if n in (2, 3, 4):
            same = all(mp.group(i) == mc.group(i) for i in range(1, n))
            exp = "kept" if same else "destroyed"
            if n == 2:
                why = "the first octets of the two addresses %s" % ("are equal" if same else "differ")
            else:
                why = "the first %d octets of the two addresses %s" % (n - 1, "are equal" if same else "differ")
        else:
            exp, why = "kept", ("AcceptRemoteIP = 1 compares nothing" if n == 1 else "AcceptRemoteIP > 4 compares nothing")
        if observed(rec, n) != exp:
            bad.append((n, observed(rec, n), exp, why))
    return "canonical", bad


def rune_width(b, pos):
    """Width of the UTF-8 rune at pos; 1 for a byte that starts no well-formed encoding."""
    for w in (1, 2, 3, 4):
        try:
            if len(b[pos:pos + w].decode("utf-8")) == 1:
                return w
        except UnicodeDecodeError:
            pass
    return 1


def seps_of(b, m):
    """What the three dots of the pattern consumed in a matched string, given
    its four groups; None when the groups, one rune between each two, a colon
    and digits do not make up the string."""
    out, pos = [], 0
    for k, g in enumerate(bytes.fromhex(x) for x in m):
        if b[pos:pos + len(g)] != g or not g:
            return None
        pos += len(g)
        if k < 3:
            if pos >= len(b):
                return None
            w = rune_width(b, pos)
            out.append(b[pos:pos + w])
            pos += w
    if b[pos:pos + 1] != b":" or not re.fullmatch(rb"[0-9]+", b[pos + 1:]):
        return None
    return out


def field_name(f):
    if f == 1:
        return "FindStringSubmatch of the recorded address"
    if f == 2:
        return "FindStringSubmatch of the request's address"
    return "the decision of Start under AcceptRemoteIP = %d" % (f - 10)


def show_match(m):
    return None if m is None else [bytes.fromhex(x).decode("latin-1") for x in m]


def replay_record(rec, seed, n, obs, exp, why):
    what = ("AcceptRemoteIP = %d: a session recorded at %s is %s for a request from %s; expected %s (%s)"
            % (n, rec["prev"], obs, rec["cur"], exp, why))
    return {"property": "C06", "what": what, "signature": "addrre:n=%d:%s-not-%s" % (n, obs.split(" ")[0], exp),
            "addrre": {"seed": seed, "case": rec["case"], "prev_hex": rec["prev_hex"], "cur_hex": rec["cur_hex"]},
            "accept_remote_ip": n, "recorded_address": rec["prev"], "request_address": rec["cur"],
            "observed": obs, "expected": exp, "why": why,
            "decisions_for_1_to_5": [observed(rec, k) for k in NS],
            "submatch_recorded": show_match(rec["mprev"]), "submatch_request": show_match(rec["mcur"]),
            "replay": "./check C06 --replay <this file>   (harness family addrre, only_prev=%s only_cur=%s)" % (rec["prev_hex"], rec["cur_hex"])}


# ------------------------------------------------------------------- execution

def run_cases(binary, seed, n, pattern, args="", tag=""):
    """Returns (records, pattern mismatch records)."""
    p = os.path.join(vlib.BUILD, "addrre-%s-%d.jsonl" % (tag, os.getpid()))
    env = {"VERIF_ADDR_PATTERN": pattern} if pattern is not None else None
    rc, out = vlib.run_harness(binary, "addrre", p, seed=seed, n=n, args=args, extra_env=env)
    if rc != 0:
        raise vlib.Machinery("harness family addrre failed: %s" % out[-3000:])
    recs = vlib.read_jsonl(p)
    os.remove(p)
    return [r for r in recs if "case" in r], [r for r in recs if r.get("pattern_mismatch")]


def evaluate(chk, recs, seed):
    """Compares model and real code, judges the real decisions. Returns
    (ok, coverage, diffs, concrete) and writes the concrete violations."""
    diffs = model_diffs(recs)
    strings = set()
    both = one = none = 0
    nonascii = newline = nul = 0
    per_n = {n: {"kept": 0, "destroyed": 0, "failed": 0} for n in NS}
    judged = {"canonical": 0, "unparsed": 0}
    concrete = []
    errors = []
    for i, r in enumerate(recs):
        for h in (r["prev_hex"], r["cur_hex"]):
            strings.add(h)
        bs = bytes.fromhex(r["prev_hex"]) + b"|" + bytes.fromhex(r["cur_hex"])
        nonascii += any(c >= 0x80 for c in bs)
        newline += b"\n" in bs
        nul += b"\0" in bs
        k = (r["mprev"] is not None) + (r["mcur"] is not None)
        both, one, none = both + (k == 2), one + (k == 1), none + (k == 0)
        for n in NS:
            per_n[n][observed(r, n).split(" ")[0]] += 1
        applies, bad = oracle(r)
        if applies:
            judged[applies] += 1
        for b in bad:
            concrete.append((i,) + b)
        judged_ns = {b[0] for b in bad}
        # anything the real code did that is neither keeping nor destroying
        for n in NS:
            e = (r.get("nerr") or [""] * 5)[n - 1]
            if e and n not in judged_ns:
                errors.append((i, n, e))
            elif not e and r["keep"][n - 1] and not r["moved"][n - 1] and n not in judged_ns:
                errors.append((i, n, "the session was kept but its recorded address is not the request's address afterwards"))
        if r.get("error") and not any(r.get("nerr") or []):
            errors.append((i, 0, r["error"]))
    # matches in which a dot of the pattern consumed a digit / a multi-byte rune / an invalid byte
    digit_sep, utf8_sep, bad_sep, untiled = set(), set(), set(), set()
    for r in recs:
        for h, m in ((r["prev_hex"], r["mprev"]), (r["cur_hex"], r["mcur"])):
            if m is None:
                continue
            seps = seps_of(bytes.fromhex(h), m)
            if seps is None:
                untiled.add(h)
                continue
            if any(len(x) == 1 and 48 <= x[0] <= 57 for x in seps):
                digit_sep.add(h)
            if any(len(x) > 1 for x in seps):
                utf8_sep.add(h)
            if any(len(x) == 1 and x[0] >= 0x80 for x in seps):
                bad_sep.add(h)
    cov = {
        "matched_strings_with_a_digit_as_separator": len(digit_sep), "matched_strings_with_a_multibyte_rune_as_separator": len(utf8_sep),
        "matched_strings_with_an_invalid_byte_as_separator": len(bad_sep),
        "matched_strings_not_of_the_shape_group_rune_group_rune_group_rune_group_colon_digits": len(untiled),
        "cases": len(recs), "pair_kinds": dict(collections.Counter(r["pair"] for r in recs)),
        "string_kinds": dict(collections.Counter(k for r in recs for k in r["kind"].split("/"))),
        "rule": "one case per generated pair (recorded address, request address); each pair is matched twice and run through the real Start five times (AcceptRemoteIP = 1..5)",
        "both_match": both, "one_matches": one, "none_matches": none,
        "decisions": {str(n): per_n[n] for n in NS}, "real_start_calls": 5 * len(recs),
        "distinct_strings": len(strings), "pairs_with_non_ascii_bytes": nonascii, "pairs_with_newline": newline, "pairs_with_nul": nul,
        "judged_by_clause_3": judged, "clause_3_contradictions": len(concrete),
        "field_mismatches": len(diffs), "real_code_failures": len(errors),
        "samples": [{"recorded": r["prev"], "request": r["cur"], "kind": r["kind"], "pair": r["pair"], "submatch_recorded": show_match(r["mprev"]),
                     "submatch_request": show_match(r["mcur"]), "kept_for_1_to_5": r["keep"]} for r in recs[:4]],
    }
    reported = set()
    # a failing Start first, then the wrong decisions
    for (i, n, obs, exp, why) in sorted(concrete, key=lambda c: not c[2].startswith("failed")):
        rr = replay_record(recs[i], seed, n, obs, exp, why)
        if rr["signature"] in reported or len(reported) >= 3:
            continue
        reported.add(rr["signature"])
        chk.violation(rr, signature=rr["signature"], what=rr["what"])
    for (i, n, e) in errors:
        if len(reported) >= 3:
            break
        r = recs[i]
        sig = "addrre:failure:" + re.sub(r"[^a-z ]", "", e.lower())[:40].strip()
        if sig in reported:
            continue
        reported.add(sig)
        chk.violation({"property": "C06", "what": "Start on a session recorded at %s, request from %s: %s" % (r["prev"], r["cur"], e), "signature": sig,
                       "addrre": {"seed": seed, "case": r["case"], "prev_hex": r["prev_hex"], "cur_hex": r["cur_hex"]},
                       "accept_remote_ip": n or None, "recorded_address": r["prev"], "request_address": r["cur"], "observed": e,
                       "expected": "the session is kept or destroyed",
                       "replay": "./check C06 --replay <this file>   (harness family addrre, only_prev=%s only_cur=%s)" % (r["prev_hex"], r["cur_hex"])},
                      signature=sig, what=e)
    ok = not diffs and not concrete and not errors
    return ok, cov, diffs, len(reported)


def describe_diff(rec, field):
    d = {"recorded_address": rec["prev"], "request_address": rec["cur"], "differs_in": field_name(field),
         "addrre": {"prev_hex": rec["prev_hex"], "cur_hex": rec["cur_hex"]}}
    if field == 1:
        d["real"] = show_match(rec["mprev"])
    elif field == 2:
        d["real"] = show_match(rec["mcur"])
    else:
        d["real"] = observed(rec, field - 10)
        d["model"] = "destroyed" if rec["keep"][field - 11] else "kept"
        d["submatch_recorded"], d["submatch_request"] = show_match(rec["mprev"]), show_match(rec["mcur"])
    return d


def stage(chk):
    """Returns True when model and code agree on every generated pair, clause
    (3) holds of the real decisions and the pattern's pin holds."""
    t0 = time.time()
    cov = chk.coverage.setdefault("addrre", {})
    have_c06a = os.path.exists(os.path.join(vlib.COQ, "Properties", "C06A.v"))
    targets = ["Model/AddrRe", "Properties/C06A"] if have_c06a else ["Model/AddrRe", "Gen/AddrRe", "Proofs/AddrRePinned"]
    ok_build, log_, gen_ok = vlib.coq_build(targets)
    if not os.path.exists(os.path.join(vlib.COQ, "Model", "AddrRe.vo")):
        raise vlib.Machinery("Model/AddrRe.v does not compile: " + log_[-3000:])
    sdiff = pin_diff()
    if have_c06a:
        # Properties/C06A (with the pin addr_pattern_pinned) is judged theorem by
        # theorem by the proof stage of run_property
        pin_ok = ok_build and os.path.exists(os.path.join(vlib.COQ, "Properties", "C06A.vo"))
    else:
        cov["c06a_missing"] = "Properties/C06A.v does not exist; the pin is judged by comparing Gen/AddrRe.v with Proofs/AddrRePinned.v as text"
        pin_ok = ok_build and not sdiff.strip()
    if not pin_ok:
        cov["addr_pattern_changed"] = sdiff
        cov["coq_log_tail"] = log_[-1200:]
    pattern = source_pattern()
    cov["pattern"] = pattern
    binary, blog = vlib.build_harness()
    if binary is None:
        # reported (with the log) by the history stage
        chk.oblige("address pattern model = implementation (family addrre)", False)
        cov["harness_failed"] = blog[-1500:]
        return False
    recs, mismatch = run_cases(binary, chk.seed, SIZES.get(chk.tier, SIZES["quick"]), pattern, tag=chk.tier)
    if not recs:
        raise vlib.Machinery("family addrre produced no cases")
    ok, c2, diffs, reported = evaluate(chk, recs, chk.seed)
    cov.update(c2)
    cov["pattern_is_the_modelled_one"] = not mismatch and pattern == BUILTIN_PATTERN
    chk.oblige("address pattern model = implementation: FindStringSubmatch on %d distinct strings and %d decisions of the real Start (AcceptRemoteIP = 1..5 on %d pairs) agree with submatch / ip_ok_str (Model/AddrRe.v); %d pairs judged by clause (3) of C06"
               % (c2["distinct_strings"], 5 * len(recs), len(recs), sum(c2["judged_by_clause_3"].values())), ok)
    if ok:
        dec = c2["decisions"]
        never = [(n, o) for n in (2, 3, 4) for o in ("kept", "destroyed") if not dec[str(n)][o]]
        if never or not c2["pairs_with_non_ascii_bytes"] or not c2["pairs_with_newline"] or not c2["judged_by_clause_3"]["canonical"] \
                or not c2["judged_by_clause_3"]["unparsed"] or not c2["both_match"] or not c2["none_matches"] \
                or not c2["matched_strings_with_a_digit_as_separator"] or not c2["matched_strings_with_a_multibyte_rune_as_separator"] \
                or not c2["matched_strings_with_an_invalid_byte_as_separator"]:
            raise vlib.Machinery("addrre self-test: outcomes never observed %s; non-ASCII pairs %d, newline pairs %d, judged %s, matches through a digit / multi-byte rune / invalid byte %d / %d / %d"
                                 % (never, c2["pairs_with_non_ascii_bytes"], c2["pairs_with_newline"], c2["judged_by_clause_3"],
                                    c2["matched_strings_with_a_digit_as_separator"], c2["matched_strings_with_a_multibyte_rune_as_separator"],
                                    c2["matched_strings_with_an_invalid_byte_as_separator"]))
    # model and code differ where clause (3) is silent or satisfied
    concrete_idx = set()
    for i, r in enumerate(recs):
        for (n, _, _, _) in oracle(r)[1]:
            concrete_idx.add((i, 10 + n))
    silent = [(i, f) for (i, f) in diffs if (i, f) not in concrete_idx]
    if silent and reported < 3:
        fields = collections.Counter(field_name(f) for _, f in silent)
        chk.violation({"property": "C06", "no_longer_checks": "Model/AddrRe.v (submatch, ip_ok_str) no longer describes what the code does with the remote address: %d differences on %d generated pairs (%s), none of them on a pair of well-formed addresses contradicting clause (3) of C06"
                       % (len(silent), len(recs), "; ".join("%s: %d" % kv for kv in sorted(fields.items()))),
                       "pattern_in_source": pattern, "pattern_modelled": BUILTIN_PATTERN, "changed_tables": sdiff,
                       "examples": [describe_diff(recs[i], f) for (i, f) in silent[:5]], "seed": chk.seed}, no_input=True)
        reported += 1
    elif ok and (mismatch or (not pin_ok and sdiff.strip())):
        # (a C06A that fails for another reason is reported by the proof stage)
        # the source treats the address differently from what the model was
        # written against, and the strings explored show no difference
        chk.violation({"property": "C06", "no_longer_checks": "Properties/C06A.v: addr_pattern_pinned - the address pattern of Start, a guard around its use or a statement using it is not the one Model/AddrRe.v was written against; the %d generated pairs show no differing match or decision"
                       % len(recs), "pattern_in_source": pattern, "pattern_modelled": BUILTIN_PATTERN, "changed_tables": sdiff,
                       "translator_ok": gen_ok, "log": log_[-1500:]}, no_input=True)
    cov["wall_s"] = round(time.time() - t0, 1)
    return ok and pin_ok and not mismatch


def replay(chk, path):
    rep = json.load(open(path))
    ar = rep.get("addrre")
    if not ar:
        print(json.dumps(rep, indent=1)[:4000])
        return 0
    ok_model, log_, _ = vlib.coq_build(["Model/AddrRe"])
    if not ok_model:
        print(log_[-2000:])
        return 2
    binary, blog = vlib.build_harness()
    if binary is None:
        print(blog[-2000:])
        return 2
    recs, mismatch = run_cases(binary, ar.get("seed", 0), 1, source_pattern(),
                               args="only_prev=%s only_cur=%s case=%d" % (ar["prev_hex"], ar["cur_hex"], ar.get("case", 0)), tag="replay")
    bad = 0
    for m in mismatch:
        print("the pattern of Start is %s, the modelled one %s" % (m["source"], m["builtin"]))
    for r in recs:
        print("recorded %s, request from %s: %s" % (r["prev"], r["cur"], ", ".join("AcceptRemoteIP=%d: %s" % (n, observed(r, n)) for n in NS)))
        for (n, obs, exp, why) in oracle(r)[1]:
            print(replay_record(r, ar.get("seed", 0), n, obs, exp, why)["what"])
            bad += 1
        for n in NS:
            e = (r.get("nerr") or [""] * 5)[n - 1]
            if e and n not in {b[0] for b in oracle(r)[1]}:
                print(e)
                bad += 1
    for (i, f) in model_diffs(recs, prefix="addrre_replay"):
        print("model and code differ in %s: %s" % (field_name(f), json.dumps(describe_diff(recs[i], f))))
        bad += 1
    if bad:
        print("VIOLATION property=%s replay=%s" % (chk.prop if chk else "C06", path))
        return 1
    print("no violation on the current tree")
    return 0
