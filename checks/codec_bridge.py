"""Cross-check for Properties/C09B.v (round 4, task R5): the records the real
store holds are records the codec bridge covers.

Properties/C09B.v proves that decoding the encoding of an embedded session-model
record (Model/CodecBridge.v: emb_rec, decode_encode, proj_result) is
Sess.codec of it, under the guard bridge_dom. The history families of the
session bundle (checks/hist_common.py: bundle) run the real code behind a gob
and behind a JSON store and record what the store holds after every step and
every SaveSession call with the record as the store holds it afterwards, i.e.
images of the *real* codec. This stage evaluates, by vm_compute, on every
distinct (codec, record) observed:

  bridge_fix json r = 0   iff  bridge_dom holds of r (instants within RFC 3339's
                               years, fingerprint a uint64) and
                               proj_result (decode_encode c (emb_rec r)) = Some r

and records the value of json_da_null_ok (the premise of C09B's JSON theorems,
also the obligation C09B_json_da_null_ok_now) on the regenerated table,

so it measures that the guards of C09B hold on every record of a real run and
that the real codec's image lies within the modelled codec's image (what is in
the store is a fixed point of the modelled round trip: data never nil, user
version 0, whole seconds behind JSON).

stage(chk) -> True/False. Nothing here decides C09 on its own: a record that is
not a fixed point while the history correspondence of the same run shows no
difference is reported with no_input=True."""
import json
import os

import vlib
from checks import hist_common

SHARD = 400
CAP = {"quick": 1500, "thorough": None}   # distinct records evaluated (seeded sample in the quick tier)


def key_coq(k):
    return "(Sess.KGen %d)" % k["n"] if k["gen"] else "(Sess.KJunk %d)" % k["n"]


def rec_coq(r):
    ip = r["ip"]
    addr = ("(Sess.V4 %d %d %d %d %d)" % (ip["A"], ip["B"], ip["C"], ip["D"], ip["P"])) if ip["v4"] else "(Sess.AOther %d)" % ip["n"]
    ref = "(Some %s)" % key_coq(r["ref"]) if r.get("ref") else "None"
    user = "(Some (%d, %d))" % tuple(r["user"]) if r.get("user") else "None"
    if r.get("datanil"):
        data = "None"
    else:
        data = "(Some [%s])" % "; ".join("(%d, %d)" % tuple(kv) for kv in (r.get("data") or []))
    return "(Sess.mkRec (%d)%%Z (%d)%%Z %s %d %s %s %s)" % (r["created"], r["access"], addr, r["ua"], ref, user, data)


def collect(b):
    """Distinct (json, record) observed in stores and successful saves, with
    one place of observation each; histories whose codec changes are left out
    (there are none in the families as generated)."""
    seen, out, skipped = {}, [], 0
    counts = {"store_entries": 0, "saves_ok": 0, "saves_failed": 0}
    for fam, recs in b["families"].items():
        for r in recs:
            h = r["history"]
            js = bool(h["cfg"]["json"])
            if any(s["kind"] == "setcfg" and bool(s["cfg"]["json"]) != js for s in h["steps"]):
                skipped += 1
                continue
            for si, ob in enumerate(r["obs"]):
                items = [("store", e["rec"]) for e in (ob.get("store") or [])]
                for e in ob.get("evs") or []:
                    if e.get("op") == "save" and e.get("rec") is not None:
                        # a failed save carries the record it would have stored
                        counts["saves_ok" if e.get("ok") else "saves_failed"] += 1
                        items.append(("save", e["rec"]))
                counts["store_entries"] += sum(1 for w, _ in items if w == "store")
                for where, rec in items:
                    k = (js, json.dumps(rec, sort_keys=True))
                    if k not in seen:
                        seen[k] = len(out)
                        out.append({"json": js, "rec": rec, "family": fam, "history": h.get("id"), "step": si, "where": where, "_h": h})
    return out, counts, skipped


def cases_text(part):
    text = "From Sessions Require Import Model.Base Model.Codec Model.CodecBridge.\nFrom Sessions Require Model.Sess.\nLocal Open Scope N_scope.\n"
    text += "Definition cases : list (bool * Sess.rec) := [\n" + ";\n".join(
        "(%s, %s)" % ("true" if c["json"] else "false", rec_coq(c["rec"])) for c in part) + "].\n"
    text += "Definition M := Eval vm_compute in bridge_failures cases 0.\nPrint M.\n"
    return text


CODES = {1: "outside bridge_dom (an instant outside years 0..9999, or a fingerprint that is no uint64)",
         2: "the modelled encode/decode fails on the embedded record or leaves the session model",
         3: "the modelled encode/decode changes the record: the real store holds something that is not an image of the modelled codec"}


def evaluate(cases):
    jobs, maps = [], []
    for j in range(0, len(cases), SHARD):
        part = cases[j:j + SHARD]
        jobs.append(("codecbridge_%d_%d" % (os.getpid(), j), cases_text(part)))
        maps.append(j)
    bad = []
    for (rc, out), base in zip(vlib.coq_run_many(jobs), maps):
        flat = vlib.parse_printed_list(out, "M") if rc == 0 else None
        if flat is None or len(flat) % 2:
            raise vlib.Machinery("codec bridge evaluation failed: %s" % out[-3000:])
        for k in range(0, len(flat), 2):
            bad.append((base + flat[k], flat[k + 1]))
    return bad


def stage(chk):
    import time
    t0 = time.time()
    cov = chk.coverage.setdefault("codec_bridge", {})
    ok_model, log_, _ = vlib.coq_build(["Model/CodecBridge"])
    if not ok_model or not os.path.exists(os.path.join(vlib.COQ, "Model", "CodecBridge.vo")):
        # Properties/C09B.v is judged theorem by theorem by the proof stage
        chk.oblige("stored records of the real run are fixed points of the modelled codec (bridge_fix)", False)
        cov["model_failed"] = log_[-1500:]
        return False
    # the premise of every JSON theorem of Properties/C09B.v, on the table just
    # regenerated (Model/CodecBridge.v: da_null_ok_now = Proofs/CodecDefs.v:
    # json_da_null_ok); false = the repair of D3 is gone
    rc, out = vlib.coq_run("codecbridge_premise_%d" % os.getpid(),
                           "From Sessions Require Import Model.Base Model.Codec Model.CodecBridge.\n"
                           "Definition D : list N := Eval vm_compute in (if da_null_ok_now then [1%N] else [0%N]).\nPrint D.\n")
    flag = vlib.parse_printed_list(out, "D") if rc == 0 else None
    if flag not in ([0], [1]):
        raise vlib.Machinery("codec bridge: da_null_ok_now could not be evaluated: %s" % out[-2000:])
    cov["json_da_null_ok"] = bool(flag[0])
    chk.oblige("json_da_null_ok = true on the regenerated table (premise of the JSON theorems of C09B)", bool(flag[0]))
    b = hist_common.bundle(chk.tier, chk.seed)
    if "harness_failed" in b:
        chk.oblige("stored records of the real run are fixed points of the modelled codec (bridge_fix)", False)
        cov["harness_failed"] = b["harness_failed"][-1500:]
        return False
    cases, counts, skipped = collect(b)
    if not cases:
        raise vlib.Machinery("codec bridge: the bundle holds no stored record")
    total = len(cases)
    cap = CAP.get(chk.tier)
    if cap and total > cap:
        import random
        cases = random.Random(chk.seed).sample(cases, cap)
    bad = evaluate(cases)
    kinds = {"gob": 0, "json": 0, "with_user": 0, "with_ref": 0, "with_data": 0, "empty_data": 0, "nil_data": 0,
             "non_v4_peer": 0, "subsecond_instant": 0}
    for c in cases:
        r = c["rec"]
        kinds["json" if c["json"] else "gob"] += 1
        kinds["with_user"] += 1 if r.get("user") else 0
        kinds["with_ref"] += 1 if r.get("ref") else 0
        kinds["nil_data"] += 1 if r.get("datanil") else 0
        kinds["with_data"] += 1 if r.get("data") else 0
        kinds["empty_data"] += 1 if not r.get("datanil") and not r.get("data") else 0
        kinds["non_v4_peer"] += 0 if r["ip"]["v4"] else 1
        kinds["subsecond_instant"] += 1 if r["created"] % 10**9 or r["access"] % 10**9 else 0
    cov.update({"distinct_records": total, "evaluated": len(cases), "observations": counts, "histories_skipped_codec_change": skipped,
                "kinds": kinds, "not_fixed_points": len(bad),
                "samples": [{"json": c["json"], "rec": c["rec"], "coq": rec_coq(c["rec"])} for c in cases[:2] + cases[-2:]]})
    if kinds["gob"] == 0 or kinds["json"] == 0 or kinds["with_user"] == 0 or kinds["with_data"] == 0:
        raise vlib.Machinery("codec bridge self-test: a kind of record never observed: %s" % kinds)
    for i, code in bad[:5]:
        c = cases[i]
        chk.violation({"property": chk.prop, "codec_bridge": {"json": c["json"], "record": c["rec"], "coq": rec_coq(c["rec"]),
                                                               "code": code, "meaning": CODES.get(code, "?"),
                                                               "observed_in": {k: c[k] for k in ("family", "history", "step", "where")},
                                                               "history": c["_h"]},
                       "what": "a record the real store holds behind the %s codec is not a fixed point of the modelled round trip of Properties/C09B.v: %s"
                               % ("JSON" if c["json"] else "gob", CODES.get(code, "?"))}, no_input=True)
    ok = not bad
    chk.oblige("stored records of the real run are fixed points of the modelled codec (bridge_fix)", ok)
    cov["wall_s"] = round(time.time() - t0, 1)
    return ok and cov["json_da_null_ok"]


def replay(chk, path):
    """Runs the history of a replay file written by stage() on the current tree
    again and evaluates every record its store holds. 1: still not fixed points."""
    cb = json.load(open(path)).get("codec_bridge")
    if not cb:
        return 0
    ok_model, log_, _ = vlib.coq_build(["Model/CodecBridge"])
    binary, blog = vlib.build_harness()
    if not ok_model or binary is None:
        print((log_ if not ok_model else blog)[-2000:])
        return 2
    recs = hist_common.rerun(binary, [cb["history"]], "codecbridge")
    cases, _, _ = collect({"families": {"replay": recs}})
    bad = evaluate(cases)
    for i, code in bad:
        c = cases[i]
        print("step %d (%s), %s codec: %s\n  %s" % (c["step"], c["where"], "JSON" if c["json"] else "gob", rec_coq(c["rec"]), CODES.get(code, "?")))
    print("%d records in the store of the replayed history, %d not fixed points of the modelled codec" % (len(cases), len(bad)))
    return 1 if bad else 0


if __name__ == "__main__":
    import sys
    c = vlib.Check("C09", sys.argv[1] if len(sys.argv) > 1 else "quick", int(os.environ.get("VERIF_SEED", "0")))
    print(stage(c))
    print(json.dumps(c.coverage["codec_bridge"], indent=1)[:3000])
