"""C04 — ID rotation (DESIGN.md §5, C04): the shared history machinery plus the
concurrent clause: K real goroutines presenting one due ID."""
import json
import os

import vlib
from checks import hist_common


def conc(chk):
    binary, blog = vlib.build_harness()
    if binary is None:
        return
    p = os.path.join(vlib.BUILD, "conc04-%d.jsonl" % os.getpid())
    n = 400 if chk.tier == "thorough" else 48
    rc, out = vlib.run_harness(binary, "conc04", p, seed=chk.seed, n=n)
    if rc != 0:
        raise vlib.Machinery("conc04: " + out[-2000:])
    recs = vlib.read_jsonl(p)
    os.remove(p)
    bad = []
    hist = {}
    for r in recs:
        c = r["case"]
        hist["K=%d" % c["k"]] = hist.get("K=%d" % c["k"], 0) + 1
        if r.get("error"):
            bad.append((r, "the real code crashed or deadlocked: " + r["error"][-600:]))
            continue
        ids = set(r["ids"])
        if r.get("panics"):
            bad.append((r, "panic in concurrent Start: %s" % r["panics"][0]))
        elif r["draws"] != 1:
            bad.append((r, "%d IDs were minted by %d concurrent requests on one due ID" % (r["draws"], c["k"])))
        elif c["grace"] > 0 and (r.get("errors") or r["nil"] or len(ids) != 1 or min(ids) < 0 or set(r["data"]) != {"v42"}):
            bad.append((r, "concurrent requests on one due ID did not all receive the same session (ids %s, errors %s, none %d)" % (sorted(ids), r.get("errors"), r["nil"])))
        elif c["grace"] == 0 and (r.get("errors") or len(ids - {-1}) != 1):
            bad.append((r, "concurrent requests on one due ID (grace 0) received different sessions or errors"))
    chk.coverage["concurrent_cases"] = len(recs)
    chk.coverage["concurrent_case_histogram"] = hist
    chk.oblige("K concurrent requests on one due ID: one new ID, one session (%d real runs)" % len(recs), not bad)
    for r, what in bad[:2]:
        chk.violation({"property": "C04", "what": what, "case": r["case"], "observed": {k: v for k, v in r.items() if k != "case"},
                       "replay": "harness family conc04 with VERIF_SEED=%d; the case's seed field reproduces the IDs, the schedule is the Go scheduler's" % chk.seed})


def c13_obligation(chk):
    """The concurrent clause rests on mutual exclusion per ID (C13): its theorems
    and the source pins over the regenerated Gen/MutexTbl.v / Gen/MutexTime.v must
    still check for the current mutexes.go (proof stage only; the lock manager's
    own correspondence runs belong to ./check C13)."""
    from checks import mutex_common
    tmod, tnames = mutex_common.THEOREMS_T["C13"]
    ok, log_, _ = vlib.coq_build(["Properties/C13", "Properties/" + tmod])
    good = ok
    for mod, names in (("C13", ["C13", "C13_source_pinned"]), (tmod, ["C13T_mutual_exclusion", "C13T_source_pinned", "C13T_time_uses_pinned"])):
        res = vlib.print_assumptions("Properties." + mod, names)[0] if ok else None
        for n in names:
            closed = bool(res) and res.get(n) == "Closed under the global context"
            chk.oblige("%s (Properties/%s.v): mutual exclusion per ID, on which the reduction of concurrent requests to serial ones rests, still checks for the current mutexes.go" % (n, mod), closed)
            good = good and closed
    if not good:
        chk.violation({"property": "C04", "no_longer_checks": "Properties/C13.v / C13T.v (theorems or the source pins over Gen/MutexTbl.v, Gen/MutexTime.v): the per-ID lock manager is no longer the one mutual exclusion was proved for, so K concurrent requests on one due ID are no longer shown to run one after the other; ./check C13 searches the lock manager itself for a failing schedule",
                       "log": log_[-1500:]}, no_input=True)
    return good


def run(chk):
    hist_common.idlock_obligation(chk, "C04")
    c13_obligation(chk)
    conc(chk)
    # K goroutines against the composed model (Model/StartConc.v, Properties/C04K.v):
    # the observed order of the critical sections replayed as the model's serial execution
    from checks import conc04k
    conc04k.stage(chk)
    return hist_common.run_property(chk, "C04", note="the concurrent clause is checked on real goroutines under the Go scheduler inside a synctest bubble (sampled schedules), and rests on C13 (mutual exclusion per ID) for the general claim")


def replay(chk, path):
    rep = json.load(open(path))
    if "case" in rep:
        print(json.dumps(rep, indent=1)[:3000])
        return 0
    return hist_common.replay_property(chk, "C04", path)
