"""C16 — gob encoding restores a session exactly, and old records stay readable
(DESIGN.md §5, C16)."""
import vlib
from checks import codec_common as cc

THEOREMS = ["C16_roundtrip", "C16_roundtrip_any_offset", "C16_pinned"]

LEMMAS = {"C16_roundtrip": ("CodecLaws", "gob_roundtrip_lemma"),
          "C16_roundtrip_any_offset": ("CodecLaws", "gob_roundtrip_any_offset"),
          "C16_pinned": ("CodecPinned", "gob_pinned_lemma")}

ASSUME = [
    "encoding/gob restores each value it is given (the wire is modelled as the list of typed values, one per Encode call; type mismatch or end of stream is an error); not proved, exercised by the real round trips of this run",
    "time.Time's binary form (zone offset as int16 minutes plus an unsigned byte of seconds, -1 minute reserved for UTC) is modelled by gob_off_ok/gob_off_back and compared with the real library on every generated instant",
    "data values are of the modelled closed set (nil, bool, int, float64, string, []interface{}, map[string]interface{}, all registered with gob); nested nil slices/maps are not told apart from empty ones",
    "Persistence.LoadUser is a parameter of the theorems (any function); the harness installs one that returns a user with the given ID, an error, or nil",
]


@cc.guarded
def run(chk):
    c = cc.CodecCheck(chk, "C16", "gob", THEOREMS, LEMMAS)
    import time
    t0 = time.time()
    c.proofs()
    cc.stage(chk, "proofs", t0)
    t0 = time.time()
    if not c.harness():
        return c.report([], ASSUME, [])
    thorough = c.thorough
    cc.stage(chk, "harness build", t0)
    t0 = time.time()
    c.library(2000 if thorough else 400)
    cc.stage(chk, "library cases", t0)
    t0 = time.time()
    n, coq_n = (60000, 40000) if thorough else (6000, 2500)
    recs, rcoq, mism = c.roundtrips("gobrt", n, "generated", coq_n)
    cc.stage(chk, "generated round trips", t0)
    t0 = time.time()
    shapes, _, smism = c.roundtrips("codecshapes", 1, "package-made")
    c.golden()
    cc.stage(chk, "package-made shapes and golden corpus", t0)
    t0 = time.time()
    all_recs = recs + shapes
    mm = None if mism is None or smism is None else len(mism) + len(smism)
    chk.oblige("model = GobEncode/GobDecode on %d generated and %d package-made sessions" % (len(rcoq), len(shapes)), mm == 0)
    chk.oblige("the property as stated in Go holds on all %d generated round trips" % len(recs), all(r["spec_ok"] for r in recs))
    placeholders = sum(1 for r in shapes if r["in"]["ref"] and r["in"]["data_nil"])
    chk.oblige("the real run produced replaced-ID records and they were round-tripped (%d)" % placeholders, placeholders > 0)
    cc.generator_selftest(chk, cc.kind_histogram(recs), cc.REQUIRED_KINDS +
                          ["created:z:seconds-east", "created:z:seconds-west", "created:z:minus-one-minute"], "round-trip family")
    bulk_cases, bulk_hist = 0, {}
    if thorough:
        bulk_cases, fails, bulk_hist = c.bulk("gobrt", 500000)
        for r in fails:
            c.failing.append((r, "generated (bulk): decoding the encoding does not give what the property promises"))
    distinct = len({cc.digest([r["in"], r["mode"]]) for r in all_recs if cc.nontrivial(r)})
    in_dom = sum(1 for r in all_recs if r["in_domain"])
    chk.coverage.update({
        "evaluations": len(all_recs) + bulk_cases,
        "distinct_nontrivial": distinct,
        "rule": "sessions generated field by field (see input_kinds) plus every session a real Start/Set/RegenerateID/LogIn/LogOut run handed to SaveSession, each through the real GobEncode and GobDecode; non-trivial = not the zero session; distinct by (all field values, LoadUser mode); all judged by the Go statement of the property, evaluated_in_coq of them also by the model and the Coq statement",
        "input_kinds": cc.kind_histogram(all_recs),
        "result_histogram": c.hist,
        "in_property_domain": in_dom,
        "evaluated_in_coq": len(rcoq) + len(shapes),
        "model_impl_mismatches": mm,
        "oracle_evaluations_on_impl": len(all_recs) + bulk_cases,
        "oracle_failures": len(c.failing),
        "bulk_cases_go_oracle_only": bulk_cases,
        "bulk_histogram": bulk_hist,
        "package_made_shapes": sorted({k for r in shapes for k in r["kind"]}),
    })
    if not c.failing:
        if mm != 0:
            first = None
            if mism:
                first = cc.sample(rcoq[mism[0]])
            elif smism:
                first = cc.sample(shapes[smism[0]])
            c.no_input.append({"no_longer_checks": "correspondence gob_case_ok (model over the regenerated layout vs GobEncode/GobDecode)"
                               if c.tables_ok else "Gen/Layout.v: the translator rejects session.go or its output does not compile",
                               "first_mismatch": first, "log": c.proof_log[-2000:] if not c.tables_ok else ""})
        if not c.proof_ok:
            c.no_input.append({"no_longer_checks": "theorems of Properties/C16.v over the regenerated Gen/Layout.v",
                               "obligations": chk.obligations, "log": c.proof_log[-3000:]})
    samples = [cc.sample(r) for r in (shapes[:2] + recs[:4])]
    return c.report(samples, ASSUME, ["Go-side statement of the property (harness gobExpect), cross-checked against the Coq statement gob_spec_ok on every case evaluated in Coq"])


def replay(chk, path):
    return cc.replay(chk, path, "C16")
