"""Audit task A8: the library hypotheses of C17 (json_lib_ok) stated on the
real time / encoding/json directly, and the concrete library of the Coq
instance (Model/Rfc3339.v, Model/JsonLib.v; Properties/C17I.v) compared with
the real one. Harness family `codeclaws`, Coq side Model/CodecLawCase.v.

Use: from checks import codec_laws; codec_laws.stage(c, n) with c a
codec_common.CodecCheck after c.harness() succeeded. Returns True when every
clause holds on every case."""
import os

import vlib
from checks import codec_common as cc

PREAMBLE = ("From Coq Require Import String.\n"
            "From Sessions Require Import Model.Base Model.Codec Model.Rfc3339 Model.JsonLib Model.CodecLawCase.\n"
            "Local Open Scope N_scope.\n")

DEFS = {"L1": "law1_failures", "L2": "law2_failures", "L3": "law3_failures",
        "RI": "rfc_inst_mismatches", "JI": "json_inst_mismatches"}

PRINT_PREFIX = 40

REQUIRED = ["t:after-9999", "t:before-0", "t:year0", "t:domain-edge", "t:month-end", "z:wide-minutes", "z:seconds",
            "z:utc", "marshal-error", "tree:map", "tree:list", "tree:float", "tree:int", "tree:str"]


def stage(c, n):
    chk = c.chk
    recs = cc.harness_records(c.binary, "codeclaws", chk.seed, n)
    # built by the proof stage together with Properties/C17I (codec_common.CodecCheck.proofs)
    vo, src = [os.path.join(vlib.COQ, "Model", "CodecLawCase" + e) for e in (".vo", ".v")]
    ok = (os.path.exists(vo) and os.path.getmtime(vo) >= os.path.getmtime(src)) or vlib.coq_build(["Model/CodecLawCase"])[0]
    res, log = (None, "Model/CodecLawCase.v does not build")
    if ok:
        # printer + parser of the instance: exact decimal expansions are slow to evaluate; in the quick
        # tier only the first PRINT_PREFIX cases of each shard of the evaluation
        defs = dict(DEFS, JP="json_print_mismatches" if c.thorough else "(fun cs => json_print_mismatches (firstn %d cs))" % PRINT_PREFIX)
        res, log = cc.coq_lists("laws" + c.prop, "law_case", [r["coq"] for r in recs], defs, PREAMBLE)
    if res is None:
        raise vlib.Machinery("library-law cases do not evaluate: " + log[-2000:])
    go = {"L1": [i for i, r in enumerate(recs) if not r["law1"]],
          "L2": [i for i, r in enumerate(recs) if not r["law2"]],
          "L3": [i for i, r in enumerate(recs) if not r["law3"]]}
    for k in ("L1", "L2", "L3"):
        if sorted(go[k]) != sorted(res[k]):
            raise vlib.Machinery("library law %s: the Go verdicts %s and the Coq verdicts %s differ" % (k, go[k][:5], res[k][:5]))
    hist = {}
    for r in recs:
        keys = [x for k in r["kind"] for x in k.split(",")] + ["in-domain" if r["in_domain"] else "outside-domain"]
        if r["parse_error"]:
            keys.append("parse-error")
        cc.bump(hist, keys)
    missing = [k for k in REQUIRED if not any(h == k or h.startswith(k) for h in hist)] if n >= 300 else []
    if missing:
        raise vlib.Machinery("codeclaws generator no longer produces the kinds %s" % missing)
    chk.coverage["library_laws"] = {
        "cases": len(recs), "in_rfc3339_domain": sum(1 for r in recs if r["in_domain"]),
        "distinct_instants": len({(r["t"]["sec"], r["t"]["off"]) for r in recs}),
        "distinct_ascii_strings": len({r["ascii"] for r in recs}), "distinct_marshal_outputs": len({r["marshal"] for r in recs}),
        "kinds": dict(sorted(hist.items())),
        "failures": {k: len(v) for k, v in res.items()},
        "samples": [{"t": r["t"], "text": r["text"], "ascii": bytes.fromhex(r["ascii"]).decode("latin1"), "marshal": bytes.fromhex(r["marshal"]).decode("utf8", "replace")[:120]}
                    for r in recs[:3]],
    }
    n_dom = chk.coverage["library_laws"]["in_rfc3339_domain"]
    chk.oblige("json_lib_ok clause 1 on the real encoding/json: %d ASCII strings come back unchanged" % len(recs), not res["L1"])
    chk.oblige("json_lib_ok clause 2 on the real time: Format(RFC3339) is ASCII on %d instants (in and outside the domain)" % len(recs), not res["L2"])
    chk.oblige("json_lib_ok clause 3 on the real time: Parse(Format t) = t floored to the second, same offset, on %d instants of RFC 3339's domain" % n_dom, not res["L3"])
    chk.oblige("Coq instance Model/Rfc3339.v = real Format/Parse on %d instants of the domain" % n_dom, not res["RI"])
    chk.oblige("Coq instance Model/JsonLib.v: its parser reads the real Marshal output as the real Unmarshal does, and reparse = real tree, on %d values" % len(recs), not res["JI"])
    chk.oblige("Coq instance Model/JsonLib.v: its printer followed by its parser gives the real tree (%s)"
               % ("all %d values" % len(recs) if c.thorough else "the first %d values of each evaluation shard" % PRINT_PREFIX), not res["JP"])
    bad = sorted(set(res["L1"]) | set(res["L2"]) | set(res["L3"]) | set(res["RI"]) | set(res["JI"]) | set(res["JP"]))
    if bad:
        first = {k: v for k, v in recs[bad[0]].items() if k != "coq"}
        which = [k for k in res if bad[0] in res[k]]
        c.no_input.append({"no_longer_checks": "library hypotheses of C17 on the real libraries / the Coq instance vs the real libraries (%s)" % ",".join(which),
                           "first": first})
    return not bad
