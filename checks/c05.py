"""C05 — see DESIGN.md §5. Shared machinery: checks/hist_common.py, checks/oracles.py."""
from checks import hist_common


def run(chk):
    return hist_common.run_property(chk, "C05")


def replay(chk, path):
    return hist_common.replay_property(chk, "C05", path)
