"""C18 — see DESIGN.md §5. Shared machinery: checks/hist_common.py, checks/oracles.py.
Cookie attributes and the browser's cookie identity (Model/Cookie.v,
Properties/C18A.v, harness family cookieattr): checks/cookie_attr.py."""
import json

from checks import cookie_attr, hist_common


def run(chk):
    cookie_attr.stage(chk)
    return hist_common.run_property(chk, "C18")


def replay(chk, path):
    if "cookieattr" in json.load(open(path)):
        return cookie_attr.replay(chk, path)
    return hist_common.replay_property(chk, "C18", path)
