"""C17 — JSON restores every session up to documented conversions; bad input
errors (DESIGN.md §5, C17)."""
import vlib
from checks import codec_common as cc
from checks import codec_laws

THEOREMS = ["base36_roundtrip", "base36_rejects_large", "C17_roundtrip", "C17_roundtrip_nonnil", "C17_roundtrip_refuted",
            "C17_total", "C17_panic_only_unchecked", "C17_reencodes", "C17_pinned"]

LEMMAS = {"base36_roundtrip": ("CodecText", "base36_roundtrip_lemma"),
          "base36_rejects_large": ("CodecText", "parse36_rejects_large"),
          "C17_roundtrip": ("CodecLaws2", "json_roundtrip_thm"),
          "C17_roundtrip_nonnil": ("CodecLaws2", "json_roundtrip_nonnil_thm"),
          "C17_roundtrip_refuted": ("CodecLaws2", "json_roundtrip_refuted_thm"),
          "C17_total": ("CodecLaws3", "json_total_lemma"),
          "C17_panic_only_unchecked": ("CodecText", "json_unmarshal_panic"),
          "C17_reencodes": ("CodecLaws4", "json_reencodes_lemma"),
          "C17_pinned": ("CodecPinned", "json_pinned_lemma")}

ASSUME = [
    "encoding/json on generic trees: a Go value through json.Marshal and json.Unmarshal into interface{} is `reparse` (ints and floats become float64, NaN/Inf refused, strings coerced to valid UTF-8, slices []interface{}, maps map[string]interface{}); float64(int) and the coercion are executable in the model and compared with the real library on every run; duplicate keys after coercion and nested nil slices/maps are outside the model (the generator keeps object keys valid UTF-8)",
    "time.Format/time.Parse with time.RFC3339: text is ASCII and parses back to the instant floored to the second with the same offset, for local years 0..9999 and whole-minute offsets below 24 h (hypothesis json_lib_ok of the theorems; the calendar arithmetic is not re-proved; the correspondence feeds the model the real Format/Parse results of each case)",
    "strconv.FormatUint/ParseUint are modelled digit by digit (format_radix/parse_radix) and the base-36 round trip is proved; the model is compared with strconv on every run",
    "Persistence.LoadUser is a parameter of the theorems; C17_reencodes assumes the users it returns have IDs json.Marshal accepts",
    "byte strings that are not JSON are refused by json.Unmarshal before the package's code runs (library); the mutation stream checks that on the real code",
]


def mutations(c, n, coq_n):
    """Documents derived from valid encodings through the real UnmarshalJSON."""
    recs = cc.harness_records(c.binary, "jsonmut", c.chk.seed, n, args="coq=%d" % coq_n)
    bad = [r for r in recs if not r["spec_ok"]]
    for r in bad:
        why = "UnmarshalJSON panics" if r["out"]["class"] == "panic" else (
            "UnmarshalJSON accepts a document whose result does not re-encode (%s)" % r["reenc"] if r["out"]["class"] == "ok"
            else "outcome %s on a byte string that is not JSON" % r["out"]["class"])
        c.failing.append((r, why))
    modeled = [r for r in recs if r.get("coq")]
    mism = None
    if c.tables_ok and modeled:
        res, log = cc.coq_lists("mut" + c.prop, "jun_case", [r["coq"] for r in modeled], {"M": "jun_mismatches json_dec"}, cc.PREAMBLE_MODEL)
        if res is not None:
            mism = [modeled[i] for i in res["M"]]
    hist = {}
    for r in recs:
        cc.bump(hist, ["mut:" + r["kind"].split(":")[0], "out:" + r["out"]["class"]] + (["is-json"] if r["is_json"] else ["not-json"]))
    return recs, modeled, mism, dict(sorted(hist.items()))


@cc.guarded
def run(chk):
    c = cc.CodecCheck(chk, "C17", "json", THEOREMS, LEMMAS)
    import time
    t0 = time.time()
    c.proofs()
    cc.stage(chk, "proofs", t0)
    t0 = time.time()
    if not c.harness():
        return c.report([], ASSUME, [])
    thorough = c.thorough
    # the premise of C17_roundtrip, read off the regenerated table
    null_ok = cc.coq_bool("null_ok_for k_da json_dec") if c.tables_ok else None
    chk.coverage["json_da_null_ok"] = null_ok
    chk.oblige("premise of C17_roundtrip: json_da_null_ok = true (UnmarshalJSON accepts the null MarshalJSON writes for nil data)", null_ok is True)
    cc.stage(chk, "harness build", t0)
    t0 = time.time()
    c.library(2000 if thorough else 400)
    codec_laws.stage(c, 3000 if thorough else 300)   # json_lib_ok on the real libraries; Coq instance vs real (A8)
    cc.stage(chk, "library cases", t0)
    t0 = time.time()
    n, coq_n = (40000, 30000) if thorough else (5000, 1500)
    recs, rcoq, mism = c.roundtrips("jsonrt", n, "generated", coq_n)
    cc.stage(chk, "generated round trips", t0)
    t0 = time.time()
    shapes, _, smism = c.roundtrips("codecshapes", 1, "package-made")
    c.golden()
    cc.stage(chk, "package-made shapes and golden corpus", t0)
    t0 = time.time()
    all_recs = recs + shapes
    mm = None if mism is None or smism is None else len(mism) + len(smism)
    chk.oblige("model = MarshalJSON/UnmarshalJSON on %d generated and %d package-made sessions" % (len(rcoq), len(shapes)), mm == 0)
    chk.oblige("the property as stated in Go holds on all %d generated round trips" % len(recs), all(r["spec_ok"] for r in recs))
    placeholders = sum(1 for r in shapes if r["in"]["ref"] and r["in"]["data_nil"])
    chk.oblige("the real run produced replaced-ID records and they were round-tripped (%d)" % placeholders, placeholders > 0)

    t0 = time.time()
    mn, mcoq = (60000, 40000) if thorough else (10000, 2500)
    mrecs, modeled, mmism, mhist = mutations(c, mn, mcoq)
    cc.stage(chk, "mutation stream", t0)
    chk.oblige("model = UnmarshalJSON on %d mutated documents that are JSON" % len(modeled), mmism is not None and not mmism)
    chk.oblige("no panic, and every accepted document re-encodes, on %d mutated documents" % len(mrecs),
               all(r["spec_ok"] for r in mrecs))

    cc.generator_selftest(chk, cc.kind_histogram(recs), cc.REQUIRED_KINDS, "round-trip family")
    cc.generator_selftest(chk, mhist, ["mut:valid", "mut:bitflip", "mut:bytes", "mut:truncate", "mut:delete", "mut:duplicate-first",
                                       "mut:duplicate-last", "mut:swap", "mut:swap2", "mut:toplevel", "mut:extra-key",
                                       "out:ok", "out:err", "is-json", "not-json"], "mutation stream")
    bulk_cases, bulk_hist, mbulk, mbulk_hist = 0, {}, 0, {}
    if thorough:
        bulk_cases, fails, bulk_hist = c.bulk("jsonrt", 300000)
        for r in fails:
            c.failing.append((r, "generated (bulk): decoding the encoding does not give what the property promises"))
        mbulk, fails, mbulk_hist = c.bulk("jsonmut", 1000000)
        for r in fails:
            c.failing.append((r, "mutated (bulk): panic, or accepted without re-encoding"))
    distinct = len({cc.digest([r["in"], r["mode"]]) for r in all_recs if cc.nontrivial(r)}) + \
        len({r["doc"] for r in mrecs if r["is_json"]})
    chk.coverage.update({
        "evaluations": len(all_recs) + len(mrecs) + bulk_cases + mbulk,
        "distinct_nontrivial": distinct,
        "rule": "(a) sessions generated field by field (input_kinds) plus every session a real Start/Set/RegenerateID/LogIn/LogOut run handed to SaveSession, each through the real MarshalJSON and UnmarshalJSON; non-trivial = not the zero session, distinct by (fields, LoadUser mode). (b) documents derived from valid encodings by bit flips, byte changes, truncation, key deletion/duplication, type swaps (mutation_histogram) through the real UnmarshalJSON, accepted ones re-encoded; non-trivial = parses as JSON, distinct by bytes. All judged by the Go statement of the property; evaluated_in_coq of them also by the model and the Coq statement.",
        "input_kinds": cc.kind_histogram(all_recs),
        "result_histogram": c.hist,
        "mutation_histogram": mhist,
        "mutated_documents": len(mrecs), "mutated_documents_in_model": len(modeled),
        "in_property_domain": sum(1 for r in all_recs if r["in_domain"]),
        "evaluated_in_coq": len(rcoq) + len(shapes) + len(modeled),
        "model_impl_mismatches": None if mm is None or mmism is None else mm + len(mmism),
        "oracle_evaluations_on_impl": len(all_recs) + len(mrecs) + bulk_cases + mbulk,
        "oracle_failures": len(c.failing),
        "bulk_cases_go_oracle_only": bulk_cases + mbulk,
        "bulk_histogram": {"roundtrips": bulk_hist, "mutations": mbulk_hist},
        "package_made_shapes": sorted({k for r in shapes for k in r["kind"]}),
    })
    if not c.failing:
        if mm != 0 or mmism is None or mmism:
            first = None
            if mism:
                first = cc.sample(rcoq[mism[0]])
            elif smism:
                first = cc.sample(shapes[smism[0]])
            elif mmism:
                first = {k: mmism[0][k] for k in ("kind", "doc", "out", "mode")}
            c.no_input.append({"no_longer_checks": "correspondence json_case_ok / jun_case_ok (model over the regenerated tables vs MarshalJSON/UnmarshalJSON)"
                               if c.tables_ok else "Gen/Layout.v: the translator rejects session.go or its output does not compile",
                               "first_mismatch": first, "log": c.proof_log[-2000:] if not c.tables_ok else ""})
        if not c.proof_ok or null_ok is not True:
            c.no_input.append({"no_longer_checks": "theorems of Properties/C17.v over the regenerated Gen/Layout.v"
                               + ("" if null_ok is not False else " (premise json_da_null_ok is false)"),
                               "obligations": chk.obligations, "log": c.proof_log[-3000:]})
    samples = [cc.sample(r) for r in (shapes[:2] + recs[:3])] + \
        [{"mutation": r["kind"], "document": bytes.fromhex(r["doc"]).decode("utf8", "replace")[:300], "out": r["out"]["class"], "reencode": r["reenc"]}
         for r in mrecs[:4]]
    return c.report(samples, ASSUME, ["Go-side statement of the property (harness jsonExpect, re-encoding test), cross-checked against the Coq statement json_spec_ok on every case evaluated in Coq"])


def replay(chk, path):
    return cc.replay(chk, path, "C17")
