"""C20 — ReasonablePassword rejects exactly what its rules say (DESIGN.md §5, C20)."""
import base64
import binascii
import gzip
import hashlib
import os
import re

import vlib

THEOREMS = ["C20_first_rule", "C20_first_rule_unique", "C20_lists_rejected", "C20_names_monotone", "C20_source_constants"]


def source_lists():
    """Independent decoding of the two embedded lists from the .go files."""
    res = {}
    for fn, var, key in (("commonpasswords.go", "commonPasswordsCompressed", "common"),
                         ("dictionary.go", "dictionaryCompressed", "dict")):
        src = open(os.path.join(vlib.REPO, fn), encoding="utf8", errors="surrogateescape").read()
        m = re.search(var + r"\s*=\s*`([^`]*)`", src)
        if not m:
            res[key] = None
            continue
        try:
            raw = gzip.decompress(base64.b64decode(m.group(1).replace("\n", "")))
        except (binascii.Error, OSError, EOFError):
            res[key] = None
            continue
        res[key] = raw.split(b"\n")
    return res


def case_file(recs, lo):
    text = "From Sessions Require Import Model.Base Model.Password.\nLocal Open Scope N_scope.\n"
    text += "Definition cases : list pw_case := [\n" + ";\n".join(r["coq"] for r in recs) + "].\n"
    text += "Definition M := Eval vm_compute in pw_mismatches cases.\nPrint M.\n"
    text += "Definition L := Eval vm_compute in pw_lower_mismatches cases.\nPrint L.\n"
    return text


def evaluate(chk, recs, shard=250):
    jobs = []
    for i in range(0, len(recs), shard):
        jobs.append(("c20_%d_%d" % (os.getpid(), i), case_file(recs[i:i + shard], i)))
    results = vlib.coq_run_many(jobs)
    mism, lower = [], []
    for k, (rc, out) in enumerate(results):
        base = k * shard
        m = vlib.parse_printed_list(out, "M") if rc == 0 else None
        l = vlib.parse_printed_list(out, "L") if rc == 0 else None
        if m is None or l is None:
            raise vlib.Machinery("model evaluation failed on shard %d: %s" % (k, out[-2000:]))
        mism += [base + x for x in m]
        lower += [base + x for x in l]
    return mism, lower


def spec_verdict(pw, names, common, dict_):
    """The property's rule list, written independently of the Go code and of
    the Coq model (used to decide whether a mismatch is a violation)."""
    if len(pw) < 8:
        return 1
    try:
        low = pw.decode("utf8").lower().encode("utf8")
    except UnicodeDecodeError:
        low = None
    if low is not None:
        for n in names:
            try:
                if n.decode("utf8").lower().encode("utf8") == low:
                    return 2
            except UnicodeDecodeError:
                pass
    if pw in common:
        return 3
    if pw in dict_:
        return 4
    try:
        s = pw.decode("utf8")
        if len(set(s)) == 1 and s[0] != "\0":
            return 5
    except UnicodeDecodeError:
        return None  # repeated-character rule undefined on invalid UTF-8
    for seq in ("qwertyuiop", "qwertzuiopü", "azertyuiop", "asdfghjklöä", "qsdfghjklm", "01234567890", "abcdefghijklmnopqrstuvwxyz"):
        if s.lower() in seq:
            return 6
    return 0


def run(chk):
    thorough = chk.tier == "thorough"
    ok, out = vlib.standard_proof_stage(chk, "C20", THEOREMS)
    # further statement files Properties/C20?.v (C20F: the body of ReasonablePassword
    # translated from the Go AST = the specified cascade; C20G: = Model/Password.v)
    from checks import hist_common
    for sfx in hist_common.extra_suffixes("C20"):
        kok, kout = vlib.standard_proof_stage(chk, "C20" + sfx, hist_common.theorem_names("C20" + sfx))
        ok, out = ok and kok, out + kout
        if thorough and kok:
            cok, csum = vlib.coqchk("C20" + sfx)
            chk.oblige("coqchk re-checks the .vo closure of Properties/C20%s with no axioms" % sfx, cok)
            ok = ok and cok
    proof_ok = ok
    binary, blog = vlib.build_harness()
    chk.oblige("harness builds against the current tree", binary is not None)
    if binary is None:
        chk.violation({"property": "C20", "no_longer_checks": "harness build", "log": blog[-3000:]}, no_input=True)
        return chk.finish()

    # 1. the lists held in memory equal an independent decoding of the source
    lists = source_lists()
    p = os.path.join(vlib.BUILD, "pwlists-%d.jsonl" % os.getpid())
    rc, hout = vlib.run_harness(binary, "pwlists", p)
    if rc != 0:
        raise vlib.Machinery("pwlists: " + hout[-2000:])
    mem = {r["list"]: r for r in vlib.read_jsonl(p)}
    os.remove(p)
    lists_ok = True
    for key in ("common", "dict"):
        l = lists[key]
        good = l is not None and len(l) > 1000 and mem[key]["len"] == len(l) and \
            mem[key]["sha256"] == hashlib.sha256(b"\n".join(l)).hexdigest()
        chk.oblige("in-memory %s list equals independent decoding of the source constant (%s entries)" % (key, len(l) if l else "?"), good)
        lists_ok = lists_ok and good
    if not lists_ok:
        chk.violation({"property": "C20", "input": "any entry of the embedded lists",
                       "detail": "the package's in-memory word lists differ from the decoded source constants",
                       "memory": mem, "source": {k: (len(v) if v else None) for k, v in lists.items()}})
        return chk.finish()
    common_set, dict_set = set(lists["common"]), set(lists["dict"])

    # 2. correspondence on generated passwords
    recs = []
    p = os.path.join(vlib.BUILD, "pw-%d.jsonl" % os.getpid())
    n = 20000 if thorough else 2500
    rc, hout = vlib.run_harness(binary, "pw", p, seed=chk.seed, n=n)
    if rc != 0:
        # a panic in ReasonablePassword ends up here
        chk.violation({"property": "C20", "detail": "harness run failed (panic?)", "log": hout[-3000:], "seed": chk.seed}, no_input="panic" not in hout)
        return chk.finish()
    recs += vlib.read_jsonl(p)
    os.remove(p)
    if thorough:
        # every entry of both lists
        from concurrent.futures import ThreadPoolExecutor
        jobs = []
        for name, total in (("common", len(lists["common"])), ("dict", len(lists["dict"]))):
            step = 20000
            for lo in range(0, total, step):
                jobs.append((name, lo, min(total, lo + step)))

        def one(j):
            name, lo, hi = j
            q = os.path.join(vlib.BUILD, "pw-%d-%s-%d.jsonl" % (os.getpid(), name, lo))
            rc, o = vlib.run_harness(binary, "pw", q, seed=chk.seed + lo, args="mode=entries list=%s lo=%d hi=%d" % (name, lo, hi))
            if rc != 0:
                raise vlib.Machinery("pw entries: " + o[-2000:])
            rs = vlib.read_jsonl(q)
            os.remove(q)
            return rs
        with ThreadPoolExecutor(8) as ex:
            for rs in ex.map(one, jobs):
                recs += rs

    # windows must represent the real lists for the password of the case
    for r in recs:
        pw = bytes.fromhex(r["pw"])
        cw = [bytes.fromhex(x) for x in r["common"]]
        dw = [bytes.fromhex(x) for x in r["dict"]]
        if (pw in cw) != (pw in common_set) or (pw in dw) != (pw in dict_set) or \
           any(x not in common_set for x in cw) or any(x not in dict_set for x in dw):
            raise vlib.Machinery("window does not represent the lists for %r" % pw)

    try:
        mism, lower = evaluate(chk, recs)
    except vlib.Machinery as e:
        if proof_ok:
            raise
        # the development does not build against this tree (e.g. the translator
        # rejects it): the model cannot be evaluated; the reference rule list
        # still judges every observed result
        mism, lower = [], []
        chk.coverage["model_not_evaluable"] = str(e)[-500:]
    kinds = {}
    results = {}
    for r in recs:
        kinds[r["kind"]] = kinds.get(r["kind"], 0) + 1
        results[str(r["result"])] = results.get(str(r["result"]), 0) + 1
    distinct = len({(r["pw"], tuple(r["names"])) for r in recs if r["result"] != 1})
    chk.coverage.update({
        "evaluations": len(recs), "distinct_nontrivial": distinct,
        "rule": "generated passwords by kind (see input_kinds); non-trivial = not decided by the length rule; distinct by (password, names)",
        "input_kinds": kinds, "result_histogram": results,
        "model_impl_mismatches": len(mism), "case_fold_disagreements": len(lower),
        "exhaustive_list_entries": thorough,
        "samples": [{k: r[k] for k in ("kind", "pw", "names", "result")} for r in recs[:5]],
    })
    if lower:
        # generator left the range on which the executable case fold is exact
        raise vlib.Machinery("case fold of model and Go disagree on generated input %s" % recs[lower[0]]["pw"])
    chk.oblige("model = implementation on %d generated calls" % len(recs), not mism)

    # spec oracle on the real results
    bad = []
    for i, r in enumerate(recs):
        pw = bytes.fromhex(r["pw"])
        names = [bytes.fromhex(x) for x in r["names"]]
        v = spec_verdict(pw, names, common_set, dict_set)
        if v is not None and v != r["result"]:
            bad.append((i, v))
    chk.coverage["oracle_evaluations_on_impl"] = len(recs)
    for i, v in bad[:3]:
        r = recs[i]
        chk.violation({"property": "C20", "what": "ReasonablePassword returned %d where the first applicable rule is %d (input kind %s)" % (r["result"], v, r["kind"]),
                       "input": {"password_hex": r["pw"], "names_hex": r["names"]},
                       "returned": r["result"], "first_applicable_rule": v, "kind": r["kind"],
                       "replay": "sessions.ReasonablePassword(<password>, <names>)"})
    if not bad and mism:
        r = recs[mism[0]]
        chk.violation({"property": "C20", "no_longer_checks": "correspondence pw_case_ok (model vs implementation)",
                       "first_mismatch": {k: r[k] for k in ("kind", "pw", "names", "result")}}, no_input=True)
    if not bad and not mism and not proof_ok:
        chk.violation({"property": "C20", "no_longer_checks": "theorems of Properties/C20.v (or Gen/Consts.v obligations)",
                       "obligations": chk.obligations, "log": out[-3000:]}, no_input=True)
    return chk.finish(trusted_base=["Python reference decoding of the list constants (gzip/base64) and reference rule list used as violation oracle"],
                      extra_assumptions=["unicode.ToLower modelled exactly on U+0000-U+00FF and as identity on caseless planes; generator stays within that range (measured: case_fold_disagreements)"])


def replay(chk, path):
    import json
    print(json.dumps(json.load(open(path)), indent=1))
    return 0
