"""C13 — per-key locks are mutually exclusive (DESIGN.md §5, C13)."""
from checks import mutex_common


def run(chk):
    # "Requests presenting the same session ID are thereby serialised through
    # Start's lookup-validate-rotate step": the use of the lock manager in
    # session.go is pinned (Gen/SessShape.v, regenerated from the source)
    from checks import hist_common
    hist_common.idlock_obligation(chk, "C13")
    return mutex_common.run_property(chk, "C13", want=["mutual exclusion"], other=["deadlock", "lost wake-up"])


def replay(chk, path):
    return mutex_common.replay(chk, path)
