"""C13 — per-key locks are mutually exclusive (DESIGN.md §5, C13)."""
from checks import mutex_common


def run(chk):
    return mutex_common.run_property(chk, "C13", want=["mutual exclusion"], other=["deadlock", "lost wake-up"])


def replay(chk, path):
    return mutex_common.replay(chk, path)
