"""C14 — per-key locks never deadlock, lose a wake-up, or couple unrelated keys
(DESIGN.md §5, C14)."""
from checks import mutex_common


def run(chk):
    return mutex_common.run_property(chk, "C14", want=["deadlock", "lost wake-up", "drain"], other=["mutual exclusion"])


def replay(chk, path):
    return mutex_common.replay(chk, path)
